(* C07 model driver: reads the traces written by harness/cmd/c07 and prints one observable
   line per op in exactly the format the harness prints for the implementation.
   Keccak-256 (a Section variable of the model) is instantiated by Hash.keccak256. *)
open Conv

let keccak (b : n list) : n list = nlist_of_string (Hash.keccak256 (string_of_nlist b))

let hx l = hex_of_nlist l
let hexf l = if l = [] then "" else hex_of_nlist l   (* %x of a 32-byte hash *)

let str_res f = function
  | Ok v -> f v | Missing -> "missing" | Crash -> "PANIC" | OutOfFuel -> "FUEL"

let str_obs (root, gets) =
  Printf.sprintf "h=%s g=%s" (hexf root)
    (String.concat "," (List.map (function
         | Ok v -> hx v | Missing -> "!" | Crash -> "PANIC" | OutOfFuel -> "FUEL") gets))

let str_v = function
  | VValue [] -> "a" | VValue v -> "v:" ^ hx v | VAbsent -> "a" | VError -> "e" | VCrash -> "PANIC"

let rec take n l = if n = 0 then [] else match l with [] -> [] | x :: t -> x :: take (n-1) t
let rec drop n l = if n = 0 then l else match l with [] -> [] | _ :: t -> drop (n-1) t

let parse_kv s =
  match String.index_opt s '=' with
  | Some i -> (nlist_of_hex (String.sub s 0 i), nlist_of_hex (String.sub s (i+1) (String.length s - i - 1)))
  | None -> failwith ("bad kv: " ^ s)

(* apply one tampering directive to a proof *)
let tamper (blobs : n list list) (d : string) : n list list =
  let idx s = int_of_string s in
  match d.[0] with
  | 'r' -> let i = idx (String.sub d 1 (String.length d - 1)) in
    List.filteri (fun j _ -> j <> i) blobs
  | 't' -> let i = idx (String.sub d 1 (String.length d - 1)) in
    List.mapi (fun j b -> if j = i then take (List.length b - 1) b else b) blobs
  | 'x' ->
    (match String.split_on_char ':' (String.sub d 1 (String.length d - 1)) with
     | [i; pos; x] ->
       let i = idx i and pos = idx pos and x = idx x in
       List.mapi (fun j b ->
           if j <> i then b
           else List.mapi (fun p v -> if p = pos then n_of_int ((int_of_n v) lxor x) else v) b) blobs
     | _ -> failwith "bad x")
  | _ -> failwith ("bad tamper: " ^ d)

let () =
  (* the source-derived constant must be what the model computes *)
  if empty_root keccak <> empty_root_hash then begin
    prerr_endline "types.EmptyRootHash (facts) <> keccak256(0x80)"; exit 3 end;
  let lines = ref (read_lines stdin) in
  let next () = match !lines with [] -> None | l :: t -> lines := t; Some (tokens l) in
  let st = ref (init_state (nat_of_int 3)) in
  let secure = ref false in
  let probes = ref [] in
  let key h = let k = nlist_of_hex h in if !secure then secure_key keccak k else k in
  let nat s = nat_of_int (int_of_string s) in
  let do_op o obs_slot fmt_ok =
    let (st', r) = step keccak !st o in
    st := st';
    print_endline (str_res fmt_ok r ^ " " ^ str_obs (observe keccak !st obs_slot !probes)) in
  let rec loop () =
    match next () with
    | None -> ()
    | Some [] -> loop ()
    | Some ["CASE"; id; "H"; ns; sec] ->
      st := init_state (nat ns); secure := (sec = "1"); probes := [];
      Printf.printf "CASE %s\n" id; loop ()
    | Some ("CASE" :: id :: _) ->
      secure := false; Printf.printf "CASE %s\n" id; loop ()
    | Some ("PROBE" :: ks) -> probes := List.map key ks; loop ()
    | Some ["U"; s; k; v] -> do_op (OpUpdate (nat s, key k, nlist_of_hex v)) (nat s) (fun _ -> "ok"); loop ()
    | Some ["D"; s; k] -> do_op (OpDelete (nat s, key k)) (nat s) (fun _ -> "ok"); loop ()
    | Some ["G"; s; k] -> do_op (OpGet (nat s, key k)) (nat s) (fun v -> "v:" ^ hx v); loop ()
    | Some ["H"; s] -> do_op (OpHash (nat s)) (nat s) (fun h -> "r:" ^ hexf h); loop ()
    | Some ["C"; s] -> do_op (OpCommit (nat s)) (nat s) (fun h -> "r:" ^ hexf h); loop ()
    | Some ["R"; s; d] -> do_op (OpReopen (nat s, nat d)) (nat d) (fun h -> "r:" ^ hexf h); loop ()
    | Some ["Y"; s; d] -> do_op (OpCopy (nat s, nat d)) (nat d) (fun _ -> "ok"); loop ()
    | Some ("P" :: s :: k :: muts) ->
      let node = slot !st (nat s) in
      let k = key k in
      (match prove keccak (nodedb !st) node k with
       | Ok blobs ->
         let root = fst (trie_hash keccak node) in
         let v blobs = str_v (verify_proof keccak root k blobs) in
         (* for byte alterations also the "lying database": altered blob under the original hash *)
         let lying m =
           if m.[0] <> 'x' then [] else begin
             let i = int_of_string (List.hd (String.split_on_char ':' (String.sub m 1 (String.length m - 1)))) in
             let orig = List.nth blobs i and alt = List.nth (tamper blobs m) i in
             let db = (keccak orig, alt) :: db_of keccak blobs in
             let kx = keybytes_to_hex k in
             let fuel = nat_of_int (List.length blobs + int_of_nat (length kx) + 2) in
             ["L" ^ str_v (verify_loop fuel db root kx)] end in
         print_endline (String.concat " "
                          (("p:" ^ String.concat "," (List.map hx blobs)) :: v blobs ::
                           List.concat_map (fun m -> v (tamper blobs m) :: lying m) muts))
       | Missing -> print_endline "missing"
       | Crash -> print_endline "PANIC"
       | OutOfFuel -> print_endline "FUEL");
      loop ()
    | Some ["I"; s; start] ->
      (* NodeIterator hashes the live trie first (Trie.Hash replaces the root by its cached copy) *)
      let (st', _) = step keccak !st (OpHash (nat s)) in
      st := st';
      let r = match iter_from (nodedb !st) (slot !st (nat s)) (nlist_of_hex start) with
        | Ok l -> "i:" ^ String.concat "," (List.map (fun (k, v) -> hx k ^ "=" ^ hx v) l)
        | Missing -> "missing" | Crash -> "PANIC" | OutOfFuel -> "FUEL" in
      print_endline (r ^ " " ^ str_obs (observe keccak !st (nat s) !probes)); loop ()
    | Some ("Q" :: s :: first :: last :: mode :: rest) ->
      let rec takes n l acc = if n = 0 then (List.rev acc, l) else
          match l with x :: t -> takes (n-1) t (x :: acc) | [] -> failwith "bad Q" in
      let counted l = match l with c :: t -> takes (int_of_string c) t [] | [] -> failwith "bad Q" in
      let (ks, rest) = counted rest in
      let (vs, rest) = counted rest in
      let (bs, _) = counted rest in
      let root = fst (trie_hash keccak (slot !st (nat s))) in
      let proof = if mode = "n" then None else Some (List.map nlist_of_hex bs) in
      (match verify_range keccak root (nlist_of_hex first) (nlist_of_hex last)
               (List.map nlist_of_hex ks) (List.map nlist_of_hex vs) proof with
       | RAccept true -> print_endline "q:ok:1"
       | RAccept false -> print_endline "q:ok:0"
       | RError -> print_endline "q:e"
       | RCrash -> print_endline "PANIC");
      loop ()
    | Some ("X" :: k :: blobs) ->
      let blobs = List.map nlist_of_hex blobs in
      let root = keccak (List.hd blobs) in
      print_endline (str_v (verify_proof keccak root (nlist_of_hex k) blobs)); loop ()
    | Some ("B" :: kvs) ->
      print_endline ("b:" ^ hexf (build_root keccak (List.map parse_kv kvs))); loop ()
    | Some ("S" :: kvs) ->
      (match stack_root keccak (List.map parse_kv kvs) with
       | Some h -> print_endline ("s:" ^ hexf h)
       | None -> print_endline "PANIC");
      loop ()
    | Some ("V" :: vals) ->
      let vals = List.map nlist_of_hex vals in
      let a = match derive_sha_stack keccak vals with Some h -> "d:" ^ hexf h | None -> "PANIC" in
      let b = match derive_sha_trie keccak vals with Ok h -> "t:" ^ hexf h | _ -> "PANIC" in
      print_endline (a ^ " " ^ b); loop ()
    | Some l -> failwith ("bad line: " ^ String.concat " " l)
  in
  loop ()
