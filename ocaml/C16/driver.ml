(* C16 model driver: reads the op stream written by harness/cmd/c16 and prints one observable
   line per op, in exactly the format the harness prints for the implementation.

   T <type>        sets the current type descriptor (no output)
   E <value>       EncodeToBytes of the value at the current type      -> e <hex>
   D <hex>         DecodeBytes into the current type                   -> d ok <value> | d err <class>
   S/SS/SL/SU <hex> Split / SplitString / SplitList / SplitUint64      -> s ... | s err <class>
   C <hex>         CountValues                                         -> c <n> | c err <class>
   IT <hex>        NewListIterator + Next/Value/Err                    -> it <k> <hex>.. [err <class>] | it err <class>
   AU <n>          AppendUint64 / IntSize                              -> a <hex> <intsize>
   LS <n>          ListSize                                            -> ls <n>
   EB <item>       the item written through the EncoderBuffer API      -> e <hex>
   MS <limit> <hex>  NewStream(reader, limit) + Decode in a loop (current type) -> m <value> | .. | end <class>
   SC <T|Ln> <hex> <op>..  Stream operations by hand                   -> sc <result> | .. *)
open Conv

let byte_tab : byte array = Array.init 256 (fun i -> nb (n_of_int i))
let int_of_byte (b : byte) : int = int_of_n (bN b)
let bytes_of_hex (h : string) : byte list =
  List.map (fun c -> byte_tab.(Char.code c)) (List.of_seq (String.to_seq (string_of_hex h)))
let hex_of_bytes (l : byte list) : string =
  if l = [] then "-" else String.concat "" (List.map (fun b -> Printf.sprintf "%02x" (int_of_byte b)) l)

(* ---- token stream parsing (prefix notation) *)
let parse_tag (s : string) : tag =
  let has c = String.contains s c in
  { t_optional = has 'o'; t_tail = has 't'; t_ignored = has 'i';
    t_nil = (if has 'n' then NilAuto else if has 'S' then NilString else if has 'L' then NilList else NoNil) }

let rec parse_ty (toks : string list) : ty * string list =
  match toks with
  | "big" :: r -> (TBig, r)
  | "bool" :: r -> (TBool, r)
  | "bytes" :: r -> (TBytes, r)
  | "str" :: r -> (TString, r)
  | "raw" :: r -> (TRaw, r)
  | "iface" :: r -> (TIface, r)
  | "arr" :: n :: r -> (TArray (n_of_string n), r)
  | "list" :: r -> let (e, r') = parse_ty r in (TList e, r')
  | "ptr" :: r -> let (e, r') = parse_ty r in (TPtr e, r')
  | "struct" :: k :: r ->
    let rec go k r = if k = 0 then (FNil, r) else
        match r with
        | tg :: r1 -> let (t, r2) = parse_ty r1 in let (fs, r3) = go (k - 1) r2 in (FCons (t, parse_tag tg, fs), r3)
        | [] -> failwith "struct: missing field" in
    let (fs, r') = go (int_of_string k) r in (TStruct fs, r')
  | u :: r when String.length u > 1 && u.[0] = 'u' ->
    (TUint (n_of_string (String.sub u 1 (String.length u - 1))), r)
  | l -> failwith ("bad type: " ^ String.concat " " l)

let rec parse_n : 'a. (string list -> 'a * string list) -> int -> string list -> 'a list * string list =
  fun f k r -> if k = 0 then ([], r) else
      let (x, r1) = f r in let (xs, r2) = parse_n f (k - 1) r1 in (x :: xs, r2)

let rec parse_item (toks : string list) : item * string list =
  match toks with
  | "x" :: h :: r -> (Str (bytes_of_hex h), r)
  | "l" :: k :: r -> let (xs, r') = parse_n parse_item (int_of_string k) r in (List xs, r')
  | l -> failwith ("bad item: " ^ String.concat " " l)

let rec parse_val (toks : string list) : val0 * string list =
  match toks with
  | "nil" :: r -> (VNil, r)
  | "u" :: n :: r -> (VUint (n_of_string n), r)
  | "t" :: r -> (VBool true, r)
  | "f" :: r -> (VBool false, r)
  | "x" :: h :: r -> (VBytes (bytes_of_hex h), r)
  | "l" :: k :: r -> let (xs, r') = parse_n parse_val (int_of_string k) r in (VList xs, r')
  | "s" :: k :: r -> let (xs, r') = parse_n parse_val (int_of_string k) r in (VStruct xs, r')
  | "p" :: r -> let (v, r') = parse_val r in (VPtr v, r')
  | "I" :: r -> let (x, r') = parse_item r in (VItem x, r')
  | l -> failwith ("bad value: " ^ String.concat " " l)

(* ---- printing *)
let rec str_item = function
  | Str b -> "x " ^ hex_of_bytes b
  | List l -> String.concat " " (("l " ^ string_of_int (List.length l)) :: List.map str_item l)

let rec str_val = function
  | VNil -> "nil"
  | VUint n -> "u " ^ string_of_n n
  | VBool b -> if b then "t" else "f"
  | VBytes b -> "x " ^ hex_of_bytes b
  | VList l -> String.concat " " (("l " ^ string_of_int (List.length l)) :: List.map str_val l)
  | VStruct l -> String.concat " " (("s " ^ string_of_int (List.length l)) :: List.map str_val l)
  | VPtr v -> "p " ^ str_val v
  | VItem x -> "I " ^ str_item x

let str_err = function
  | EEOF -> "eof" | EEOL -> "eol" | EExpectedString -> "expstr" | EExpectedList -> "explist"
  | ECanonInt -> "canonint" | ECanonSize -> "canonsize" | EElemTooLarge -> "elemlarge"
  | EValueTooLarge -> "vallarge" | EMoreThanOne -> "morethanone" | EUintOverflow -> "toolong"
  | ENotAtEOL -> "toomany" | ETooFew -> "toofew" | EStrTooLong -> "toolong" | EStrTooShort -> "tooshort"
  | EBool -> "bool" | EWrongEmpty -> "wrongempty" | ENotInList -> "notinlist" | EWrongSize -> "wrongsize"
  | EFuel -> "fuel"

let str_rerr = function
  | RUnexpectedEOF -> "ueof" | RCanonSize -> "canonsize" | RValueTooLarge -> "vallarge"
  | RExpectedString -> "expstr" | RExpectedList -> "explist" | RCanonInt -> "canonint"
  | RUintOverflow -> "uintoverflow" | RFuel -> "fuel"

let str_kind = function KByte -> "byte" | KString -> "string" | KList -> "list"

(* the extracted list functions are not tail recursive: inputs of a few hundred KB need more
   than the default 8 MB stack, so the driver re-executes itself once under a larger limit *)
let () =
  if Sys.getenv_opt "C16_STACK" = None then begin
    Unix.putenv "C16_STACK" "1";
    (try
       Unix.execv "/bin/sh"
         [| "/bin/sh"; "-c"; "ulimit -s unlimited 2>/dev/null || ulimit -s 4000000 2>/dev/null || ulimit -s 1000000 2>/dev/null; exec \"$0\""; Sys.executable_name |]
     with _ -> ())
  end

let () =
  let cur = ref TBytes in
  let rec loop () =
    match input_line stdin with
    | exception End_of_file -> ()
    | line ->
      (match tokens line with
       | [] -> ()
       | "CASE" :: id :: _ -> Printf.printf "CASE %s\n" id
       | "T" :: r -> let (t, _) = parse_ty r in cur := t
       | "E" :: r ->
         let (v, _) = parse_val r in
         Printf.printf "e %s\n" (hex_of_bytes (encode_to_bytes !cur v))
       | ["D"; h] ->
         (* the observable (incl. the error class) comes from the literal Stream machine; the
            window decoder the theorems are about must agree on acceptance and on the value *)
         let bs = bytes_of_hex h in
         let w = decode_bytes !cur bs in
         (match stream_decode_bytes !cur bs with
          | SOk (v, _) ->
            (match w with
             | Ok (v', _, _) when v' = v -> Printf.printf "d ok %s\n" (str_val v)
             | Ok (v', _, _) -> Printf.printf "d ok %s WINDOW-DECODER-DIFFERS %s\n" (str_val v) (str_val v')
             | Err (e, _) -> Printf.printf "d ok %s WINDOW-DECODER-REJECTS %s\n" (str_val v) (str_err e))
          | SErr e ->
            (match w with
             | Err (_, _) -> Printf.printf "d err %s\n" (str_err e)
             | Ok (v', _, _) -> Printf.printf "d err %s WINDOW-DECODER-ACCEPTS %s\n" (str_err e) (str_val v')))
       | ["S"; h] ->
         (match split (bytes_of_hex h) with
          | ROk ((k, c), r) -> Printf.printf "s %s %s %s\n" (str_kind k) (hex_of_bytes c) (hex_of_bytes r)
          | RErr e -> Printf.printf "s err %s\n" (str_rerr e))
       | ["SS"; h] ->
         (match split_string (bytes_of_hex h) with
          | ROk (c, r) -> Printf.printf "s %s %s\n" (hex_of_bytes c) (hex_of_bytes r)
          | RErr e -> Printf.printf "s err %s\n" (str_rerr e))
       | ["SL"; h] ->
         (match split_list (bytes_of_hex h) with
          | ROk (c, r) -> Printf.printf "s %s %s\n" (hex_of_bytes c) (hex_of_bytes r)
          | RErr e -> Printf.printf "s err %s\n" (str_rerr e))
       | ["SU"; h] ->
         (match split_uint64 (bytes_of_hex h) with
          | ROk (x, r) -> Printf.printf "s %s %s\n" (string_of_n x) (hex_of_bytes r)
          | RErr e -> Printf.printf "s err %s\n" (str_rerr e))
       | ["C"; h] ->
         (match count_values (bytes_of_hex h) with
          | ROk n -> Printf.printf "c %s\n" (string_of_n n)
          | RErr e -> Printf.printf "c err %s\n" (str_rerr e))
       | ["IT"; h] ->
         (match list_iterator (bytes_of_hex h) with
          | RErr e -> Printf.printf "it err %s\n" (str_rerr e)
          | ROk (vs, e) ->
            Printf.printf "it %d %s%s\n" (List.length vs) (String.concat " " (List.map hex_of_bytes vs))
              (match e with None -> "" | Some e -> " err " ^ str_rerr e))
       | ["AU"; n] ->
         let n = n_of_string n in
         Printf.printf "a %s %s\n" (hex_of_bytes (append_uint64 n)) (string_of_n (int_size n))
       | ["LS"; n] -> Printf.printf "ls %s\n" (string_of_n (list_size (n_of_string n)))
       | "EB" :: r ->
         (* the functional encoder (theorems) and the literal encBuffer transcription must agree *)
         let (x, _) = parse_item r in
         let e = encode x and e' = encode_via_buffer x in
         Printf.printf "e %s%s\n" (hex_of_bytes e) (if e = e' then "" else " ENCBUFFER-MODEL-DIFFERS " ^ hex_of_bytes e')
       | ["MS"; limit; h] ->
         let bs = bytes_of_hex h in
         let k = int_of_string limit in
         let bs = if k = 0 then bs else List.filteri (fun i _ -> i < k) bs in
         let (vs, e) = stream_decode_all !cur bs in
         let (ws, _) = decode_all !cur bs in
         Printf.printf "m %s%s\n" (String.concat " | " (List.map str_val vs @ ["end " ^ str_err e]))
           (if ws = vs then "" else " WINDOW-DECODER-DIFFERS")
       | "SC" :: mode :: h :: ops ->
         let bs = bytes_of_hex h in
         let s0 = if mode = "T" then new_stream bs
           else new_list_stream bs (n_of_string (String.sub mode 1 (String.length mode - 1))) in
         let op_of = function
           | "K" -> OKind | "L" -> OList | "E" -> OListEnd | "B" -> OBytes | "O" -> OBool | "R" -> ORaw | "I" -> OBig
           | u when String.length u > 1 && u.[0] = 'U' -> OUint (n_of_string (String.sub u 1 (String.length u - 1)))
           | rb when String.length rb > 2 && String.sub rb 0 2 = "RB" -> OReadBytes (n_of_string (String.sub rb 2 (String.length rb - 2)))
           | x -> failwith ("bad stream op " ^ x) in
         let str_out = function
           | RKind (k, size) -> Printf.sprintf "k %s %s" (str_kind k) (string_of_n size)
           | RNum n -> "u " ^ string_of_n n
           | RBytes b -> "x " ^ hex_of_bytes b
           | RBool b -> if b then "t" else "f"
           | RUnit -> "ok"
           | RErrOut e -> "err " ^ str_err e in
         Printf.printf "sc %s\n" (String.concat " | " (List.map str_out (s_script (List.map op_of ops) s0)))
       | l -> failwith ("bad line: " ^ String.concat " " l));
      loop ()
  in
  loop ()
