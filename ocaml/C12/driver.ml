(* C12 model driver: reads the op trace written by harness/cmd/c12 and prints one observable
   line per op, in exactly the format the harness prints for the implementation. *)
open Conv

let rec vals_of = function
  | [] -> []
  | a :: p :: q :: t -> { v_addr = n_of_string a; v_power = z_of_string p; v_prio = z_of_string q } :: vals_of t
  | _ -> failwith "bad validator triple"

let str_err = function
  | UOk -> "ok" | UDup -> "err:dup" | UNegative -> "err:neg" | UTooBig -> "err:toobig"
  | UZeroPower -> "err:zero" | UUnknown -> "err:unknown" | UOverflow -> "err:overflow" | UEmpty -> "err:empty"

let str_obs ob =
  let status = if ob.o_panic then "PANIC" else str_err ob.o_err in
  let tot = match ob.o_total with None -> "PANIC" | Some t -> string_of_z t in
  let pr = match ob.o_proposer with
    | None -> "?"
    | Some None -> "PANIC"
    | Some (Some None) -> "-"
    | Some (Some (Some (a, p))) -> string_of_n a ^ ":" ^ string_of_z p in
  let vs = if ob.o_vals = [] then "-" else
      String.concat "," (List.map (fun v -> Printf.sprintf "%s:%s:%s" (string_of_n v.v_addr) (string_of_z v.v_power) (string_of_z v.v_prio)) ob.o_vals) in
  let sq = if ob.o_seq = [] then "" else " S=" ^ String.concat "," (List.map string_of_n ob.o_seq) in
  Printf.sprintf "%s T=%s P=%s V=%s%s" status tot pr vs sq

let str_cobs co =
  let status = if co.co_panic then "PANIC" else str_err co.co_err in
  let body ob = match String.index_opt (str_obs ob) ' ' with
    | Some i -> let s = str_obs ob in String.sub s (i + 1) (String.length s - i - 1)
    | None -> "" in
  let rp = String.concat "," (List.map (function None -> "x" | Some a -> string_of_n a) co.co_rounds) in
  Printf.sprintf "%s H=%s LC=%s L{%s} C{%s} N{%s} RP=%s" status (string_of_z co.co_height) (string_of_z co.co_changed)
    (body co.co_last) (body co.co_cur) (body co.co_next) rp

let () =
  let lines = read_lines stdin in
  let st = ref init_slots in
  let ch = ref init_chain in
  let crun o ask =
    let (ch', co) = chain_step !st !ch o (ask = "1") in
    ch := ch'; print_endline (str_cobs co) in
  let run o ask =
    let (st', ob) = step !st o (ask = "1") in
    st := st'; print_endline (str_obs ob) in
  List.iter (fun line ->
      match tokens line with
      | [] -> ()
      | "CASE" :: id :: _ -> st := init_slots; ch := init_chain; Printf.printf "CASE %s\n" id
      | ["G"; slot; ask] -> crun (CGenesis (nat_of_int (int_of_string slot))) ask
      | "B" :: ask :: _ :: rest -> crun (CBlock (vals_of rest)) ask
      | "S" :: slot :: ask :: _ :: rest -> run (OpRaw (nat_of_int (int_of_string slot), vals_of rest)) ask
      | ["J"; src; dst; ask; k] -> run (OpCopyInc (nat_of_int (int_of_string src), nat_of_int (int_of_string dst), z_of_string k)) ask
      | "N" :: slot :: ask :: _ :: rest -> run (OpNew (nat_of_int (int_of_string slot), vals_of rest)) ask
      | ["I"; slot; ask; k] -> run (OpInc (nat_of_int (int_of_string slot), z_of_string k)) ask
      | "U" :: slot :: ask :: _ :: rest -> run (OpUpd (nat_of_int (int_of_string slot), vals_of rest)) ask
      | "A" :: slot :: ask :: _ :: rest -> run (OpReport (nat_of_int (int_of_string slot), vals_of rest)) ask
      | ["C"; src; dst; ask] -> run (OpCopy (nat_of_int (int_of_string src), nat_of_int (int_of_string dst))) ask
      | ["R"; slot; ask; r] -> run (OpRounds (nat_of_int (int_of_string slot), nat_of_int (int_of_string r))) ask
      | l -> failwith ("bad line: " ^ String.concat " " l)) lines
