(* C01 model driver: runs the extracted obligations checker (Checker.all_obey_b / obeys_b /
   commit_quorum_b through C01/Run.v) on the signature logs written by the network harness and prints
   the lines the harness prints for the implementation. *)
open Conv

(* "flag addrzero addr timezero sigempty signer" x k  ->  slots *)
let rec slots_of k toks =
  if k = 0 then ([], toks) else
    match toks with
    | f :: a :: ad :: t :: e :: sg :: rest ->
      let sg = int_of_string sg and ad = int_of_string ad in
      let s = mk_slot (nat_of_int (int_of_string f)) (a = "1") (if ad < 0 then None else Some (nat_of_int ad)) (t = "1") (e = "1")
          (if sg < 0 then None else Some (nat_of_int sg)) in
      let (l, rest') = slots_of (k - 1) rest in (s :: l, rest')
    | _ -> failwith "bad slot"

(* "N" | "C hc rc bc k slots..." -> commit option *)
let commit_of toks =
  match toks with
  | "N" :: rest -> (None, rest)
  | "C" :: hc :: rc :: bc :: k :: rest ->
    let (sl, rest') = slots_of (int_of_string k) rest in
    (Some (mk_commit (nat_of_int (int_of_string hc)) (nat_of_int (int_of_string rc)) (nat_of_int (int_of_string bc)) sl), rest')
  | _ -> failwith "bad commit"

let rec take k l = if k = 0 then ([], l) else match l with x :: r -> let (a, b) = take (k - 1) r in (x :: a, b) | [] -> failwith "short"

let string_of_vresult = function
  | VOk -> "ok" | VNilCommit -> "nilcommit" | VBasic -> "basic" | VSize -> "size" | VHeight -> "height" | VBlock -> "blockid"
  | VSig i -> Printf.sprintf "sig %d" (int_of_nat i)
  | VAddr i -> Printf.sprintf "addr %d" (int_of_nat i)
  | VPower (g, nd) -> Printf.sprintf "power %s %s" (string_of_z g) (string_of_z nd)

let () =
  let lines = read_lines stdin in
  let height = ref 0 and powers = ref [] and flags = ref [] and trace = ref [] in
  let pst = ref run_p_init and pvals = ref [] in
  let tr () = List.rev !trace in
  List.iter (fun l ->
      match tokens l with
      | [] -> ()
      | "CASE" :: id :: _ -> Printf.printf "CASE %s\n" id
      | "H" :: h :: _ -> height := int_of_string h; powers := []; flags := []; trace := []
      | "VALS" :: ps -> powers := List.map z_of_string ps
      | "FAULTY" :: fs -> flags := List.map (fun s -> s = "1") fs
      | ["S"; v; t; r; b] ->
        let b = int_of_string b in
        trace := mk_event (nat_of_int (int_of_string v)) (t = "2") (nat_of_int (int_of_string r))
            (if b = 0 then None else Some (nat_of_int b)) :: !trace
      | ["OBEY"] ->
        let t = tr () in
        let ok = run_all_obey !powers !flags t in
        let bad =
          if ok then "-" else
            String.concat ","
              (List.filter_map (fun i ->
                   if (not (List.nth !flags i)) && not (run_obeys !powers t (nat_of_int i)) then Some (string_of_int i) else None)
                  (List.init (List.length !powers) (fun i -> i))) in
        let auto = run_monitor_all !powers !flags t in
        Printf.printf "h=%d obey=%d bad=%s auto=%d\n" !height (if ok then 1 else 0) bad (if auto then 1 else 0)
      | ["L"; v] ->
        (match run_monitor_lock !powers (tr ()) (nat_of_int (int_of_string v)) with
         | None -> Printf.printf "lock %s rejected\n" v
         | Some None -> Printf.printf "lock %s -\n" v
         | Some (Some (b, r)) -> Printf.printf "lock %s %d@%d\n" v (int_of_nat b) (int_of_nat r))
      | ["C"; node; r; b] ->
        let q = run_commit_quorum !powers (tr ()) (nat_of_int (int_of_string r)) (nat_of_int (int_of_string b)) in
        Printf.printf "h=%d node=%s quorum=%d\n" !height node (if q then 1 else 0)
      | "VC" :: n :: rest ->
        let (ps, rest) = take (int_of_string n) rest in
        (match rest with
         | hw :: bw :: rest ->
           let (oc, _) = commit_of rest in
           let r = run_verify_commit (List.map z_of_string ps) (nat_of_int (int_of_string hw)) (nat_of_int (int_of_string bw)) oc in
           Printf.printf "vc %s\n" (string_of_vresult r)
         | _ -> failwith "bad VC")
      | ["PINIT"] -> pst := run_p_init; pvals := []
      | "PVALS" :: _h :: n :: rest ->
        let (ps, _) = take (int_of_string n) rest in
        pvals := !pvals @ [List.map z_of_string ps]
      | "PB" :: peer :: h :: id :: rest ->
        let (oc, _) = commit_of rest in
        let b = mk_blk (nat_of_int (int_of_string h)) (nat_of_int (int_of_string id)) oc in
        let (st, out) = run_p_handle !pvals !pst (ev_block (nat_of_int (int_of_string peer)) b) in
        pst := st;
        Printf.printf "pb %s\n" (match out with ODupPanic -> "dup" | _ -> "ok")
      | ["PP"] ->
        let (st, out) = run_p_handle !pvals !pst ev_process in
        pst := st;
        Printf.printf "pp %s\n" (match out with
            | OProcessed h -> Printf.sprintf "processed %d" (int_of_nat h)
            | ORefused h -> Printf.sprintf "refused %d" (int_of_nat h)
            | OApplyPanic _ -> "PANIC" | OFinished -> "finished" | _ -> "idle")
      | ["PE"; peer] ->
        let (st, _) = run_p_handle !pvals !pst (ev_peer_error (nat_of_int (int_of_string peer))) in
        pst := st;
        Printf.printf "pe\n"
      | l -> failwith ("bad line: " ^ String.concat " " l))
    lines
