(* C01 model driver: runs the extracted obligations checker (Checker.all_obey_b / obeys_b /
   commit_quorum_b through C01/Run.v) on the signature logs written by the network harness and prints
   the lines the harness prints for the implementation. *)
open Conv

let () =
  let lines = read_lines stdin in
  let height = ref 0 and powers = ref [] and flags = ref [] and trace = ref [] in
  let tr () = List.rev !trace in
  List.iter (fun l ->
      match tokens l with
      | [] -> ()
      | "CASE" :: id :: _ -> Printf.printf "CASE %s\n" id
      | "H" :: h :: _ -> height := int_of_string h; powers := []; flags := []; trace := []
      | "VALS" :: ps -> powers := List.map z_of_string ps
      | "FAULTY" :: fs -> flags := List.map (fun s -> s = "1") fs
      | ["S"; v; t; r; b] ->
        let b = int_of_string b in
        trace := mk_event (nat_of_int (int_of_string v)) (t = "2") (nat_of_int (int_of_string r))
            (if b = 0 then None else Some (nat_of_int b)) :: !trace
      | ["OBEY"] ->
        let t = tr () in
        let ok = run_all_obey !powers !flags t in
        let bad =
          if ok then "-" else
            String.concat ","
              (List.filter_map (fun i ->
                   if (not (List.nth !flags i)) && not (run_obeys !powers t (nat_of_int i)) then Some (string_of_int i) else None)
                  (List.init (List.length !powers) (fun i -> i))) in
        Printf.printf "h=%d obey=%d bad=%s\n" !height (if ok then 1 else 0) bad
      | ["C"; node; r; b] ->
        let q = run_commit_quorum !powers (tr ()) (nat_of_int (int_of_string r)) (nat_of_int (int_of_string b)) in
        Printf.printf "h=%d node=%s quorum=%d\n" !height node (if q then 1 else 0)
      | l -> failwith ("bad line: " ^ String.concat " " l))
    lines
