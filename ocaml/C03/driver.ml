(* C03 model driver: reads the script written by harness/overlay/consensus/verif_c03_test.go and
   prints, for every op, the observable line in exactly the format the harness prints for the
   real ConsensusState.  Section variables of Node.v (valid, vals, proposer, mkblock) are
   instantiated from the declaration lines of the script. *)
open Conv

let valid_tbl : (int * int, int) Hashtbl.t = Hashtbl.create 64      (* (hash, parts) -> height at which valid *)
let prop_tbl : (int * int, int) Hashtbl.t = Hashtbl.create 64       (* (height, round) -> index *)
let mk_tbl : (int * int, (int * int) option) Hashtbl.t = Hashtbl.create 16
let powers : z list ref = ref []
(* set when the model asks for a proposer / created block the script did not declare: the line is
   then marked so that it cannot agree with the implementation's *)
let undeclared = ref false

let valid h b =
  match Hashtbl.find_opt valid_tbl (int_of_n b.b_hash, int_of_n b.b_parts) with
  | Some vh -> vh = int_of_n h && vh <> 0
  | None -> false
let vals _ = !powers
let proposer h r =
  match Hashtbl.find_opt prop_tbl (int_of_n h, int_of_n r) with
  | Some i -> n_of_int i
  | None -> undeclared := true; n_of_int 0
let mkblock h r =
  match Hashtbl.find_opt mk_tbl (int_of_n h, int_of_n r) with
  | Some (Some (bh, bp)) -> Some { b_hash = n_of_int bh; b_parts = n_of_int bp }
  | Some None -> None
  | None -> undeclared := true; None

let step_of_int = function
  | 1 -> SNewHeight | 2 -> SNewRound | 3 -> SPropose | 4 -> SPrevote | 5 -> SPrevoteWait
  | 6 -> SPrecommit | 7 -> SPrecommitWait | 8 -> SCommit | _ -> failwith "bad step"
let si n = string_of_int (int_of_n n)
let bid_s (b : bid) = if int_of_n b.bh = 0 && int_of_n b.bp = 0 then "-" else si b.bh ^ ":" ^ si b.bp
let ty_s = function Prevote -> "1" | Precommit -> "2"

let out_s = function
  | SignVote v -> Printf.sprintf "sv:%s:%s:%s:%s" (ty_s v.v_type) (si v.v_height) (si v.v_round) (bid_s v.v_bid)
  | SignProposal p -> Printf.sprintf "sp:%s:%s:%s:%s" (si p.p_height) (si p.p_round) (si p.p_pol) (bid_s p.p_bid)
  | Commit (h, b, r) -> Printf.sprintf "cm:%s:%s:%s" (si h) (si r) (si b.b_hash)
  | Sched (h, r, st) -> Printf.sprintf "sc:%s:%s:%s" (si h) (si r) (si (step_num st))
  | Panic -> "PANIC"

let blk_s ob op = match ob with
  | None -> "-"
  | Some b -> si b.b_hash ^ ":" ^ (match op with None -> "0" | Some ps -> si ps.ps_hdr)
let obs (s : nstate) (outs : output list) =
  let panicked = List.exists (fun o -> o = Panic) outs in
  let o = String.concat " " (List.map out_s outs) in
  if panicked then "X " ^ o else
  Printf.sprintf "S %s %s %s L %s %s V %s %s P %s B %s PP %s CR %s TT %s O %s"
    (si s.height) (si s.round) (si (step_num s.rstep))
    (si s.locked_round) (blk_s s.locked s.locked_parts)
    (si s.valid_round) (blk_s s.valid_blk s.valid_parts)
    (match s.prop with None -> "0" | Some _ -> "1")
    (match s.pblock with None -> "-" | Some b -> si b.b_hash)
    (match s.pparts with None -> "-" | Some ps -> si ps.ps_hdr ^ ":" ^ (if ps_complete s ps then "1" else "0"))
    (si s.commit_round) (if s.tt_precommit then "1" else "0") o

let () =
  let cfg = ref { skip_timeout_commit = false; create_empty_blocks = true; empty_interval_pos = false; initial_height = n_of_int 1 } in
  let me = ref None in
  let st = ref (init !cfg) in
  let nn = n_of_string in
  let do_step i =
    let (s', outs) = step valid vals proposer mkblock !cfg !me !st i in
    st := s';
    print_endline (obs s' outs ^ (if !undeclared then " UNDECLARED" else "")); undeclared := false in
  let rec loop () =
    match input_line stdin with
    | exception End_of_file -> ()
    | line ->
      (match tokens line with
       | [] -> ()
       | "CASE" :: id :: m :: skip :: ceb :: eip :: ih :: _ ->
         Hashtbl.reset valid_tbl; Hashtbl.reset prop_tbl; Hashtbl.reset mk_tbl;
         cfg := { skip_timeout_commit = (skip = "1"); create_empty_blocks = (ceb = "1");
                  empty_interval_pos = (eip = "1"); initial_height = nn ih };
         me := (if m = "-" then None else Some (nn m));
         st := init !cfg;
         Printf.printf "CASE %s\n" id
       | "VALS" :: ps -> powers := List.map z_of_string ps
       | "PROPOSERS" :: h :: idx ->
         List.iteri (fun k i -> Hashtbl.replace prop_tbl (int_of_string h, k + 1) (int_of_string i)) idx
       | ["BLOCK"; bh; bp; vh] -> Hashtbl.replace valid_tbl (int_of_string bh, int_of_string bp) (int_of_string vh)
       | ["CREATE"; h; r; "-"] -> Hashtbl.replace mk_tbl (int_of_string h, int_of_string r) None
       | ["CREATE"; h; r; bh; bp] ->
         Hashtbl.replace mk_tbl (int_of_string h, int_of_string r) (Some (int_of_string bh, int_of_string bp))
       | ["P"; h; r; pol; bh; bp; signer] ->
         do_step (InProposal { p_height = nn h; p_round = nn r; p_pol = nn pol; p_bid = { bh = nn bh; bp = nn bp };
                               p_signer = (if signer = "-" then None else Some (nn signer)) })
       | ["K"; h; r; bh; bp] -> do_step (InBlock (nn h, nn r, { b_hash = nn bh; b_parts = nn bp }))
       | ["NP"; h; r] -> do_step (InNilPart (nn h, nn r))
       | ["V"; peer; ty; h; r; bh; bp; idx; ok] ->
         do_step (InVote (nn peer, { v_type = (if ty = "1" then Prevote else Precommit); v_height = nn h; v_round = nn r;
                                     v_bid = { bh = nn bh; bp = nn bp }; v_idx = nn idx; v_ok = (ok = "1") }))
       | ["T"; h; r; s] -> do_step (InTimeout (nn h, nn r, step_of_int (int_of_string s)))
       | l -> failwith ("bad line: " ^ String.concat " " l));
      loop () in
  loop ()
