(* C03 model driver: reads the script written by harness/overlay/consensus/verif_c03_test.go and
   prints, for every op, the observable line in exactly the format the harness prints for the
   real ConsensusState.  Section variables of Node.v (valid, vals, proposer, mkblock) are
   instantiated from the declaration lines of the script. *)
open Conv

let valid_tbl : (int * int, int) Hashtbl.t = Hashtbl.create 64      (* (hash, parts) -> height at which valid *)
let prop_tbl : (int * int, int) Hashtbl.t = Hashtbl.create 64       (* (height, round) -> index *)
let mk_tbl : (int * int, (int * int) option) Hashtbl.t = Hashtbl.create 16
let powers : z list ref = ref []
(* set when the model asks for a proposer / created block the script did not declare: the line is
   then marked so that it cannot agree with the implementation's *)
let undeclared = ref false

let valid h b =
  match Hashtbl.find_opt valid_tbl (int_of_n b.b_hash, int_of_n b.b_parts) with
  | Some vh -> vh = int_of_n h && vh <> 0
  | None -> false
let vals _ = !powers
let proposer h r =
  match Hashtbl.find_opt prop_tbl (int_of_n h, int_of_n r) with
  | Some i -> n_of_int i
  | None -> undeclared := true; n_of_int 0
let mkblock h r =
  match Hashtbl.find_opt mk_tbl (int_of_n h, int_of_n r) with
  | Some (Some (bh, bp)) -> Some { b_hash = n_of_int bh; b_parts = n_of_int bp }
  | Some None -> None
  | None -> undeclared := true; None

let step_of_int = function
  | 1 -> SNewHeight | 2 -> SNewRound | 3 -> SPropose | 4 -> SPrevote | 5 -> SPrevoteWait
  | 6 -> SPrecommit | 7 -> SPrecommitWait | 8 -> SCommit | _ -> failwith "bad step"
let si n = string_of_int (int_of_n n)
let bid_s (b : bid) = if int_of_n b.bh = 0 && int_of_n b.bp = 0 then "-" else si b.bh ^ ":" ^ si b.bp
let ty_s = function Prevote -> "1" | Precommit -> "2"

let out_s = function
  | SignVote v -> Printf.sprintf "sv:%s:%s:%s:%s" (ty_s v.v_type) (si v.v_height) (si v.v_round) (bid_s v.v_bid)
  | SignProposal p -> Printf.sprintf "sp:%s:%s:%s:%s" (si p.p_height) (si p.p_round) (si p.p_pol) (bid_s p.p_bid)
  | Commit (h, b, r) -> Printf.sprintf "cm:%s:%s:%s" (si h) (si r) (si b.b_hash)
  | Sched (h, r, st) -> Printf.sprintf "sc:%s:%s:%s" (si h) (si r) (si (step_num st))
  | Panic -> "PANIC"

let blk_s ob op = match ob with
  | None -> "-"
  | Some b -> si b.b_hash ^ ":" ^ (match op with None -> "0" | Some ps -> si ps.ps_hdr)
let obs (s : nstate) (outs : output list) =
  let panicked = List.exists (fun o -> o = Panic) outs in
  let o = String.concat " " (List.map out_s outs) in
  if panicked then "X " ^ o else
  Printf.sprintf "S %s %s %s L %s %s V %s %s P %s B %s PP %s CR %s TT %s O %s"
    (si s.height) (si s.round) (si (step_num s.rstep))
    (si s.locked_round) (blk_s s.locked s.locked_parts)
    (si s.valid_round) (blk_s s.valid_blk s.valid_parts)
    (match s.prop with None -> "0" | Some _ -> "1")
    (match s.pblock with None -> "-" | Some b -> si b.b_hash)
    (match s.pparts with None -> "-" | Some ps -> si ps.ps_hdr ^ ":" ^ (if ps_complete s ps then "1" else "0"))
    (si s.commit_round) (if s.tt_precommit then "1" else "0") o

(* ---- validateBlock (C03/Validate.v) on the projection the harness prints in a VB line ---- *)
let cerr_s = function
  | COk -> "ok" | CBasic -> "basic" | CSize -> "size" | CHeight -> "height" | CBlockID -> "blockid"
  | CSig -> "sig" | CAddr -> "addr" | CPower -> "power"
let verr_s = function
  | VOk -> "ok" | VBasic -> "basic" | VHeight -> "height" | VLastID -> "lastid" | VApp -> "app"
  | VVals -> "vals" | VNextVals -> "nextvals" | VNilCommit -> "nilcommit" | VFirstCommit -> "firstcommit"
  | VCommit e -> "commit-" ^ cerr_s e | VTimeNotAfter -> "time-not-after" | VTimeNotMedian -> "time-not-median"
  | VTimeGenesis -> "time-genesis" | VBelowInitial -> "below-initial" | VEvidenceCount -> "evidence-count"
  | VProposer -> "proposer" | VEvidence -> "evidence"

let take3 = function
  | a :: b :: c :: r -> ({ b_hash0 = n_of_string a; b_total = n_of_string b; b_phash = n_of_string c }, r)
  | _ -> failwith "VB: block id"
let rec take_sigs k l acc =
  if k = 0 then (List.rev acc, l) else
  match l with
  | flag :: addr :: tm :: sid :: sempty :: signer :: chain :: ty :: sh :: sr :: r ->
    let (sb, r) = take3 r in
    (match r with
     | stime :: r ->
       let sg = { s_id = n_of_string sid; s_empty = (sempty = "1"); s_signer = n_of_string signer; s_chain = n_of_string chain;
                  s_type = n_of_string ty; s_height = n_of_string sh; s_round = n_of_string sr; s_bid = sb; s_time = n_of_string stime } in
       take_sigs (k - 1) r ({ cs_flag = n_of_string flag; cs_addr = n_of_string addr; cs_time = n_of_string tm; cs_sig = sg } :: acc)
     | _ -> failwith "VB: signature time")
  | _ -> failwith "VB: commit signature"

let validators () = List.mapi (fun i p -> { val_addr = n_of_int (i + 1); val_power = p }) !powers

let do_vb toks =
  match toks with
  | ih :: lh :: r ->
    let (lbid, r) = take3 r in
    (match r with
     | ltime :: app :: vh :: nvh :: maxev :: "|" :: bh :: btime :: r ->
       let (blast, r) = take3 r in
       (match r with
        | bapp :: bvh :: bnvh :: prop :: wf :: lch :: nev :: evok :: "|" :: r ->
          let lc = (match r with
            | ["N"] -> None
            | "C" :: ch :: cr :: r ->
              let (cb, r) = take3 r in
              (match r with
               | n :: r -> let (sigs, _) = take_sigs (int_of_string n) r [] in
                 Some { c_height = n_of_string ch; c_round = n_of_string cr; c_bid = cb; c_sigs = sigs }
               | _ -> failwith "VB: commit")
            | _ -> failwith "VB: last commit") in
          let vs = validators () in
          let st = { ch_id = n_of_int 1; ch_initial = z_of_string ih; ch_last_height = z_of_string lh; ch_last_bid = lbid;
                     ch_last_time = z_of_string ltime; ch_app = n_of_string app; ch_vals_hash = n_of_string vh;
                     ch_nextvals_hash = n_of_string nvh; ch_last_vals = vs; ch_vals = vs; ch_max_evid = z_of_string maxev } in
          let b = { vb_hdr = { vh_height = z_of_string bh; vh_time = z_of_string btime; vh_last = blast; vh_app = n_of_string bapp;
                               vh_vals = n_of_string bvh; vh_nextvals = n_of_string bnvh; vh_proposer = n_of_string prop };
                    vb_wf = (wf = "1"); vb_lc = lc; vb_lch_ok = (lch = "1"); vb_nevid = z_of_string nev; vb_evid_ok = (evok = "1") } in
          print_endline ("vb:" ^ verr_s (validate_block st b))
        | _ -> failwith "VB: block")
     | _ -> failwith "VB: state")
  | _ -> failwith "VB"

let () =
  let cfg = ref { skip_timeout_commit = false; create_empty_blocks = true; empty_interval_pos = false; initial_height = n_of_int 1 } in
  let me = ref None in
  let st = ref (init !cfg) in
  let nn = n_of_string in
  let do_step i =
    let (s', outs) = step valid vals proposer mkblock !cfg !me !st i in
    st := s';
    print_endline (obs s' outs ^ (if !undeclared then " UNDECLARED" else "")); undeclared := false in
  let rec loop () =
    match input_line stdin with
    | exception End_of_file -> ()
    | line ->
      (match tokens line with
       | [] -> ()
       | "CASE" :: id :: m :: skip :: ceb :: eip :: ih :: _ ->
         Hashtbl.reset valid_tbl; Hashtbl.reset prop_tbl; Hashtbl.reset mk_tbl;
         cfg := { skip_timeout_commit = (skip = "1"); create_empty_blocks = (ceb = "1");
                  empty_interval_pos = (eip = "1"); initial_height = nn ih };
         me := (if m = "-" then None else Some (nn m));
         st := init !cfg;
         Printf.printf "CASE %s\n" id
       | "VALS" :: ps -> powers := List.map z_of_string ps
       | "PROPOSERS" :: h :: idx ->
         List.iteri (fun k i -> Hashtbl.replace prop_tbl (int_of_string h, k + 1) (int_of_string i)) idx
       | ["BLOCK"; bh; bp; vh] -> Hashtbl.replace valid_tbl (int_of_string bh, int_of_string bp) (int_of_string vh)
       | ["CREATE"; h; r; "-"] -> Hashtbl.replace mk_tbl (int_of_string h, int_of_string r) None
       | ["CREATE"; h; r; bh; bp] ->
         Hashtbl.replace mk_tbl (int_of_string h, int_of_string r) (Some (int_of_string bh, int_of_string bp))
       | ["P"; h; r; pol; bh; bp; signer] ->
         do_step (InProposal { p_height = nn h; p_round = nn r; p_pol = nn pol; p_bid = { bh = nn bh; bp = nn bp };
                               p_signer = (if signer = "-" then None else Some (nn signer)) })
       | ["K"; h; r; bh; bp] -> do_step (InBlock (nn h, nn r, { b_hash = nn bh; b_parts = nn bp }))
       | ["NP"; h; r] -> do_step (InNilPart (nn h, nn r))
       | ["KB"; h; r; bp] -> do_step (InBadBlock (nn h, nn r, nn bp))
       | ["V"; peer; ty; h; r; bh; bp; idx; ok] ->
         do_step (InVote (nn peer, { v_type = (if ty = "1" then Prevote else Precommit); v_height = nn h; v_round = nn r;
                                     v_bid = { bh = nn bh; bp = nn bp }; v_idx = nn idx; v_ok = (ok = "1") }))
       | "VB" :: toks -> do_vb toks
       | ["T"; h; r; s] -> do_step (InTimeout (nn h, nn r, step_of_int (int_of_string s)))
       | l -> failwith ("bad line: " ^ String.concat " " l));
      loop () in
  loop ()
