(* C13 model driver: reads the op trace written by harness/cmd/c13 and prints one observable line per
   op, in exactly the format the harness prints for the implementation.  The model's hash Section
   variables are instantiated with the plain OCaml SHA-256 / Keccak-256 of ocaml/common/hash.ml. *)
open Conv

(* fast byte <-> n conversions (values 0..255) *)
let byte_tab = Array.init 256 n_of_int
let rec int_of_pos = function XH -> 1 | XO p -> 2 * int_of_pos p | XI p -> 2 * int_of_pos p + 1
let int_of_byte = function N0 -> 0 | Npos p -> int_of_pos p land 255
let bytes_of_str (s : string) : n list =
  let r = ref [] in
  for i = String.length s - 1 downto 0 do r := byte_tab.(Char.code s.[i]) :: !r done; !r
let str_of_bytes (l : n list) : string =
  let b = Buffer.create 64 in
  List.iter (fun x -> Buffer.add_char b (Char.chr (int_of_byte x))) l; Buffer.contents b

let unhex (h : string) : n list = if h = "-" || h = "." then [] else bytes_of_str (string_of_hex h)
let hexs (s : string) : string =
  if s = "" then "-" else begin
    let b = Buffer.create (2 * String.length s) in
    String.iter (fun c -> Buffer.add_string b (Printf.sprintf "%02x" (Char.code c))) s; Buffer.contents b end
let hx (l : n list) : string = hexs (str_of_bytes l)
let dg (l : n list) : string =
  let s = str_of_bytes l in
  if String.length s <= 32 then hexs s else "#" ^ hexs (Hash.sha256 s)

let sha (b : n list) : n list = bytes_of_str (Hash.sha256 (str_of_bytes b))
let kec (b : n list) : n list = bytes_of_str (Hash.keccak256 (str_of_bytes b))

let parse_aunts (s : string) : n list list =
  if s = "-" then [] else List.map unhex (String.split_on_char ',' s)
let str_aunts (a : n list list) : string =
  if a = [] then "-" else String.concat "," (List.map (fun x -> if x = [] then "." else hx x) a)

let b01 b = if b then "1" else "0"
let str_bits l = if l = [] then "-" else String.concat "" (List.map b01 l)
let str_adderr = function ENone -> "none" | EUnexpectedIndex -> "index" | EInvalidProof -> "proof" | ECrash -> "crash"
let str_verr = function VOk -> "ok" | VLeafHash -> "leafhash" | VRootHash -> "roothash"
let str_vb = function
  | VbOk -> "ok" | VbNilLastCommit -> "nillastcommit" | VbCommitNilBlock -> "commitnilblock"
  | VbCommitNoSigs -> "commitnosigs" | VbCommitSig -> "commitsig" | VbLastCommitHash -> "lastcommithash"
  | VbDataHash -> "datahash" | VbEvidenceInvalid -> "evinvalid" | VbEvidenceHash -> "evhash" | VbPanic -> "PANIC"

let str_vs = function
  | VsBasic c -> str_vb c | VsHeight -> "height" | VsLastBlockID -> "lastblockid" | VsAppHash -> "apphash"
  | VsValHash -> "valhash" | VsNextValHash -> "nextvalhash" | VsNilLastCommit -> "nillastcommit"
  | VsInitialSigs -> "initialsigs"
  | VsCommit (VcBasic c) -> str_vb c | VsCommit VcSize -> "vc-size" | VsCommit VcHeight -> "vc-height"
  | VsCommit VcBlockID -> "vc-blockid" | VsCommit VcSigs -> "vc-sigs" | VsCommit VcOk -> "ok"
  | VsTimeNotAfter -> "timenotafter" | VsTimeMedian -> "timemedian" | VsTimeGenesis -> "timegenesis"
  | VsBelowInitial -> "belowinitial" | VsEvidenceOverflow -> "evoverflow" | VsProposer -> "proposer"
  | VsEvidencePool -> "evpool" | VsOk -> "ok"

(* first 8 bytes of SHA-256, hex: the digest under which the harness names a stored value *)
let dg8 (s : string) : string = String.sub (hexs (Hash.sha256 s)) 0 16

let mk_time s n = { t_secs = z_of_string s; t_nanos = z_of_string n }
let mk_bid h t p = { bid_hash = unhex h; bid_parts = { psh_total = n_of_string t; psh_hash = unhex p } }

let header_of = function
  | [height; secs; nanos; numtxs; gas; lbh; lbt; lbp; proposer; lastcommit; txhash; valhash; nextval; cons; app; evidence] ->
    { h_height = n_of_string height; h_time = mk_time secs nanos; h_numtxs = n_of_string numtxs;
      h_gaslimit = n_of_string gas; h_last = mk_bid lbh lbt lbp; h_proposer = unhex proposer;
      h_lastcommit = unhex lastcommit; h_txhash = unhex txhash; h_valhash = unhex valhash;
      h_nextval = unhex nextval; h_cons = unhex cons; h_app = unhex app; h_evidence = unhex evidence }
  | l -> failwith ("bad header: " ^ String.concat " " l)

let rec take n l = if n = 0 then [] else match l with [] -> [] | x :: t -> x :: take (n-1) t
let rec drop n l = if n = 0 then l else match l with [] -> [] | _ :: t -> drop (n-1) t

let () =
  let lines = ref (read_lines stdin) in
  let next () = match !lines with [] -> None | l :: t -> lines := t; Some (tokens l) in
  let cur = ref (from_header N0 []) in
  let cur_block : (block * (n list list -> n list)) option ref = ref None in
  let store : (n list * string) list ref = ref [] in
  let vcache : vkey list ref = ref [] in
  let read_commit toks =
    match toks with
    | [h; r; bh; bt; bp; ns] ->
      let ns = int_of_string ns in
      let sigs = List.init ns (fun _ ->
          match next () with
          | Some ["SIG"; flag; addr; secs; nanos; sg] ->
            { cs_flag = n_of_string flag; cs_addr = unhex addr; cs_time = mk_time secs nanos; cs_sig = unhex sg }
          | _ -> failwith "expected SIG") in
      { c_height = n_of_string h; c_round = n_of_string r; c_bid = mk_bid bh bt bp; c_sigs = sigs }
    | l -> failwith ("bad CMT: " ^ String.concat " " l) in
  let rec loop () =
    match next () with
    | None -> ()
    | Some [] -> loop ()
    | Some ("CASE" :: id :: _) -> Printf.printf "CASE %s\n" id; loop ()
    | Some ["D"; psz; data] ->
      (match from_data sha (unhex data) (n_of_string psz) with
       | None -> print_endline "d PANIC"
       | Some ps ->
         cur := ps;
         let b = Buffer.create 256 in
         Buffer.add_string b (Printf.sprintf "d %s %s %s %s" (string_of_n ps.ps_total) (hx ps.ps_hash)
                                (string_of_n ps.ps_count) (b01 (is_complete ps)));
         List.iter (function
             | None -> Buffer.add_string b " | nil"
             | Some p ->
               Buffer.add_string b (Printf.sprintf " | %s %s %s %s %s %d %s" (string_of_n p.pt_index)
                                      (string_of_n p.pt_proof.p_total) (string_of_n p.pt_proof.p_index)
                                      (hx p.pt_proof.p_leaf) (str_aunts p.pt_proof.p_aunts)
                                      (List.length p.pt_bytes) (dg p.pt_bytes))) ps.ps_parts;
         print_endline (Buffer.contents b));
      loop ()
    | Some ["S"; total; hash] ->
      cur := from_header (n_of_string total) (unhex hash);
      Printf.printf "s %s %s %s\n" (string_of_n !cur.ps_count) (b01 (is_complete !cur)) (str_bits (bit_array !cur));
      loop ()
    | Some ["A"; idx; bz; ptotal; pindex; leaf; au] ->
      let p = { pt_index = n_of_string idx; pt_bytes = unhex bz;
                pt_proof = { p_total = n_of_string ptotal; p_index = n_of_string pindex; p_leaf = unhex leaf;
                             p_aunts = parse_aunts au } } in
      let (ps', (added, e)) = add_part sha !cur p in
      cur := ps';
      Printf.printf "a %s %s %s %s %s\n" (b01 added) (str_adderr e) (string_of_n ps'.ps_count)
        (b01 (is_complete ps')) (str_bits (bit_array ps'));
      loop ()
    | Some ["W"; idx; blen; ptotal; pindex; leaflen; aulens] ->
      (* PartFromProto looks at sizes only: byte strings of the given lengths *)
      let zeros k = List.init (int_of_string k) (fun _ -> N0) in
      let aunts = if aulens = "-" then [] else List.map zeros (String.split_on_char ',' aulens) in
      let pr = { p_total = n_of_string ptotal; p_index = n_of_string pindex; p_leaf = zeros leaflen; p_aunts = aunts } in
      Printf.printf "w %s\n" (match part_from_proto_real (n_of_string idx) (zeros blen) pr with
          | WOk -> "ok" | WProof -> "proof" | WTooBig -> "toobig");
      loop ()
    | Some ["R"] ->
      (match read_all !cur with
       | None -> print_endline "r PANIC"
       | Some d -> Printf.printf "r %d %s\n" (List.length d) (dg d));
      loop ()
    | Some ["V"; root; leaf; total; index; lh; au] ->
      let p = { p_total = n_of_string total; p_index = n_of_string index; p_leaf = unhex lh; p_aunts = parse_aunts au } in
      Printf.printf "v %s\n" (str_verr (verify sha (unhex root) (unhex leaf) p));
      loop ()
    | Some ("M" :: n :: items) ->
      let items = List.map unhex items in
      if List.length items <> int_of_string n then failwith "M: item count";
      let ra = root sha items in
      (match proofs_from sha items with
       | None -> Printf.printf "m %s PANIC\n" (hx ra)
       | Some (rb, prs) ->
         let b = Buffer.create 256 in
         Buffer.add_string b (Printf.sprintf "m %s %s" (hx ra) (hx rb));
         List.iter (fun p ->
             Buffer.add_string b (Printf.sprintf " | %s %s %s %s" (string_of_n p.p_total) (string_of_n p.p_index)
                                    (hx p.p_leaf) (str_aunts p.p_aunts))) prs;
         print_endline (Buffer.contents b));
      loop ()
    | Some ("HDR" :: toks) ->
      let h = header_of toks in
      (match encode_header h, header_hash kec h with
       | Some enc, Some hh -> Printf.printf "h %s %s\n" (hx enc) (hx hh)
       | _ -> print_endline "h PANIC");
      loop ()
    | Some ("CMT" :: toks) ->
      let c = read_commit toks in
      (match commit_hash sha c with
       | None -> print_endline "c PANIC"
       | Some ch -> Printf.printf "c %s %s\n" (hx ch) (str_vb (commit_validate c)));
      loop ()
    | Some ("EVH" :: n :: items) ->
      let items = List.map unhex items in
      if List.length items <> int_of_string n then failwith "EVH: item count";
      Printf.printf "e %s\n" (hx (evidence_hash sha kec items));
      loop ()
    | Some ("BLK" :: toks) ->
      let h = header_of (take 16 toks) in
      let (has_commit, ntx, nev) = match drop 16 toks with
        | [c; t; e] -> (c = "1", int_of_string t, int_of_string e)
        | _ -> failwith "bad BLK" in
      let txroot = match next () with Some ["TXROOT"; r] -> unhex r | _ -> failwith "expected TXROOT" in
      let txs = List.init ntx (fun _ -> match next () with Some ["TX"; t] -> bytes_of_str t (* an opaque name of the transaction *) | _ -> failwith "expected TX") in
      let last = if has_commit then (match next () with Some ("CMT" :: t) -> Some (read_commit t) | _ -> failwith "expected CMT") else None in
      let evs = List.init nev (fun _ -> match next () with Some ["EV"; ok; bz] -> (unhex bz, ok = "1") | _ -> failwith "expected EV") in
      let b = { b_header = h; b_txs = txs; b_last = last; b_evs = evs } in
      (* the transaction root (DeriveSha over a trie, C07) is an external function: the harness supplies
         its value on this very transaction list *)
      let tx_root (l : n list list) = if l = txs then txroot else [] in
      cur_block := Some (b, tx_root);
      (match header_hash kec h with
       | None -> print_endline "b PANIC"
       | Some hh ->
         (match validate_basic sha kec tx_root b with
          | VbPanic -> print_endline "b PANIC"
          | cl -> Printf.printf "b %s %s\n" (hx hh) (str_vb cl)));
      loop ()
    | Some ["VST"; initial; lasth; bh; bt; bp; app; valh; nextvalh; lvsize; lts; ltn; maxev; sigsok; ms; mn; propk] ->
      let st = { st_initial = n_of_string initial; st_last_height = n_of_string lasth; st_last_bid = mk_bid bh bt bp;
                 st_app = unhex app; st_valhash = unhex valh; st_nextvalhash = unhex nextvalh;
                 st_lastvals_size = n_of_string lvsize; st_last_time = mk_time lts ltn; st_max_evidence = z_of_string maxev } in
      let x = { x_sigs_ok = (sigsok = "1"); x_median = mk_time ms mn; x_proposer_known = (propk = "1"); x_evpool_ok = true } in
      (match !cur_block with
       | None -> failwith "VST without a block"
       | Some (b, tx_root) ->
         (match validate_block sha kec tx_root st x b with
          | VsBasic VbPanic -> print_endline "vs PANIC"
          | cl -> Printf.printf "vs %s\n" (str_vs cl)));
      loop ()
    | Some ["XNEW"] -> vcache := []; print_endline "xnew"; loop ()
    | Some ["XV"; initial; lasth; bh; bt; bp; app; valh; nextvalh; lvsize; lts; ltn; maxev; sigsok; ms; mn; propk] ->
      let st = { st_initial = n_of_string initial; st_last_height = n_of_string lasth; st_last_bid = mk_bid bh bt bp;
                 st_app = unhex app; st_valhash = unhex valh; st_nextvalhash = unhex nextvalh;
                 st_lastvals_size = n_of_string lvsize; st_last_time = mk_time lts ltn; st_max_evidence = z_of_string maxev } in
      let x = { x_sigs_ok = (sigsok = "1"); x_median = mk_time ms mn; x_proposer_known = (propk = "1"); x_evpool_ok = true } in
      (match !cur_block with
       | None -> failwith "XV without a block"
       | Some (b, tx_root) ->
         let (cl, c') = exec_validate sha kec tx_root !vcache st x b in
         vcache := c';
         (match cl with
          | VsBasic VbPanic -> print_endline "xv PANIC"
          | cl -> Printf.printf "xv %s\n" (str_vs cl)));
      loop ()
    | Some ["PP"; total] ->
      Printf.printf "pp %s\n" (b01 (proposal_parts_ok (n_of_string total)));
      loop ()
    | Some ["DBNEW"] -> store := []; print_endline "dbnew"; loop ()
    | Some ["WB"; h; hash; vmeta; vcommit; vseen; total; vparts] ->
      let hn = n_of_string h in
      let hashb = unhex hash in
      let parts = if vparts = "-" then [] else String.split_on_char ',' vparts in
      if List.length parts <> int_of_string total then failwith "WB: part count";
      let vheight = dg8 (str_of_bytes (be (nat_of_int 8) hn)) in
      let vhash = dg8 (str_of_bytes hashb) in
      store := write_block !store hn hashb vmeta parts vcommit vseen vheight vhash;
      let lines = List.sort compare (List.map (fun (k, v) -> hexs (str_of_bytes k) ^ "=" ^ v) !store) in
      Printf.printf "wb %d %s\n" (List.length lines) (dg8 (String.concat "\n" lines));
      loop ()
    | Some ("RG" :: kind :: args) ->
      let key = match kind, args with
        | "meta", [h] -> key_meta (n_of_string h)
        | "part", [h; i] -> key_part (n_of_string h) (n_of_string i)
        | "commit", [h] -> key_commit (n_of_string h)
        | "seen", [h] -> key_seen (n_of_string h)
        | "canon", [h] -> key_canon (n_of_string h)
        | "height", [x] -> key_height (unhex x)
        | _ -> failwith "bad RG" in
      Printf.printf "rg %s\n" (match db_get !store key with None -> "-" | Some v -> v);
      loop ()
    | Some ["RB"; h; total] ->
      let hn = n_of_string h in
      (match db_get !store (key_meta hn) with
       | None -> print_endline "rb none"
       | Some _ ->
         (match read_parts !store hn (nat_of_int (int_of_string total)) with
          | None -> print_endline "rb MISSING"
          | Some _ -> print_endline "rb ok"));
      loop ()
    | Some l -> failwith ("bad line: " ^ String.concat " " (take 4 l))
  in
  loop ()
