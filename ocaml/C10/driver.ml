(* C10 model driver: replays every case written by the KVM harness on the extracted reference
   interpreter and prints the observables in exactly the harness's format. *)
open Conv

let byte_tab : z array = Array.init 256 z_of_int
let zlist_of_string (s : string) : z list = List.init (String.length s) (fun i -> byte_tab.(Char.code s.[i]))
let zlist_of_hex h = zlist_of_string (string_of_hex h)
let int_of_z (x : z) = Zt.ZA.to_int (zt_of_z x)
let string_of_zlist (l : z list) : string =
  let b = Buffer.create 64 in
  List.iter (fun x -> Buffer.add_char b (Char.chr (int_of_z x land 255))) l; Buffer.contents b
let hex_of_zlist l = hex_of_string (string_of_zlist l)
let zt_of_be (s : string) : Zt.ZA.t =
  let acc = ref Zt.ZA.zero in
  String.iter (fun c -> acc := Zt.ZA.add (Zt.ZA.shift_left !acc 8) (Zt.ZA.of_int (Char.code c))) s; !acc
let z_of_hexword h = z_of_zt (zt_of_be (string_of_hex h))
let keccak (l : z list) : z = z_of_zt (zt_of_be (Hash.keccak256 (string_of_zlist l)))
(* block hash function shared with the harness: 2^255 + 7*2^128 + n *)
let blockhash (n : z) : z =
  z_of_zt Zt.ZA.(add (add (shift_left one 255) (shift_left (of_int 7) 128)) (zt_of_z n))
let hexpad w (x : z) = Zt.ZA.format ("%0" ^ string_of_int w ^ "x") (zt_of_z x)

let str_err = function
  | EOog -> "oog" | EBadOp -> "badop" | EUnderflow -> "underflow" | EOverflow -> "overflow"
  | EBadJump -> "badjump" | EStatic -> "static" | ERetOob -> "retoob" | EDepth -> "depth"
  | EBalance -> "balance" | ECollision -> "collision" | ECodeSize -> "codesize"
let str_outcome = function OOk -> "ok" | ORevert -> "revert" | OErr e -> str_err e

let is_zero (x : z) = (x = Z0)

let print_world (w : world) =
  let accts = List.map (fun (a, x) -> (hexpad 40 a, x)) w.w_accts in
  let accts = List.sort (fun (a, _) (b, _) -> compare a b) accts in
  List.iter (fun (a, x) ->
      let kv = List.filter (fun (_, v) -> not (is_zero v)) x.a_store in
      let kv = List.sort compare (List.map (fun (k, v) -> hexpad 64 k ^ "=" ^ hexpad 64 v) kv) in
      let empty = is_zero x.a_nonce && is_zero x.a_bal && x.a_code = [] in
      if x.a_dead || (empty && kv = []) then () else
        Printf.printf "A %s %s %s %s %s\n" a (string_of_z x.a_nonce) (string_of_z x.a_bal) (hex_of_zlist x.a_code)
          (if kv = [] || x.a_dead then "-" else String.concat "," kv)) accts;
  List.iter (fun l ->
      Printf.printf "L %s %s %s\n" (hexpad 40 l.l_addr)
        (if l.l_topics = [] then "-" else String.concat "," (List.map (hexpad 64) l.l_topics))
        (hex_of_zlist l.l_data)) w.w_logs

let () =
  let lines = ref (read_lines stdin) in
  let next () = match !lines with [] -> None | l :: t -> lines := t; Some (tokens l) in
  let expect () = match next () with Some t -> t | None -> failwith "unexpected end of input" in
  let rec loop () =
    match next () with
    | None -> ()
    | Some [] -> loop ()
    | Some ("CASE" :: id :: v :: kind :: gas :: value :: origin :: target :: coinbase :: number :: time :: gaslimit :: gasprice :: chainid :: nacc :: _) ->
      Printf.printf "CASE %s\n" id;
      let env = { e_origin = z_of_hexword origin; e_gasprice = z_of_string gasprice; e_coinbase = z_of_hexword coinbase;
                  e_number = z_of_string number; e_time = z_of_string time; e_gaslimit = z_of_string gaslimit;
                  e_chainid = z_of_string chainid; e_v2 = (v = "2") } in
      let accts = List.init (int_of_string nacc) (fun _ ->
          match expect () with
          | ["ACC"; a; n; b; code; ns] ->
            let st = List.init (int_of_string ns) (fun _ ->
                match expect () with ["ST"; k; v] -> (z_of_hexword k, z_of_hexword v) | _ -> failwith "expected ST") in
            (z_of_hexword a, { a_nonce = z_of_string n; a_bal = z_of_string b; a_code = zlist_of_hex code; a_store = st; a_dead = false })
          | l -> failwith ("expected ACC: " ^ String.concat " " l)) in
      let input = match expect () with ["IN"; h] -> zlist_of_hex h | _ -> failwith "expected IN" in
      let w = { w_accts = accts; w_logs = [] } in
      (match expect () with
       | ["SKIP"; why] -> Printf.printf "SKIP %s\n" why
       | ["RUN"] ->
         let c = if kind = "create" then run_create keccak blockhash env w input (z_of_string gas) (z_of_string value)
           else run_call keccak blockhash env w (z_of_hexword target) input (z_of_string gas) (z_of_string value) in
         (match c.c_status with
          | Final (o, ret, g) ->
            Printf.printf "R %s %s %s\n" (str_outcome o) (string_of_z g) (hex_of_zlist ret);
            print_world c.c_world
          | Unsupported -> print_endline "UNSUPPORTED"
          | Running -> print_endline "OUT-OF-FUEL")
       | l -> failwith ("expected RUN: " ^ String.concat " " l));
      loop ()
    | Some l -> failwith ("bad line: " ^ String.concat " " l)
  in
  loop ()
