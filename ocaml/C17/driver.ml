(* C17 model driver: reads the op trace written by harness/overlay/tx_pool/verif_c17_test.go and prints
   one observable line per op in exactly the format the harness prints for the implementation.

   Where the implementation's outcome depends on heap/map iteration order, the model takes a
   [choice] (o1: tie-break among equal (price, nonce) heap entries by sender; o2: tie-break among
   equally long pending lists in truncatePending; o3: heartbeat order of truncateQueue).  The
   harness reports the implementation's observable line with the op; the driver looks for a choice
   under which the model's line equals it (identity first, then each dimension alone, then each
   pair of dimensions; once an outcome of a case is unexplained the rest of that case is not searched) and prints the model's line for that choice, or the model's line for the identity
   choice when no choice explains the outcome (=> mismatch reported by ./check).  The reported line
   is used for nothing else.  The price heap content/stale counter (internal bookkeeping, input
   "H ...") is re-synchronised from the implementation before every op. *)
open Conv

let txs : (int, tx) Hashtbl.t = Hashtbl.create 64
let ntx = ref 0
let accts = [1; 2; 3; 4]

let zi = z_of_int
let ni = n_of_int
let zs = z_of_string

let tx_of id = try Hashtbl.find txs id with Not_found -> failwith ("unknown tx " ^ string_of_int id)

let str_err = function
  | EOk -> "ok" | EKnown -> "known" | EInvalidSender -> "sender" | EOversized -> "oversized"
  | ENegative -> "negative" | EGasLimit -> "gaslimit" | EUnderpriced -> "underpriced" | ENonceLow -> "noncelow"
  | EFunds -> "funds" | EIntrinsic -> "intrinsic" | EGasOverflow -> "gasoverflow" | EPoolFull -> "full"
  | EReplace -> "replace"

let render_lists (l : tx list) : string =
  let parts = List.filter_map (fun a ->
      match flatten l (ni a) with
      | [] -> None
      | ts -> Some (Printf.sprintf "%d:%s" a
                      (String.concat "," (List.map (fun t -> Printf.sprintf "%s/%s" (string_of_z t.t_nonce) (string_of_n t.t_id)) ts))))
      (accts @ [0; 9]) in
  let parts = List.sort compare parts in
  if parts = [] then "-" else String.concat ";" parts

let csv_ints l = if l = [] then "-" else String.concat "," (List.map string_of_int l)

let render (p : pool) (errs : err list) : string =
  let e = if errs = [] then "-" else String.concat "," (List.map str_err errs) in
  let n = String.concat "," (List.map (fun a -> string_of_z (pn_get p (ni a))) accts) in
  let locals = List.sort_uniq compare (List.map int_of_n p.p_locals) in
  let al = List.sort compare (List.map (fun (t, loc) -> (int_of_n t.t_id, loc)) p.p_all) in
  let a = if al = [] then "-" else
      String.concat "," (List.map (fun (id, loc) -> Printf.sprintf "%d%s" id (if loc then "L" else "R")) al) in
  let t = if !ntx = 0 then "-" else
      String.concat "" (List.init !ntx (fun i -> string_of_z (status p (tx_of (i + 1))))) in
  let j = match p.p_journal with
    | None -> "x"
    | Some [] -> "-"
    | Some l -> csv_ints (List.sort compare (List.map (fun t -> int_of_n t.t_id) l)) in
  (* the price heap: its live entries (of indexed remote txs).  The stale counter and the stale entries
     are not observable: they depend on the order in which runReorg visits the accounts *)
  let live = List.filter (fun t -> all_get_remote p.p_all t.t_id <> None) p.p_heap in
  let h = csv_ints (List.sort compare (List.map (fun t -> int_of_n t.t_id) live)) in
  Printf.sprintf "e=%s p=%s q=%s n=%s s=%d/%d l=%s a=%s g=%s t=%s j=%s sl=%s h=%s"
    e (render_lists p.p_pending) (render_lists p.p_queue) n (List.length p.p_pending) (List.length p.p_queue)
    (csv_ints locals) a (string_of_z p.p_gasprice) t j (string_of_z (all_slots p.p_all)) h

let rec perms = function
  | [] -> [[]]
  | l -> List.concat_map (fun x -> List.map (fun r -> x :: r) (perms (List.filter (fun y -> y <> x) l))) l

let all_perms = List.map (List.map ni) (perms accts)
let ident = List.map ni accts

let chain_of toks =
  match toks with
  | gl :: h :: rest ->
    let rec go a = function
      | n :: b :: r -> let (ns, bs) = go (a + 1) r in ((ni a, zs n) :: ns, (ni a, zs b) :: bs)
      | _ -> ([], []) in
    let (ns, bs) = go 1 rest in
    { ch_nonces = ns; ch_bals = bs; ch_gaslimit = zs gl; ch_height = zs h }
  | _ -> failwith "bad chain"

let rec take n l = if n = 0 then [] else match l with [] -> [] | x :: t -> x :: take (n - 1) t
let rec drop n l = if n = 0 then l else match l with [] -> [] | _ :: t -> drop (n - 1) t

let split_bar (line : string) : string list =
  (* fields separated by " | " *)
  let rec go acc s =
    match String.index_opt s '|' with
    | None -> List.rev (String.trim s :: acc)
    | Some i -> go (String.trim (String.sub s 0 i) :: acc) (String.sub s (i + 1) (String.length s - i - 1)) in
  go [] line

let () =
  let lines = read_lines stdin in
  let cfg = ref { c_price_limit = Z0; c_price_bump = Z0; c_aslots = Z0; c_gslots = Z0; c_aqueue = Z0; c_gqueue = Z0;
                  c_nolocals = false; c_journal = false; c_locals = [] } in
  let pool = ref None in
  let searched = ref 0 in
  let case_bad = ref false in   (* after the first unexplained outcome of a case: no more searching in it *)
  (* run [f choice] for the identity choice, then search for one that reproduces [want] *)
  let solve (f : choice -> pool * err list) (want : string) : pool * string =
    let try_c c = let (p, es) = f c in (p, render p es) in
    let idc = { o1 = ident; o2 = ident; o3 = ident } in
    let (p0, l0) = try_c idc in
    if l0 = want || !case_bad then (p0, l0) else begin
      incr searched;
      let found = ref None in
      let attempt c = if !found = None then (let (p, l) = try_c c in if l = want then found := Some (p, l)) in
      List.iter (fun x -> attempt { idc with o3 = x }) all_perms;
      List.iter (fun x -> attempt { idc with o2 = x }) all_perms;
      List.iter (fun x -> attempt { idc with o1 = x }) all_perms;
      (* two dimensions at once *)
      if !found = None then List.iter (fun b -> List.iter (fun c -> attempt { idc with o2 = b; o3 = c }) all_perms) all_perms;
      if !found = None then List.iter (fun a -> List.iter (fun c -> attempt { idc with o1 = a; o3 = c }) all_perms) all_perms;
      if !found = None then List.iter (fun a -> List.iter (fun b -> attempt { idc with o1 = a; o2 = b }) all_perms) all_perms;
      match !found with Some r -> r | None -> (case_bad := true; (p0, l0))
    end in
  List.iter (fun line ->
      match split_bar line with
      | [] | [""] -> ()
      | head :: rest ->
        let toks = tokens head in
        (match toks, rest with
         | "CASE" :: id :: pl :: bump :: asl :: gsl :: aq :: gq :: nol :: jr :: loc :: _, _ ->
           Hashtbl.reset txs; ntx := 0; pool := None; case_bad := false;
           let locals = if loc = "-" then [] else List.map (fun s -> n_of_string s) (String.split_on_char ',' loc) in
           cfg := { c_price_limit = zs pl; c_price_bump = zs bump; c_aslots = zs asl; c_gslots = zs gsl;
                    c_aqueue = zs aq; c_gqueue = zs gq; c_nolocals = (nol = "1"); c_journal = (jr = "1"); c_locals = locals };
           Printf.printf "CASE %s\n" id
         | ["TX"; id; from; nonce; price; gas; value; size; nz; zb; cr], _ ->
           let t = { t_id = n_of_string id; t_from = (if from = "0" then None else Some (n_of_string from));
                     t_nonce = zs nonce; t_price = zs price; t_gas = zs gas; t_value = zs value; t_size = zs size;
                     t_nz = zs nz; t_zb = zs zb; t_create = (cr = "1") } in
           Hashtbl.replace txs (int_of_string id) t; incr ntx
         | ["PANIC"], _ -> print_endline "PANIC-NOT-MODELLED"
         | op :: args, [heap; want] ->
           let (stales, hids) = match tokens heap with
             | "H" :: s :: ids -> (zs s, List.map (fun x -> tx_of (int_of_string x)) ids)
             | _ -> failwith "bad heap" in
           let cur () = match !pool with Some p -> set_heap p hids stales | None -> failwith "no pool" in
           let ids_of k l = List.map (fun x -> tx_of (int_of_string x)) (take k l) in
           let f : choice -> pool * err list =
             match op, args with
             | "INIT", spec -> (fun c -> (new_pool c !cfg (chain_of spec) [], []))
             | "ADD", local :: k :: ids ->
               let p = cur () in
               let o = OpAdd ((local = "1"), ids_of (int_of_string k) ids) in
               (fun c -> step c p o)
             | "RESET", spec ->
               let p = cur () in
               let ch = chain_of (take 10 spec) in
               let re = match drop 10 spec with "R" :: k :: ids -> ids_of (int_of_string k) ids | _ -> [] in
               (fun c -> step c p (OpReset (ch, re)))
             | "PRICE", [z] -> let p = cur () in (fun c -> step c p (OpSetPrice (zs z)))
             | "EXPIRE", k :: l -> let p = cur () in
               let addrs = List.map n_of_string (take (int_of_string k) l) in
               (fun c -> step c p (OpExpire addrs))
             | "RELOAD", k :: ids -> let p = cur () in
               let file = ids_of (int_of_string k) ids in
               (fun c -> step c p (OpReload file))
             | _ -> failwith ("bad op: " ^ head) in
           let (p, l) = solve f want in
           pool := Some p;
           print_endline l
         | _ -> failwith ("bad line: " ^ line)))
    lines;
  if !searched > 0 then Printf.eprintf "choice searches: %d\n" !searched
