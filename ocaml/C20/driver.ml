(* C20 model driver: replays the op traces written by the in-package harness
   (harness/overlay/conn/verif_c20_test.go) on the extracted model and prints one observable
   line per op in exactly the harness's format.

   The AEAD Section variable is instantiated by a deterministic stand-in:
     seal k n p = p ++ first 16 bytes of SHA-256(k || n || p)
   (so a sealed frame has the real size and any change of key, nonce or content makes
   [open_] fail); real ciphertext bytes can therefore not be compared, only what is
   delivered and where errors occur.  [pad] is all zeros. *)
open Conv

let digest (l : n list) : string =
  let h = Hash.sha256 (string_of_nlist l) in
  String.concat "" (List.init 8 (fun i -> Printf.sprintf "%02x" (Char.code h.[i])))

let tag (k : int) (nc : n list) (p : string) : string =
  String.sub (Hash.sha256 (Printf.sprintf "%d|" k ^ string_of_nlist nc ^ "|" ^ p)) 0 16

let seal (k : int) (nc : n list) (p : n list) : n list =
  let s = string_of_nlist p in
  nlist_of_string (s ^ tag k nc s)

let open_ (k : int) (nc : n list) (c : n list) : n list option =
  let s = string_of_nlist c in
  let l = String.length s in
  if l < 16 then None
  else
    let p = String.sub s 0 (l - 16) in
    if String.sub s (l - 16) 16 = tag k nc p then Some (nlist_of_string p) else None

let pad (k : nat) : n list = repeat N0 k

let rec take n l = if n <= 0 then [] else match l with [] -> [] | x :: t -> x :: take (n - 1) t
let rec drop n l = if n <= 0 then l else match l with [] -> [] | _ :: t -> drop (n - 1) t

let garbage (seed : int) : n list =
  let sz = int_of_nat sealed_size in
  List.init sz (fun i -> n_of_int ((seed * 31 + i * 7 + (i * i) mod 251) land 255))

let ctr_of (nc : n list) : string = string_of_n (le_decode (drop 4 nc))

let str_rerr = function
  | REof -> "eof" | RUnexpectedEof -> "ueof" | RDecrypt -> "decrypt" | RChunkLen -> "chunklen" | RPanic -> "panic"

let str_merr = function MTooBig -> "toobig" | MUnknownCh -> "unknown" | MCapacity -> "capacity"

let b01 b = if b then "1" else "0"

(* ---------------------------------------------------------------- secret connection case *)
type sc = {
  mutable conns : int conn array;
  pending : n list list array;      (* sealed frames written by [who], not yet forwarded *)
  hist : n list list array;         (* every genuine frame of direction [who], oldest first *)
  inbound : n list array;           (* byte stream still to be read by [who] *)
}

let new_sc () =
  { conns = [| new_conn 1 2; new_conn 2 1 |];
    pending = [| []; [] |]; hist = [| []; [] |]; inbound = [| []; [] |] }

let sc_forward (s : sc) (who : int) (toks : string list) : int =
  let other = 1 - who in
  let added = ref 0 in
  let put (f : n list) = s.inbound.(other) <- s.inbound.(other) @ f; added := !added + List.length f in
  let pop () = match s.pending.(who) with [] -> None | f :: t -> s.pending.(who) <- t; Some f in
  List.iter (fun tok ->
      match String.split_on_char ':' tok with
      | ["K"] -> (match pop () with Some f -> put f | None -> ())
      | ["A"] -> List.iter put s.pending.(who); s.pending.(who) <- []
      | ["D"] -> ignore (pop ())
      | ["U"] -> (match pop () with Some f -> put f; put f | None -> ())
      | ["S"] ->
        (match s.pending.(who) with
         | f :: g :: t -> s.pending.(who) <- t; put g; put f
         | _ -> (match pop () with Some f -> put f | None -> ()))
      | ["X"; pos; mask] ->
        (match pop () with
         | Some f ->
           let pos = int_of_string pos mod List.length f and mask = int_of_string mask in
           put (List.mapi (fun i b -> if i = pos then n_of_int (int_of_n b lxor mask) else b) f)
         | None -> ())
      | ["G"; seed] -> ignore (pop ()); put (garbage (int_of_string seed))
      | ["I"; seed] -> put (garbage (int_of_string seed))
      | ["P"; idx] -> (match List.nth_opt s.hist.(who) (int_of_string idx) with Some f -> put f | None -> ())
      | ["Q"; idx] -> (match List.nth_opt s.hist.(other) (int_of_string idx) with Some f -> put f | None -> ())
      | ["T"; k] -> (match pop () with Some f -> put (take (int_of_string k) f) | None -> ())
      | ["L"; len] ->
        (* a correctly sealed frame of the writer whose length field exceeds dataMaxSize *)
        let c = s.conns.(who) in
        let frame = le_encode data_len_size (n_of_string len) @ repeat N0 data_max_size in
        (match incr_nonce c.send_nonce with
         | Some nc -> put (seal c.send_key c.send_nonce frame); s.conns.(who) <- { c with send_nonce = nc }
         | None -> ())
      | ["C"] -> ()
      | _ -> failwith ("bad forward token " ^ tok)) toks;
  !added

(* ---------------------------------------------------------------- mconnection cases *)
type mc = {
  mutable big : n option;           (* a trailing length prefix (KBIG) *)
  mutable maxp : int;
  mutable chans : chan list;        (* sender side *)
  mutable rchans : chan list;       (* receiver side *)
  mutable stream : packet list;     (* packets emitted / crafted, oldest first (reversed while building) *)
  mutable sent : (int * n list) list; (* (channel index, message) in send order, reversed *)
}

let str_packet (p : packet) : string =
  match p with
  | PktPing -> "ping" | PktPong -> "pong"
  | PktMsg (ch, eof, d) ->
    Printf.sprintf "ch=%s eof=%s len=%d d=%s" (string_of_z ch) (b01 eof) (List.length d) (digest d)

let packets_digest (ps : packet list) : string =
  let b = Buffer.create 1024 in
  List.iter (fun p -> match p with
      | PktMsg (_, eof, d) ->
        Buffer.add_string b (Printf.sprintf "%s:%d:" (b01 eof) (List.length d));
        Buffer.add_string b (string_of_nlist d)
      | _ -> ()) ps;
  let h = Hash.sha256 (Buffer.contents b) in
  String.concat "" (List.init 8 (fun i -> Printf.sprintf "%02x" (Char.code h.[i])))

let () =
  let lines = ref (read_lines stdin) in
  let next () = match !lines with [] -> None | l :: t -> lines := t; Some (tokens l) in
  let s = ref (new_sc ()) in
  let m = ref { big = None; maxp = 1024; chans = []; rchans = []; stream = []; sent = [] } in
  let rec loop () =
    match next () with
    | None -> ()
    | Some [] -> loop ()
    | Some ("CASE" :: id :: _) ->
      s := new_sc ();
      m := { big = None; maxp = 1024; chans = []; rchans = []; stream = []; sent = [] };
      Printf.printf "CASE %s\n" id; loop ()
    (* ---- secret connection *)
    | Some ["INIT"; asend; arecv; bsend; brecv] ->
      let set (c : int conn) sn rn = { c with send_nonce = nonce_of (n_of_string sn); recv_nonce = nonce_of (n_of_string rn) } in
      !s.conns.(0) <- set !s.conns.(0) asend arecv;
      !s.conns.(1) <- set !s.conns.(1) bsend brecv;
      loop ()
    | Some ["SETCTR"; who; which; v] ->
      let w = int_of_string who in
      let c = !s.conns.(w) in
      !s.conns.(w) <- (if which = "s" then { c with send_nonce = nonce_of (n_of_string v) }
                       else { c with recv_nonce = nonce_of (n_of_string v) });
      loop ()
    | Some ["W"; who; hex] ->
      let w = int_of_string who in
      let ((st, out), r) = write seal pad !s.conns.(w) (nlist_of_hex hex) in
      !s.conns.(w) <- st;
      !s.pending.(w) <- !s.pending.(w) @ out;
      !s.hist.(w) <- !s.hist.(w) @ out;
      (match r with
       | WOk k -> Printf.printf "W n=%d none\n" (int_of_nat k)
       | WPanic k -> Printf.printf "W n=%d panic\n" (int_of_nat k));
      loop ()
    | Some ["WF"; who; hex; j] ->
      (* Write whose underlying conn.Write fails at frame j of this call: every sealed frame,
         the failing one included, is on the wire as far as the man in the middle is concerned *)
      let w = int_of_string who in
      let ((st, out), r) = write_f seal pad !s.conns.(w) (nlist_of_hex hex) (Some (nat_of_int (int_of_string j))) in
      !s.conns.(w) <- st;
      !s.pending.(w) <- !s.pending.(w) @ out;
      !s.hist.(w) <- !s.hist.(w) @ out;
      (match r with
       | WFOk k -> Printf.printf "W n=%d none\n" (int_of_nat k)
       | WFErr k -> Printf.printf "W n=%d err\n" (int_of_nat k)
       | WFPanic k -> Printf.printf "W n=%d panic\n" (int_of_nat k));
      loop ()
    | Some ("F" :: who :: toks) ->
      let added = sc_forward !s (int_of_string who) toks in
      Printf.printf "F %d\n" added; loop ()
    | Some ["R"; who; cap] ->
      let w = int_of_string who in
      let ((st, wire), r) = read open_ !s.conns.(w) !s.inbound.(w) (nat_of_int (int_of_string cap)) in
      !s.conns.(w) <- st;
      !s.inbound.(w) <- wire;
      (match r with
       | ROk d -> Printf.printf "R n=%d d=%s none\n" (List.length d) (digest d)
       | RErr e -> Printf.printf "R n=0 d=%s %s\n" (digest []) (str_rerr e));
      loop ()
    | Some ["E"] ->
      let f (c : int conn) = Printf.sprintf "%s/%s/%d" (ctr_of c.send_nonce) (ctr_of c.recv_nonce) (List.length c.recv_buffer) in
      Printf.printf "E a=%s b=%s\n" (f !s.conns.(0)) (f !s.conns.(1)); loop ()
    (* ---- handshake authentication *)
    | Some ["H"; ch; claimed; signer; msg] ->
      let sg = if signer = "0" then SigGarbage else SigOf (n_of_string signer, n_of_string msg) in
      (match verify_auth (n_of_string ch) (n_of_string claimed) sg with
       | HOk r -> Printf.printf "H ok %s\n" (string_of_n r)
       | HFail -> print_string "H fail\n");
      loop ()
    (* ---- transport upgrade: identities are numbered, PubKeyToID is the identity map; the
       challenge of the session is 1 and the far end either signs it (signer <> 0) or sends garbage *)
    | Some ["T"; self; dialed; claimed; signer; info; valid; compat] ->
      let sg = if signer = "0" then SigGarbage else SigOf (n_of_string signer, n_of_int 1) in
      let d = if dialed = "0" then None else Some (n_of_string dialed) in
      let ni = if info = "0" then None
        else Some { ni_id = n_of_string info; ni_valid = (valid = "1"); ni_compat = (compat = "1") } in
      (match upgrade (fun k -> k) (n_of_string self) d (n_of_int 1) (n_of_string claimed) sg ni with
       | UpOk id -> Printf.printf "T ok %s\n" (string_of_n id)
       | UpRej RejAuth -> print_string "T rej auth\n"
       | UpRej RejInvalid -> print_string "T rej invalid\n"
       | UpRej RejSelf -> print_string "T rej self\n"
       | UpRej RejIncompat -> print_string "T rej incompat\n");
      loop ()
    (* ---- mconnection *)
    | Some ["MAXP"; v] -> !m.maxp <- int_of_string v; loop ()
    | Some ["CH"; id; prio; sendcap; recvcap] ->
      let d = { ch_id = n_of_string id; ch_prio = z_of_string prio; ch_sendcap = nat_of_int (int_of_string sendcap);
                ch_recvcap = n_of_string recvcap } in
      !m.chans <- !m.chans @ [new_chan d];
      !m.rchans <- !m.rchans @ [new_chan d];
      loop ()
    | Some ["S"; idx; hex] ->
      let i = int_of_string idx in
      let c = List.nth !m.chans i in
      let msg = nlist_of_hex hex in
      let (c', ok) = try_send c msg in
      !m.chans <- List.mapi (fun j x -> if j = i then c' else x) !m.chans;
      if ok then !m.sent <- (i, msg) :: !m.sent;
      Printf.printf "S %s\n" (if ok then "ok" else "full"); loop ()
    | Some ["P"] ->
      let ((cs, p), exhausted) = send_packet_msg (nat_of_int !m.maxp) !m.chans in
      !m.chans <- cs;
      (match p with
       | Some p ->
         !m.stream <- p :: !m.stream;
         Printf.printf "P %s wire=%d\n" (str_packet p) (List.length (delimited (enc_packet p)))
       | None -> Printf.printf "P exhausted=%s\n" (b01 exhausted));
      loop ()
    | Some ["Q"; idx] ->
      let c = List.nth !m.chans (int_of_string idx) in
      Printf.printf "Q qsize=%s cansend=%s\n" (string_of_z c.qsize) (b01 (can_send c)); loop ()
    | Some ["K"; ch; eof; hex] ->
      !m.stream <- PktMsg (z_of_string ch, eof = "1", nlist_of_hex hex) :: !m.stream; loop ()
    | Some ["KBIG"; len] -> !m.big <- Some (n_of_string len); loop ()
    | Some ["KPING"] -> !m.stream <- PktPing :: !m.stream; loop ()
    | Some ["KPONG"] -> !m.stream <- PktPong :: !m.stream; loop ()
    | Some ["M"; idx; hex] ->
      (* a message handed to Send on channel idx (concurrent case: per-channel order only) *)
      !m.sent <- (int_of_string idx, nlist_of_hex hex) :: !m.sent; loop ()
    | Some ["V"; idx] ->
      (* the packets the model's packetiser makes of the messages sent on channel idx *)
      let i = int_of_string idx in
      let c = List.nth !m.chans i in
      let msgs = List.filter_map (fun (j, x) -> if j = i then Some x else None) (List.rev !m.sent) in
      let ps = List.concat_map (fun x -> packetise c.desc.ch_id (nat_of_int !m.maxp) x) msgs in
      Printf.printf "V ch=%s n=%d d=%s\n" (string_of_n c.desc.ch_id) (List.length ps) (packets_digest ps); loop ()
    | Some ["RX"] ->
      let maxsize = max_packet_msg_size (nat_of_int !m.maxp) in
      let (evs, r) = match !m.big with
        | None -> recv_stream maxsize !m.rchans (List.rev !m.stream)
        | Some len -> recv_stream_then_len maxsize !m.rchans (List.rev !m.stream) len in
      List.iter (fun (Deliver (c, d)) ->
          Printf.printf "D ch=%s len=%d d=%s\n" (string_of_n c) (List.length d) (digest d)) evs;
      Printf.printf "X %s\n" (match r with None -> "eof" | Some e -> str_merr e);
      loop ()
    | Some l -> failwith ("bad line: " ^ String.concat " " l)
  in
  loop ()
