(* Shared glue for model drivers.  Compiled per property with `-open Model`, so the
   constructors XI/XO/XH, N0/Npos, Z0/Zpos/Zneg, O/S below are the *extracted* inductive
   types of that property's model (no Extract Inductive/Constant mapping is used for
   numbers).  zarith is used only here, to read and print decimal numerals. *)

let rec pos_of_zt (x : Zt.ZA.t) : positive =
  if Zt.ZA.equal x Zt.ZA.one then XH
  else if Zt.ZA.equal (Zt.ZA.logand x Zt.ZA.one) Zt.ZA.one then XI (pos_of_zt (Zt.ZA.shift_right x 1))
  else XO (pos_of_zt (Zt.ZA.shift_right x 1))

let rec zt_of_pos (p : positive) : Zt.ZA.t =
  match p with
  | XH -> Zt.ZA.one
  | XO q -> Zt.ZA.shift_left (zt_of_pos q) 1
  | XI q -> Zt.ZA.succ (Zt.ZA.shift_left (zt_of_pos q) 1)

let n_of_zt (x : Zt.ZA.t) : n = if Zt.ZA.sign x <= 0 then N0 else Npos (pos_of_zt x)
let zt_of_n (x : n) : Zt.ZA.t = match x with N0 -> Zt.ZA.zero | Npos p -> zt_of_pos p
let z_of_zt (x : Zt.ZA.t) : z =
  if Zt.ZA.sign x = 0 then Z0 else if Zt.ZA.sign x > 0 then Zpos (pos_of_zt x) else Zneg (pos_of_zt (Zt.ZA.neg x))
let zt_of_z (x : z) : Zt.ZA.t = match x with Z0 -> Zt.ZA.zero | Zpos p -> zt_of_pos p | Zneg p -> Zt.ZA.neg (zt_of_pos p)

let n_of_string s = n_of_zt (Zt.ZA.of_string s)
let z_of_string s = z_of_zt (Zt.ZA.of_string s)
let string_of_n x = Zt.ZA.to_string (zt_of_n x)
let string_of_z x = Zt.ZA.to_string (zt_of_z x)
let n_of_int i = n_of_zt (Zt.ZA.of_int i)
let int_of_n x = Zt.ZA.to_int (zt_of_n x)
let z_of_int i = z_of_zt (Zt.ZA.of_int i)

let rec nat_of_int i : nat = if i <= 0 then O else S (nat_of_int (i - 1))
let rec int_of_nat (x : nat) : int = match x with O -> 0 | S y -> 1 + int_of_nat y

(* bytes <-> hex; a byte string in the models is a list of N (0..255) unless the driver says otherwise *)
let hex_digit c = match c with
  | '0'..'9' -> Char.code c - 48 | 'a'..'f' -> Char.code c - 87 | 'A'..'F' -> Char.code c - 55
  | _ -> failwith "bad hex"
let string_of_hex (h : string) : string =
  let h = if h = "-" then "" else h in
  String.init (String.length h / 2) (fun i -> Char.chr (hex_digit h.[2*i] * 16 + hex_digit h.[2*i+1]))
let hex_of_string (s : string) : string =
  if s = "" then "-" else
  String.concat "" (List.map (fun c -> Printf.sprintf "%02x" (Char.code c)) (List.of_seq (String.to_seq s)))
let nlist_of_string (s : string) : n list = List.map (fun c -> n_of_int (Char.code c)) (List.of_seq (String.to_seq s))
let string_of_nlist (l : n list) : string = String.of_seq (List.to_seq (List.map (fun x -> Char.chr (int_of_n x land 255)) l))
let nlist_of_hex h = nlist_of_string (string_of_hex h)
let hex_of_nlist l = hex_of_string (string_of_nlist l)

let tokens (line : string) : string list =
  List.filter (fun s -> s <> "") (String.split_on_char ' ' (String.trim line))

let read_lines (ic : in_channel) : string list =
  let rec go acc = match input_line ic with
    | l -> go (l :: acc)
    | exception End_of_file -> List.rev acc in
  go []
