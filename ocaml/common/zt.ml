(* alias for zarith Z, taken before -open Model shadows it with the extracted Coq module Z *)
module ZA = Z
