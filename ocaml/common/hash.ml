(* Plain OCaml Keccak-256 (legacy padding 0x01, as Ethereum/Kardia use), SHA-256 and CRC-32C.
   Used only to *run* models whose hash function is a Section variable; no theorem depends on
   this file.  Validated at setup time against digests printed by the Go libraries (tools/hashtest.sh). *)

let rc = [| 0x0000000000000001L; 0x0000000000008082L; 0x800000000000808AL; 0x8000000080008000L;
            0x000000000000808BL; 0x0000000080000001L; 0x8000000080008081L; 0x8000000000008009L;
            0x000000000000008AL; 0x0000000000000088L; 0x0000000080008009L; 0x000000008000000AL;
            0x000000008000808BL; 0x800000000000008BL; 0x8000000000008089L; 0x8000000000008003L;
            0x8000000000008002L; 0x8000000000000080L; 0x000000000000800AL; 0x800000008000000AL;
            0x8000000080008081L; 0x8000000000008080L; 0x0000000080000001L; 0x8000000080008008L |]
let rotc = [| 1; 3; 6; 10; 15; 21; 28; 36; 45; 55; 2; 14; 27; 41; 56; 8; 25; 43; 62; 18; 39; 61; 20; 44 |]
let piln = [| 10; 7; 11; 17; 18; 3; 5; 16; 8; 21; 24; 4; 15; 23; 19; 13; 12; 2; 20; 14; 22; 9; 6; 1 |]
let rol x n = Int64.logor (Int64.shift_left x n) (Int64.shift_right_logical x (64 - n))

let keccak_f (st : int64 array) =
  let bc = Array.make 5 0L in
  for round = 0 to 23 do
    for i = 0 to 4 do
      bc.(i) <- Int64.logxor st.(i) (Int64.logxor st.(i+5) (Int64.logxor st.(i+10) (Int64.logxor st.(i+15) st.(i+20))))
    done;
    for i = 0 to 4 do
      let t = Int64.logxor bc.((i + 4) mod 5) (rol bc.((i + 1) mod 5) 1) in
      let j = ref 0 in
      while !j < 25 do st.(!j + i) <- Int64.logxor st.(!j + i) t; j := !j + 5 done
    done;
    let t = ref st.(1) in
    for i = 0 to 23 do
      let j = piln.(i) in
      let b = st.(j) in
      st.(j) <- rol !t rotc.(i);
      t := b
    done;
    let j = ref 0 in
    while !j < 25 do
      for i = 0 to 4 do bc.(i) <- st.(!j + i) done;
      for i = 0 to 4 do
        st.(!j + i) <- Int64.logxor st.(!j + i) (Int64.logand (Int64.lognot bc.((i + 1) mod 5)) bc.((i + 2) mod 5))
      done;
      j := !j + 5
    done;
    st.(0) <- Int64.logxor st.(0) rc.(round)
  done

let keccak256 (msg : string) : string =
  let rate = 136 in
  let st = Array.make 25 0L in
  let len = String.length msg in
  let padded_len = ((len / rate) + 1) * rate in
  let buf = Bytes.make padded_len '\000' in
  Bytes.blit_string msg 0 buf 0 len;
  Bytes.set buf len (Char.chr (Char.code (Bytes.get buf len) lor 0x01));
  Bytes.set buf (padded_len - 1) (Char.chr (Char.code (Bytes.get buf (padded_len - 1)) lor 0x80));
  let off = ref 0 in
  while !off < padded_len do
    for i = 0 to (rate / 8) - 1 do
      st.(i) <- Int64.logxor st.(i) (Bytes.get_int64_le buf (!off + 8 * i))
    done;
    keccak_f st;
    off := !off + rate
  done;
  let out = Bytes.create 32 in
  for i = 0 to 3 do Bytes.set_int64_le out (8 * i) st.(i) done;
  Bytes.to_string out

(* ---------------------------------------------------------------- SHA-256 *)
let k256 = [|
  0x428a2f98; 0x71374491; 0xb5c0fbcf; 0xe9b5dba5; 0x3956c25b; 0x59f111f1; 0x923f82a4; 0xab1c5ed5;
  0xd807aa98; 0x12835b01; 0x243185be; 0x550c7dc3; 0x72be5d74; 0x80deb1fe; 0x9bdc06a7; 0xc19bf174;
  0xe49b69c1; 0xefbe4786; 0x0fc19dc6; 0x240ca1cc; 0x2de92c6f; 0x4a7484aa; 0x5cb0a9dc; 0x76f988da;
  0x983e5152; 0xa831c66d; 0xb00327c8; 0xbf597fc7; 0xc6e00bf3; 0xd5a79147; 0x06ca6351; 0x14292967;
  0x27b70a85; 0x2e1b2138; 0x4d2c6dfc; 0x53380d13; 0x650a7354; 0x766a0abb; 0x81c2c92e; 0x92722c85;
  0xa2bfe8a1; 0xa81a664b; 0xc24b8b70; 0xc76c51a3; 0xd192e819; 0xd6990624; 0xf40e3585; 0x106aa070;
  0x19a4c116; 0x1e376c08; 0x2748774c; 0x34b0bcb5; 0x391c0cb3; 0x4ed8aa4a; 0x5b9cca4f; 0x682e6ff3;
  0x748f82ee; 0x78a5636f; 0x84c87814; 0x8cc70208; 0x90befffa; 0xa4506ceb; 0xbef9a3f7; 0xc67178f2 |]

let sha256 (msg : string) : string =
  let m32 = 0xFFFFFFFF in
  let rotr x n = ((x lsr n) lor (x lsl (32 - n))) land m32 in
  let h = [| 0x6a09e667; 0xbb67ae85; 0x3c6ef372; 0xa54ff53a; 0x510e527f; 0x9b05688c; 0x1f83d9ab; 0x5be0cd19 |] in
  let len = String.length msg in
  let padded_len = ((len + 8) / 64 + 1) * 64 in
  let buf = Bytes.make padded_len '\000' in
  Bytes.blit_string msg 0 buf 0 len;
  Bytes.set buf len '\x80';
  Bytes.set_int64_be buf (padded_len - 8) (Int64.of_int (len * 8));
  let w = Array.make 64 0 in
  let off = ref 0 in
  while !off < padded_len do
    for i = 0 to 15 do
      w.(i) <- (Int32.to_int (Bytes.get_int32_be buf (!off + 4 * i))) land m32
    done;
    for i = 16 to 63 do
      let s0 = (rotr w.(i-15) 7) lxor (rotr w.(i-15) 18) lxor (w.(i-15) lsr 3) in
      let s1 = (rotr w.(i-2) 17) lxor (rotr w.(i-2) 19) lxor (w.(i-2) lsr 10) in
      w.(i) <- (w.(i-16) + s0 + w.(i-7) + s1) land m32
    done;
    let a = ref h.(0) and b = ref h.(1) and c = ref h.(2) and d = ref h.(3)
    and e = ref h.(4) and f = ref h.(5) and g = ref h.(6) and hh = ref h.(7) in
    for i = 0 to 63 do
      let s1 = (rotr !e 6) lxor (rotr !e 11) lxor (rotr !e 25) in
      let ch = (!e land !f) lxor ((lnot !e) land m32 land !g) in
      let t1 = (!hh + s1 + ch + k256.(i) + w.(i)) land m32 in
      let s0 = (rotr !a 2) lxor (rotr !a 13) lxor (rotr !a 22) in
      let maj = (!a land !b) lxor (!a land !c) lxor (!b land !c) in
      let t2 = (s0 + maj) land m32 in
      hh := !g; g := !f; f := !e; e := (!d + t1) land m32;
      d := !c; c := !b; b := !a; a := (t1 + t2) land m32
    done;
    h.(0) <- (h.(0) + !a) land m32; h.(1) <- (h.(1) + !b) land m32; h.(2) <- (h.(2) + !c) land m32;
    h.(3) <- (h.(3) + !d) land m32; h.(4) <- (h.(4) + !e) land m32; h.(5) <- (h.(5) + !f) land m32;
    h.(6) <- (h.(6) + !g) land m32; h.(7) <- (h.(7) + !hh) land m32;
    off := !off + 64
  done;
  let out = Bytes.create 32 in
  for i = 0 to 7 do Bytes.set_int32_be out (4 * i) (Int32.of_int h.(i)) done;
  Bytes.to_string out

(* ---------------------------------------------------------------- CRC-32C (Castagnoli, reflected) *)
let crc32c_table = lazy (Array.init 256 (fun n ->
  let c = ref n in
  for _ = 0 to 7 do
    if !c land 1 = 1 then c := 0x82F63B78 lxor (!c lsr 1) else c := !c lsr 1
  done; !c))
let crc32c (msg : string) : int =
  let t = Lazy.force crc32c_table in
  let c = ref 0xFFFFFFFF in
  String.iter (fun ch -> c := t.((!c lxor Char.code ch) land 0xFF) lxor (!c lsr 8)) msg;
  !c lxor 0xFFFFFFFF
