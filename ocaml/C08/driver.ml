(* C08 model driver: reads the op trace written by harness/cmd/c08 and prints one observable
   line per op, in exactly the format the harness prints for the implementation.
   Handles (StateDB instances) are numbered by the harness; roots are compared through labels:
   a root gets the index of its first occurrence in the case (harness: by hash; here: by the
   content of the account trie over the case's address/slot universe).
   Every handle is a ModelSnap.sstate (the StateDB with its snapshot fields); the snapshot tree is a
   table root label -> chain of layers (ModelSnap.snap, a value), fed by scommit's hand-over exactly
   as Commit feeds Tree.Update (+ its own Cap(root, 128)), capped by the harness's KP lines, and read
   by its LR lines (each read is done twice: with a bloom filter that holds exactly what was added,
   and with one that always hits; BLOOMDEP if that made a difference).  The table never forgets a
   layer except where Cap(root, 0) replaces the whole tree: it holds at least the layers the
   implementation's tree holds, and the harness only asks (LR) about layers the implementation has. *)
open Conv

let b01 b = if b then "1" else "0"
let sn = string_of_n
let n = n_of_string

let str_answer = function
  | AUnit -> "-" | APanic -> "PANIC" | AB b -> "b" ^ b01 b | ABB (x, y) -> b01 x ^ b01 y
  | AN x -> sn x | AZ z -> string_of_z z
  | AON None -> "-" | AON (Some x) -> sn x
  | ALogs l -> "[" ^ String.concat ";" (List.map (fun r ->
      Printf.sprintf "%s:%s:%s" (sn r.lg_payload) (sn r.lg_txindex) (sn r.lg_index)) l) ^ "]"

let () =
  let lines = ref (read_lines stdin) in
  let next () = match !lines with [] -> None | l :: t -> lines := t; Some (tokens l) in
  let hs : (int, sstate) Hashtbl.t = Hashtbl.create 16 in
  let tree : (int, snap) Hashtbl.t = Hashtbl.create 16 in
  (* content of the layer a handle is attached to (for the invariant Sync, evaluated after every operation) *)
  let bases : (int, account fmap) Hashtbl.t = Hashtbl.create 16 in
  let labels : (string, int) Hashtbl.t = Hashtbl.create 16 in
  let contents : (int, account fmap) Hashtbl.t = Hashtbl.create 16 in
  let ua = ref [] and uk = ref [] in
  let content_key (c : account fmap) =
    String.concat " " (List.map (fun a -> match c a with
      | None -> "-"
      | Some d -> Printf.sprintf "%s,%s,%s,%s" (sn d.ac_nonce) (string_of_z d.ac_balance) (sn d.ac_code)
                    (String.concat "." (List.map (fun k -> sn (d.ac_storage k)) !uk))) !ua) in
  let label_of c =
    let key = content_key c in
    match Hashtbl.find_opt labels key with
    | Some l -> l
    | None -> let l = Hashtbl.length labels in Hashtbl.add labels key l; Hashtbl.replace contents l c; l in
  (* effectful read, threading the handle's state *)
  let rd h q =
    let (s', a) = sstep (Hashtbl.find hs h) (ORead q) in
    Hashtbl.replace hs h s'; str_answer a in
  let layer_of lab = if Hashtbl.mem tree lab then Some (n_of_int lab) else None in
  let register regs = List.iter (fun (r, s) -> Hashtbl.replace tree (int_of_n r) s) regs in
  let fp_none (_ : bkey) = false and fp_all (_ : bkey) = true in
  (* every account and slot of the universe read from the layer kept for a root *)
  let layer_read lab =
    match Hashtbl.find_opt tree lab with
    | None -> "NOLAYER"
    | Some s0 ->
      let cur = ref s0 in
      let bloomdep = ref false in
      let per a =
        let (s1, acc) = snap_account fp_none !cur a in
        let (_, acc') = snap_account fp_all !cur a in
        cur := s1;
        let sl = List.map (fun k ->
            let (s2, v) = snap_storage fp_none !cur a k in
            let (_, v') = snap_storage fp_all !cur a k in
            cur := s2;
            if v <> v' then bloomdep := true;
            sn v) !uk in
        let same = (match acc, acc' with
            | None, None -> true
            | Some x, Some y -> x.ac_nonce = y.ac_nonce && x.ac_balance = y.ac_balance && x.ac_code = y.ac_code
            | _ -> false) in
        if not same then bloomdep := true;
        let hd = (match acc with
            | None -> "-"
            | Some d -> Printf.sprintf "%s,%s,%s" (sn d.ac_nonce) (string_of_z d.ac_balance) (sn d.ac_code)) in
        Printf.sprintf "A%s:%s;%s" (sn a) hd (String.concat "." sl) in
      let line = String.concat " " (List.map per !ua) in
      Hashtbl.replace tree lab !cur;
      if !bloomdep then "BLOOMDEP " ^ line else line in
  let acct h a =
    let e = rd h (QExist a) in let m = rd h (QEmpty a) in
    let b = rd h (QBalance a) in let nn = rd h (QNonce a) in
    let ch = rd h (QCodeHash a) in let c = rd h (QCode a) in let su = rd h (QSuicided a) in
    let bit s = String.sub s 1 1 in
    Printf.sprintf "A%s:%s%s,%s,%s,%s,%s,%s" (sn a) (bit e) (bit m) b nn ch c (bit su) in
  let slotv h a k = let x = rd h (QState (a, k)) in let y = rd h (QCommitted (a, k)) in x ^ "/" ^ y in
  let full h =
    let per a =
      let hd = acct h a in
      let sl = String.concat "." (List.map (slotv h a) !uk) in
      let al = (let s = rd h (QALAddr a) in String.sub s 1 1) ^ String.concat "" (List.map (fun k -> rd h (QALSlot (a, k))) !uk) in
      let tr = String.concat "." (List.map (fun k -> rd h (QTransient (a, k))) !uk) in
      Printf.sprintf "%s,%s,%s,%s" hd sl al tr in
    let accts = String.concat " " (List.map per !ua) in
    let r = rd h QRefund in
    let lg = String.concat " " (List.map (fun t -> Printf.sprintf "L%d=%s" t (rd h (QLogs (n_of_int t)))) [0; 1; 2]) in
    let pi = String.concat "." (List.map (fun t -> rd h (QPreimage (n_of_int t))) [0; 1; 2]) in
    Printf.sprintf "%s R%s %s P%s" accts r lg pi in
  let dump h spec =
    if spec = "F" then full h
    else if spec = "N" then ""
    else match String.split_on_char '.' spec with
      | ["S"; a; k] ->
        let p1 = if a = "-" then "" else
            (acct h (n a) ^ (if k = "-" then "" else "," ^ slotv h (n a) (n k))) ^ " " in
        p1 ^ "R" ^ rd h QRefund
      | _ -> failwith ("bad dump spec " ^ spec) in
  let bool_of s = (s = "1") in
  let rec loop () =
    match next () with
    | None -> ()
    | Some [] -> loop ()
    | Some ("CASE" :: id :: "A" :: a1 :: a2 :: a3 :: "K" :: k1 :: k2 :: k3 :: _) ->
      Hashtbl.reset hs; Hashtbl.reset labels; Hashtbl.reset contents; Hashtbl.reset tree; Hashtbl.reset bases;
      ua := [n a1; n a2; n a3]; uk := [n k1; n k2; n k3];
      ignore (label_of fempty);
      (* snapshot.New on the empty database: one disk layer for the empty root (label 0), generator finished *)
      Hashtbl.replace tree 0 { sn_diffs = []; sn_disk = empty_disk (n_of_int 0) };
      Hashtbl.replace hs 0 (snew_state fempty (layer_of 0)); Hashtbl.replace bases 0 fempty;
      Printf.printf "CASE %s\n" id; loop ()
    | Some (hstr :: code :: rest) ->
      let h = int_of_string hstr in
      let (args, spec) = match List.rev rest with
        | sp :: ra -> (List.rev ra, sp) | [] -> failwith "missing dump spec" in
      if not (Hashtbl.mem hs h) then Hashtbl.replace hs h (snew_state fempty None);
      let st () = Hashtbl.find hs h in
      let apply o = let (s', a) = sstep (st ()) o in Hashtbl.replace hs h s'; str_answer a in
      let res = match code, args with
        | "CA", [a] -> apply (OCreateAccount (n a))
        | "AB", [a; v] -> apply (OAddBalance (n a, z_of_string v))
        | "SB", [a; v] -> apply (OSubBalance (n a, z_of_string v))
        | "BA", [a; v] -> apply (OSetBalance (n a, z_of_string v))
        | "NO", [a; v] -> apply (OSetNonce (n a, n v))
        | "CO", [a; c] -> apply (OSetCode (n a, n c))
        | "SS", [a; k; v] -> apply (OSetState (n a, n k, n v))
        | "SU", [a] -> apply (OSuicide (n a))
        | "AR", [g] -> apply (OAddRefund (n g))
        | "SR", [g] -> apply (OSubRefund (n g))
        | "LG", [p] -> apply (OAddLog (n p))
        | "PI", [hh; p] -> apply (OAddPreimage (n hh, n p))
        | "AA", [a] -> apply (OAddAddressAL (n a))
        | "AS", [a; k] -> apply (OAddSlotAL (n a, n k))
        | "TS", [a; k; v] -> apply (OSetTransient (n a, n k, n v))
        | "TX", [th; ti] -> apply (OSetTxContext (n th, n ti))
        | "SN", [] -> (match sstep (st ()) OSnapshot with
            | (s', AN id) -> Hashtbl.replace hs h s'; "i" ^ sn id
            | _ -> failwith "snapshot")
        | "RV", [id] -> apply (ORevert (n id))
        | "FI", [de] -> apply (OFinalise (bool_of de))
        | "IR", [de] ->
          let (s', _) = sstep (st ()) (OIntermediateRoot (bool_of de)) in
          Hashtbl.replace hs h s'; Printf.sprintf "r%d" (label_of s'.ss_st.st_trie)
        | "CM", [de] ->
          let ((s', c), ho) = scommit (bool_of de) (st ()) in
          Hashtbl.replace hs h s';
          let root = label_of c in
          (* Commit: if parent := s.snap.Root(); parent != root { snaps.Update(root, parent, ...); snaps.Cap(root, 128) } *)
          (match ho with
           | Some o when int_of_n o.ho_parent <> root ->
             (match Hashtbl.find_opt tree (int_of_n o.ho_parent) with
              | Some parent ->
                let updated = snap_update parent (n_of_int root) o.ho_destructs o.ho_accs o.ho_stos in
                Hashtbl.replace tree root (tree_update parent (n_of_int root) o);
                register (snap_cap_regs updated (nat_of_int 128))
              | None -> ())     (* "parent snapshot missing" *)
           | _ -> ());
          Printf.sprintf "r%d" root
        | "CP", [nh] ->
          Hashtbl.replace hs (int_of_string nh) (scopy (st ()));
          (match Hashtbl.find_opt bases h with Some b -> Hashtbl.replace bases (int_of_string nh) b | None -> ());
          "-"
        | "NW", [nh; lab] ->
          (* a label the model never produced can only follow an earlier model/impl mismatch *)
          let l = int_of_string lab in
          let c = (match Hashtbl.find_opt contents l with Some c -> c | None -> fempty) in
          Hashtbl.replace hs (int_of_string nh) (snew_state c (layer_of l)); Hashtbl.replace bases (int_of_string nh) c; "-"
        | "KP", [lab; layers] ->
          let l = int_of_string lab and k = nat_of_int (int_of_string layers) in
          (match Hashtbl.find_opt tree l with
           | Some s ->
             let regs = snap_cap_regs s k in
             if k = O then (match regs with [] -> () | _ -> Hashtbl.reset tree; register regs)
             else (Hashtbl.replace tree l (snap_cap s k); register regs)
           | None -> ());
          "-"
        | "LR", [lab] -> layer_read (int_of_string lab)
        | "DU", [] -> "-"
        | _ -> failwith ("bad line: " ^ String.concat " " (hstr :: code :: rest)) in
      let crashed = (Hashtbl.find hs h).ss_st.st_crashed in
      let res = if crashed then "CRASH" else res in
      (* the invariant Sync (ProofsSnapBridge.v) of every attached StateDB this line touched *)
      let sync_of hh = (match Hashtbl.find_opt hs hh, Hashtbl.find_opt bases hh with
          | Some s, Some b when s.ss_snap <> None -> sync_ok !ua !uk b s
          | _ -> true) in
      let res = if sync_of h then res else "UNSYNC " ^ res in
      print_endline (res ^ "|" ^ dump h spec); loop ()
    | Some l -> failwith ("bad line: " ^ String.concat " " l)
  in
  loop ()
