(* C05 model driver: reads the lives (durable-write logs and WAL records) and the crash points
   written by harness/overlay/consensus/verif_c05_test.go and prints, per crash point, the image
   facts and the recovery observables predicted by the extracted Coq model, in exactly the format
   the harness prints for the implementation. *)
open Conv

type life = { parent : string; writes : (wkind option) array; recs : rkind array }

let n = nat_of_int
let i = int_of_nat

let rec_of_tok (t : string) : rkind =
  match String.split_on_char ':' t with
  | ["eh"; h] -> REnd (n (int_of_string h))
  | ["prop"; h; r; tx] -> RProp (n (int_of_string h), n (int_of_string r), tx = "1")
  | ["part"; h; r; tx] -> RPart (n (int_of_string h), n (int_of_string r), tx = "1")
  | ["vote"; ty; h; r; nl] -> RVote (n (int_of_string ty), n (int_of_string h), n (int_of_string r), nl = "n")
  | ["timeout"; h; r; s] -> RTimeout (n (int_of_string h), n (int_of_string r), n (int_of_string s))
  | ["step"] -> RStep
  | ["peer"] -> RPeer
  | _ -> failwith ("bad record token " ^ t)

(* harness kinds (crClassify) -> model write kinds *)
let wkind_of (kind : string) (h : int) (aux : int) : wkind =
  match kind with
  | "block" -> if h = 0 then WGenBlock else WBlock (n h, aux = 1)
  | "binfo1" -> WGenInfo
  | "canon1" -> WGenCanon
  | "headptr" -> WHeadPtr
  | "apphash1" -> WGenApp
  | "chaincfg" -> WChainCfg
  | "snap" -> WSnap
  | "trie" -> WTrie
  | "cstate" -> WCState (n h)
  | "binfo" -> if aux = 1 then WBinfoAgain (n h) else WBinfo (n h)
  | "head" -> WHead (n h, aux = 1)
  | _ -> WOther

let rec take k l = if k <= 0 then [] else match l with [] -> [] | x :: t -> x :: take (k-1) t

(* the rotation marks of an image: "-" or "c1,c2,..": a cut after that many records of the list *)
let cuts_of (s : string) : int list =
  if s = "-" then [] else List.map int_of_string (String.split_on_char ',' s)

let with_cuts (cuts : int list) (recs : rkind list) : rkind list =
  let rec go idx cuts recs =
    match cuts with
    | c :: ct when c <= idx -> RRot :: go idx ct recs
    | _ -> (match recs with [] -> [] | r :: t -> r :: go (idx + 1) cuts t) in
  go 0 cuts recs

let db_prefix (lf : life) k =
  List.filter_map (fun x -> x) (take k (Array.to_list lf.writes))

let str_rel = function RelNew -> "+" | RelSame -> "=" | RelConf -> "!"
let str_sig with_rel (s : sigobs) =
  let key = if s.s_prop then Printf.sprintf "p:%d:%d" (i s.s_h) (i s.s_r)
    else Printf.sprintf "v%d:%d:%d" (i s.s_ty) (i s.s_h) (i s.s_r) in
  key ^ (if s.s_nil then "n" else "b") ^ (if with_rel then str_rel s.s_rel else "")
let str_sigs with_rel l = if l = [] then "-" else String.concat "," (List.map (str_sig with_rel) l)
let str_class = function RcNone -> "-" | RcEndPresent -> "eh-present" | RcNoMarker -> "no-marker" | RcReplayed -> "replayed"
let b01 b = if b then 1 else 0

let observe sc tl with_rel (im : image) : string =
  let hs = i (store_height im) in
  let hh = match im.i_head with None -> -1 | Some h -> i h in
  let hc = match max_list im.i_cstates with None -> -1 | Some h -> i h in
  let st = List.map (fun h -> string_of_int (i h)) (states_on_disk im) in
  let facts = Printf.sprintf "hs=%d hh=%d hc=%d hcHead=%d st=%s" hs hh hc (b01 (head_has_cstate im))
      (if st = [] then "-" else String.concat "," st) in
  let o = recover sc tl im in
  if not o.r_ok then
    Printf.sprintf "I %s | R FAIL@NewBlockChain:other hh=-1 hc=-1 start=0 bo=0 replay=- repaired=0 | E notstarted panic=- head=-1 repl=- | S -" facts
  else if o.r_onstart_panic then
    Printf.sprintf "I %s | R FAIL@OnStart:other hh=%d hc=%d start=%d bo=%d replay=aborted repaired=0 | E notstarted panic=- head=%d repl=- | S %s"
      facts (i o.r_hh) (i o.r_hc) (i o.r_start) (i o.r_bo) (i o.r_hh) (str_sigs with_rel o.r_sigs)
  else
    let repl = match o.r_repl_meta, o.r_repl_canon with
      | true, true -> "meta+canon" | true, false -> "meta" | false, true -> "canon" | false, false -> "-" in
    Printf.sprintf "I %s | R ok hh=%d hc=%d start=%d bo=%d replay=%s repaired=%d | E committed panic=- head=start repl=%s | S %s"
      facts (i o.r_hh) (i o.r_hc) (i o.r_start) (i o.r_bo) (str_class o.r_replay) (b01 o.r_repaired) repl (str_sigs with_rel o.r_sigs)

let tail_of = function "synced" -> TSynced | "buffered" -> TBuffered | "torn" -> TTorn | t -> failwith ("bad tail " ^ t)

let () =
  let lines = ref (read_lines stdin) in
  let next () = match !lines with [] -> None | l :: t -> lines := t; Some (tokens l) in
  let lives : (int, life) Hashtbl.t = Hashtbl.create 16 in
  let sc = ref { sc_appfixed = true; sc_newtx = false } in
  let rec loop () =
    match next () with
    | None -> ()
    | Some [] -> loop ()
    | Some ("CASE" :: id :: _arch :: _snap :: _heights :: appfixed :: rest) ->
      Hashtbl.reset lives;
      let newtx = match rest with _rot :: "1" :: _ -> true | _ -> false in
      sc := { sc_appfixed = (appfixed = "1"); sc_newtx = newtx };
      Printf.printf "CASE %s\n" id; loop ()
    | Some ["LIFE"; id; parent; nw; _nr] ->
      let id = int_of_string id and nw = int_of_string nw in
      let recs = match next () with
        | Some ("RECS" :: toks) -> Array.of_list (List.map rec_of_tok toks)
        | _ -> failwith "expected RECS" in
      let writes = Array.init nw (fun _ ->
          match next () with
          | Some ("W" :: "db" :: kind :: h :: aux :: _) -> Some (wkind_of kind (int_of_string h) (int_of_string aux))
          | Some ("W" :: "wal" :: _) -> None
          | Some ("W" :: "rot" :: _) -> None
          | _ -> failwith "expected W") in
      Hashtbl.replace lives id { parent; writes; recs };
      loop ()
    | Some ("K" :: k :: tl :: nrecs :: cuts :: np) ->
      let sc = if np = ["np"] then ref { !sc with sc_newtx = false } else sc in
      let l0 = Hashtbl.find lives 0 in
      let im = mk_image (db_prefix l0 (int_of_string k))
          (with_cuts (cuts_of cuts) (take (int_of_string nrecs) (Array.to_list l0.recs))) in
      print_endline (observe !sc (tail_of tl) true im); loop ()
    | Some ["X"; id; k; j; tl; n0; n1; cuts] ->
      let l0 = Hashtbl.find lives 0 and l1 = Hashtbl.find lives (int_of_string id) in
      let im = mk_image (db_prefix l0 (int_of_string k) @ db_prefix l1 (int_of_string j))
          (with_cuts (cuts_of cuts)
             (take (int_of_string n0) (Array.to_list l0.recs) @ take (int_of_string n1) (Array.to_list l1.recs))) in
      print_endline (observe !sc (tail_of tl) false im); loop ()
    | Some l -> failwith ("bad line: " ^ String.concat " " l)
  in
  loop ()
