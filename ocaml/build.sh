#!/bin/bash
# usage: ocaml/build.sh Cxx   — builds /verif/bin/model_Cxx from ocaml/Cxx/{model.ml,model.mli,driver.ml}
# (model.ml/.mli are written by coq/extract/Cxx.v; extra hand-written modules: ocaml/Cxx/extra_*.ml,
#  compiled before the driver, and ocaml/common/hash.ml if ocaml/Cxx/USE_HASH exists)
set -e
P=$1
ROOT=$(cd "$(dirname "$0")/.." && pwd)
B=$ROOT/ocaml/_build/$P
mkdir -p "$B" "$ROOT/bin"
cp "$ROOT/ocaml/$P/model.ml" "$ROOT/ocaml/$P/model.mli" "$B/"
cp "$ROOT/ocaml/common/conv.ml" "$ROOT/ocaml/common/zt.ml" "$B/"
SRC="model.mli model.ml conv.ml"
if [ -f "$ROOT/ocaml/$P/USE_HASH" ]; then cp "$ROOT/ocaml/common/hash.ml" "$B/"; SRC="$SRC hash.ml"; fi
for f in "$ROOT"/ocaml/$P/extra_*.ml; do [ -f "$f" ] && { cp "$f" "$B/"; SRC="$SRC $(basename $f)"; }; done
cp "$ROOT/ocaml/$P/driver.ml" "$B/"
cd "$B"
# -open Model only for the glue and driver (model.ml itself is compiled plainly)
ocamlfind ocamlopt -w -a -package zarith,unix -c zt.ml
ocamlfind ocamlopt -w -a -package zarith,unix -c model.mli
ocamlfind ocamlopt -w -a -package zarith,unix -c model.ml
OBJ="zt.cmx model.cmx"
for f in $SRC driver.ml; do
  case $f in model.ml|model.mli) continue;; esac
  ocamlfind ocamlopt -w -a -package zarith,unix -open Model -c $f
  OBJ="$OBJ ${f%.ml}.cmx"
done
ocamlfind ocamlopt -w -a -package zarith,unix -linkpkg $OBJ -o "$ROOT/bin/model_$P"
