(* C18 model driver: reads the deliveries recorded by harness/overlay/consensus/verif_c18_test.go and
   prints, per operation, the observable the extracted model predicts (same format as impl.txt). *)
open Conv

let z = z_of_string
let zi = z_of_int

(* hex token -> byte list (only the last <= 32 bytes matter to the model) *)
let bytes_of_tok t =
  if t = "-" then []
  else if String.length t > 0 && t.[0] = 'L' then
    let i = String.index t '.' in
    nlist_of_hex (String.sub t (i + 1) (String.length t - i - 1))
  else nlist_of_hex t

let elems_of_tok t : n list =
  if t = "-" || t = "" then []
  else if t.[0] = '#' then List.init (int_of_string (String.sub t 1 (String.length t - 1))) (fun _ -> N0)
  else List.map n_of_string (String.split_on_char ',' t)

(* "<bits>:<elems>" as a wire bit array *)
let wbits_of_tok t : wBits option =
  if t = "nil" then None
  else
    let i = String.index t ':' in
    Some { wb_bits = z (String.sub t 0 i); wb_elems = elems_of_tok (String.sub t (i + 1) (String.length t - i - 1)) }

let wbits_req t = match wbits_of_tok t with Some w -> w | None -> { wb_bits = Z0; wb_elems = [] }

(* "<bits>:<elems>" as a node-side BitArray (bits printed as signed int64) *)
let ba_of_tok t : bitArray option =
  match wbits_of_tok t with
  | None -> None
  | Some w -> Some { ba_bits = as_uint w.wb_bits; ba_elems = w.wb_elems }

let bid h t p = { w_hash = bytes_of_tok h; w_total = z t; w_pshash = bytes_of_tok p }

let wire_of (toks : string list) : wire =
  match toks with
  | ["RAW"] -> WRaw
  | ["UNK"] -> WUnk
  | ["NRS"; h; r; s; secs; lcr] -> WNRS (z h, z r, z s, z secs, z lcr)
  | ["NVB"; h; r; total; hash; ba; ic] -> WNVB (z h, z r, z total, bytes_of_tok hash, wbits_of_tok ba, ic = "1")
  | ["PROP"; h; r; polr; bh; bt; bp; sl] -> WProp (z h, z r, z polr, bid bh bt bp, z sl)
  | ["POL"; h; polr; ba] -> WPOL (z h, z polr, wbits_req ba)
  | ["BP"; h; r; idx; bl; ll; na; bad] -> WBP (z h, z r, z idx, z bl, z ll, z na, z bad)
  | ["VOTE"; "nil"] -> WVoteMsg None
  | ["VOTE"; t; h; r; bh; bt; bp; vi; sl] ->
    WVoteMsg (Some { wv_type = z t; wv_height = z h; wv_round = z r; wv_bid = bid bh bt bp; wv_index = z vi; wv_siglen = z sl })
  | ["HV"; h; r; t; idx] -> WHV (z h, z r, z t, z idx)
  | ["M23"; h; r; t; bh; bt; bp] -> WM23 (z h, z r, z t, bid bh bt bp)
  | ["VSB"; h; r; t; bh; bt; bp; ba] -> WVSB (z h, z r, z t, bid bh bt bp, wbits_req ba)
  | l -> failwith ("bad message line: " ^ String.concat " " l)

let rec split_at_sep acc = function
  | [] -> (List.rev acc, [])
  | "::" :: rest -> (List.rev acc, rest)
  | x :: rest -> split_at_sep (x :: acc) rest

let kv toks key default =
  let pre = key ^ "=" in
  let n = String.length pre in
  match List.find_opt (fun t -> String.length t >= n && String.sub t 0 n = pre) toks with
  | Some t -> String.sub t n (String.length t - n)
  | None -> default

let str_ba = function
  | None -> "nil"
  | Some b -> Printf.sprintf "%s/%d/%s" (string_of_z (as_int b.ba_bits)) (List.length b.ba_elems) (string_of_n (digest b.ba_elems))

let str_prs (p : pRS) =
  Printf.sprintf "H=%s R=%s S=%s P=%s T=%s BP=%s POLR=%s POL=%s PV=%s PC=%s LCR=%s LC=%s CCR=%s CC=%s"
    (string_of_z p.p_height) (string_of_z p.p_round) (string_of_z p.p_step) (if p.p_proposal then "1" else "0")
    (string_of_z p.p_total) (str_ba p.p_parts) (string_of_z p.p_polround) (str_ba p.p_pol)
    (str_ba p.p_prevotes) (str_ba p.p_precommits) (string_of_z p.p_lcr) (str_ba p.p_lc)
    (string_of_z p.p_ccr) (str_ba (cc_of p))

let str_outcome = function
  | Accepted -> "ACC" | Rejected -> "REJ" | Crash -> "CRASH" | LockLeak -> "LOCKLEAK" | Alloc _ -> "ALLOC"

let str_shallow = function ShRej -> "REJ" | ShAcc -> "ACC" | ShRun -> "RUN"


(* ---- HeightVoteSet / fetcher rendering (same format as the harness) *)
let ints_of_tok t : z list =
  (* "[1,2,3]" or "-" *)
  if t = "-" || t = "[]" then []
  else
    let t = if String.length t >= 2 && t.[0] = '[' then String.sub t 1 (String.length t - 2) else t in
    if t = "" then [] else List.map z (String.split_on_char ',' t)

let zcmp a b = Zt.ZA.compare (zt_of_z a) (zt_of_z b)
let str_rounds (l : z list) =
  match List.sort_uniq zcmp l with
  | [] -> "-"
  | l -> String.concat "," (List.map string_of_z l)

let str_zs (l : z list) = "[" ^ String.concat "," (List.map string_of_z (List.sort zcmp l)) ^ "]"
let str_zl (l : z list) = "[" ^ String.concat "," (List.map string_of_z l) ^ "]"
let str_map (f : 'a -> string) (m : (z * 'a) list) =
  match List.sort (fun (a, _) (b, _) -> zcmp a b) m with
  | [] -> "-"
  | m -> String.concat ";" (List.map (fun (k, v) -> string_of_z k ^ ":" ^ f v) m)

let compress s =
  if String.length s <= 1500 then s
  else begin
    let acc = ref 7 in
    String.iter (fun c -> acc := (!acc * 131 + Char.code c) mod 2147483647) s;
    Printf.sprintf "H%d:%d" (String.length s) !acc
  end

let str_fetcher ?(timers = true) (s : fetcher) =
  let tm = List.sort zcmp (List.concat_map (function Some d -> [d] | None -> []) [s.f_wait_timer; s.f_timeout_timer]) in
  compress (Printf.sprintf "now=%s W=%s T=%s S=%s A=%s D=%s F=%s R=%s L=%s U=%s tm=%s"
    (string_of_z s.f_now) (str_map str_zs s.f_waitlist) (str_map string_of_z s.f_waittime) (str_map str_zs s.f_waitslots)
    (str_map str_zs s.f_announces) (str_map str_zs s.f_announced) (str_map string_of_z s.f_fetching)
    (str_map (fun r -> str_zl r.rq_hashes ^ "/" ^ str_zs r.rq_stolen ^ "/" ^ string_of_z r.rq_time) s.f_requests)
    (str_map str_zs s.f_alternates) (str_zs s.f_under)
    (if not timers then "x" else match tm with [] -> "-" | l -> String.concat "," (List.map string_of_z l)))

let str_hvclass = function HVVoteSet -> "VS" | HVErrType -> "ERRTYPE" | HVUnwanted -> "UNWANTED"

type pending =
  | NoPending
  | PVote of pRS * voteset * bitArray option
  | PData of pRS * bitArray option

let () =
  let st : pRS option ref = ref (Some prs0) in
  let pend = ref NoPending in
  let hvs : hVS ref = ref hvs_new in
  let node : nodehv option ref = ref None in
  let node_bad = ref false in
  let fet : fetcher ref = ref f0 in
  let fet_dead = ref false in
  let lines = read_lines stdin in
  List.iter (fun line ->
      let toks = tokens line in
      match toks with
      | [] -> ()
      | "CASE" :: n :: _ ->
        st := Some prs0; pend := NoPending;
        hvs := hvs_new; node := None; node_bad := false; fet := f0; fet_dead := false;
        print_endline ("CASE " ^ n)
      | ["NEWPEER"] -> st := Some prs0
      | "L" :: _ -> print_endline "LIVE"
      | ["X"] -> print_endline "-"
      | ["TW"] -> print_endline "OK"      (* waiting for the tx fetcher's timer: not modelled *)
      | "BF" :: _ -> print_endline "OK"   (* concurrency/timing: not modelled (Open.v item 1) *)
      | ["S"] ->
        (match !st with
         | Some p -> print_endline (str_prs p)
         | None -> print_endline "nostate")
      | "D" :: ch :: rest ->
        let (envt, msgt) = split_at_sep [] rest in
        let e = {
          e_running = (kv envt "run" "1" = "1");
          e_height = z (kv envt "h" "0"); e_vals = z (kv envt "v" "0");
          e_last_commit = z (kv envt "lc" "0"); e_initial = z (kv envt "ih" "1");
          e_our_votes = ba_of_tok (kv envt "ov" "nil");
          e_maj23 = (match kv envt "m23" "skip" with
              | "conflict" -> M23Conflict | "ok" -> M23Ok | "novs" -> M23NoVoteSet | _ -> M23Skip) } in
        let has_ps = (kv envt "ps" "1" = "1") in
        let cur = if has_ps then !st else None in
        let (o, s') = handle e (zi (int_of_string ("0x" ^ ch))) (wire_of msgt) cur in
        if has_ps then st := s';
        (match !node with
         | Some nd when o = Accepted ->
           (match node_deliver e.e_running has_ps (zi (int_of_string ("0x" ^ ch))) (wire_of msgt) (zi 0) nd with
            | Ok nd' -> node := Some nd'
            | _ -> node_bad := true)
         | _ -> ());
        (* a peer that has already been stopped and removed cannot be stopped again: Rejected is
           not observable for it (StopPeerForError returns early) *)
        print_endline (if (not has_ps) && o = Rejected then "ACC" else str_outcome o)
      | "G" :: "PICK" :: h :: r :: t :: size :: ic :: [ba] ->
        (match !st with
         | None -> print_endline "nostate"
         | Some p ->
           let v = { vs_height = z h; vs_round = z r; vs_type = z t; vs_size = z size; vs_commit = (ic = "1"); vs_bits = ba_of_tok ba } in
           let ((pk, p2), d) = pick_vote p v in
           (match pk with
            | PickCrash -> print_endline "CRASH"
            | PickAlloc _ -> print_endline "ALLOC"
            | PickNone -> st := Some p2; print_endline "none"
            | PickSome -> st := Some p2; pend := PVote (p2, v, d); print_endline "some"))
      | "G" :: "DATA" :: rest ->
        (match !st with
         | None -> print_endline "nostate"
         | Some p ->
           let hh = (kv rest "hh" "0" = "1") in
           let ours = ba_of_tok (kv rest "ours" "nil") in
           let (pk, d) = gossip_data p hh ours in
           (match pk with
            | PickCrash -> print_endline "CRASH"
            | PickAlloc _ -> print_endline "ALLOC"
            | PickNone -> print_endline "none"
            | PickSome -> pend := PData (p, d); print_endline "some"))
      | ["GI"; idx] ->
        (match !pend with
         | PVote (p2, v, d) ->
           if not (pickable d (z idx)) then print_endline "BADIDX";
           (match pick_vote_post p2 v (z idx) with
            | Ok p3 -> st := Some p3
            | _ -> print_endline "CRASH-POST")
         | PData (p, d) ->
           if not (pickable d (z idx)) then print_endline "BADIDX";
           (match set_has_part p p.p_height p.p_round (z idx) with
            | Ok p3 -> st := Some p3
            | _ -> print_endline "CRASH-POST")
         | NoPending -> print_endline "BADGI");
        pend := NoPending
      | ["HI"] -> hvs := hvs_new
      | ["HA"; t; r; peer] ->
        (match hvs_add_vote !hvs (z t) (z r) (z peer) with
         | Ok (h', cls) -> hvs := h'; print_endline (str_hvclass cls ^ " R=" ^ str_rounds h'.hv_rounds)
         | RCrash -> print_endline "CRASH"
         | RAlloc _ -> print_endline "ALLOC")
      | ["HR"; r] ->
        (match hvs_set_round !hvs (z r) with
         | Ok h' -> hvs := h'; print_endline ("OK R=" ^ str_rounds h'.hv_rounds)
         | RCrash -> print_endline "CRASH"
         | RAlloc _ -> print_endline "ALLOC")
      | ["HINIT"; h; hr; rs] ->
        let rounds = ints_of_tok (String.sub rs 2 (String.length rs - 2)) in
        node_bad := false;
        node := Some { nh_height = z h; nh_hvs = { hv_round = z hr; hv_rounds = rounds; hv_catchup = [] } }
      | ["NOBS"; h; hr] ->
        (match !node with
         | Some nd ->
           (match node_observe nd (z h) (z hr) with
            | Ok nd' -> node := Some nd'
            | _ -> node_bad := true)
         | None -> ())
      | ["HS"] ->
        (match !node with
         | Some nd -> print_endline (if !node_bad then "CRASH" else "R=" ^ str_rounds nd.nh_hvs.hv_rounds)
         | None -> print_endline "nonode")
      | "N" :: "FIRE" :: _ -> print_endline "OK"
      | ["N"; "VOTES"; t; r; n] ->
        (match !node with
         | Some nd ->
           let cur = ref nd in
           for _ = 1 to int_of_string n do
             (match node_vote !cur (z t) (!cur).nh_height (z r) (zi 1) with
              | Ok nd' -> cur := nd'
              | _ -> node_bad := true)
           done;
           node := Some !cur;
           print_endline (if !node_bad then "CRASH-CS" else "OK")
         | None -> print_endline "OK")
      | "TS" :: _ -> print_endline "OK"   (* real-time sequence on the reactor: direct oracles only *)
      | ["FI"] -> fet := f0; fet_dead := false
      | ["FK"; h] -> fet := w_known (zs_add (z h) (!fet).f_known) !fet
      | "FN" :: _ | "FE" :: _ | "FD" :: _ | "FT" :: _ | "FDX" :: _ ->
        let ev, k = match toks with
          | ["FN"; k; p; hs] -> ENotify (z p, ints_of_tok hs), z k
          | ["FE"; k; p; d; l] ->
            let txs = if l = "-" then [] else
                List.map (fun t -> match String.split_on_char ':' t with
                    | [a; b] -> (z a, z b) | _ -> failwith ("bad tx verdict " ^ t)) (String.split_on_char ',' l) in
            EEnqueue (z p, txs, d = "1"), z k
          | ["FD"; k; p] | ["FDX"; k; p] -> EDrop (z p), z k
          | ["FT"; k; d] -> EAdvance (z d), z k
          | l -> failwith ("bad fetcher line: " ^ String.concat " " l) in
        if !fet_dead then print_endline "DEAD"
        else (match fstep k !fet ev with
            | FOk s' ->
              fet := s';
              (* the quadratic consistency check is for the ordinary (small) states *)
              let small = List.length s'.f_waitlist + List.length s'.f_announced + List.length s'.f_fetching < 300 in
              let line = str_fetcher ~timers:(List.hd toks <> "FDX") s' in
              print_endline (line ^ (if (not small) || fetcher_ok s' then "" else " INCONSISTENT"))
            | FCrash -> fet_dead := true; print_endline "CRASH")
      | "B" :: rest ->
        let (_, m) = split_at_sep [] rest in
        let (msg, conv) = match m with
          | ["RAW"] -> (BRaw, false)
          | ["SREQ"] -> (BStatusReq, true)
          | ["SRESP"; b; h] -> (BStatusResp (z b, z h), true)
          | ["BREQ"; h] -> (BBlockReq (z h), true)
          | ["NOBLK"; h] -> (BNoBlock (z h), true)
          | ["BRESP"; ok; _] -> (BBlockResp (ok = "ok=1"), ok = "ok=1")
          | l -> failwith ("bad bc line: " ^ String.concat " " l) in
        print_endline (str_outcome (bc_receive msg conv))
      | "T" :: rest ->
        let (_, m) = split_at_sep [] rest in
        let msg = match m with
          | ["RAW"] -> TRaw | ["UNK"] -> TUnk
          | ["TXS"; n; bad] -> TTxs (z n, z bad)
          | ["PTXS"; n; bad] -> TPooled (z n, z bad)
          | ["HASHES"; n] -> THashes (z n)
          | ["REQ"; n] -> TReq (z n)
          | l -> failwith ("bad tx line: " ^ String.concat " " l) in
        print_endline (str_shallow (tx_receive msg))
      | "E" :: rest ->
        let (_, m) = split_at_sep [] rest in
        let msg = match m with
          | ["RAW"] -> ERaw
          | ["EVL"; n; d] -> EList (z n, d = "dec=1")
          | l -> failwith ("bad ev line: " ^ String.concat " " l) in
        print_endline (str_shallow (ev_receive msg))
      | "X" :: rest ->
        let (_, m) = split_at_sep [] rest in
        let msg = match m with
          | ["RAW"] -> PRaw
          | ["REQ"] -> PReq
          | ["ADDRS"; _; sol; lst] ->
            let addrs = if lst = "-" then [] else
                List.map (fun t -> match String.split_on_char ':' t with
                    | [a; b] -> (a = "1", z b) | _ -> failwith ("bad address " ^ t)) (String.split_on_char ',' lst) in
            PAddrs (addrs, sol = "sol=1")
          | l -> failwith ("bad pex line: " ^ String.concat " " l) in
        print_endline (str_shallow (pex_receive msg))
      | "F" :: rest ->
        let (envt, m) = split_at_sep [] rest in
        let cfg = { c_max_packet = z (kv envt "max" "0");
                    c_caps = [ (zi 0x20, z (kv envt "cap20" "0")); (zi 0x21, z (kv envt "cap21" "0")) ] } in
        (* frames separated by ";" *)
        let rec frames acc cur = function
          | [] -> List.rev (if cur = [] then acc else List.rev cur :: acc)
          | ";" :: t -> frames (List.rev cur :: acc) [] t
          | x :: t -> frames acc (x :: cur) t in
        let fr = List.map (function
            | ["PING"] -> FPing | ["PONG"] -> FPong | ["BIGLEN"] -> FBigLen | ["GARBAGE"] -> FGarbage | ["EMPTY"] -> FEmpty
            | ["MSG"; ch; eof; dl; pl] -> FMsg (z ch, eof = "1", z dl, z pl)
            | l -> failwith ("bad frame: " ^ String.concat " " l)) (frames [] [] m) in
        let evs = frames_run cfg [] fr in
        print_endline (String.concat "|" (List.map (function
            | FRecv (ch, total) -> Printf.sprintf "RECV %02x %s" (Zt.ZA.to_int (zt_of_z ch)) (string_of_z total)
            | FErr -> "ERR") evs))
      | l -> failwith ("bad line: " ^ String.concat " " l))
    lines
