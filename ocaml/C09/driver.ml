(* C09 model driver: reads the block traces written by the in-package harness
   (harness/overlay/blockchain/verif_c09_test.go) and prints, for every transaction and every
   block end, the same observable line the harness printed for the implementation.

   The interpreter is abstract in the model ([run] is a Section variable): the driver
   instantiates it with the outcome the harness recorded for that transaction's VM run (VM / W
   lines).  If the model asks for a run the implementation did not make, or does not ask for one
   it made, the line is flagged, so the comparison fails. *)
open Conv

let opt_n = function "-" -> None | s -> Some (n_of_string s)

let err_of = function
  | "ok" -> VOk | "revert" -> VRevert | _ -> VFail

let str_txerr = function
  | ESig -> "sig" | ENonceHigh -> "nonce-high" | ENonceLow -> "nonce-low" | EFunds -> "funds"
  | EGasLimit -> "gas-limit" | EGasOverflow -> "gas-overflow" | EIntrinsic -> "intrinsic"
  | EFundsTransfer -> "funds-transfer"

let str_vmerr = function
  | VOk -> "ok" | VRevert -> "revert" | VFail -> "fail" | VCodeStore -> "codestore"
  | VMaxCode -> "maxcode" | VCollision | VBalance -> "early"

let acct_eq a b =
  string_of_z a.a_bal = string_of_z b.a_bal && string_of_z a.a_nonce = string_of_z b.a_nonce
  && string_of_n a.a_code = string_of_n b.a_code && string_of_n a.a_stor = string_of_n b.a_stor

let str_acct a =
  Printf.sprintf "%s,%s,%s,%s" (string_of_z a.a_bal) (string_of_z a.a_nonce) (string_of_n a.a_code)
    (string_of_n a.a_stor)

let () =
  let lines = ref (read_lines stdin) in
  let next () = match !lines with [] -> None | l :: t -> lines := t; Some (tokens l) in
  let peek () = match !lines with [] -> None | l :: _ -> Some (tokens l) in
  (* per case *)
  let env = ref { e_coinbase = N0; e_galaxias = false; e_gaslimit = Z0 } in
  let univ : (string * n) list ref = ref [] in
  let state0 = ref (mk_state []) in
  let b = ref (block_start !env !state0) in
  let pb = ref (block_start !env !state0) in
  let txs : msg list ref = ref [] in
  let oracle : (string, run_output) Hashtbl.t = Hashtbl.create 16 in
  let created : (string, n) Hashtbl.t = Hashtbl.create 16 in
  let asked : (string, unit) Hashtbl.t = Hashtbl.create 16 in
  let missing = ref false in
  let run (_ : state) (ci : call_input) : run_output =
    let k = string_of_n ci.ci_msg in
    Hashtbl.replace asked k ();
    match Hashtbl.find_opt oracle k with
    | Some o -> o
    | None ->
      missing := true;
      { ro_err = VFail; ro_gas = Z0; ro_retlen = Z0; ro_retcode = N0; ro_refund = Z0; ro_burn = Z0;
        ro_writes = [] } in
  let create_address (a : n) (nonce : z) : n =
    match Hashtbl.find_opt created (string_of_n a ^ "/" ^ string_of_z nonce) with
    | Some x -> x | None -> N0 in
  let rec loop () =
    match next () with
    | None -> ()
    | Some [] -> loop ()
    | Some ("CASE" :: id :: gal :: cb :: gl :: nacc :: _) ->
      let nacc = int_of_string nacc in
      let accs = List.init nacc (fun _ ->
          match next () with
          | Some ["A"; a; bal; nonce; code; stor] ->
            (a, (n_of_string a, { a_bal = z_of_string bal; a_nonce = z_of_string nonce;
                                  a_code = n_of_string code; a_stor = n_of_string stor }))
          | _ -> failwith "expected A") in
      univ := List.map (fun (s, (a, _)) -> (s, a)) accs;
      state0 := mk_state (List.map snd accs);
      env := { e_coinbase = n_of_string cb; e_galaxias = (gal = "1"); e_gaslimit = z_of_string gl };
      b := block_start !env !state0;
      txs := [];
      Hashtbl.reset oracle; Hashtbl.reset created; Hashtbl.reset asked;
      Printf.printf "CASE %s\n" id; loop ()
    | Some ["TX"; id; sigok; from; to_; nonce; gas; price; value; data; cad; hasvm] ->
      let m = { m_id = n_of_string id; m_sigok = (sigok = "1"); m_from = n_of_string from;
                m_to = opt_n to_; m_nonce = z_of_string nonce; m_gas = z_of_string gas;
                m_price = z_of_string price; m_value = z_of_string value;
                m_data = nlist_of_hex data } in
      if cad <> "-" then
        Hashtbl.replace created (string_of_n m.m_from ^ "/" ^ string_of_z m.m_nonce) (n_of_string cad);
      if hasvm = "1" then begin
        match next () with
        | Some ["VM"; err; left; retlen; retcode; refund; burn; nw] ->
          let ws = List.init (int_of_string nw) (fun _ ->
              match next () with
              | Some ["W"; a; dbal; dn; code; stor; dead] ->
                { w_addr = n_of_string a; w_dbal = z_of_string dbal; w_dnonce = z_of_string dn;
                  w_code = opt_n code; w_stor = opt_n stor; w_dead = (dead = "1") }
              | _ -> failwith "expected W") in
          Hashtbl.replace oracle id
            { ro_err = err_of err; ro_gas = z_of_string left; ro_retlen = z_of_string retlen;
              ro_retcode = n_of_string retcode; ro_refund = z_of_string refund;
              ro_burn = z_of_string burn; ro_writes = ws }
        | _ -> failwith "expected VM"
      end;
      missing := false;
      let before = !b in
      let out = apply_transaction64 run create_address !env before.b_state before.b_pool m in
      let after = commit_step64 run create_address !env before m in
      b := after;
      txs := m :: !txs;
      let flags =
        (if !missing then " !model-ran-vm-without-oracle" else "")
        ^ (if hasvm = "1" && not (Hashtbl.mem asked id) then " !oracle-unused" else "") in
      let changes = List.filter_map (fun (s, a) ->
          let x0 = get before.b_state a and x1 = get after.b_state a in
          if acct_eq x0 x1 then None else Some (s ^ "=" ^ str_acct x1)) !univ in
      let sum = string_of_z (total (List.map snd !univ) after.b_state) in
      let tail = sum ^ " " ^ String.concat " " changes ^ flags in
      (match out with
       | Executed (_, pool_apply, r) ->
         let early = (match r.x_vmerr with VCollision | VBalance -> true | _ -> false) in
         Printf.printf "t ok %s %s %s %s %s %s %s %s %s %s %s\n"
           (if r.x_failed then "0" else "1") (string_of_z r.x_used) (string_of_z after.b_cum)
           (string_of_z pool_apply) (string_of_z after.b_pool)
           (string_of_z (get after.b_state m.m_from).a_bal)
           (if early then "-" else string_of_z r.x_vmgas)
           (if early then "-" else string_of_z r.x_vmleft)
           (str_vmerr r.x_vmerr) (string_of_z r.x_burnt) tail
       | Rejected (e, s_apply, pool_apply) ->
         Printf.printf "t %s - - %s %s %s %s - - - 0 %s\n" (str_txerr e) (string_of_z after.b_cum)
           (string_of_z pool_apply) (string_of_z after.b_pool)
           (string_of_z (get s_apply m.m_from).a_bal) tail
       | Panicked -> Printf.printf "t PANIC %s\n" tail);
      loop ()
    | Some ["END"] ->
      (* the whole block in one go (commit_block), which must agree with the stepwise run *)
      let fin = commit_block64 run create_address !env !state0 (List.rev !txs) in
      let sum = string_of_z (total (List.map snd !univ) fin.b_state) in
      let agree = string_of_z fin.b_pool = string_of_z !b.b_pool && string_of_z fin.b_cum = string_of_z !b.b_cum
                  && List.length fin.b_receipts = List.length !b.b_receipts
                  && List.for_all (fun (_, a) -> acct_eq (get fin.b_state a) (get !b.b_state a)) !univ in
      Printf.printf "b %s %s %d %s%s%s\n" (string_of_z fin.b_pool) (string_of_z fin.b_cum)
        (List.length fin.b_receipts) sum (if fin.b_panic then " PANIC" else "")
        (if agree then "" else " !stepwise-differs");
      loop ()
    | Some ["PB"] ->
      (* run D: the proposal builder starts from the same state with a fresh pool *)
      pb := block_start !env !state0; loop ()
    | Some ["PT"; i] ->
      let m = List.nth (List.rev !txs) (int_of_string i) in
      missing := false;
      let before = !pb in
      let out = apply_transaction64 run create_address !env before.b_state before.b_pool m in
      let after = propose_step64 run create_address !env before m in
      pb := after;
      let cls = (match out with
          | Executed _ -> "ok" | Rejected (e, _, _) -> str_txerr e | Panicked -> "PANIC") in
      Printf.printf "p %s %s %s %d %s%s\n" cls (string_of_z after.b_pool) (string_of_z after.b_cum)
        (List.length after.b_receipts) (string_of_z (total (List.map snd !univ) after.b_state))
        (if !missing then " !model-ran-vm-without-oracle" else "");
      loop ()
    | Some ["PR"; which] ->
      (* run E: StateProcessor.Process on the executed transactions / on the whole block *)
      let all = List.rev !txs in
      let executed = List.filter (fun m -> List.exists (fun ((id, _), _) -> string_of_n id = string_of_n m.m_id) !b.b_receipts) all in
      (match process_block64 run create_address !env !state0 (if which = "kept" then executed else all) with
       | None -> Printf.printf "r rejected 0 0 -\n"
       | Some f ->
         Printf.printf "r ok %s %d %s%s\n" (string_of_z f.b_cum) (List.length f.b_receipts)
           (string_of_z (total (List.map snd !univ) f.b_state)) (if f.b_panic then " PANIC" else ""));
      loop ()
    | Some l -> failwith ("bad line: " ^ String.concat " " l)
  in
  ignore peek;
  loop ()
