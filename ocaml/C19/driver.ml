(* C19 model driver: reads the op trace written by the C19 harness and prints one observable
   line per op, in exactly the format the harness prints for the implementation.

   line formats (tokens separated by blanks; numbers decimal):
     CASE n
     EV id hash size total power time <voteA:20> <voteB:20>        declaration, no output
     k INIT <st:5>
     k META h t
     k VALS h n (addr power)*
     k PEER id | k CONS id
     k BLOCK maxnum n id*
     k PEND maxbytes
     k UPD <st:5> n id*
     k APPLY maxnum <st:5> n id*
     k RESTART <st:5>
     k GEN newid inith lasttime me nlc (addr time)* nlv (addr power)* nv (addr power)* hash size <va:20> <vb:20>
   vote = idx addr height round type time bh bt bp <sig:11>;  sig = sid empty signer chain type height round bh bt bp time
   st = height time maxblocks maxdur chain *)
open Conv

let bid h t p = { b_hash = n_of_string h; b_total = n_of_string t; b_phash = n_of_string p }

let rec take n l = if n = 0 then [] else match l with [] -> failwith "take" | x :: t -> x :: take (n-1) t
let rec drop n l = if n = 0 then l else match l with [] -> failwith "drop" | _ :: t -> drop (n-1) t

let sig_of = function
  | [sid; se; sg; ch; ty; h; r; bh; bt; bp; tm] ->
    { s_id = n_of_string sid; s_empty = (se = "1"); s_signer = n_of_string sg; s_chain = n_of_string ch;
      s_type = n_of_string ty; s_height = n_of_string h; s_round = n_of_string r;
      s_bid = bid bh bt bp; s_time = z_of_string tm }
  | l -> failwith ("bad sig: " ^ String.concat " " l)

let vote_of l = match take 9 l with
  | [idx; addr; h; r; ty; tm; bh; bt; bp] ->
    { v_idx = n_of_string idx; v_addr = n_of_string addr; v_height = n_of_string h; v_round = n_of_string r;
      v_type = n_of_string ty; v_time = z_of_string tm; v_bid = bid bh bt bp; v_sig = sig_of (take 11 (drop 9 l)) }
  | _ -> failwith "bad vote"

let st_of = function
  | [h; t; mb; md; ch] ->
    { st_height = z_of_string h; st_time = z_of_string t;
      st_params = { max_age_blocks = z_of_string mb; max_age_dur = z_of_string md }; st_chain = n_of_string ch }
  | _ -> failwith "bad st"

let str_verr = function
  | VOk -> "ok" | VNoHeader -> "noheader" | VTime -> "time" | VExpired -> "expired" | VNoVals -> "novals"
  | VNotVal -> "notval" | VIndex -> "index" | VHRS -> "hrs" | VAddr -> "addr" | VSameId -> "sameid" | VPower -> "power"
  | VTotal -> "total" | VSigA -> "siga" | VSigB -> "sigb"
let str_res = function
  | ROk -> "ok" | RBasic -> "basic" | RInvalid e -> "inv:" ^ str_verr e | RCommitted -> "committed"
  | RDuplicate -> "duplicate" | ROverflow -> "overflow" | RPanic -> "panic" | RErr -> "err"

let str_key (h, x) = Printf.sprintf "%s/%s" (string_of_z h) (string_of_n x)
let str_ekey e = str_key (Z.of_N e.e_a.v_height, e.e_hash)
let join f l = if l = [] then "-" else String.concat "," (List.map f l)

let str_pool p =
  Printf.sprintf "P=%s C=%s L=%s S=%s" (join str_ekey p.p_pending) (join str_key p.p_committed)
    (join (fun e -> string_of_n e.e_hash) p.p_list) (string_of_z p.p_size)

let () =
  let lines = ref (read_lines stdin) in
  let next () = match !lines with [] -> None | l :: t -> lines := t; Some (tokens l) in
  let evs : (string, evidence) Hashtbl.t = Hashtbl.create 64 in
  let nodes : (string, node) Hashtbl.t = Hashtbl.create 4 in
  let ev id = try Hashtbl.find evs id with Not_found -> failwith ("unknown evidence " ^ id) in
  let node k = try Hashtbl.find nodes k with Not_found -> failwith ("unknown node " ^ k) in
  let evlist l = match l with
    | n :: rest -> let n = int_of_string n in (List.map ev (take n rest), drop n rest)
    | [] -> failwith "evlist" in
  let pairs n l f = List.init n (fun i -> f (List.nth l (2*i)) (List.nth l (2*i+1))) in
  let vals n l = pairs n l (fun a p -> { val_addr = n_of_string a; val_power = z_of_string p }) in
  let do_op k o extra =
    let (n', ob) = step (node k) o in
    Hashtbl.replace nodes k n';
    print_endline (str_res ob.o_res ^ extra ob ^ " " ^ str_pool n'.n_pool) in
  let noextra _ = "" in
  let rec loop () =
    match next () with
    | None -> ()
    | Some [] -> loop ()
    | Some ("CASE" :: id :: _) ->
      Hashtbl.reset evs; Hashtbl.reset nodes;
      Printf.printf "CASE %s\n" id; loop ()
    | Some ("EV" :: id :: hash :: size :: total :: power :: time :: rest) ->
      Hashtbl.replace evs id
        { e_hash = n_of_string hash; e_size = z_of_string size; e_a = vote_of (take 20 rest);
          e_b = vote_of (drop 20 rest); e_total = z_of_string total; e_power = z_of_string power;
          e_time = z_of_string time };
      loop ()
    | Some (k :: "INIT" :: st) ->
      let n = empty_node (st_of st) in
      Hashtbl.replace nodes k n;
      print_endline ("ok " ^ str_pool n.n_pool); loop ()
    | Some [k; "META"; h; t] -> do_op k (OpSaveMeta (z_of_string h, z_of_string t)) noextra; loop ()
    | Some (k :: "VALS" :: h :: n :: rest) ->
      do_op k (OpSaveVals (z_of_string h, vals (int_of_string n) rest)) noextra; loop ()
    | Some [k; "PEER"; id] -> do_op k (OpPeer (ev id)) noextra; loop ()
    | Some [k; "CONS"; id] -> do_op k (OpCons (ev id)) noextra; loop ()
    | Some (k :: "BLOCK" :: mx :: rest) ->
      let (es, _) = evlist rest in do_op k (OpBlock (z_of_string mx, es)) noextra; loop ()
    | Some [k; "PEND"; mb] ->
      do_op k (OpPending (z_of_string mb))
        (fun ob -> Printf.sprintf " [%s] %s" (join str_ekey ob.o_list) (string_of_z ob.o_size)); loop ()
    | Some (k :: "UPD" :: rest) ->
      let st = st_of (take 5 rest) in let (es, _) = evlist (drop 5 rest) in
      do_op k (OpUpdate (st, es)) noextra; loop ()
    | Some (k :: "APPLY" :: mx :: rest) ->
      let st = st_of (take 5 rest) in let (es, _) = evlist (drop 5 rest) in
      do_op k (OpApply (z_of_string mx, st, es)) noextra; loop ()
    | Some (k :: "RESTART" :: st) -> do_op k (OpRestart (st_of st)) noextra; loop ()
    | Some (k :: "GEN" :: newid :: inith :: lasttime :: me :: rest) ->
      let nlc = int_of_string (List.hd rest) in
      let rest = List.tl rest in
      let lc = pairs nlc rest (fun a t -> (n_of_string a, z_of_string t)) in
      let rest = drop (2*nlc) rest in
      let nlv = int_of_string (List.hd rest) in
      let lv = vals nlv (List.tl rest) in
      let rest = drop (2*nlv) (List.tl rest) in
      let nv = int_of_string (List.hd rest) in
      let vs = vals nv (List.tl rest) in
      let rest = drop (2*nv) (List.tl rest) in
      (match rest with
       | hash :: size :: vv ->
         let cs = { cs_init_height = n_of_string inith; cs_last_block_time = z_of_string lasttime;
                    cs_last_commit = lc; cs_last_vals = lv; cs_vals = vs; cs_me = n_of_string me } in
         do_op k (OpGen (cs, n_of_string hash, z_of_string size, vote_of (take 20 vv), vote_of (drop 20 vv)))
           (fun ob -> match ob.o_gen with
              | Some GSelf -> " gen:self"
              | Some GNil -> " gen:nil"
              | Some (GEvidence e) ->
                Hashtbl.replace evs newid e;
                Printf.sprintf " gen:%s,%s,%s,%s,%s" (string_of_n e.e_a.v_sig.s_id) (string_of_n e.e_b.v_sig.s_id)
                  (string_of_z e.e_total) (string_of_z e.e_power) (string_of_z e.e_time)
              | None -> " gen:?")
       | _ -> failwith "bad GEN");
      loop ()
    | Some l -> failwith ("bad line: " ^ String.concat " " l)
  in
  loop ()
