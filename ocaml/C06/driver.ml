(* C06 model driver: reads the lines written by the C06 harness (overlay test in
   mainchain/blockchain) and prints one observable line per op, in exactly the format the
   harness prints for the implementation.
     U/A/P/Q/UE  flush of the dirty objects: content digest in the reported order and in the
                 permuted order (sha256 of the canonical rendering, as the harness computes it
                 from the state dump of the real node)
     R/T/L/RE    receipts: gas used, cumulative gas, bloom bits (Keccak instantiates the abstract
                 bit-setting functions of the model)
     VL/VR       calculateValidatorSetUpdates + UpdateWithChangeSet
     B           validateBlock verdict class
     J/JO/JC     a chain of blocks of StateDB operations executed by a node that keeps snapshots
                 (reads through the diff layers, Cap after every block): the reads, the digest of
                 the universe seen through the layers and the digest seen in the tries *)
open Conv

let sn = string_of_n
let sz = string_of_z
let nn = n_of_string
let zz = z_of_string

let hexs (s : string) : string =
  String.concat "" (List.map (fun c -> Printf.sprintf "%02x" (Char.code c)) (List.of_seq (String.to_seq s)))
let sha8 (s : string) : string = String.sub (hexs (Hash.sha256 s)) 0 20

(* big-endian encoding of a number on [w] bytes *)
let be_bytes (w : int) (x : n) : string =
  let v = ref (zt_of_n x) in
  let b = Bytes.make w '\000' in
  for i = w - 1 downto 0 do
    Bytes.set b i (Char.chr (Zt.ZA.to_int (Zt.ZA.logand !v (Zt.ZA.of_int 255))));
    v := Zt.ZA.shift_right !v 8
  done;
  Bytes.to_string b

(* bloomValues of types/bloom9.go: three 11-bit positions from the first six bytes of Keccak *)
let bloom_bits (data : string) : n list =
  let h = Hash.keccak256 data in
  List.map (fun i -> n_of_int (((Char.code h.[i] lsl 8) lor Char.code h.[i + 1]) land 2047)) [0; 2; 4]
let bits_addr (a : n) = bloom_bits (be_bytes 20 a)
let bits_topic (t : n) = bloom_bits (be_bytes 32 t)

let rec pairs = function
  | k :: v :: t -> (nn k, nn v) :: pairs t
  | [] -> []
  | _ -> failwith "odd slot list"

let render (c : content) : string =
  String.concat "" (List.map (fun (a, acc) ->
      Printf.sprintf "%s:%s:%s:%s:[%s];" (sn a) (sn acc.a_nonce) (sz acc.a_balance) (sn acc.a_code)
        (String.concat "" (List.map (fun (k, v) -> Printf.sprintf "%s=%s," (sn k) (sn v)) acc.a_storage))) c)

let bits_str (b : unit fmap) : string =
  if b = [] then "-" else String.concat "," (List.map (fun (p, _) -> sn p) b)

let str_verdict = function
  | VOk -> "ok" | VBasic -> "basic" | VHeight -> "height" | VLastID -> "lastid" | VAppHash -> "apphash"
  | VValHash -> "valhash" | VNextValHash -> "nextvalhash" | VNilCommit -> "nilcommit" | VCommitSig -> "commitsig"
  | VCommit -> "commit" | VTimeNotAfter -> "time-notafter" | VTimeMedian -> "time-median"
  | VTimeGenesis -> "time-genesis" | VHeightLow -> "height-low" | VEvidence -> "evidence" | VProposer -> "proposer"

let vals_obs (l : validator list) : string =
  String.concat "," (List.map (fun v -> Printf.sprintf "%s:%s:%s" (sn v.v_addr) (sz v.v_power) (sz v.v_prio)) l)

let rec triples = function
  | a :: p :: q :: t -> { v_addr = nn a; v_power = zz p; v_prio = zz q } :: triples t
  | [] -> []
  | _ -> failwith "bad validator list"
let rec doubles = function
  | a :: p :: t -> { v_addr = nn a; v_power = zz p; v_prio = Z0 } :: doubles t
  | [] -> []
  | _ -> failwith "bad validator list"

let b1 s = s = "1"

(* ---- J: StateDB operations *)
let parse_op (l : string list) : op =
  match l with
  | ["ca"; a] -> OCreate (nn a)
  | ["ab"; a; v] -> OAdd (nn a, zz v)
  | ["sb"; a; v] -> OSub (nn a, zz v)
  | ["tr"; a; b; v] -> OTransfer (nn a, nn b, zz v)
  | ["sn"; a; n] -> ONonce (nn a, nn n)
  | ["sc"; a; h] -> OCode (nn a, nn h)
  | ["ss"; a; k; v] -> OStore (nn a, nn k, nn v)
  | ["sd"; a; b] -> OSuicide (nn a, nn b)
  | ["sp"] -> OSnap
  | ["rv"; k] -> ORevert (nat_of_int (int_of_string k))
  | ["fi"] -> OFinalise
  | ["ra"; a] -> OReadAcc (nn a)
  | ["rs"; a; k] -> OReadSlot (nn a, nn k)
  | _ -> failwith ("bad op: " ^ String.concat " " l)

let str_view = function
  | None -> "-"
  | Some ((n, b), c) -> Printf.sprintf "%s/%s/%s" (sn n) (sz b) (sn c)
let str_read = function
  | RAcc v -> "a" ^ str_view v
  | RSlot v -> "s" ^ sn v

let universe_digest (bk : backend) (addrs : n list) (keys : n list) : string =
  sha8 (String.concat "" (List.map (fun a ->
      match bk.bk_acc a with
      | None -> Printf.sprintf "%s:-;" (sn a)
      | Some _ as v ->
        Printf.sprintf "%s:%s:[%s];" (sn a) (str_view v)
          (String.concat "" (List.map (fun k -> Printf.sprintf "%s=%s," (sn k) (sn (bk.bk_slot a k))) keys))) addrs))

let () =
  let lines = ref (read_lines stdin) in
  let next () = match !lines with [] -> None | l :: t -> lines := t; Some (tokens l) in
  let pre : content ref = ref [] in
  let pend : dirty list ref = ref [] in
  let perm : nat list ref = ref [] in
  let txs : txres list ref = ref [] in
  let last_vals : validator list ref = ref [] in
  let jnode : node ref = ref (genesis_node []) in
  let jkeep = ref 128 in
  let jaddrs : n list ref = ref [] in
  let jkeys : n list ref = ref [] in
  let jops : op list ref = ref [] in
  let rec read_logs k acc =
    if k = 0 then List.rev acc else
      match next () with
      | Some ("L" :: a :: _nt :: tps) -> read_logs (k - 1) ({ l_addr = nn a; l_topics = List.map nn tps } :: acc)
      | _ -> failwith "expected L" in
  let rec loop () =
    match next () with
    | None -> ()
    | Some [] -> loop ()
    | Some ("CASE" :: id :: _) -> Printf.printf "CASE %s\n" id; loop ()
    | Some ("U" :: _) -> pre := []; pend := []; perm := []; loop ()
    | Some ("A" :: a :: nonce :: bal :: code :: _ns :: slots) ->
      (* the harness lists the slots by ascending key; fm_set keeps any input canonical *)
      let st = List.fold_left (fun m (k, v) -> fm_set k v m) [] (pairs slots) in
      pre := fm_set (nn a) { a_nonce = nn nonce; a_balance = zz bal; a_code = nn code; a_storage = st } !pre;
      loop ()
    | Some ("P" :: a :: del :: reset :: nonce :: bal :: code :: _ns :: slots) ->
      pend := !pend @ [ { d_addr = nn a; d_deleted = b1 del; d_reset = b1 reset; d_nonce = nn nonce;
                          d_balance = zz bal; d_code = nn code; d_slots = pairs slots } ];
      loop ()
    | Some ("Q" :: idx) -> perm := List.map (fun s -> nat_of_int (int_of_string s)) idx; loop ()
    | Some ["UE"] ->
      let (c1, c2) = flush_both !perm !pend !pre in
      (* project on the flushed addresses (the harness dumps exactly those) *)
      let touched = List.map (fun d -> d.d_addr) !pend in
      let proj c = List.filter (fun (a, _) -> List.mem a touched) c in
      Printf.printf "u %s %s\n" (sha8 (render (proj c1))) (sha8 (render (proj c2)));
      loop ()
    | Some ("J" :: keep :: rest) ->
      let rec split acc = function
        | "|" :: t -> (List.rev acc, t)
        | x :: t -> split (x :: acc) t
        | [] -> (List.rev acc, []) in
      let (_, r1) = split [] rest in
      let (a, r2) = split [] r1 in
      jkeep := int_of_string keep; jaddrs := List.map nn a; jkeys := List.map nn r2;
      jnode := genesis_node []; jops := [];
      loop ()
    | Some ("JO" :: o) -> jops := parse_op o :: !jops; loop ()
    | Some ["JG"] ->
      let (c0, _) = apply_block_trie [] (List.rev !jops) in
      jnode := genesis_node c0; jops := [];
      loop ()
    | Some ["JC"] ->
      let (n', reads) = apply_block_snap (nat_of_int !jkeep) !jnode (List.rev !jops) in
      jnode := n'; jops := [];
      Printf.printf "j r=[%s] S=%s T=%s\n" (String.concat "," (List.map str_read reads))
        (universe_digest (bk_layers n'.n_layers n'.n_disk) !jaddrs !jkeys)
        (universe_digest (bk_content n'.n_content) !jaddrs !jkeys);
      loop ()
    | Some ("R" :: _) -> txs := []; loop ()
    | Some ["T"; skipped; status; gas; nlogs] ->
      if b1 skipped then txs := !txs @ [Skipped]
      else begin
        let logs = read_logs (int_of_string nlogs) [] in
        txs := !txs @ [Applied (nn status, zz gas, logs)]
      end;
      loop ()
    | Some ["RE"] ->
      let ((rcs, gas), bloom) = exec_summary bits_addr bits_topic !txs in
      Printf.printf "r gas=%s cum=[%s] n=%d bloom=%s rb=[%s]\n" (sz gas)
        (String.concat "," (List.map (fun r -> sz r.r_cum) rcs)) (List.length rcs)
        (sha8 (bits_str bloom))
        (String.concat "," (List.map (fun r -> sha8 (bits_str r.r_bloom)) rcs));
      loop ()
    | Some ("VL" :: _n :: rest) -> last_vals := triples rest; loop ()
    | Some ("VR" :: _n :: rest) ->
      let s = { vs_vals = !last_vals; vs_proposer = None; vs_total = Z0 } in
      (match apply_reported s (doubles rest) with
       | UpdPanic -> print_endline "v PANIC"
       | UpdErr -> Printf.printf "v err %s\n" (vals_obs !last_vals)
       | UpdOk s' -> Printf.printf "v ok %s\n" (vals_obs s'.vs_vals));
      loop ()
    | Some ["B"; lh; ih; lbid; app; vh; nvh; lt; "|"; h; bbid; bapp; bvh; bnvh; bt; basic; cnil; nsigs; cok; med; nev; maxev; pin] ->
      let st = { s_last_height = nn lh; s_initial_height = nn ih; s_last_block_id = nn lbid; s_app_hash = nn app;
                 s_vals_hash = nn vh; s_next_vals_hash = nn nvh; s_last_time = zz lt } in
      let b = { b_height = nn h; b_last_block_id = nn bbid; b_app_hash = nn bapp; b_vals_hash = nn bvh;
                b_next_vals_hash = nn bnvh; b_time = zz bt; b_basic_ok = b1 basic; b_commit_nil = b1 cnil;
                b_commit_sigs = nn nsigs; b_commit_ok = b1 cok; b_median = zz med; b_evidence = zz nev;
                b_max_evidence = zz maxev; b_proposer_in = b1 pin } in
      Printf.printf "b %s\n" (str_verdict (validate_block st b));
      loop ()
    | Some l -> failwith ("bad line: " ^ String.concat " " l)
  in
  loop ()
