(* C11 model driver: reads the op lines written by harness/cmd/c11 and prints one observable
   line per op, in exactly the format the harness prints for the implementation.
   Bytes travel as hex ("-" = empty), numbers as decimal. *)
open Conv

let keccak (b : n list) : n list = nlist_of_string (Hash.keccak256 (string_of_nlist b))

(* ideal signatures of the current case: (r, s, recid) -> (signer address, signed 32-byte hash) *)
let sigs : (string * string * string, n * n list) Hashtbl.t = Hashtbl.create 64
let oracle (r : n) (s : n) (v : n) : (n * n list) option =
  Hashtbl.find_opt sigs (string_of_n r, string_of_n s, string_of_n v)

let bid h t p = { b_hash = nlist_of_hex h; b_total = n_of_string t; b_phash = nlist_of_hex p }
let mkvote ty h r bh bt bp secs nanos =
  { v_type = z_of_string ty; v_height = n_of_string h; v_round = n_of_string r; v_bid = bid bh bt bp;
    v_secs = z_of_string secs; v_nanos = z_of_string nanos }
let mkprop h r pol bh bt bp secs nanos =
  { p_height = n_of_string h; p_round = n_of_string r; p_pol = n_of_string pol; p_bid = bid bh bt bp;
    p_secs = z_of_string secs; p_nanos = z_of_string nanos }
let mksigner s =
  (* "F": FrontierSigner.Sender is textually HomesteadSigner.Sender (same hash, homestead = true) *)
  if s = "H" || s = "F" then Homestead
  else ChainIDSigner (n_of_string (String.sub s 2 (String.length s - 2)))
let mktx nonce price gas to_ amount payload v r s =
  { t_nonce = n_of_string nonce; t_price = n_of_string price; t_gas = n_of_string gas;
    t_to = (if to_ = "nil" then None else Some (nlist_of_hex to_));
    t_amount = n_of_string amount; t_payload = nlist_of_hex payload;
    t_v = n_of_string v; t_r = n_of_string r; t_s = n_of_string s }

let hex_or_err = function None -> "ERR" | Some b -> hex_of_nlist b
let str_verify = function VOk -> "ok" | VErrAddress -> "addr" | VErrSignature -> "sig" | VCrash -> "PANIC"
let str_sender = function
  | SOk a -> "ok:" ^ string_of_n a | SOther -> "other" | SErrChainId -> "chainid" | SErrInvalidSig -> "invalidsig"
let b01 b = if b then "1" else "0"
let str_vb = function VBOk -> "ok" | VBType -> "type" | VBBlockID -> "blockid" | VBParts -> "parts" | VBNoSig -> "nosig"
let optn s = if s = "nil" then None else Some (n_of_string s)
let str_signer = function Homestead -> "H" | ChainIDSigner c -> "C:" ^ string_of_n c

let () =
  let lines = read_lines stdin in
  List.iter (fun line ->
      match tokens line with
      | [] -> ()
      | "CASE" :: id :: _ -> Hashtbl.reset sigs; Printf.printf "CASE %s\n" id
      | ["SIG"; r; s; v; signer; h] -> Hashtbl.replace sigs (r, s, v) (n_of_string signer, nlist_of_hex h)
      | ["VB"; chain; ty; h; r; bh; bt; bp; secs; nanos] ->
        print_endline ("vb " ^ hex_or_err (vote_sign_bytes (nlist_of_hex chain) (mkvote ty h r bh bt bp secs nanos)))
      | ["PB"; chain; h; r; pol; bh; bt; bp; secs; nanos] ->
        print_endline ("pb " ^ hex_or_err (proposal_sign_bytes (nlist_of_hex chain) (mkprop h r pol bh bt bp secs nanos)))
      | ["TP"; sg; nonce; price; gas; to_; amount; payload] ->
        let pre = tx_sighash_preimage (mksigner sg) (mktx nonce price gas to_ amount payload "0" "0" "0") in
        Printf.printf "tp %s %s\n" (hex_of_nlist (keccak pre)) (hex_of_nlist pre)
      | ["VV"; chain; addr; vaddr; ty; h; r; bh; bt; bp; secs; nanos; sg] ->
        print_endline ("vv " ^ str_verify (vote_verify oracle keccak (nlist_of_hex chain) (n_of_string addr) (n_of_string vaddr)
                                             (mkvote ty h r bh bt bp secs nanos) (nlist_of_hex sg)))
      | ["PV"; chain; addr; h; r; pol; bh; bt; bp; secs; nanos; sg] ->
        print_endline ("pv " ^ str_verify (proposal_verify oracle keccak (nlist_of_hex chain) (n_of_string addr)
                                             (mkprop h r pol bh bt bp secs nanos) (nlist_of_hex sg)))
      | ["VS"; addr; h; sg] ->
        print_endline ("vs " ^ b01 (verify_signature oracle (n_of_string addr) (nlist_of_hex h) (nlist_of_hex sg)))
      | ["SV"; v; r; s; hs] ->
        print_endline ("sv " ^ b01 (validate_signature_values (n_of_string v) (n_of_string r) (n_of_string s) (hs = "1")))
      | ["SD"; sg; nonce; price; gas; to_; amount; payload; v; r; s] ->
        print_endline ("sd " ^ str_sender (sender oracle keccak (mksigner sg) (mktx nonce price gas to_ amount payload v r s)))
      | ["SH"; sg; nonce; price; gas; to_; amount; payload; recid] ->
        let pre = signtx_preimage (mksigner sg) (mktx nonce price gas to_ amount payload "0" "0" "0") in
        Printf.printf "sh %s %s\n" (hex_of_nlist (keccak pre)) (string_of_n (signature_v (mksigner sg) (n_of_string recid)))
      | ["RP"; h; r; s_; v] ->
        print_endline ("rp " ^ str_sender (recover_plain oracle (nlist_of_hex h) (n_of_string r) (n_of_string s_) (z_of_string v)))
      | ["DC"; v] ->
        Printf.printf "dc %s %s\n" (b01 (is_protected (n_of_string v))) (string_of_n (derive_chain_id (n_of_string v)))
      | ["VC"; ty; bh; bt; bp; siglen] ->
        print_endline ("vc " ^ str_vb (vote_validate_basic (mkvote ty "0" "0" bh bt bp "0" "0") (n_of_string siglen)))
      | ["PC"; bh; bt; bp; siglen] ->
        print_endline ("pc " ^ str_vb (proposal_validate_basic (mkprop "0" "0" "0" bh bt bp "0" "0") (n_of_string siglen)))
      | ["MS"; chain; fork; head] ->
        Printf.printf "ms %s %s %s\n" (str_signer (make_signer (optn chain) (optn fork) (optn head)))
          (str_signer (latest_signer (optn chain) (optn fork))) (str_signer (latest_signer_for_chain_id (optn chain)))
      | ["SP"; sg] ->
        print_endline ("sp " ^ (if sig_to_pub_rejects (nlist_of_hex sg) then "rej" else "key"))
      | l -> failwith ("bad line: " ^ String.concat " " l)) lines
