(* C04 model driver: replays the Coq ticker model (C04/Model.v: the monotone filter of
   consensus/ticker.go) against the log of the real timeoutTicker routines of the simulated nodes:
   S node h r s  -> acc | ign     (decision of the real routine, read from its log records)
   F node        -> fire h r s    (the timeout the harness delivered: the pending one)
   R node        -> the node was (re)started: a new ticker
   M t:w ...     -> median <t>   (cstate.MedianTime of a committed block's LastCommit: present
                                  signatures as timestamp:power, against MedianModel.median_time) *)
open Conv

let () =
  let lines = read_lines stdin in
  let tickers : (string, ticker) Hashtbl.t = Hashtbl.create 16 in
  let get n = match Hashtbl.find_opt tickers n with Some k -> k | None -> init in
  List.iter (fun l ->
      match tokens l with
      | [] -> ()
      | "CASE" :: id :: _ -> Hashtbl.reset tickers; Printf.printf "CASE %s\n" id
      | ["R"; n] -> Hashtbl.replace tickers n init
      | ["S"; n; h; r; s] ->
        let t = { ti_h = n_of_string h; ti_r = n_of_string r; ti_s = n_of_string s } in
        let (k, ob) = step (get n) (Schedule t) in
        Hashtbl.replace tickers n k;
        print_endline (match ob with Acc -> "acc" | Ign -> "ign" | _ -> "?")
      | ["F"; n] ->
        let (k, ob) = step (get n) Fire in
        Hashtbl.replace tickers n k;
        print_endline (match ob with
            | Fired t -> Printf.sprintf "fire %s %s %s" (string_of_n t.ti_h) (string_of_n t.ti_r) (string_of_n t.ti_s)
            | NoFire -> "nofire" | _ -> "?")
      | "M" :: entries ->
        let present = List.map (fun e ->
            match String.split_on_char ':' e with
            | [t; w] -> { wt_time = z_of_string t; wt_weight = z_of_string w; wt_faulty = false }
            | _ -> failwith "bad M entry") entries in
        print_endline (match median_time present with
            | Some t -> "median " ^ string_of_z t
            | None -> "median none")
      | l -> failwith ("bad line: " ^ String.concat " " l))
    lines
