(* C04 model driver: replays the Coq ticker model (C04/Model.v: the monotone filter of
   consensus/ticker.go) against the log of the real timeoutTicker routines of the simulated nodes:
   S node h r s  -> acc | ign     (decision of the real routine, read from its log records)
   F node        -> fire h r s    (the timeout the harness delivered: the pending one)
   R node        -> the node was (re)started: a new ticker
   M t:w ...     -> median <t>   (cstate.MedianTime of a committed block's LastCommit: present
                                  signatures as timestamp:power, against MedianModel.median_time)
   T node H R S trig h r s ce ip cp -> "-> H' R' S' trig'"   (one handleTimeout call of a real node in state
                                  (H, R, S, TriggeredTimeoutPrecommit) with timeout (h, r, s); ce/ip =
                                  IsCreateEmptyBlocks / CreateEmptyBlocksInterval > 0, cp = isProposalComplete():
                                  StepModel.handle_timeout)
   TO p|v|c base delta round -> "= ns"   (ConsensusConfig.Propose/Prevote/Precommit(round): StepModel.timeout_dur)
   W ce interval -> "= 0|1"      (ConsensusConfig.WaitForTxs(): StepModel.wait_for_txs) *)
open Conv

let () =
  let lines = read_lines stdin in
  let tickers : (string, ticker) Hashtbl.t = Hashtbl.create 16 in
  let get n = match Hashtbl.find_opt tickers n with Some k -> k | None -> init in
  List.iter (fun l ->
      match tokens l with
      | [] -> ()
      | "CASE" :: id :: _ -> Hashtbl.reset tickers; Printf.printf "CASE %s\n" id
      | ["R"; n] -> Hashtbl.replace tickers n init
      | ["S"; n; h; r; s] ->
        let t = { ti_h = n_of_string h; ti_r = n_of_string r; ti_s = n_of_string s } in
        let (k, ob) = step (get n) (Schedule t) in
        Hashtbl.replace tickers n k;
        print_endline (match ob with Acc -> "acc" | Ign -> "ign" | _ -> "?")
      | ["F"; n] ->
        let (k, ob) = step (get n) Fire in
        Hashtbl.replace tickers n k;
        print_endline (match ob with
            | Fired t -> Printf.sprintf "fire %s %s %s" (string_of_n t.ti_h) (string_of_n t.ti_r) (string_of_n t.ti_s)
            | NoFire -> "nofire" | _ -> "?")
      | "M" :: entries ->
        let present = List.map (fun e ->
            match String.split_on_char ':' e with
            | [t; w] -> { wt_time = z_of_string t; wt_weight = z_of_string w; wt_faulty = false }
            | _ -> failwith "bad M entry") entries in
        print_endline (match median_time present with
            | Some t -> "median " ^ string_of_z t
            | None -> "median none")
      | ["T"; _; h; r; s; trig; th; tr; ts; ce; ip; cp] ->
        let c = { create_empty = (ce = "1"); interval_pos = (ip = "1"); skip_commit = false } in
        let nd = node_of (n_of_string h) (n_of_string r) (n_of_string s) (trig = "1") in
        let t = { ti_h = n_of_string th; ti_r = n_of_string tr; ti_s = n_of_string ts } in
        let nd' = handle_timeout c nd t (cp = "1") in
        Printf.printf "-> %s %s %s %d\n" (string_of_n nd'.nH) (string_of_n nd'.nR) (string_of_n nd'.nS)
          (if nd'.nTrig then 1 else 0)
      | ["TO"; _; base; delta; round] ->
        Printf.printf "= %s\n" (string_of_z (timeout_dur (z_of_string base) (z_of_string delta) (z_of_string round)))
      | ["W"; ce; iv] ->
        let pos = (match z_of_string iv with Zpos _ -> true | _ -> false) in
        let c = { create_empty = (ce = "1"); interval_pos = pos; skip_commit = false } in
        Printf.printf "= %d\n" (if wait_for_txs c then 1 else 0)
      | l -> failwith ("bad line: " ^ String.concat " " l))
    lines
