(* C15 model driver: reads the trace written by harness/overlay/consensus/verif_c15_test.go and
   prints one observable line per op, in exactly the format the harness prints for the
   implementation.

   Instantiation of the model's section variables:
     crc        = the extracted Coq [Crc32c.crc32c] for inputs up to 512 bytes, the table-driven
                  [Hash.crc32c] (ocaml/common/hash.ml) above that (block parts, megabyte frames of the
                  size-limit cases); the two are cross-checked at start-up on a 5000-byte input and on
                  every payload of a case's table up to 8192 bytes
     deser/ser/end_height = the per-case payload table (lines "P ...") the harness obtained from the
                  real proto.Unmarshal+WALFromProto / WALToProto+proto.Marshal; a payload that passes
                  the CRC check but is not in the table decodes to the digest UNKNOWN (=> mismatch)
   The byte edits of the corruption ops ("t/b/e/a/i/d") are applied here, to the snapshot bytes. *)
open Conv

(* the extracted list functions are not tail recursive; megabyte-sized lists need a large stack *)
let () =
  if Sys.getenv_opt "C15_STACK" = None then begin
    Unix.putenv "C15_STACK" "1";
    (try
       Unix.execv "/bin/sh"
         [| "sh"; "-c"; "ulimit -s unlimited 2>/dev/null || ulimit -s 4000000 2>/dev/null; exec \"$0\""; Sys.executable_name |]
     with _ -> ())
  end

type entry = { dg : string; rs : n list; eh : z option }

let btab = Array.init 256 n_of_int
let nlist_of_str (s : string) : n list =
  let r = ref [] in
  for i = String.length s - 1 downto 0 do r := btab.(Char.code s.[i]) :: !r done; !r
let rec int_of_pos = function XH -> 1 | XO p -> 2 * int_of_pos p | XI p -> 2 * int_of_pos p + 1
let int_of_byte = function N0 -> 0 | Npos p -> int_of_pos p
let str_of_nlist (l : n list) : string =
  let b = Buffer.create 256 in
  List.iter (fun x -> Buffer.add_char b (Char.chr (int_of_byte x land 255))) l; Buffer.contents b
let rec longer_than k l = match l with [] -> false | _ :: t -> if k = 0 then true else longer_than (k - 1) t
let rec nat_len acc = function O -> acc | S x -> nat_len (acc + 1) x
let rec list_len acc = function [] -> acc | _ :: t -> list_len (acc + 1) t

(* memoised (the function is pure): the corruption phase decodes the same frames thousands of times *)
let crc_memo : (string, n) Hashtbl.t = Hashtbl.create 4096
let crc (bs : n list) : n =
  if longer_than 512 bs then n_of_int (Hash.crc32c (str_of_nlist bs))
  else begin
    let k = str_of_nlist bs in
    match Hashtbl.find_opt crc_memo k with
    | Some c -> c
    | None ->
      let c = crc32c bs in
      if Hashtbl.length crc_memo > 200000 then Hashtbl.reset crc_memo;
      Hashtbl.replace crc_memo k c; c
  end

let () =
  let s = String.init 5000 (fun i -> Char.chr ((i * 7 + i / 13 + 5) land 255)) in
  if int_of_n (crc32c (nlist_of_str s)) <> Hash.crc32c s then failwith "extracted crc32c <> Hash.crc32c"

let hexs (s : string) = if s = "" then "-" else hex_of_string s

let sha8 (s : string) = String.sub (hex_of_string (Hash.sha256 s)) 0 16
let fp (s : string) =
  if String.length s <= 48 then hexs s else Printf.sprintf "%d:%s" (String.length s) (sha8 s)

(* payload token: hex | - | z:<prefix>:<fill>:<count>:<suffix> *)
let bytes_of_tok (t : string) : string =
  if String.length t > 2 && t.[0] = 'z' && t.[1] = ':' then
    match String.split_on_char ':' t with
    | [_; pre; fill; cnt; suf] ->
      string_of_hex pre ^ String.make (int_of_string cnt) (string_of_hex fill).[0] ^ string_of_hex suf
    | _ -> failwith "bad z token"
  else string_of_hex t

let str_class = function
  | CCrcRead -> "crcread" | CLenRead -> "lenread" | CTooBig -> "toobig" | CDataRead -> "dataread"
  | CCrc -> "crc" | CDecode -> "decode"

let tok_obs = function
  | ObMsg e -> "m:" ^ e.dg | ObEof -> "eof" | ObCorrupt c -> "c:" ^ str_class c | ObFuel -> "FUEL"
let tok_outcome = function
  | OMsg (e, _) -> "m:" ^ e.dg | OEof -> "eof" | OCorrupt (c, _) -> "c:" ^ str_class c

(* the same edits as c15Apply in the harness *)
let apply_edits (base : string) (toks : string list) : string =
  let b = ref base in
  let rec go = function
    | [] -> ()
    | "t" :: n :: r ->
      let n = int_of_string n in
      if n < String.length !b then b := String.sub !b 0 n; go r
    | "b" :: o :: r ->
      let o = int_of_string o in
      if o / 8 < String.length !b then begin
        let x = Bytes.of_string !b in
        Bytes.set x (o / 8) (Char.chr (Char.code (Bytes.get x (o / 8)) lxor (1 lsl (o mod 8))));
        b := Bytes.to_string x end; go r
    | "e" :: o :: h :: r ->
      let o = int_of_string o and d = string_of_hex h in
      let x = Bytes.of_string !b in
      String.iteri (fun i c -> if o + i < Bytes.length x then Bytes.set x (o + i) c) d;
      b := Bytes.to_string x; go r
    | "a" :: h :: r -> b := !b ^ bytes_of_tok h; go r
    | "i" :: o :: h :: r ->
      let o = min (int_of_string o) (String.length !b) and d = string_of_hex h in
      b := String.sub !b 0 o ^ d ^ String.sub !b o (String.length !b - o); go r
    | "d" :: o :: n :: r ->
      let o = min (int_of_string o) (String.length !b) in
      let e = min (o + int_of_string n) (String.length !b) in
      b := String.sub !b 0 o ^ String.sub !b e (String.length !b - e); go r
    | l -> failwith ("bad edit: " ^ String.concat " " l) in
  go toks; !b

(* the same split as c15WriteGroup: rotated files keep their sizes, the head takes the rest *)
let split_group (sizes : int list) (data : string) (limit : z) : group =
  let len = String.length data in
  let rec go off = function
    | [] | [_] -> ([], String.sub data (min off len) (len - min off len))
    | s :: r ->
      let off = min off len in
      let e = min (off + s) len in
      let (fs, h) = go e r in
      (String.sub data off (e - off) :: fs, h) in
  let (fs, h) = go 0 sizes in
  { g_min = O; g_files = List.map nlist_of_str fs; g_head = nlist_of_str h; g_buf = []; g_limit = limit }

let prof = Sys.getenv_opt "C15_PROF" <> None

(* allocation-heavy (inductive numbers, megabyte lists): a larger minor heap and a lazier major GC *)
let () = Gc.set { (Gc.get ()) with Gc.minor_heap_size = 1 lsl 20; Gc.space_overhead = 200 }

let () =
  let tbl : (string, entry option) Hashtbl.t = Hashtbl.create 64 in
  let deser (bs : n list) : entry option =
    match Hashtbl.find_opt tbl (str_of_nlist bs) with
    | Some e -> e
    | None -> Some { dg = "UNKNOWN"; rs = bs; eh = None } in
  let ser e = e.rs in
  let end_height e = e.eh in
  let g = ref { g_min = O; g_files = []; g_head = []; g_buf = []; g_limit = Z0 } in
  let base = ref "" and sizes = ref [] in
  let gobs () = Printf.sprintf "%d %d" (nat_len 0 (max_index !g)) (list_len 0 !g.g_head) in
  let search_obs grp h ign =
    match search crc deser end_height grp (z_of_string h) (ign = "1") with
    | SFound rest -> "s found " ^ tok_outcome (decode crc deser RGroup rest)
    | SNotFound -> "s notfound"
    | SErr c -> "s err c:" ^ str_class c
    | SFuel -> "s FUEL" in
  let rec loop () =
    match input_line stdin with
    | exception End_of_file -> ()
    | line ->
      let t0 = if prof then Unix.gettimeofday () else 0.0 in
      (match tokens line with
       | [] -> ()
       | "CASE" :: id :: limit :: _ ->
         Hashtbl.reset tbl;
         g := { g_min = O; g_files = []; g_head = []; g_buf = []; g_limit = z_of_string limit };
         base := ""; sizes := [];
         Printf.printf "CASE %s\n" id
       | ["P"; p; "ERR"; _; _] -> Hashtbl.replace tbl (bytes_of_tok p) None
       | ["P"; p; dg; rs; eh] ->
         let ps = bytes_of_tok p in
         if String.length ps > 512 && String.length ps <= 8192
            && int_of_n (crc32c (nlist_of_str ps)) <> Hash.crc32c ps then failwith "extracted crc32c <> Hash.crc32c";
         let rs = if rs = "=" then ps else bytes_of_tok rs in
         Hashtbl.replace tbl ps (Some { dg; rs = nlist_of_str rs; eh = (if eh = "-" then None else Some (z_of_string eh)) })
       | [("W" | "S" | "E") as o; p] ->
         let pl = nlist_of_str (bytes_of_tok p) in
         let (g', r) = wal_step crc !g (if o = "S" then WWriteSync pl else WWrite pl) in
         g := g';
         Printf.printf "w %s %s\n" (match r with WOk -> "ok" | WTooBig -> "toobig") (gobs ())
       | ["L"; limit] -> g := { !g with g_limit = z_of_string limit }   (* headSizeLimit reconfigured *)
       | ["RS"; p0] ->
         let (g', r) = wal_step crc !g (WStart (nlist_of_str (bytes_of_tok p0))) in
         g := g';
         Printf.printf "rs %s %s\n" (match r with WOk -> "ok" | WTooBig -> "toobig") (gobs ())
       | ["T"] -> g := fst (wal_step crc !g WTick); Printf.printf "t %s\n" (gobs ())
       | ["K"] -> Printf.printf "k %s\n" (gobs ())   (* AutoFile closed its file; the next use re-opens it: not a model step *)
       | ["C"; tl] ->
         g := fst (wal_step crc !g (WPrune (z_of_string tl)));
         Printf.printf "c %d %d %s\n" (list_len 0 !g.g_files) (nat_len 0 (max_index !g)) (string_of_z (total_size !g))
       | ["F"] -> g := fst (wal_step crc !g WFlush); Printf.printf "f %s\n" (gobs ())
       | ["R"] -> g := fst (wal_step crc !g WRotate); Printf.printf "r %s\n" (gobs ())
       | ["G"] ->
         let fs = List.map str_of_nlist (disk_files !g) in
         Printf.printf "g %d %s\n" (List.length fs) (String.concat " " (List.map fp fs))
       | ["D"; idx; cont] ->
         let bs = group_stream !g (nat_of_int (int_of_string idx)) in
         Printf.printf "d %s\n" (String.concat " " (List.map tok_obs (read_log crc deser (cont = "1") RGroup bs)))
       | ["SE"; h; ign] -> print_endline (search_obs !g h ign)
       | ["SNAP"] ->
         let fs = List.map str_of_nlist (disk_files !g) in
         sizes := List.map String.length fs; base := String.concat "" fs
       | "X" :: k :: cont :: eds ->
         let data = apply_edits !base eds in
         let toks =
           if k = "f" then read_log crc deser (cont = "1") RFile (nlist_of_str data)
           else
             let grp = split_group !sizes data !g.g_limit in
             read_log crc deser (cont = "1") RGroup (group_stream grp O) in
         Printf.printf "x %s\n" (String.concat " " (List.map tok_obs toks))
       | "XS" :: h :: ign :: eds ->
         let grp = split_group !sizes (apply_edits !base eds) !g.g_limit in
         print_endline (search_obs grp h ign)
       | "XG" :: h :: ign :: eds ->
         (* the OnStart repair steps on the head file of the re-split group, then replay and search over the group *)
         let grp = split_group !sizes (apply_edits !base eds) !g.g_limit in
         let (grp', ok) = repair_head crc ser deser grp in
         Printf.printf "rg %s %s | %s | %s\n" (if ok then "ok" else "err") (fp (str_of_nlist grp'.g_head))
           (String.concat " " (List.map tok_obs (read_log crc deser false RGroup (group_stream grp' grp'.g_min))))
           (search_obs grp' h ign)
       | "XR" :: eds ->
         (* OnStart's steps: backup by copy, repair in place; the file at the WAL's path afterwards is exactly what
            repair wrote (the destination is truncated); then the second replay pass over it *)
         let ((_, out), ok) = repair_onstart crc ser deser (nlist_of_str (apply_edits !base eds)) in
         Printf.printf "r %s %s | %s\n" (if ok then "ok" else "err") (fp (str_of_nlist out))
           (String.concat " " (List.map tok_obs (read_log crc deser false RGroup out)))
       | l -> failwith ("bad line: " ^ String.concat " " l));
      if prof then begin
        let dt = Unix.gettimeofday () -. t0 in
        if dt > 0.05 then Printf.eprintf "%.2fs %s\n" dt (String.sub line 0 (min 60 (String.length line)))
      end;
      loop () in
  loop ()
