(* C02 model driver: reads the op trace written by harness/cmd/c02 and prints one observable
   line per op, in exactly the format the harness prints for the implementation. *)
open Conv

let bid h t p = { b_hash = n_of_string h; b_total = n_of_string t; b_phash = n_of_string p }

(* ten tokens: sid sempty signer chain type height round bh bt bp time -> eleven actually *)
let sig_of = function
  | [sid; se; sg; ch; ty; h; r; bh; bt; bp; tm] ->
    { s_id = n_of_string sid; s_empty = (se = "1"); s_signer = n_of_string sg; s_chain = n_of_string ch;
      s_type = n_of_string ty; s_height = n_of_string h; s_round = n_of_string r;
      s_bid = bid bh bt bp; s_time = n_of_string tm }
  | l -> failwith ("bad sig: " ^ String.concat " " l)

let rec take n l = if n = 0 then [] else match l with [] -> [] | x :: t -> x :: take (n-1) t
let rec drop n l = if n = 0 then l else match l with [] -> [] | _ :: t -> drop (n-1) t

let str_bid b = Printf.sprintf "%s:%s:%s" (string_of_n b.b_hash) (string_of_n b.b_total) (string_of_n b.b_phash)
let str_maj = function None -> "-" | Some b -> str_bid b
let b01 b = if b then "1" else "0"
let str_verr = function
  | ENone -> "none" | EUnexpectedStep -> "step" | EInvalidIndex -> "index" | EInvalidAddress -> "addr"
  | ENonDetSig -> "nondet" | EInvalidSig -> "sig" | EConflict -> "conflict"
let str_cerr = function
  | COk -> "ok" | CBasic -> "basic" | CSize -> "size" | CHeight -> "height" | CBlockID -> "blockid"
  | CSig -> "sig" | CAddr -> "addr" | CPower -> "power"

let str_obs = function
  | ObVote (added, e, maj, any, all, bits) ->
    Printf.sprintf "v %s %s %s %s %s %s" (b01 added) (str_verr e) (str_maj maj) (b01 any) (b01 all)
      (if bits = [] then "-" else String.concat "" (List.map b01 bits))
  | ObPeer (e, maj) -> Printf.sprintf "p %s %s" (b01 e) (str_maj maj)
  | ObCommit None -> "m -"
  | ObCommit (Some c) ->
    Printf.sprintf "m %s %s %s %s" (string_of_n c.c_height) (string_of_n c.c_round) (str_bid c.c_bid)
      (String.concat ";" (List.map (fun cs ->
           Printf.sprintf "%s,%s,%s,%s" (string_of_n cs.cs_flag) (string_of_n cs.cs_addr)
             (string_of_n cs.cs_time) (string_of_n cs.cs_sig.s_id)) c.c_sigs))
  | ObVerify e -> "x " ^ str_cerr e

let () =
  let lines = ref (read_lines stdin) in
  let next () = match !lines with [] -> None | l :: t -> lines := t; Some (tokens l) in
  let vs = ref (new_voteset N0 N0 N0 N0 []) in
  let rec loop () =
    match next () with
    | None -> ()
    | Some [] -> loop ()
    | Some ("CASE" :: id :: chain :: h :: r :: ty :: nv :: _) ->
      let nv = int_of_string nv in
      let vals = List.init nv (fun _ ->
          match next () with
          | Some ["VAL"; a; p] -> { val_addr = n_of_string a; val_power = z_of_string p }
          | _ -> failwith "expected VAL") in
      vs := new_voteset (n_of_string chain) (n_of_string h) (n_of_string r) (n_of_string ty) vals;
      Printf.printf "CASE %s\n" id; loop ()
    | Some ("V" :: idx :: addr :: h :: r :: ty :: tm :: bh :: bt :: bp :: sg) ->
      let v = { v_idx = n_of_string idx; v_addr = n_of_string addr; v_height = n_of_string h;
                v_round = n_of_string r; v_type = n_of_string ty; v_time = n_of_string tm;
                v_bid = bid bh bt bp; v_sig = sig_of sg } in
      let (vs', ob) = step !vs (OpVote v) in
      vs := vs'; print_endline (str_obs ob); loop ()
    | Some ["P"; peer; bh; bt; bp] ->
      let (vs', ob) = step !vs (OpPeer (n_of_string peer, bid bh bt bp)) in
      vs := vs'; print_endline (str_obs ob); loop ()
    | Some ["M"] ->
      let (_, ob) = step !vs OpMakeCommit in print_endline (str_obs ob); loop ()
    | Some ("X" :: wh :: wt :: wp :: h :: ch :: cr :: cbh :: cbt :: cbp :: ns :: _) ->
      let ns = int_of_string ns in
      let sigs = List.init ns (fun _ ->
          match next () with
          | Some ("S" :: flag :: addr :: tm :: sg) ->
            { cs_flag = n_of_string flag; cs_addr = n_of_string addr; cs_time = n_of_string tm; cs_sig = sig_of sg }
          | _ -> failwith "expected S") in
      let c = { c_height = n_of_string ch; c_round = n_of_string cr; c_bid = bid cbh cbt cbp; c_sigs = sigs } in
      let (_, ob) = step !vs (OpVerify (bid wh wt wp, n_of_string h, c)) in
      print_endline (str_obs ob); loop ()
    | Some l -> failwith ("bad line: " ^ String.concat " " l)
  in
  loop ()
