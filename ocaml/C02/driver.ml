(* C02 model driver: reads the op trace written by harness/cmd/c02 and prints one observable
   line per op, in exactly the format the harness prints for the implementation.
   Two kinds of cases: a VoteSet history (V / VN / P / M / X / XN / TC lines) and a HeightVoteSet
   history (HNEW / HV / HR / HP lines). *)
open Conv

let bid h t p = { b_hash = n_of_string h; b_total = n_of_string t; b_phash = n_of_string p }

(* eleven tokens: sid sempty signer chain type height round bh bt bp time *)
let sig_of = function
  | [sid; se; sg; ch; ty; h; r; bh; bt; bp; tm] ->
    { s_id = n_of_string sid; s_empty = (se = "1"); s_signer = n_of_string sg; s_chain = n_of_string ch;
      s_type = n_of_string ty; s_height = n_of_string h; s_round = n_of_string r;
      s_bid = bid bh bt bp; s_time = n_of_string tm }
  | l -> failwith ("bad sig: " ^ String.concat " " l)

let vote_of = function
  | idx :: addr :: h :: r :: ty :: tm :: bh :: bt :: bp :: sg ->
    { v_idx = n_of_string idx; v_addr = n_of_string addr; v_height = n_of_string h;
      v_round = n_of_string r; v_type = n_of_string ty; v_time = n_of_string tm;
      v_bid = bid bh bt bp; v_sig = sig_of sg }
  | l -> failwith ("bad vote: " ^ String.concat " " l)

let str_bid b = Printf.sprintf "%s:%s:%s" (string_of_n b.b_hash) (string_of_n b.b_total) (string_of_n b.b_phash)
let str_maj = function None -> "-" | Some b -> str_bid b
let b01 b = if b then "1" else "0"
let str_bits bits = String.concat "" (List.map b01 bits)
let str_verr = function
  | ENone -> "none" | EUnexpectedStep -> "step" | EInvalidIndex -> "index" | EInvalidAddress -> "addr"
  | ENonDetSig -> "nondet" | EInvalidSig -> "sig" | EConflict -> "conflict"
let str_cerr = function
  | COk -> "ok" | CBasic -> "basic" | CSize -> "size" | CHeight -> "height" | CBlockID -> "blockid"
  | CSig -> "sig" | CAddr -> "addr" | CPower -> "power"

let pool : blockid list ref = ref []

(* every public observable of a vote set, as harness vsObs *)
let str_vs vs =
  Printf.sprintf "%s %s %s %s ids=%s bb=%s ic=%s" (str_maj vs.vs_maj23) (b01 (has_two_thirds_any vs)) (b01 (has_all vs))
    (str_bits (bit_array vs))
    (String.concat "," (List.map string_of_n (votes_ids vs)))
    (String.concat "/" (List.map (fun b -> match bits_by_block vs b with None -> "nil" | Some l -> str_bits l) !pool))
    (b01 (is_commit vs))

let str_commit c =
  Printf.sprintf "%s %s %s %s" (string_of_n c.c_height) (string_of_n c.c_round) (str_bid c.c_bid)
    (String.concat ";" (List.map (fun cs ->
         Printf.sprintf "%s,%s,%s,%s" (string_of_n cs.cs_flag) (string_of_n cs.cs_addr)
           (string_of_n cs.cs_time) (string_of_n cs.cs_sig.s_id)) c.c_sigs))

(* HeightVoteSet digest, as harness digest(): tracked round, existing rounds, POLInfo, majorities *)
let str_hvs s =
  let rounds = List.sort compare (List.map (fun (r, _) -> int_of_string (string_of_n r)) s.h_sets) in
  let rs = String.concat "," (List.map string_of_int rounds) in
  let (pr, pb) = pol_info s in
  let majs = String.concat ";" (List.map (fun r ->
      match rs_find (n_of_string (string_of_int r)) s.h_sets with
      | Some rv -> Printf.sprintf "%d:%s/%s" r (str_maj rv.rv_pre.vs_maj23) (str_maj rv.rv_com.vs_maj23)
      | None -> "") rounds) in
  Printf.sprintf "R=%s rounds=%s pol=%s:%s maj=%s" (string_of_n s.h_round) rs (string_of_n pr) (str_bid pb) majs

let () =
  let lines = ref (read_lines stdin) in
  let next () = match !lines with [] -> None | l :: t -> lines := t; Some (tokens l) in
  let peek () = match !lines with [] -> None | l :: _ -> Some (tokens l) in
  let vs = ref (new_voteset N0 N0 N0 N0 []) in
  let hv : hvs option ref = ref None in
  let hdr = ref (N0, N0, []) in
  let read_sigs ns =
    List.init ns (fun _ ->
        match next () with
        | Some ("S" :: flag :: addr :: tm :: sg) ->
          { cs_flag = n_of_string flag; cs_addr = n_of_string addr; cs_time = n_of_string tm; cs_sig = sig_of sg }
        | _ -> failwith "expected S") in
  let rec loop () =
    match next () with
    | None -> ()
    | Some [] -> loop ()
    | Some ("CASE" :: id :: chain :: h :: r :: ty :: nv :: _) ->
      let nv = int_of_string nv in
      let vals = List.init nv (fun _ ->
          match next () with
          | Some ["VAL"; a; p] -> { val_addr = n_of_string a; val_power = z_of_string p }
          | _ -> failwith "expected VAL") in
      let rec blocks acc = match peek () with
        | Some ["B"; bh; bt; bp] -> ignore (next ()); blocks (bid bh bt bp :: acc)
        | _ -> List.rev acc in
      pool := blocks [];
      vs := new_voteset (n_of_string chain) (n_of_string h) (n_of_string r) (n_of_string ty) vals;
      hdr := (n_of_string chain, n_of_string h, vals);
      hv := None;
      Printf.printf "CASE %s\n" id; loop ()
    | Some ("V" :: toks) ->
      let ((vs', added), e) = add_vote_o !vs (Some (vote_of toks)) in
      vs := vs';
      Printf.printf "v %s %s %s\n" (b01 added) (match e with Some e -> str_verr e | None -> "nil") (str_vs vs'); loop ()
    | Some ("VB" :: toks) ->
      Printf.printf "vb %s\n" (b01 (vote_validate_basic (vote_of toks))); loop ()
    | Some ("VV" :: addr :: toks) ->
      Printf.printf "vv %s\n" (match vote_verify !vs.vs_chain (n_of_string addr) (vote_of toks) with
          | VVOk -> "none" | VVAddr -> "addr" | VVSig -> "sig"); loop ()
    | Some ["VN"] ->
      let ((vs', added), e) = add_vote_o !vs None in
      vs := vs';
      Printf.printf "v %s %s %s\n" (b01 added) (match e with Some e -> str_verr e | None -> "nil") (str_vs vs'); loop ()
    | Some ["P"; peer; bh; bt; bp] ->
      (match step !vs (OpPeer (n_of_string peer, bid bh bt bp)) with
       | (vs', ObPeer (e, _)) -> vs := vs'; Printf.printf "p %s %s\n" (b01 e) (str_vs vs')
       | _ -> failwith "step");
      loop ()
    | Some ["M"] ->
      (match make_commit !vs with
       | None -> print_endline "m -"
       | Some c -> print_endline ("m " ^ str_commit c));
      loop ()
    | Some ("X" :: wh :: wt :: wp :: h :: ch :: cr :: cbh :: cbt :: cbp :: ns :: _) ->
      let sigs = read_sigs (int_of_string ns) in
      let c = { c_height = n_of_string ch; c_round = n_of_string cr; c_bid = bid cbh cbt cbp; c_sigs = sigs } in
      (match verify_commit_x !vs.vs_vals !vs.vs_chain (bid wh wt wp) (n_of_string h) (Some c) with
       | XErr e -> print_endline ("x " ^ str_cerr e)
       | XPanic -> print_endline "x PANIC"
       | XNilCommit -> print_endline "x nilcommit");
      loop ()
    | Some ["XN"; wh; wt; wp; h] ->
      (match verify_commit_x !vs.vs_vals !vs.vs_chain (bid wh wt wp) (n_of_string h) None with
       | XErr e -> print_endline ("x " ^ str_cerr e)
       | XPanic -> print_endline "x PANIC"
       | XNilCommit -> print_endline "x nilcommit");
      loop ()
    | Some ("TC" :: ch :: cr :: cbh :: cbt :: cbp :: ns :: _) ->
      let sigs = read_sigs (int_of_string ns) in
      let c = { c_height = n_of_string ch; c_round = n_of_string cr; c_bid = bid cbh cbt cbp; c_sigs = sigs } in
      (match commit_to_voteset !vs.vs_chain c !vs.vs_vals with
       | None -> print_endline "t PANIC"
       | Some vs2 ->
         Printf.printf "t %s | %s\n" (str_vs vs2)
           (match make_commit vs2 with None -> "-" | Some c2 -> str_commit c2));
      loop ()
    | Some ["HNEW"] ->
      let (chain, h, vals) = !hdr in
      (match hvs_new chain h vals with
       | Some s -> hv := Some s; print_endline ("h " ^ str_hvs s)
       | None -> print_endline "h PANIC");
      loop ()
    | Some ("HV" :: peer :: toks) ->
      (match !hv with
       | None -> print_endline "hv PANIC"
       | Some s ->
         let v = vote_of toks in
         (match hvs_add_vote s v (n_of_string peer) with
          | (_, HPanic) -> hv := None; print_endline "hv PANIC"
          | (s', res) ->
            hv := Some s';
            let (a, e) = match res with
              | HNilType -> ("0", "niltype") | HUnwanted -> ("0", "unwanted")
              | HVoted (a, e) -> (b01 a, str_verr e) | HPanic -> ("0", "PANIC") in
            let touched =
              if type_valid v.v_type then
                (match get_vs s' v.v_round v.v_type with Some x -> str_vs x | None -> "none")
              else "none" in
            Printf.printf "hv %s %s %s | %s\n" a e (str_hvs s') touched));
      loop ()
    | Some ["HR"; r] ->
      (match !hv with
       | None -> print_endline "hr PANIC"
       | Some s ->
         (match hvs_set_round s (n_of_string r) with
          | None -> hv := None; print_endline "hr PANIC"
          | Some s' -> hv := Some s'; print_endline ("hr " ^ str_hvs s')));
      loop ()
    | Some ["HP"; r; ty; peer; bh; bt; bp] ->
      (match !hv with
       | None -> print_endline "hp PANIC"
       | Some s ->
         let (s', e) = hvs_set_peer_maj23 s (n_of_string r) (n_of_string ty) (n_of_string peer) (bid bh bt bp) in
         hv := Some s';
         let touched =
           if type_valid (n_of_string ty) then
             (match get_vs s' (n_of_string r) (n_of_string ty) with Some x -> str_vs x | None -> "none")
           else "none" in
         Printf.printf "hp %s %s | %s\n" (b01 e) (str_hvs s') touched);
      loop ()
    | Some l -> failwith ("bad line: " ^ String.concat " " l)
  in
  loop ()
