(* C14 model driver: reads the op trace written by harness/cmd/c14 and prints one observable
   line per op, in exactly the format the harness prints for the implementation.
   The two Section variables of the model are instantiated with the tables of REAL key values
   the harness printed (VKEY: ValidatorSet.Hash() of an (address, power) list; PKEY: last 32
   bytes of the marshalled ConsensusParamsInfo); an unknown argument or two different values
   for one argument abort the run. *)
open Conv

let vtab : (string, n) Hashtbl.t = Hashtbl.create 64
let ptab : (string, n) Hashtbl.t = Hashtbl.create 16

let kl_string (l : (n * z) list) =
  String.concat "," (List.map (fun (a, p) -> string_of_n a ^ ":" ^ string_of_z p) l)
let h_fun (l : (n * z) list) : n =
  match Hashtbl.find_opt vtab (kl_string l) with
  | Some k -> k
  | None -> failwith ("no VKEY for " ^ kl_string l)
let pk_fun (p : n) (lhc : n) : n =
  let k = string_of_n p ^ "/" ^ string_of_n lhc in
  match Hashtbl.find_opt ptab k with
  | Some v -> v
  | None -> failwith ("no PKEY for " ^ k)

let declare tab k v =
  match Hashtbl.find_opt tab k with
  | Some v' when v' <> v -> failwith ("two key values for " ^ k)
  | _ -> Hashtbl.replace tab k v

(* ---- parsing *)
let rec take n l = if n = 0 then [] else match l with [] -> failwith "short line" | x :: t -> x :: take (n-1) t
let rec drop n l = if n = 0 then l else match l with [] -> failwith "short line" | _ :: t -> drop (n-1) t

let validator = function
  | [a; p; q] -> { v_addr = n_of_string a; v_power = z_of_string p; v_prio = z_of_string q }
  | _ -> failwith "validator"

(* set tokens: "nil" | n (a p q)*n  pa pp pq total ; returns (set option, rest) *)
let parse_set (l : string list) : valset option * string list =
  match l with
  | "nil" :: rest -> (None, rest)
  | cnt :: rest ->
    let c = int_of_string cnt in
    let rec go i l acc = if i = 0 then (List.rev acc, l) else go (i-1) (drop 3 l) (validator (take 3 l) :: acc) in
    let (vals, rest) = go c rest [] in
    let prop = validator (take 3 rest) in
    (match drop 3 rest with
     | tot :: rest -> (Some { vs_vals = vals; vs_prop = prop; vs_total = z_of_string tot }, rest)
     | [] -> failwith "set: total")
  | [] -> failwith "set"

let bid h t p = { b_hash = n_of_string h; b_total = n_of_string t; b_phash = n_of_string p }

let parse_state (l : string list) : cstate =
  match l with
  | chain :: ih :: h :: ntx :: bh :: bt :: bp :: tm :: lhvc :: lhcpc :: app :: par :: "L" :: rest ->
    let (lv, rest) = parse_set rest in
    (match rest with
     | "V" :: rest ->
       let (cv, rest) = parse_set rest in
       (match rest with
        | "N" :: rest ->
          let (nv, _) = parse_set rest in
          let get = function Some x -> x | None -> failwith "nil set where the model needs one" in
          { chain_id = n_of_string chain; initial_height = n_of_string ih; last_height = n_of_string h;
            last_total_tx = n_of_string ntx; last_bid = bid bh bt bp; last_time = n_of_string tm;
            next_vals = get nv; vals = get cv; last_vals = lv; lhvc = n_of_string lhvc;
            lhcpc = n_of_string lhcpc; app_hash = n_of_string app; params = n_of_string par }
        | _ -> failwith "state: N")
     | _ -> failwith "state: V")
  | _ -> failwith "state"

let parse_block = function
  | h :: bh :: bt :: bp :: tm :: ntx :: app :: rest ->
    ({ k_height = n_of_string h; k_bid = bid bh bt bp; k_time = n_of_string tm; k_ntx = n_of_string ntx;
       k_app = n_of_string app }, rest)
  | _ -> failwith "block"

(* ---- printing *)
let str_val v = Printf.sprintf "%s,%s,%s" (string_of_n v.v_addr) (string_of_z v.v_power) (string_of_z v.v_prio)
let str_set = function
  | None -> "nil"
  | Some vs -> String.concat ";" (List.map str_val vs.vs_vals) ^ "@" ^ str_val vs.vs_prop ^ "#" ^ string_of_z vs.vs_total
let str_bid b = Printf.sprintf "%s:%s:%s" (string_of_n b.b_hash) (string_of_n b.b_total) (string_of_n b.b_phash)
let str_state s =
  Printf.sprintf "%s %s %s %s %s %s %s %s %s %s L=%s V=%s N=%s"
    (string_of_n s.chain_id) (string_of_n s.initial_height) (string_of_n s.last_height)
    (string_of_n s.last_total_tx) (str_bid s.last_bid) (string_of_n s.last_time) (string_of_n s.lhvc)
    (string_of_n s.lhcpc) (string_of_n s.app_hash) (string_of_n s.params)
    (str_set s.last_vals) (str_set (Some s.vals)) (str_set (Some s.next_vals))
let str_pclass = function PNil -> "nil" | PNoMeta -> "nometa" | PBadSet -> "badset" | PNoParams -> "noparams"
let str_lres = function
  | LPanic c -> "PANIC " ^ str_pclass c
  | LEmpty -> "empty"
  | LOk s -> "ok " ^ str_state s

let str_obs = function
  | ObNode -> "e ok"
  | ObBoot r -> "boot " ^ str_lres r
  | ObOk -> "b ok"
  | ObState None -> "u none"
  | ObState (Some s) -> "u " ^ str_state s
  | ObSave (Some k) -> "s ok " ^ hex_of_nlist k
  | ObSave None -> "s PANIC"
  | ObLoad r -> "l " ^ str_lres r
  | ObVals VNoState -> "v nostate"
  | ObVals VNoSet -> "v noset"
  | ObVals VInvalid -> "v invalid"
  | ObVals (VOk vs) -> "v ok " ^ str_set (Some vs)
  | ObParams PPanic -> "p PANIC"
  | ObParams PErr -> "p err"
  | ObParams (POk p) -> "p ok " ^ string_of_n p
  | ObPrune (a, b) -> Printf.sprintf "r %s %s" (string_of_n a) (string_of_n b)

let () =
  let m = ref init in
  let silent = ref false in
  let exec o =
    let (m', ob) = step h_fun pk_fun !m o in
    m := m';
    if not !silent then print_endline (str_obs ob) in
  let first_block = ref true in
  List.iter (fun line ->
      match tokens line with
      | [] -> ()
      | "CASE" :: id :: _ -> m := init; first_block := true; Printf.printf "CASE %s\n" id
      | "VKEY" :: cnt :: rest ->
        let c = int_of_string cnt in
        let rec go i l acc = if i = 0 then (List.rev acc, l) else
            (match l with a :: p :: t -> go (i-1) t ((n_of_string a, z_of_string p) :: acc) | _ -> failwith "VKEY") in
        let (kl, rest) = go c rest [] in
        (match rest with [k] -> declare vtab (kl_string kl) (n_of_string k) | _ -> failwith "VKEY key")
      | ["PKEY"; p; lhc; k] -> declare ptab (p ^ "/" ^ lhc) (n_of_string k)
      | "BOOT" :: rest -> exec (OBoot (parse_state rest))
      | "E" :: rest -> exec (ONode (parse_state rest))
      | "B" :: rest ->
        (* the genesis block line is a declaration (no observable), every other one an op *)
        let (b, _) = parse_block rest in
        if !first_block && b.k_height = N0 then (silent := true; exec (OBlock b); silent := false)
        else exec (OBlock b);
        first_block := false
      | "U" :: rest ->
        let (b, rest) = parse_block rest in
        (match rest with
         | ch :: rest ->
           (match parse_set rest with
            | (Some nvs, _) -> exec (OUpdate (b, (ch = "1"), nvs))
            | _ -> failwith "U: nil set")
         | _ -> failwith "U")
      | ["S"] -> exec OSave
      | ["L"] -> exec OLoad
      | ["V"; h] -> exec (OVals (n_of_string h))
      | ["P"; h] -> exec (OParams (n_of_string h))
      | ["R"; a; b] -> exec (OPrune (n_of_string a, n_of_string b))
      | l -> failwith ("bad line: " ^ String.concat " " l))
    (read_lines stdin)
