package tx_pool

import (
	"math/big"
	"testing"

	"github.com/kardiachain/go-kardia/configs"
	"github.com/kardiachain/go-kardia/kai/kaidb/memorydb"
	"github.com/kardiachain/go-kardia/kai/state"
	"github.com/kardiachain/go-kardia/lib/common"
	"github.com/kardiachain/go-kardia/lib/crypto"
	"github.com/kardiachain/go-kardia/lib/event"
	"github.com/kardiachain/go-kardia/trie"
	"github.com/kardiachain/go-kardia/types"
)

type reorgChain struct {
	testBlockChain
	blocks map[common.Hash]*types.Block
}

func (bc *reorgChain) GetBlock(hash common.Hash, number uint64) *types.Block { return bc.blocks[hash] }
func (bc *reorgChain) block(parent common.Hash, height uint64, salt byte, txs []*types.Transaction) *types.Block {
	b := types.NewBlock(&types.Header{GasLimit: bc.gasLimit, Height: height, LastBlockID: types.BlockID{Hash: parent}, AppHash: common.Hash{salt}}, txs, nil, nil, trie.NewStackTrie(nil))
	bc.blocks[b.Hash()] = b
	return b
}

// A reorg drops block B1 = {n0 (price 10), n1 (price 1)}; meanwhile the operator raised the price floor to 5.
// reset() reinjects n0, rejects n1 (underpriced), promoteExecutables puts n0 below the still-pending n2 and
// demoteUnexecutables only looks for a gap in FRONT: Pending() offers nonces {0, 2}.
func TestC17ReorgPartialReinjectionLeavesGap(t *testing.T) {
	statedb, _ := state.New(common.Hash{}, state.NewDatabase(memorydb.New()), nil)
	bc := &reorgChain{testBlockChain{statedb, 10000000, new(event.Feed)}, map[common.Hash]*types.Block{}}
	key, _ := crypto.GenerateKey()
	addr := crypto.PubkeyToAddress(key.PublicKey)
	statedb.SetBalance(addr, big.NewInt(1000000000))
	statedb.SetNonce(addr, 2) // n0, n1 were executed by B1
	pool := NewTxPool(testTxPoolConfig, configs.TestChainConfig, bc)
	defer pool.Stop()

	n0 := pricedTransaction(0, 100000, big.NewInt(10), key)
	n1 := pricedTransaction(1, 100000, big.NewInt(1), key)
	n2 := pricedTransaction(2, 100000, big.NewInt(10), key)
	if err := pool.addRemoteSync(n2); err != nil {
		t.Fatal(err)
	}
	pool.SetGasPrice(big.NewInt(5))

	g := bc.block(common.Hash{}, 0, 0, nil)
	b1 := bc.block(g.Hash(), 1, 1, []*types.Transaction{n0, n1})
	b1x := bc.block(g.Hash(), 1, 2, nil)
	statedb.SetNonce(addr, 0) // state at B1'
	<-pool.requestReset(b1.Header(), b1x.Header())

	pending, _ := pool.Pending()
	var nonces []uint64
	for _, tx := range pending[addr] {
		nonces = append(nonces, tx.Nonce())
	}
	t.Logf("state nonce %d, pending nonces %v", statedb.GetNonce(addr), nonces)
	for i, n := range nonces {
		if n != uint64(i) {
			t.Fatalf("pending list of the sender is not gap-free from its state nonce: %v", nonces)
		}
	}
}
