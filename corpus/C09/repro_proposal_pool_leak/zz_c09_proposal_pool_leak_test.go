package blockchain

import (
	"math/big"
	"testing"
	"time"

	"github.com/kardiachain/go-kardia/configs"
	"github.com/kardiachain/go-kardia/kai/kaidb/memorydb"
	"github.com/kardiachain/go-kardia/lib/common"
	"github.com/kardiachain/go-kardia/lib/crypto"
	"github.com/kardiachain/go-kardia/lib/log"
	"github.com/kardiachain/go-kardia/mainchain/genesis"
	"github.com/kardiachain/go-kardia/mainchain/tx_pool"
	"github.com/kardiachain/go-kardia/types"
)

// A proposer builds a block from two pending transactions of one sender (both pass the
// pool's per-transaction balance check): A drains the account, B (gas limit = whole block,
// value > what is left) is rejected with ErrInsufficientFundsForTransfer AFTER buyGas took
// its gas limit from the block gas pool.  proposalBlock.commitTransaction reverts the state
// but not the pool (commitBlock does since 5c78105): the pool is 0 although only 21000 gas
// was used, and every other pending transaction is left out of the block.
func TestReproProposalPoolLeak(t *testing.T) {
	log.Root().SetHandler(log.DiscardHandler())
	configs.AddDefaultContract()
	configs.AddDefaultStakingContractAddress()
	zero := uint64(0)
	cfg := &configs.ChainConfig{ChainID: big.NewInt(242), GalaxiasBlock: &zero, Kaicon: &configs.KaiconConfig{Period: 15, Epoch: 30000}}
	key, _ := crypto.HexToECDSA("b71c71a67e1177ad4e901695e1b4b9ee17ae16c6668d313eac2f96dbcda3f291")
	from := crypto.PubkeyToAddress(key.PublicKey)
	kai := new(big.Int).Exp(big.NewInt(10), big.NewInt(18), nil)
	g := &genesis.Genesis{Config: cfg, GasLimit: configs.BlockGasLimitGalaxias, Timestamp: time.Unix(1600000000, 0),
		Alloc: genesis.GenesisAlloc{from: {Balance: new(big.Int).Mul(big.NewInt(10), kai)}}}
	bc, err := NewBlockChain(memorydb.New(), nil, g)
	if err != nil {
		t.Fatal(err)
	}
	bo := NewBlockOperations(log.New(), bc, tx_pool.NewTxPool(tx_pool.DefaultTxPoolConfig, bc.chainConfig, bc), nil, nil)
	st, _ := bc.State()
	header := &types.Header{Height: 1, GasLimit: configs.BlockGasLimitGalaxias, Time: time.Unix(1600000005, 0)}
	pb := &proposalBlock{logger: log.New(), signer: types.LatestSigner(cfg), state: st, usedGas: new(uint64), header: header,
		gasLimit: configs.BlockGasLimitGalaxias, gasPool: new(types.GasPool).AddGas(configs.BlockGasLimitGalaxias)}
	to := common.HexToAddress("0x00000000000000000000000000000000000000aa")
	gwei := big.NewInt(1000000000)
	txA, _ := types.SignTx(pb.signer, types.NewTransaction(0, to, new(big.Int).Mul(big.NewInt(5), kai), 21000, gwei, nil), key)
	txB, _ := types.SignTx(pb.signer, types.NewTransaction(1, to, new(big.Int).Mul(big.NewInt(6), kai), configs.BlockGasLimitGalaxias-21000, gwei, nil), key)
	for _, tx := range []*types.Transaction{txA, txB} { // what the pool checks per transaction
		if st.GetBalance(from).Cmp(tx.Cost()) < 0 {
			t.Fatal("pool would refuse", tx.Nonce())
		}
	}
	for i, tx := range []*types.Transaction{txA, txB} {
		before := pb.gasPool.Gas()
		err := pb.commitTransaction(bo, tx)
		t.Logf("tx %d: err=%v pool %d -> %d usedGas=%d included=%d", i, err, before, pb.gasPool.Gas(), *pb.usedGas, len(pb.txs))
	}
	if want := configs.BlockGasLimitGalaxias - *pb.usedGas; pb.gasPool.Gas() != want {
		t.Fatalf("gas pool leaked: pool=%d, limit-used=%d", pb.gasPool.Gas(), want)
	}
}
