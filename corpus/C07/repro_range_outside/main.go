package main

import (
	"bytes"
	"fmt"

	"github.com/kardiachain/go-kardia/kai/kaidb/memorydb"
	"github.com/kardiachain/go-kardia/trie"
)

// 33-byte values: every leaf is referenced by hash from the root branch
func val(k byte) []byte { return bytes.Repeat([]byte{k}, 33) }

func main() {
	t := trie.NewEmpty(trie.NewDatabase(memorydb.New()))
	for _, k := range []byte{0x10, 0x20, 0x30, 0x40} { // content: 10->k -> 33 x k for k = 10, 20, 30, 40
		t.Update([]byte{k}, val(k))
	}
	root := t.Hash()
	proof := memorydb.New()
	first, last := []byte{0x20}, []byte{0x30}
	t.Prove(first, 0, proof)
	t.Prove(last, 0, proof)
	// honest range [20,30]
	_, err := trie.VerifyRangeProof(root, first, last, [][]byte{{0x20}, {0x30}}, [][]byte{val(0x20), val(0x30)}, proof)
	fmt.Println("honest range [20,30]:", err)
	// the same range with an element LEFT of firstKey that is not in the trie (05 -> ee) and one RIGHT of lastKey (50 -> ee)
	_, err = trie.VerifyRangeProof(root, first, last, [][]byte{{0x10}, {0x20}, {0x30}}, [][]byte{{0xee}, val(0x20), val(0x30)}, proof)
	fmt.Println("with 10->ee (trie has 10->1010..) before firstKey:", err)
	more, err := trie.VerifyRangeProof(root, first, last, [][]byte{{0x20}, {0x30}, {0x40}}, [][]byte{val(0x20), val(0x30), {0xee}}, proof)
	fmt.Println("with 40->ee (trie has 40->4040..) after lastKey:", err, "more =", more)
}
