module repro

go 1.21

require github.com/kardiachain/go-kardia v0.0.0

require (
	github.com/VictoriaMetrics/fastcache v1.5.7 // indirect
	github.com/beorn7/perks v1.0.1 // indirect
	github.com/btcsuite/btcd v0.21.0-beta // indirect
	github.com/cespare/xxhash/v2 v2.1.1 // indirect
	github.com/ethereum/go-ethereum v1.9.15 // indirect
	github.com/go-kit/kit v0.10.0 // indirect
	github.com/go-stack/stack v1.8.0 // indirect
	github.com/gogo/protobuf v1.3.2 // indirect
	github.com/golang/protobuf v1.4.3 // indirect
	github.com/golang/snappy v0.0.1 // indirect
	github.com/gtank/merlin v0.1.1 // indirect
	github.com/libp2p/go-buffer-pool v0.0.2 // indirect
	github.com/matttproud/golang_protobuf_extensions v1.0.1 // indirect
	github.com/mimoo/StrobeGo v0.0.0-20181016162300-f8f6d4d2b643 // indirect
	github.com/pkg/errors v0.9.1 // indirect
	github.com/prometheus/client_golang v1.8.0 // indirect
	github.com/prometheus/client_model v0.2.0 // indirect
	github.com/prometheus/common v0.14.0 // indirect
	github.com/prometheus/procfs v0.2.0 // indirect
	github.com/shirou/gopsutil v2.20.5+incompatible // indirect
	github.com/syndtr/goleveldb v1.0.1-0.20200815110645-5c35d600f0ca // indirect
	golang.org/x/crypto v0.0.0-20210921155107-089bfa567519 // indirect
	golang.org/x/net v0.3.0 // indirect
	golang.org/x/sys v0.3.0 // indirect
	google.golang.org/protobuf v1.24.0 // indirect
)

replace github.com/kardiachain/go-kardia => /repo
