package fetcher

import (
	"encoding/binary"
	"testing"
	"time"

	"github.com/kardiachain/go-kardia/lib/common"
	"github.com/kardiachain/go-kardia/lib/mclock"
	"github.com/kardiachain/go-kardia/types"
)

// Two connections, no transaction ever delivered: A announces, is asked after the arrive timeout,
// B announces the same hashes (becomes an alternate), B disconnects, A disconnects.  Every hash stays
// in f.announced for ever (origin: the long-gone B), although no peer is connected any more.
func TestZzAnnouncedLeak(t *testing.T) {
	clock := new(mclock.Simulated)
	f := NewTxFetcherForTests(func(common.Hash) bool { return false },
		func(txs []*types.Transaction) []error { return make([]error, len(txs)) },
		func(string, []common.Hash) error { return nil }, clock, nil)
	f.step = make(chan struct{})
	f.Start()
	defer f.Stop()
	n := uint64(0)
	for cycle := 0; cycle < 50; cycle++ {
		hs := make([]common.Hash, 4000)
		for i := range hs {
			n++
			binary.BigEndian.PutUint64(hs[i][:], n)
		}
		f.Notify("A", hs)
		<-f.step
		clock.Run(500 * time.Millisecond) // wait timer: A is asked (in batches of 256)
		<-f.step
		f.Notify("B", hs)
		<-f.step
		f.Drop("B")
		<-f.step
		f.Drop("A")
		<-f.step
		t.Logf("cycle %d: peers tracked: announces=%d requests=%d; hashes still queued: %d; fetching=%d alternates=%d",
			cycle, len(f.announces), len(f.requests), len(f.announced), len(f.fetching), len(f.alternates))
	}
	if len(f.announces) == 0 && len(f.requests) == 0 && len(f.announced) > 0 {
		t.Fatalf("no peer is tracked, yet %d hashes are queued for retrieval for ever", len(f.announced))
	}
}
