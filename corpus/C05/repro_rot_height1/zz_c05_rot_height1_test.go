package consensus

import (
	"path/filepath"
	"testing"
	"time"

	cstypes "github.com/kardiachain/go-kardia/consensus/types"
	"github.com/kardiachain/go-kardia/lib/log"
)

// A WAL head rotated during the INITIAL height and a crash before the next flush: the restarted
// BaseWAL.OnStart writes #ENDHEIGHT 0 into the new empty head; catchupReplay(1) searches
// #ENDHEIGHT 0 newest file first, finds THAT marker and replays nothing of height 1.
func TestC05RotatedWalInitialHeight(t *testing.T) {
	walFile := filepath.Join(t.TempDir(), "wal")
	wal, err := NewWAL(walFile)
	if err != nil {
		t.Fatal(err)
	}
	wal.SetLogger(log.New())
	if err := wal.Start(); err != nil { // empty head: writes #ENDHEIGHT 0
		t.Fatal(err)
	}
	// a record of height 1 (stands for the own proposal / votes of height 1), fsynced
	if err := wal.WriteSync(timeoutInfo{Duration: time.Second, Height: 1, Round: 1, Step: cstypes.RoundStepPropose}); err != nil {
		t.Fatal(err)
	}
	wal.Group().RotateFile() // what checkHeadSizeLimit does when the head is >= 10 MB; no new head is created
	wal.Stop()               // (process dies)
	wal.Wait()

	wal2, err := NewWAL(walFile) // restart
	if err != nil {
		t.Fatal(err)
	}
	wal2.SetLogger(log.New())
	if err := wal2.Start(); err != nil { // head empty again: writes ANOTHER #ENDHEIGHT 0
		t.Fatal(err)
	}
	defer wal2.Stop()
	gr, found, err := wal2.SearchForEndHeight(0, &WALSearchOptions{IgnoreDataCorruptionErrors: true}) // catchupReplay(1)
	if err != nil || !found {
		t.Fatalf("found=%v err=%v", found, err)
	}
	defer gr.Close()
	n := 0
	for dec := NewWALDecoder(gr); ; n++ {
		if _, err := dec.Decode(); err != nil {
			break
		}
	}
	if n == 0 {
		t.Fatalf("catchupReplay(1) would replay 0 records: the height-1 record written before the rotation is skipped")
	}
}
