//go:build verif

// Reproduction of the known finding "halt-same-hash-other-body" (known_findings.json, property C03)
// on the real ConsensusState.  Uses the helpers of the C03 overlay harness
// (harness/overlay/consensus/verif_c03_test.go); see README.md next to this file for the command.
package consensus

import (
	"fmt"
	"testing"

	"github.com/kardiachain/go-kardia/configs"
	cstypes "github.com/kardiachain/go-kardia/consensus/types"
	"github.com/kardiachain/go-kardia/lib/common"
	"github.com/kardiachain/go-kardia/lib/log"
	kproto "github.com/kardiachain/go-kardia/proto/kardiachain/types"
	"github.com/kardiachain/go-kardia/types"
)

// 4 validators of power 10; exactly ONE of them (the proposer of the round) is Byzantine: it signs two
// proposals for one header hash H with two bodies.  Everybody else follows the protocol.
func c03ReproCase(t *testing.T, me int) *c03Case {
	log.Root().SetHandler(log.DiscardHandler())
	o := c03Open(t.TempDir())
	net := c03NewNet("repro", []int64{10, 10, 10, 10})
	cfg := configs.TestConsensusConfig()
	nd := c03NewNode(net, me, cfg)
	c := &c03Case{o: o, r: c03NewRand(7), net: net, nd: nd, hashes: map[common.Hash]int{}, partsH: map[string]int{},
		seen: map[uint64]*types.Commit{}, byz: map[int]bool{}, firstVote: map[string]string{}, byHash: map[common.Hash][]*c03Block{}, byContent: map[string]*c03Block{}, sigReg: map[string]*c03SigInfo{}, signedKey: map[string]string{}}
	nd.sigHook = func(v *kproto.Vote) { c.regSig(v.Signature, me, v) }
	o.Case(0, "CASE 0")
	c.buildProposers()
	return c
}

func (c *c03Case) reproPropose(h uint64, r uint32, b *c03Block) {
	signer := c.proposerAt(h, r)
	p := types.NewProposal(h, r, 0, types.BlockID{Hash: b.blk.Hash(), PartsHeader: b.parts.Header()})
	pp := p.ToProto()
	if err := c.net.pvs[signer].SignProposal(c03ChainID, pp); err != nil {
		panic(err)
	}
	p.Signature = pp.Signature
	c.opProposal(p, signer, 1)
	c.opBlock(h, r, b, 1)
	c.drainAll()
}

func (c *c03Case) reproVotes(typ kproto.SignedMsgType, h uint64, r uint32, b *c03Block) {
	bid := types.BlockID{Hash: b.blk.Hash(), PartsHeader: b.parts.Header()}
	for idx := 0; idx < c.net.n && !c.dead; idx++ {
		if idx == c.nd.me {
			continue
		}
		v, ok := c.signVoteAs(idx, typ, h, r, bid, 0)
		c.opVote(1, v, ok)
		c.drainAll()
	}
}

// A (first height): the victim holds body B (parts header P); the others were given body B' (same
// header, an empty last commit with another round number: equally valid, parts header P').
func TestC03ReproSameHashTwoBodiesFirstHeight(t *testing.T) {
	c := c03ReproCase(t, 3)
	cs := c.nd.cs
	c.opTimeout(1, 1, cstypes.RoundStepNewHeight)
	if c.proposerAt(1, 1) == c.nd.me {
		t.Fatal("pick another victim")
	}
	b := c.newBlock("valid")
	tw := c.newTwin(b)
	fmt.Printf("A: H equal: %v, parts headers differ: %v, both valid at height 1: %v %v\n", b.blk.Hash() == tw.blk.Hash(), !b.parts.HasHeader(tw.parts.Header()), b.validAt == 1, tw.validAt == 1)
	c.reproPropose(1, 1, b) // the victim prevotes (H, P)
	c.reproVotes(kproto.PrevoteType, 1, 1, tw) // the others prevote (H, P')
	fmt.Printf("A: after the polka for (H,P'): LockedBlock is B: %v, LockedBlockParts complete: %v\n", cs.LockedBlock != nil && cs.LockedBlock.Hash() == b.blk.Hash(), cs.LockedBlockParts != nil && cs.LockedBlockParts.IsComplete())
	c.reproVotes(kproto.PrecommitType, 1, 1, tw) // ... and precommit it
	fmt.Printf("A: node halted (panic in the consensus routine): %v %v\n", c.dead, c.o.dist)
	if !c.dead {
		t.Fatal("no halt")
	}
}

// B (second height): the victim is given the body whose last commit carries another round number
// (the header only commits to the signatures): not a valid block; the others were given the valid body.
func TestC03ReproSameHashTwoBodiesLaterHeight(t *testing.T) {
	c := c03ReproCase(t, 3)
	cs := c.nd.cs
	c.opTimeout(1, 1, cstypes.RoundStepNewHeight)
	b1 := c.newBlock("valid")
	c.reproPropose(1, 1, b1)
	c.reproVotes(kproto.PrevoteType, 1, 1, b1)
	c.reproVotes(kproto.PrecommitType, 1, 1, b1)
	if cs.Height != 2 {
		t.Fatal("height 1 not committed")
	}
	c.declareHeight()
	c.opTimeout(2, 1, cstypes.RoundStepNewHeight)
	r := cs.Round
	for c.proposerAt(2, r) == c.nd.me { // a round whose proposer is not the victim
		c.opTimeout(2, r, cstypes.RoundStepPropose)
		c.drainAll()
		c.reproVotesNil(2, r)
		r = cs.Round
	}
	b := c.newBlock("valid")
	tw := c.newTwin(b)
	fmt.Printf("B: H equal: %v, valid: original %v twin %v\n", b.blk.Hash() == tw.blk.Hash(), b.validAt == 2, tw.validAt == 2)
	c.reproPropose(2, r, tw) // the victim is given the twin: it prevotes nil
	c.reproVotes(kproto.PrevoteType, 2, r, b) // the others prevote the valid body
	fmt.Printf("B: node halted (panic in the consensus routine): %v %v\n", c.dead, c.o.dist)
	if !c.dead {
		t.Fatal("no halt")
	}
}

func (c *c03Case) reproVotesNil(h uint64, r uint32) {
	for _, typ := range []kproto.SignedMsgType{kproto.PrevoteType, kproto.PrecommitType} {
		for idx := 0; idx < c.net.n && !c.dead; idx++ {
			if idx == c.nd.me {
				continue
			}
			v, ok := c.signVoteAs(idx, typ, h, r, types.BlockID{}, 0)
			c.opVote(1, v, ok)
			c.drainAll()
		}
	}
	c.opTimeout(h, r, cstypes.RoundStepPrecommitWait)
	c.drainAll()
}
