//go:build verif

package consensus

import (
	"fmt"
	"testing"
	"time"

	"github.com/kardiachain/go-kardia/configs"
	"github.com/kardiachain/go-kardia/kai/state/cstate"
	"github.com/kardiachain/go-kardia/lib/log"
	"github.com/kardiachain/go-kardia/trie"
	"github.com/kardiachain/go-kardia/types"
)

// A genesis with InitialHeight = 5: the first block must have height 5 (updateToState, createProposalBlock
// and the second height check of validateBlock say so), but validateBlock's first, unconditional check
// demands LastBlockHeight+1 = 1.
func TestC03InitialHeight5(t *testing.T) {
	log.Root().SetHandler(log.DiscardHandler())
	net := c03NewNet("ih", []int64{10, 10, 10, 10})
	st := net.state
	st.InitialHeight = 5
	nd := c03NewNode(net, 0, configs.TestConsensusConfig())
	for _, h := range []uint64{5, 1} {
		hd := &types.Header{Height: h, Time: st.LastBlockTime, LastBlockID: st.LastBlockID, ProposerAddress: net.vals.Validators[0].Address,
			ValidatorsHash: st.Validators.Hash(), NextValidatorsHash: st.NextValidators.Hash(), AppHash: st.AppHash}
		blk := types.NewBlock(hd, nil, types.NewCommit(0, 0, types.BlockID{}, nil), nil, trie.NewStackTrie(nil))
		be := cstate.NewBlockExecutor(nd.store, log.New(), c03Ev{}, nd.bo)
		fmt.Printf("InitialHeight=5, block height %d: ValidateBlock = %v\n", h, be.ValidateBlock(st, blk))
	}
	_ = time.Now
}
