#!/bin/bash
# MANIFEST.setup_cmd: build the whole framework offline from files on disk.
cd "$(dirname "$0")"
export GOFLAGS=-mod=mod GOPROXY=off GOSUMDB=off GOTOOLCHAIN=local
set -x
mkdir -p bin; (cd go2coq && go build -o ../bin/go2coq . 2>&1 | tail -5)
(cd coq && ./mkproject.sh && timeout 7000 make -j16 2>&1 | grep -v '^Warning' | tail -20)
for d in ocaml/C*/; do p=$(basename $d); [ -f ocaml/$p/driver.ml ] && [ -f ocaml/$p/model.ml ] && ./ocaml/build.sh $p; done
cp /repo/go.sum harness/go.sum
(cd harness && go build -tags verif -o /dev/null ./... 2>&1 | tail -20)
exit 0
