#!/usr/bin/env python3
"""Shared machinery of the /verif checks.

One check = one property:
  1. regenerate the property's Generated/*Facts.v from /repo's working tree (translator half),
  2. build the Coq closure of theories/<id>/Properties.v with a full `make` (never -vos),
     audit it (no Admitted/admit/Axiom/..., `Print Assumptions` of every property theorem),
  3. rebuild the Go harness from /repo's working tree, run it (implementation observables +
     direct property oracles), run the extracted model on the same inputs, compare,
  4. decide, write evidence/<id>.json, print VIOLATION / KNOWN-FINDING lines.
"""
import fcntl, glob, hashlib, json, os, re, shutil, subprocess, sys, tempfile, time

ROOT = os.path.dirname(os.path.dirname(os.path.abspath(__file__)))
# VERIF_REPO: run the machinery against a scratch copy/worktree of the repository (mutation
# experiments) instead of /repo.  Registered checks never set it.
REPO = os.environ.get("VERIF_REPO", "/repo")
COQ = os.path.join(ROOT, "coq")
HARNESS = os.path.join(ROOT, "harness")
GOENV = dict(os.environ, GOFLAGS="-mod=mod", GOPROXY="off", GOSUMDB="off", GOTOOLCHAIN="local",
             CGO_ENABLED=os.environ.get("CGO_ENABLED", "1"))
FORBIDDEN = re.compile(r"\b(Admitted|admit|Axiom|Axioms|Parameter|Parameters|Conjecture|Conjectures|"
                       r"Admit Obligations|bypass_check|Unset Guard Checking|Unset Positivity Checking|"
                       r"Unset Universe Checking|type-in-type|impredicative-set)\b")
ALLOWED_STDLIB_AXIOMS = {
    # standard-library axioms that may appear under Print Assumptions (each is named in DESIGN.md §4 if used)
    "functional_extensionality_dep", "FunctionalExtensionality.functional_extensionality_dep",
    "proof_irrelevance", "ProofIrrelevance.proof_irrelevance", "classic", "Classical_Prop.classic",
    "JMeq_eq", "JMeq.JMeq_eq", "Eqdep.Eq_rect_eq.eq_rect_eq", "eq_rect_eq",
}


def log(*a):
    print(*a, file=sys.stderr, flush=True)


def sh(cmd, cwd=None, timeout=3600, env=None, stdin=None, stdout=None):
    t0 = time.time()
    try:
        p = subprocess.run(cmd, cwd=cwd, shell=isinstance(cmd, str), env=env or os.environ, timeout=timeout,
                           stdin=stdin, stdout=stdout if stdout is not None else subprocess.PIPE,
                           stderr=subprocess.STDOUT if stdout is None else subprocess.PIPE, text=(stdout is None))
    except subprocess.TimeoutExpired as e:
        # a hung harness / build is reported (as a broken run), never a crash of the check itself
        out = e.stdout if isinstance(e.stdout, str) else (e.stdout.decode(errors="replace") if e.stdout else "")
        return 124, (out or "") + "\nTIMEOUT after %s s: %s" % (timeout, cmd if isinstance(cmd, str) else " ".join(map(str, cmd))[:300]), time.time() - t0
    return p.returncode, (p.stdout if stdout is None else (p.stderr.decode() if p.stderr else "")), time.time() - t0


class Lock:
    def __init__(self, name):
        self.path = os.path.join(ROOT, ".lock." + name)

    def __enter__(self):
        self.f = open(self.path, "w")
        fcntl.flock(self.f, fcntl.LOCK_EX)

    def __exit__(self, *a):
        fcntl.flock(self.f, fcntl.LOCK_UN)
        self.f.close()


def load_cfg(pid):
    with open(os.path.join(ROOT, "props", pid + ".json")) as f:
        return json.load(f)


def known_findings(pid):
    p = os.path.join(ROOT, "known_findings.json")
    if not os.path.exists(p):
        return []
    with open(p) as f:
        kf = json.load(f)
    return [k for k in kf.get("findings", []) if k.get("property") == pid and k.get("status") == "known"]


# ----------------------------------------------------------------------------- Go side

def go_prepare():
    """harness/go.sum must cover /repo's dependency graph."""
    src = os.path.join(REPO, "go.sum")
    dst = os.path.join(HARNESS, "go.sum")
    try:
        if not os.path.exists(dst) or open(src).read() != open(dst).read():
            shutil.copy(src, dst)
    except OSError:
        pass


def build_harness(cfg, workdir):
    """Builds the harness binary from the repository's current working tree (tag verif). Returns (ok, path|log)."""
    go_prepare()
    kind = cfg.get("harness_kind", "run")
    exe = os.path.join(workdir, "harness_" + cfg["id"])
    hdir = HARNESS
    if REPO != "/repo":
        # scratch repository: private copy of the harness module with the replace directive redirected
        hdir = os.path.join(workdir, "harness_src")
        shutil.copytree(HARNESS, hdir, ignore=shutil.ignore_patterns("*.test"))
        gm = open(os.path.join(hdir, "go.mod")).read().replace("=> /repo", "=> " + REPO)
        open(os.path.join(hdir, "go.mod"), "w").write(gm)
        shutil.copy(os.path.join(REPO, "go.sum"), os.path.join(hdir, "go.sum"))
    with Lock("go"):
        if kind == "run":
            rc, out, dt = sh(["go", "build", "-tags", "verif", "-o", exe, cfg["harness"]], cwd=hdir, env=GOENV, timeout=1800)
        elif kind == "overlay-test":
            # in-package harness: test file(s) injected into a repository package with -overlay; compiled to a test binary
            ov = {"Replace": {}}
            for dst, src in cfg["overlay"].items():
                ov["Replace"][os.path.join(REPO, dst)] = os.path.join(HARNESS, "overlay", src)
            ovp = os.path.join(workdir, "overlay.json")
            with open(ovp, "w") as f:
                json.dump(ov, f)
            rc, out, dt = sh(["go", "test", "-tags", "verif", "-vet=off", "-overlay", ovp, "-c", "-o", exe, cfg["package"]],
                             cwd=REPO, env=GOENV, timeout=1800)
        else:
            return False, "unknown harness_kind " + kind
    if rc != 0:
        return False, out
    return True, exe


def harness_argv(cfg, exe, seed, n, outdir, tier, only=None, extra=None):
    kind = cfg.get("harness_kind", "run")
    if kind == "overlay-test":
        argv = [exe, "-test.run", cfg.get("test_name", "TestVerifHarness"), "-test.timeout", "0",
                "-seed", str(seed), "-n", str(n), "-out", outdir, "-tier", tier]
    else:
        argv = [exe, "-seed", str(seed), "-n", str(n), "-out", outdir, "-tier", tier]
    if only is not None:
        argv += ["-only", str(only)]
    argv += list(cfg.get("harness_args", [])) + list(extra or [])
    return argv


# ----------------------------------------------------------------------------- Coq side

def coq_files(cfg):
    files = []
    for d in cfg.get("coq_dirs", ["Base", cfg["id"]]):
        files += sorted(glob.glob(os.path.join(COQ, "theories", d, "*.v")))
    for f in cfg.get("coq_extra_files", []):
        files.append(os.path.join(COQ, f))
    return files


def coq_audit(cfg):
    """grep the closure for forbidden vernacular; returns list of offending lines."""
    bad = []
    for f in coq_files(cfg) + glob.glob(os.path.join(COQ, "extract", cfg["id"] + ".v")):
        txt = open(f).read()
        # strip comments (non-nested is enough for our sources; nested handled by loop)
        prev = None
        while prev != txt:
            prev = txt
            txt = re.sub(r"\(\*[^*(]*(?:\*(?!\))[^*(]*|\((?!\*)[^*(]*)*\*\)", " ", txt)
        for i, line in enumerate(txt.split("\n")):
            if FORBIDDEN.search(line):
                bad.append("%s:%d: %s" % (os.path.relpath(f, ROOT), i + 1, line.strip()))
    return bad


def count_obligations(cfg):
    n = 0
    names = []
    for f in coq_files(cfg):
        txt = open(f).read()
        n += len(re.findall(r"\b(Qed|Defined)\.", txt))
    return n


def coq_build(cfg, clean=False, chk=False):
    """Full .vo build of the property's closure (and, with chk, coqchk) under ONE hold of the coq lock.
    Returns (ok, log, coqchk_rc, coqchk_output)."""
    pid = cfg["id"]
    with Lock("coq"):
        sh(["./mkproject.sh"], cwd=COQ)
        targets = [t for t in cfg.get("coq_targets", ["theories/%s/Properties.vo" % pid, "extract/%s.vo" % pid])]
        if clean:
            # clean rebuild of the property's OWN files only (Base/ and Generated/ are shared with the
            # other properties' concurrent checks; make rebuilds them when their sources change)
            own = [f for f in coq_files(cfg) if os.sep + pid + os.sep in f] + glob.glob(os.path.join(COQ, "extract", pid + ".v"))
            for f in own:
                for ext in ("o", "os", "ok"):
                    try:
                        os.remove(f + ext)
                    except OSError:
                        pass
                try:
                    os.remove(f[:-2] + ".glob")
                except OSError:
                    pass
        rc, out, dt = sh(["timeout", "3000", "make", "-j16"] + targets, cwd=COQ, timeout=3100)
        for _ in range(3):
            if rc != 0 and (".Makefile.d" in out or "inconsistent assumptions" in out or "bad version number" in out or "is corrupted" in out):
                # the dependency file / a .vo was being rewritten by a concurrent make started outside the lock:
                # regenerate the dependencies and try again
                try:
                    os.remove(os.path.join(COQ, ".Makefile.d"))
                except OSError:
                    pass
                time.sleep(5)
                rc, out, dt = sh(["timeout", "3000", "make", "-j16"] + targets, cwd=COQ, timeout=3100)
        if rc != 0:
            return False, out, None, None
        # always recompile Properties.v by hand to capture its Print Assumptions output
        pf = os.path.join(COQ, "theories", pid, "Properties.v")
        rc, out2, dt = sh(["timeout", "1200", "coqc", "-Q", "theories", "Kardia", "-w", "-notation-overridden,-deprecated-hint-without-locality",
                           os.path.relpath(pf, COQ)], cwd=COQ, timeout=1300)
        crc, cout = None, None
        if rc == 0 and chk:
            crc, cout, dt = sh(["timeout", "3000", "coqchk", "-silent", "-o", "-Q", "theories", "Kardia", "Kardia.%s.Properties" % pid], cwd=COQ, timeout=3100)
        return rc == 0, out + "\n" + out2, crc, cout


def parse_assumptions(cfg, buildlog):
    """Pairs every `Print Assumptions X.` of Properties.v with the answer printed by coqc."""
    pf = os.path.join(COQ, "theories", cfg["id"], "Properties.v")
    names = re.findall(r"Print Assumptions\s+([A-Za-z0-9_.']+)\s*\.", open(pf).read())
    theorems = re.findall(r"^\s*(?:Theorem|Lemma|Corollary)\s+([A-Za-z0-9_']+)", open(pf).read(), re.M)
    # coqc prints, per Print Assumptions, either "Closed under the global context" or "Axioms:\n name : type ..."
    tail = buildlog.split("\n")
    answers = []
    i = 0
    while i < len(tail):
        l = tail[i]
        if l.startswith("Closed under the global context"):
            answers.append([])
        elif l.startswith("Axioms:"):
            ax = []
            i += 1
            while i < len(tail) and tail[i].strip() and not tail[i].startswith("Closed under") and not tail[i].startswith("Axioms:"):
                m = re.match(r"^([A-Za-z0-9_.']+)\s*:", tail[i])
                if m:
                    ax.append(m.group(1))
                i += 1
            answers.append(ax)
            continue
        i += 1
    res = []
    for k, nm in enumerate(names):
        res.append({"theorem": nm, "axioms": answers[k] if k < len(answers) else ["<no answer from coqc>"]})
    return theorems, res


def build_model(cfg):
    with Lock("ocaml"):
        rc, out, dt = sh([os.path.join(ROOT, "ocaml", "build.sh"), cfg["id"]], cwd=ROOT, timeout=1200)
    return rc == 0, out


def regenerate_facts(cfg, exe):
    """Translator half: the harness binary prints the code's own constants/tables as a Coq file."""
    fo = cfg.get("facts_out")
    if not fo:
        return True, ""
    dst = os.path.join(COQ, fo)
    tmp = dst + ".new.%d" % os.getpid()
    kind = cfg.get("harness_kind", "run")
    argv = [exe] + (["-test.run", cfg.get("test_name", "TestVerifHarness")] if kind == "overlay-test" else []) + ["-facts", tmp, "-out", os.path.dirname(tmp)]
    rc, out, dt = sh(argv, cwd=HARNESS, env=GOENV, timeout=600)
    if rc != 0 or not os.path.exists(tmp):
        return False, out
    if REPO != "/repo":
        same = os.path.exists(dst) and open(dst).read() == open(tmp).read()
        os.remove(tmp)
        return (True, out) if same else (False, "source-derived facts differ from %s (scratch repository: not rewritten)" % fo)
    with Lock("coq"):
        if not os.path.exists(dst) or open(dst).read() != open(tmp).read():
            os.replace(tmp, dst)
        else:
            os.remove(tmp)
    return True, out


def build_go2coq():
    """(Re)builds bin/go2coq (stdlib-only Go program) when its source is newer than the binary."""
    src = os.path.join(ROOT, "go2coq", "main.go")
    exe = os.path.join(ROOT, "bin", "go2coq")
    with Lock("go2coq"):
        if not os.path.exists(exe) or os.path.getmtime(exe) < os.path.getmtime(src):
            os.makedirs(os.path.dirname(exe), exist_ok=True)
            rc, out, dt = sh(["go", "build", "-o", exe, "."], cwd=os.path.join(ROOT, "go2coq"), env=GOENV, timeout=600)
            if rc != 0:
                return None, out
    return exe, ""


def regenerate_source(cfg, workdir):
    """Translator half, source level: /verif/go2coq translates the functions and guards listed in the
    property's spec from the repository's CURRENT Go sources (parsed and type-checked) into
    Generated/<id>Source.v; <id>/SourceTie.v proves the model computes exactly those expressions.
    For a scratch repository (VERIF_REPO) the shared Coq tree is not rewritten: if the translation
    differs, the new file and the tie proofs are compiled in a private directory instead."""
    g = cfg.get("go2coq")
    if not g:
        return True, ""
    exe, out = build_go2coq()
    if not exe:
        return False, "go2coq does not build: " + out[-1500:]
    dst = os.path.join(COQ, g["out"])
    tmp = os.path.join(workdir, os.path.basename(g["out"]))
    rc, out, dt = sh([exe, "-repo", REPO, "-spec", os.path.join(ROOT, g["spec"]), "-out", tmp], cwd=REPO, env=GOENV, timeout=900)
    if rc != 0 or not os.path.exists(tmp):
        return False, "source translation failed (the translated functions left the supported subset or no longer exist): " + out[-1500:]
    same = os.path.exists(dst) and open(dst).read() == open(tmp).read()
    if same:
        return True, ""
    if REPO == "/repo":
        with Lock("coq"):
            shutil.copy(tmp, dst)
        return True, "regenerated"
    # scratch repository: private compilation of the new translation + the tie proofs against it
    sdir = os.path.join(workdir, "scratch_coq")
    os.makedirs(sdir, exist_ok=True)
    modname = os.path.basename(g["out"])[:-2]
    shutil.copy(tmp, os.path.join(sdir, modname + ".v"))
    files = [modname + ".v"]
    for t in g.get("tie", []):
        txt = open(os.path.join(COQ, t)).read()
        txt2 = txt.replace("From Kardia Require Import Generated.%s." % modname, "From KScratch Require Import %s." % modname)
        if txt2 == txt:
            return False, "tie file %s does not import Generated.%s on a line of its own" % (t, modname)
        name = "Scratch" + os.path.basename(t)
        open(os.path.join(sdir, name), "w").write(txt2)
        files.append(name)
    with Lock("coq"):
        for f in files:
            rc, out, dt = sh(["timeout", "900", "coqc", "-Q", os.path.join(COQ, "theories"), "Kardia", "-Q", sdir, "KScratch",
                              "-w", "-notation-overridden,-deprecated-hint-without-locality", os.path.join(sdir, f)], cwd=sdir, timeout=1000)
            if rc != 0:
                return False, "source tie no longer proves against the current Go source (%s):\n%s" % (f, out[-2500:])
    return True, "scratch translation differs textually but the tie proofs still hold"



# ----------------------------------------------------------------------------- compare

def compare(outdir):
    """Line-by-line comparison of impl.txt and model.txt; returns list of (case, step, impl, model)."""
    mism = []
    ip = open(os.path.join(outdir, "impl.txt")).read().split("\n")
    mp = open(os.path.join(outdir, "model.txt")).read().split("\n")
    case, step = None, 0
    bad_cases = set()
    n = max(len(ip), len(mp))
    compared = 0
    for i in range(n):
        a = ip[i] if i < len(ip) else "<missing>"
        b = mp[i] if i < len(mp) else "<missing>"
        if a.startswith("CASE "):
            case, step = a.split()[1], 0
            if a != b:
                mism.append((case, -1, a, b))
                break  # streams out of sync
            continue
        if a == "" and b == "":
            continue
        compared += 1
        if a != b and case not in bad_cases:
            bad_cases.add(case)
            mism.append((case, step, a, b))
        step += 1
    return mism, compared


def case_input(outdir, case):
    """Returns the input lines of one case from in.txt."""
    lines = []
    on = False
    with open(os.path.join(outdir, "in.txt")) as f:
        for l in f:
            if l.startswith("CASE "):
                on = (l.split()[1] == str(case))
            if on:
                lines.append(l.rstrip("\n"))
    return lines


def parse_oracle(outdir):
    res = []
    p = os.path.join(outdir, "oracle.txt")
    if not os.path.exists(p):
        return res
    for l in open(p):
        m = re.match(r"FAIL case=(\S+) step=(\S+) class=(\S+)\s*(.*)", l.strip())
        if m:
            res.append({"case": m.group(1), "step": m.group(2), "class": m.group(3), "detail": m.group(4)})
    return res


def run_once(cfg, exe, seed, n, tier, workdir, tag, only=None, extra=None):
    outdir = os.path.join(workdir, "run_" + tag)
    os.makedirs(outdir, exist_ok=True)
    argv = harness_argv(cfg, exe, seed, n, outdir, tier, only, extra)
    mem = cfg.get("mem_limit_kb")
    if mem:
        argv = ["bash", "-c", "ulimit -v %d; exec \"$@\"" % mem, "x"] + argv
    rc, out, dt = sh(argv, cwd=HARNESS, env=GOENV, timeout=cfg.get("harness_timeout", 1500))
    res = {"outdir": outdir, "harness_rc": rc, "harness_log": out[-4000:], "seed": seed, "n": n, "harness_s": dt}
    if rc != 0 or not os.path.exists(os.path.join(outdir, "impl.txt")):
        res["error"] = "harness failed"
        return res
    model = os.path.join(ROOT, "bin", "model_" + cfg["id"])
    t0 = time.time()
    with open(os.path.join(outdir, "in.txt"), "rb") as fi, open(os.path.join(outdir, "model.txt"), "wb") as fo:
        try:
            p = subprocess.run([model] + list(cfg.get("model_args", [])), stdin=fi, stdout=fo, stderr=subprocess.PIPE, timeout=cfg.get("model_timeout", 3000))
        except subprocess.TimeoutExpired:
            res["error"] = "model driver timed out"
            return res
    res["model_s"] = time.time() - t0
    if p.returncode != 0:
        res["error"] = "model driver failed: " + p.stderr.decode()[-2000:]
        return res
    res["mismatches"], res["compared"] = compare(outdir)
    res["oracle"] = parse_oracle(outdir)
    try:
        res["stats"] = json.load(open(os.path.join(outdir, "stats.json")))
    except Exception:
        res["stats"] = {}
    return res


def write_replay(pid, kind, data):
    os.makedirs(os.path.join(ROOT, "replays"), exist_ok=True)
    h = hashlib.sha1(json.dumps(data, sort_keys=True).encode()).hexdigest()[:10]
    path = os.path.join(ROOT, "replays", "%s-%s-%s.json" % (pid, kind, h))
    with open(path, "w") as f:
        json.dump(data, f, indent=1)
    return path


# ----------------------------------------------------------------------------- main entry

def check(pid, tier="quick", seed=None, replay=None):
    t0 = time.time()
    cfg = load_cfg(pid)
    cfg["id"] = pid
    seed = int(seed if seed is not None else os.environ.get("VERIF_SEED", "1") or 1)
    tcfg = cfg.get(tier, cfg.get("quick", {}))
    base = os.environ.get("VERIF_TMP", os.path.join(ROOT, ".work"))
    os.makedirs(base, exist_ok=True)
    workdir = tempfile.mkdtemp(prefix="verif_%s_" % pid, dir=base)
    violations = []   # (replay path, text, found_input)
    known_lines = []
    problems = []     # broken obligations / correspondences (names)
    cov = {}
    try:
        # ---- Go harness build (from /repo working tree)
        ok, exe = build_harness(cfg, workdir)
        if not ok:
            # the repository no longer builds with the harness: nothing can be shown
            problems.append({"what": "harness-build", "detail": exe[-3000:]})
            exe = None
        # ---- translator: regenerate facts
        if exe:
            ok, out = regenerate_facts(cfg, exe)
            if not ok:
                problems.append({"what": "facts-regeneration", "detail": out[-2000:]})
        # ---- translator, source level (go2coq)
        oks, outs = regenerate_source(cfg, workdir)
        if not oks:
            problems.append({"what": "source-tie", "detail": outs[-3000:]})
        # ---- Coq
        bad = coq_audit(cfg)
        want_chk = (tier == "thorough" and cfg.get("coqchk", True))
        okc, clog, crc, cout = coq_build(cfg, clean=(tier == "thorough"), chk=want_chk)
        theorems, assum = parse_assumptions(cfg, clog) if okc else ([], [])
        obligations = count_obligations(cfg)
        axioms_used = sorted({a for t in assum for a in t["axioms"]})
        not_allowed = [a for a in axioms_used if a not in ALLOWED_STDLIB_AXIOMS and a.split(".")[-1] not in ALLOWED_STDLIB_AXIOMS]
        if not okc:
            m = re.findall(r'File "([^"]+)", line (\d+)', clog)
            problems.append({"what": "coq-obligation", "detail": "coq build of %s closure failed%s\n%s" % (pid, (" at %s:%s" % m[-1]) if m else "", clog[-3000:])})
        if bad:
            problems.append({"what": "coq-audit", "detail": "forbidden vernacular: " + "; ".join(bad[:5])})
        if not_allowed:
            problems.append({"what": "coq-axioms", "detail": "property theorems depend on non-stdlib axioms: " + ", ".join(not_allowed)})
        if okc and len(assum) < len(theorems):
            problems.append({"what": "coq-audit", "detail": "Properties.v: %d theorems but %d Print Assumptions" % (len(theorems), len(assum))})
        coqchk_out = None
        if okc and want_chk:
            coqchk_out = (cout or "")[-3000:]
            if crc != 0:
                problems.append({"what": "coqchk", "detail": (cout or "")[-2000:]})
        # ---- model binary
        okm = False
        if okc:
            okm, mlog = build_model(cfg)
            if not okm:
                problems.append({"what": "model-build", "detail": mlog[-3000:]})
        # ---- correspondence + oracles
        runs = []
        if exe and os.path.exists(os.path.join(ROOT, "bin", "model_" + pid)):
            if replay:
                rp = json.load(open(replay))
                r = run_once(cfg, exe, rp.get("seed", seed), rp.get("n", tcfg.get("n", 100)), rp.get("tier", tier), workdir, "replay", only=rp.get("case"), extra=rp.get("extra"))
                runs.append(r)
            else:
                # corpus first (kept minimised failures), then the generated stream, sharded
                shards = int(tcfg.get("shards", 1))
                n = int(tcfg.get("n", 100))
                import concurrent.futures as cf
                with cf.ThreadPoolExecutor(max_workers=min(16, shards)) as ex:
                    futs = [ex.submit(run_once, cfg, exe, seed * 1000 + k if shards > 1 else seed, n // shards, tier, workdir, "s%d" % k) for k in range(shards)]
                    runs = [f.result() for f in futs]
                for cp in sorted(glob.glob(os.path.join(ROOT, "corpus", pid, "*.json"))):
                    rp = json.load(open(cp))
                    runs.append(run_once(cfg, exe, rp["seed"], rp.get("n", 1), rp.get("tier", tier), workdir, "corpus_" + os.path.basename(cp)[:-5], only=rp.get("case"), extra=rp.get("extra")))
        kf = known_findings(pid)
        total_cases = total_ops = compared = 0
        dist = {}
        samples = []
        nontrivial = 0
        mismatches = []
        fails = []
        for r in runs:
            if r.get("error"):
                problems.append({"what": "correspondence-run", "detail": r["error"] + "\n" + r.get("harness_log", "")[-2000:]})
                continue
            st = r.get("stats", {})
            total_cases += st.get("cases", 0)
            total_ops += st.get("ops", 0)
            nontrivial += st.get("distinct_nontrivial", 0)
            compared += r.get("compared", 0)
            for k, v in st.get("dist", {}).items():
                dist[k] = dist.get(k, 0) + v
            if len(samples) < 3:
                samples += st.get("samples", [])[: 3 - len(samples)]
            for m in r["mismatches"]:
                mismatches.append(dict(case=m[0], step=m[1], impl=m[2], model=m[3], seed=r["seed"], n=r["n"], outdir=r["outdir"]))
            for f in r["oracle"]:
                fails.append(dict(f, seed=r["seed"], n=r["n"], outdir=r["outdir"]))
        # ---- decide
        reported = set()
        for f in fails:
            k = next((k for k in kf if re.search(k["match"], f["class"] + " " + f["detail"])), None)
            if k:
                line = "KNOWN-FINDING: property=%s %s" % (pid, k["what"])
                if line not in known_lines:
                    known_lines.append(line)
                continue
            if f["class"] in reported:
                continue
            reported.add(f["class"])
            path = write_replay(pid, "oracle", {"property": pid, "kind": "property-oracle-failure-on-implementation", "class": f["class"],
                                               "detail": f["detail"], "seed": f["seed"], "n": f["n"], "case": int(f["case"]) if f["case"].isdigit() else f["case"],
                                               "step": f["step"], "tier": tier, "input": case_input(f["outdir"], f["case"]),
                                               "replay_cmd": "./check %s --replay <this file>" % pid})
            violations.append((path, "class=%s %s" % (f["class"], f["detail"]), True))
        if not violations and (mismatches or problems):
            # a proof obligation or the correspondence broke and no generated case failed the direct
            # oracle yet: search harder for a concrete failing input before reporting
            found = None
            if exe and os.path.exists(os.path.join(ROOT, "bin", "model_" + pid)) and not replay:
                for k in range(int(cfg.get("search_rounds", 3))):
                    r = run_once(cfg, exe, seed * 7919 + 17 + k, int(tcfg.get("n", 100)) * 2, tier, workdir, "search%d" % k)
                    if r.get("error"):
                        continue
                    for f in r["oracle"]:
                        if not any(re.search(kk["match"], f["class"] + " " + f["detail"]) for kk in kf):
                            found = dict(f, seed=r["seed"], n=r["n"], outdir=r["outdir"])
                            break
                    if found:
                        break
            if found:
                path = write_replay(pid, "oracle", {"property": pid, "kind": "property-oracle-failure-on-implementation", "class": found["class"],
                                                   "detail": found["detail"], "seed": found["seed"], "n": found["n"], "case": int(found["case"]),
                                                   "step": found["step"], "tier": tier, "input": case_input(found["outdir"], found["case"]),
                                                   "broken": [p["what"] for p in problems] + (["correspondence"] if mismatches else [])})
                violations.append((path, "class=%s %s" % (found["class"], found["detail"]), True))
            else:
                data = {"property": pid, "kind": "no-failing-input-found", "tier": tier, "seed": seed,
                        "broken_obligations": problems,
                        "broken_correspondence": [dict(m, input=case_input(m["outdir"], m["case"])[:200], outdir=None) for m in mismatches[:5]],
                        "note": "the named theorem/correspondence no longer checks; the direct property oracles found no failing input in the generated and search runs"}
                if mismatches:
                    data["correspondence"] = "model (coq/theories/%s/Model.v, extracted) vs implementation on harness %s" % (pid, cfg.get("harness", cfg.get("package")))
                path = write_replay(pid, "broken", data)
                what = "correspondence %s:case %s step %s impl=[%s] model=[%s]" % (pid, mismatches[0]["case"], mismatches[0]["step"], mismatches[0]["impl"], mismatches[0]["model"]) if mismatches else problems[0]["what"]
                violations.append((path, what, False))
        # ---- evidence
        wall = time.time() - t0
        cov = {
            "obligations": obligations, "discharged": obligations if okc and not bad else 0,
            "checker_cmd": "make -C coq theories/%s/Properties.vo (coqc 8.16.1, full .vo build)%s" % (pid, "; coqchk -silent -o" if tier == "thorough" else ""),
            "trusted_base": cfg.get("trusted_base", []),
            "property_theorems": assum, "theorem_names": theorems,
            "evaluations": max(total_cases, 0), "operations": total_ops, "observable_lines_compared": compared,
            "distinct_nontrivial": nontrivial,
            "rule": (runs[0].get("stats", {}).get("rule") if runs and not runs[0].get("error") else None) or cfg.get("rule", ""),
            "samples": samples or ["<no run>"],
            "traces_validated_against_impl": total_cases,
            "generator_distribution": dist,
            "model_impl_mismatches": len(mismatches),
            "oracle_failures": len(fails),
            "known_findings_seen": known_lines,
            "broken": [p["what"] for p in problems],
            "explanation": cfg.get("explanation", ""),
        }
        if coqchk_out is not None:
            cov["coqchk_tail"] = coqchk_out
        ev = {"property_id": pid, "tier": tier, "seed": seed, "level": cfg.get("level", "proof"), "coverage": cov,
              "assumptions": cfg.get("assumptions", []), "wall_s": round(wall, 2), "violations": len(violations)}
        # evidence of a run against a scratch repository (VERIF_REPO, mutation experiments) is kept apart:
        # evidence/ only ever describes runs against /repo itself
        evdir = os.path.join(ROOT, "evidence") if REPO == "/repo" else os.path.join(ROOT, ".work", "evidence_scratch")
        os.makedirs(evdir, exist_ok=True)
        with open(os.path.join(evdir, pid + ".json"), "w") as f:
            json.dump(ev, f, indent=1)
    finally:
        if not os.environ.get("VERIF_KEEP"):
            shutil.rmtree(workdir, ignore_errors=True)
    for l in known_lines:
        print(l)
    for path, text, found in violations:
        print("VIOLATION property=%s replay=%s %s%s" % (pid, path, text[:300].replace("\n", " "), "" if found else " no-failing-input-found"))
    if not violations:
        print("OK property=%s tier=%s cases=%d ops=%d obligations=%d wall=%.1fs" % (pid, tier, total_cases, total_ops, obligations, time.time() - t0))
    return 1 if violations else 0
