#!/bin/bash
# Regenerates _CoqProject (all .v under theories/ and extract/) and the coq_makefile Makefile.
cd "$(dirname "$0")"
{
  echo "-Q theories Kardia"
  echo "-Q extract KardiaExtract"
  echo "-arg -w -arg -notation-overridden,-deprecated-hint-without-locality,-deprecated-instance-without-locality,-extraction-opaque-accessed,-extraction-reserved-identifier"
  find theories extract -name '*.v' | sort
} > _CoqProject.new
if ! cmp -s _CoqProject.new _CoqProject 2>/dev/null; then mv _CoqProject.new _CoqProject; coq_makefile -f _CoqProject -o Makefile >/dev/null; else rm _CoqProject.new; fi
[ -f Makefile ] || coq_makefile -f _CoqProject -o Makefile >/dev/null
