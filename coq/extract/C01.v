(** Extraction of the C01 obligations checker (ExtrOcamlBasic only; N/Z/positive/nat stay inductive). *)
Require Extraction.
Require Import ExtrOcamlBasic.
From Kardia Require Import C01.Run.
Extraction Language OCaml.
Set Extraction KeepSingleton.
From Kardia Require Import Base.Anchor.
Extraction "../ocaml/C01/model.ml" Anchor.anchor Run.mk_event Run.run_all_obey Run.run_obeys Run.run_commit_quorum
  Run.mk_slot Run.mk_commit Run.run_verify_commit Run.mk_blk Run.run_p_init Run.run_p_handle
  Run.ev_block Run.ev_process Run.ev_peer_error Run.ev_finished
  Run.run_monitor_lock Run.run_monitor_all.
