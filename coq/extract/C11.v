(** Extraction of the C11 model (ExtrOcamlBasic only; N/Z/positive/nat stay inductive). *)
Require Extraction.
Require Import ExtrOcamlBasic.
From Kardia Require Import C11.Varint C11.Proto C11.RLPItem C11.Model.
Extraction Language OCaml.
Set Extraction KeepSingleton.
From Kardia Require Import Base.Anchor.
Extraction "../ocaml/C11/model.ml" Anchor.anchor Varint.varint Varint.be_bytes Varint.be_val
  Model.vote_sign_bytes Model.proposal_sign_bytes Model.tx_sighash_preimage
  Model.signtx_preimage Model.signature_v Model.validate_signature_values Model.is_protected Model.derive_chain_id
  Model.recover_plain Model.sender Model.verify_signature Model.vote_verify Model.proposal_verify
  Model.vote_validate_basic Model.proposal_validate_basic Model.make_signer Model.latest_signer
  Model.latest_signer_for_chain_id Model.sig_to_pub_rejects.
