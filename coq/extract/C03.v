(** Extraction of the C03 node model (ExtrOcamlBasic only; N/Z/positive/nat stay inductive). *)
Require Extraction.
Require Import ExtrOcamlBasic.
From Kardia Require Import C03.Node.
Extraction Language OCaml.
Set Extraction KeepSingleton.
From Kardia Require Import Base.Anchor.
Extraction "../ocaml/C03/model.ml" Anchor.anchor Node.init Node.step Node.step_num Node.ps_complete.
