(** Extraction of the C03 node model and of the validateBlock model (Validate.v; its C02 types come
    after Node.v, so that Node's names keep their spelling and C02's clashing ones get the suffix 0)
    — the C03 node model (ExtrOcamlBasic only; N/Z/positive/nat stay inductive). *)
Require Extraction.
Require Import ExtrOcamlBasic.
From Kardia Require Import C03.Node C03.Validate.
Extraction Language OCaml.
Set Extraction KeepSingleton.
From Kardia Require Import Base.Anchor.
Extraction "../ocaml/C03/model.ml" Anchor.anchor Node.init Node.step Node.step_num Node.ps_complete Validate.validate_block.
