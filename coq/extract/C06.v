(** Extraction of the C06 model (ExtrOcamlBasic only; N/Z/positive/nat stay inductive). *)
Require Extraction.
Require Import ExtrOcamlBasic.
From Kardia Require Import C06.Model C06.ModelValset C06.ModelSnap.
Extraction Language OCaml.
Set Extraction KeepSingleton.
From Kardia Require Import Base.Anchor.
Extraction "../ocaml/C06/model.ml" Anchor.anchor Model.flush_both Model.exec_summary Model.validate_block
  Model.fm_get ModelValset.apply_reported ModelValset.calculate_updates ModelValset.update
  ModelSnap.apply_block_snap ModelSnap.apply_block_trie ModelSnap.bk_layers ModelSnap.bk_content ModelSnap.genesis_node.
