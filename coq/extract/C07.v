(** Extraction of the C07 model (ExtrOcamlBasic only; N/Z/positive/nat stay inductive). *)
Require Extraction.
Require Import ExtrOcamlBasic.
From Kardia Require Import C07.Model C07.ModelRange Generated.C07Facts.
Extraction Language OCaml.
Set Extraction KeepSingleton.
From Kardia Require Import Base.Anchor.
Extraction "../ocaml/C07/model.ml" Anchor.anchor C07Facts.empty_root_hash
  Model.init_state Model.step Model.observe Model.slot Model.nodedb
  Model.prove Model.verify_proof Model.verify_loop Model.db_of Model.trie_hash Model.build_root
  Model.stack_root Model.derive_sha_stack Model.derive_sha_trie Model.secure_key
  Model.hex_to_compact Model.compact_to_hex Model.keybytes_to_hex
  ModelRange.iter_from ModelRange.verify_range.
