(** Extraction of the C15 model (ExtrOcamlBasic only; N/Z/positive/nat stay inductive). *)
Require Extraction.
Require Import ExtrOcamlBasic.
From Kardia Require Import C15.Crc32c C15.Model.
Extraction Language OCaml.
Set Extraction KeepSingleton.
From Kardia Require Import Base.Anchor.
Extraction "../ocaml/C15/model.ml" Anchor.anchor Crc32c.crc32c Model.frame Model.frames Model.encode
  Model.decode_full Model.decode Model.read_log Model.wal_step Model.wal_run Model.max_index
  Model.group_stream Model.disk_files Model.search Model.repair Model.repair_onstart Model.repair_head
  Model.total_size Model.check_total_size_limit Model.file_overwrite.
