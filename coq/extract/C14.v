(** Extraction of the C14 model (ExtrOcamlBasic only; N/Z/positive/nat stay inductive). *)
Require Extraction.
Require Import ExtrOcamlBasic.
From Kardia Require Import C14.Model.
Extraction Language OCaml.
Set Extraction KeepSingleton.
From Kardia Require Import Base.Anchor.
Extraction "../ocaml/C14/model.ml" Anchor.anchor Model.init Model.step Model.run Model.keylist.
