(** Extraction of the C08 model (ExtrOcamlBasic only; N/Z/positive/nat stay inductive). *)
Require Extraction.
Require Import ExtrOcamlBasic.
From Kardia Require Import C08.Model C08.ModelSnap.
Extraction Language OCaml.
Set Extraction KeepSingleton.
From Kardia Require Import Base.Anchor.
Extraction "../ocaml/C08/model.ml" Anchor.anchor Model.new_state Model.step Model.run Model.copy Model.commit
  Model.read Model.ask Model.fempty Model.ripemd
  ModelSnap.snew_state ModelSnap.sstep ModelSnap.scommit ModelSnap.scopy ModelSnap.tree_update
  ModelSnap.snap_update ModelSnap.snap_cap ModelSnap.snap_cap_regs ModelSnap.snap_account ModelSnap.snap_storage
  ModelSnap.empty_disk ModelSnap.sync_ok.
