(** Extraction of the C10 model (ExtrOcamlBasic only; N/Z/positive/nat stay inductive). *)
Require Extraction.
Require Import ExtrOcamlBasic.
From Kardia Require Import C10.U256 C10.EVM.
Extraction Language OCaml.
Set Extraction KeepSingleton.
From Kardia Require Import Base.Anchor.
Extraction "../ocaml/C10/model.ml" Anchor.anchor EVM.run_call EVM.run_create EVM.mk_env EVM.mk_world EVM.mk_account.
