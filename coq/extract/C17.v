(** Extraction of the C17 model (ExtrOcamlBasic only; N/Z/positive/nat stay inductive). *)
Require Extraction.
Require Import ExtrOcamlBasic.
From Kardia Require Import C17.Model.
Extraction Language OCaml.
Set Extraction KeepSingleton.
From Kardia Require Import Base.Anchor.
Extraction "../ocaml/C17/model.ml" Anchor.anchor Model.step Model.new_pool Model.status Model.flatten
  Model.accounts Model.pn_get Model.local_txs Model.set_heap Model.sender Model.all_slots.
