(** Extraction of the C12 model (ExtrOcamlBasic only; N/Z/positive/nat stay inductive). *)
Require Extraction.
Require Import ExtrOcamlBasic.
From Kardia Require Import C12.Model.
Extraction Language OCaml.
Set Extraction KeepSingleton.
From Kardia Require Import Base.Anchor.
Extraction "../ocaml/C12/model.ml" Anchor.anchor Model.init_slots Model.step Model.init_chain Model.chain_step.
