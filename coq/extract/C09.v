(** Extraction of the C09 model (ExtrOcamlBasic only; N/Z/positive/nat stay inductive). *)
Require Extraction.
Require Import ExtrOcamlBasic.
From Kardia Require Import C09.Model.
Extraction Language OCaml.
Set Extraction KeepSingleton.
From Kardia Require Import Base.Anchor.
Extraction "../ocaml/C09/model.ml" Anchor.anchor Model.mk_state Model.get Model.total
  Model.apply_transaction64 Model.commit_step64 Model.commit_block64 Model.block_start
  Model.intrinsic_gas64 Model.propose_step64 Model.process_block64.
