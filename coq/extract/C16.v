(** Extraction of the C16 model (ExtrOcamlBasic only; N/Z/positive/nat/byte stay inductive). *)
Require Extraction.
Require Import ExtrOcamlBasic.
From Kardia Require Import C16.Model.
Extraction Language OCaml.
Set Extraction KeepSingleton.
From Kardia Require Import Base.Anchor.
Extraction "../ocaml/C16/model.ml" Anchor.anchor Model.bN Model.Nb Model.encode Model.decode
  Model.decode_bytes_item Model.encode_to_bytes Model.decode_bytes Model.split Model.split_string
  Model.split_list Model.split_uint64 Model.count_values Model.no_tag Model.stream_decode_bytes
  Model.append_uint64 Model.int_size Model.list_size Model.list_iterator Model.stream_decode_all
  Model.decode_all Model.s_script Model.new_stream Model.new_list_stream Model.encode_via_buffer.
