(** Extraction of the C04 ticker model (ExtrOcamlBasic only; N/Z/positive/nat stay inductive). *)
Require Extraction.
Require Import ExtrOcamlBasic.
From Kardia Require Import C04.Model C04.MedianModel C04.StepModel.
Extraction Language OCaml.
Set Extraction KeepSingleton.
From Kardia Require Import Base.Anchor.
Extraction "../ocaml/C04/model.ml" Anchor.anchor Model.init Model.step MedianModel.median_time
  StepModel.handle_timeout StepModel.node_of StepModel.timeout_dur StepModel.wait_for_txs.
