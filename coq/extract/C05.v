(** Extraction of the C05 model (ExtrOcamlBasic only; numbers stay inductive). *)
Require Extraction.
Require Import ExtrOcamlBasic.
From Kardia Require Import C05.Model.
Extraction Language OCaml.
Set Extraction KeepSingleton.
From Kardia Require Import Base.Anchor.
Extraction "../ocaml/C05/model.ml" Anchor.anchor Model.mk_image Model.image_of Model.store_height Model.max_list
  Model.head_has_cstate Model.states_on_disk Model.recover Model.stores_agree Model.no_conflict.
