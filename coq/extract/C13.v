(** Extraction of the C13 model (ExtrOcamlBasic only; N/Z/positive/nat stay inductive). *)
Require Extraction.
Require Import ExtrOcamlBasic.
From Kardia Require Import C13.Model.
Extraction Language OCaml.
Set Extraction KeepSingleton.
From Kardia Require Import Base.Anchor.
Extraction "../ocaml/C13/model.ml" Anchor.anchor
  Model.split_point Model.root Model.proofs_from Model.verify Model.compute_from_aunts
  Model.from_data Model.from_header Model.add_part Model.is_complete Model.read_all Model.bit_array
  Model.add_all Model.bytes_to_hash Model.part_from_proto_real
  Model.encode_header Model.encode_commit_sig Model.header_hash Model.commit_hash Model.evidence_hash
  Model.commit_validate Model.validate_basic
  Model.verify_commit Model.validate_block Model.proposal_parts_ok Model.exec_validate Model.validation_key
  Model.key_meta Model.key_part Model.key_commit Model.key_seen Model.key_canon Model.key_height
  Model.db_get Model.db_put Model.write_block Model.read_parts.
