(** Extraction of the C19 model (ExtrOcamlBasic only; N/Z/positive/nat stay inductive). *)
Require Extraction.
Require Import ExtrOcamlBasic.
From Kardia Require Import C19.Model.
Extraction Language OCaml.
Set Extraction KeepSingleton.
From Kardia Require Import Base.Anchor.
Extraction "../ocaml/C19/model.ml" Anchor.anchor Model.empty_node Model.step Model.run
  Model.validate_basic Model.verify Model.median_time.
