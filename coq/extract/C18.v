(** Extraction of the C18 model (ExtrOcamlBasic only; N/Z/positive/nat stay inductive). *)
Require Extraction.
Require Import ExtrOcamlBasic.
From Kardia Require Import C18.Model C18.ModelFetcher.
Extraction Language OCaml.
Set Extraction KeepSingleton.
From Kardia Require Import Base.Anchor.
Extraction "../ocaml/C18/model.ml" Anchor.anchor
  Model.handle Model.prs0 Model.pick_vote Model.pick_vote_post Model.gossip_data Model.pickable
  Model.set_has_part Model.cc_of Model.digest Model.as_int Model.as_uint
  Model.bc_receive Model.tx_receive Model.ev_receive Model.pex_receive Model.frames_run
  Model.hvs_new Model.hvs_add_vote Model.hvs_set_round Model.node_observe Model.node_vote Model.node_deliver
  ModelFetcher.f0 ModelFetcher.fstep ModelFetcher.fetcher_ok ModelFetcher.w_known ModelFetcher.zs_add.
