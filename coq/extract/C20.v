(** Extraction of the C20 model (ExtrOcamlBasic only; N/Z/positive/nat stay inductive). *)
Require Extraction.
Require Import ExtrOcamlBasic.
From Kardia Require Import C20.Model.
Extraction Language OCaml.
Set Extraction KeepSingleton.
From Kardia Require Import Base.Anchor.
Extraction "../ocaml/C20/model.ml" Anchor.anchor
  Model.nonce_of Model.zero_nonce Model.incr_nonce Model.le_decode Model.sealed_size
  Model.new_conn Model.write Model.write_f Model.read Model.set_recv
  Model.verify_auth Model.upgrade
  Model.enc_packet Model.delimited Model.max_packet_msg_size
  Model.new_chan Model.try_send Model.can_send Model.send_packet_msg Model.packetise
  Model.recv_packet Model.recv_stream Model.recv_stream_then_len.
