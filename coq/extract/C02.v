(** Extraction of the C02 model (ExtrOcamlBasic only; N/Z/positive/nat stay inductive). *)
Require Extraction.
Require Import ExtrOcamlBasic.
From Kardia Require Import C02.Model C02.ModelExt.
Extraction Language OCaml.
Set Extraction KeepSingleton.
From Kardia Require Import Base.Anchor.
Extraction "../ocaml/C02/model.ml" Anchor.anchor Model.new_voteset Model.step Model.run
  Model.make_commit Model.has_two_thirds_any Model.has_all Model.bit_array
  ModelExt.votes_ids ModelExt.bits_by_block ModelExt.is_commit ModelExt.add_vote_o
  ModelExt.vote_validate_basic ModelExt.vote_verify ModelExt.type_valid
  ModelExt.commit_to_voteset ModelExt.verify_commit_x
  ModelExt.hvs_new ModelExt.hvs_set_round ModelExt.hvs_add_vote ModelExt.hvs_set_peer_maj23
  ModelExt.pol_info ModelExt.get_vs ModelExt.rs_find.
