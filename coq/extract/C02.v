(** Extraction of the C02 model (ExtrOcamlBasic only; N/Z/positive/nat stay inductive). *)
Require Extraction.
Require Import ExtrOcamlBasic.
From Kardia Require Import C02.Model.
Extraction Language OCaml.
Set Extraction KeepSingleton.
From Kardia Require Import Base.Anchor.
Extraction "../ocaml/C02/model.ml" Anchor.anchor Model.new_voteset Model.step Model.run.
