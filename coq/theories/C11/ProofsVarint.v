(** C11 — varint / length-delimited / optional-field injectivity and prefix-freeness. *)
From Coq Require Import List ZArith NArith Bool Lia.
From Kardia Require Import C11.Varint C11.Proto.
Import ListNotations.
Local Open Scope N_scope.
Ltac Zify.zify_post_hook ::= Z.to_euclidean_division_equations.

Lemma pos_lt_pow2_size_nat p : N.pos p < 2 ^ N.of_nat (Pos.size_nat p).
Proof.
  induction p as [p IH|p IH|]; cbn [Pos.size_nat].
  - rewrite Nat2N.inj_succ, N.pow_succ_r'. lia.
  - rewrite Nat2N.inj_succ, N.pow_succ_r'. lia.
  - cbn. lia.
Qed.

Lemma lt_pow2_size_nat n : n < 2 ^ N.of_nat (N.size_nat n).
Proof. destruct n as [|p]; [cbn; lia | apply pos_lt_pow2_size_nat]. Qed.

Lemma lt_pow128_size_nat n : n < 128 ^ N.of_nat (N.size_nat n).
Proof.
  eapply N.lt_le_trans; [apply lt_pow2_size_nat|].
  apply N.pow_le_mono_l. lia.
Qed.

Lemma lt_pow256_size_nat n : n < 256 ^ N.of_nat (N.size_nat n).
Proof.
  eapply N.lt_le_trans; [apply lt_pow2_size_nat|].
  apply N.pow_le_mono_l. lia.
Qed.

Lemma varint_fuel_pf : forall f f' n n' r r',
  n < 128 ^ N.of_nat f -> n' < 128 ^ N.of_nat f' ->
  varint_fuel f n ++ r = varint_fuel f' n' ++ r' -> n = n' /\ r = r'.
Proof.
  induction f as [|f IH]; intros f' n n' r r' Hn Hn' E.
  - cbn in Hn. assert (n = 0) by lia. subst n. cbn [varint_fuel] in E.
    destruct f' as [|f']; cbn [varint_fuel] in E.
    + cbn in Hn'. assert (n' = 0) by lia. subst. cbn [app] in E. injection E as E. auto.
    + destruct (n' <? 128) eqn:L; cbn [app] in E; injection E as E1 E2; [auto|lia].
  - rewrite Nat2N.inj_succ, N.pow_succ_r' in Hn. cbn [varint_fuel] in E.
    destruct (n <? 128) eqn:L.
    + apply N.ltb_lt in L. destruct f' as [|f']; cbn [varint_fuel] in E.
      * cbn in Hn'. assert (n' = 0) by lia. subst. cbn [app] in E. injection E as E1 E2. auto.
      * destruct (n' <? 128) eqn:L'; cbn [app] in E; injection E as E1 E2; [auto|lia].
    + apply N.ltb_ge in L. destruct f' as [|f']; cbn [varint_fuel] in E.
      * cbn in Hn'. cbn [app] in E. injection E as E1 E2. lia.
      * rewrite Nat2N.inj_succ, N.pow_succ_r' in Hn'.
        destruct (n' <? 128) eqn:L'.
        { apply N.ltb_lt in L'. cbn [app] in E. injection E as E1 E2. lia. }
        apply N.ltb_ge in L'. cbn [app] in E. injection E as E1 E2.
        apply IH in E2.
        { destruct E2 as [E2 E3]. split; [|exact E3].
          assert (n mod 128 = n' mod 128) by lia.
          rewrite (N.div_mod n 128), (N.div_mod n' 128) by lia. congruence. }
        { apply N.div_lt_upper_bound; lia. }
        { apply N.div_lt_upper_bound; lia. }
Qed.

Lemma varint_pf : forall n n' r r', varint n ++ r = varint n' ++ r' -> n = n' /\ r = r'.
Proof.
  intros n n' r r' E. unfold varint in E.
  eapply varint_fuel_pf; [| |exact E]; apply lt_pow128_size_nat.
Qed.

Lemma varint_inj n n' : varint n = varint n' -> n = n'.
Proof.
  intros E. destruct (varint_pf n n' [] []) as [E1 _]; [rewrite !app_nil_r; exact E|exact E1].
Qed.

Lemma varint_fuel_nonnil f n : varint_fuel f n <> [].
Proof. destruct f; cbn; [discriminate|destruct (n <? 128); discriminate]. Qed.

Lemma varint_nonnil n : varint n <> [].
Proof. apply varint_fuel_nonnil. Qed.

Lemma app_eq_len {A} : forall (a b r r' : list A),
  length a = length b -> a ++ r = b ++ r' -> a = b /\ r = r'.
Proof.
  induction a as [|x a IH]; destruct b as [|y b]; cbn; intros r r' L E; try discriminate; auto.
  injection E as E1 E2. injection L as L. destruct (IH _ _ _ L E2). subst. auto.
Qed.

Lemma len_eq a b : len a = len b -> length a = length b.
Proof. unfold len. lia. Qed.

(** length-delimited payloads are prefix-free *)
Lemma ld_pf a b r r' : varint (len a) ++ a ++ r = varint (len b) ++ b ++ r' -> a = b /\ r = r'.
Proof.
  intros E. apply varint_pf in E. destruct E as [L E].
  apply app_eq_len; [apply len_eq; exact L|exact E].
Qed.

Lemma delimited_inj a b : delimited a = delimited b -> a = b.
Proof.
  unfold delimited. intros E.
  destruct (ld_pf a b [] []) as [E1 _]; [rewrite !app_nil_r; exact E|exact E1].
Qed.

(** * Optional fields: unambiguous as long as what follows does not start with the same key *)
Definition nohead (t : N) (l : bytes) : Prop := match l with [] => True | x :: _ => x <> t end.

Lemma nohead_nil t : nohead t []. Proof. exact I. Qed.

Lemma nohead_cons t x l : x <> t -> nohead t (x :: l). Proof. intros; exact H. Qed.

Lemma nohead_key_varint t t' n r : t' <> t -> nohead t r -> nohead t (key_varint t' n ++ r).
Proof. unfold key_varint. destruct (n =? 0); cbn; auto. Qed.

Lemma nohead_key_bytes t t' b r : t' <> t -> nohead t r -> nohead t (key_bytes t' b ++ r).
Proof. unfold key_bytes. destruct b; cbn; auto. Qed.

Lemma nohead_key_msg t t' b r : t' <> t -> nohead t (key_msg t' b ++ r).
Proof. unfold key_msg. cbn. auto. Qed.

Lemma nohead_key_optmsg t t' ob r : t' <> t -> nohead t r -> nohead t (key_optmsg t' ob ++ r).
Proof. unfold key_optmsg. destruct ob; [intros; apply nohead_key_msg; auto|cbn; auto]. Qed.

Lemma nohead_key_bytes_end t t' b : t' <> t -> nohead t (key_bytes t' b).
Proof. intros. rewrite <- (app_nil_r (key_bytes t' b)). apply nohead_key_bytes; [auto|exact I]. Qed.

Lemma nohead_key_varint_end t t' n : t' <> t -> nohead t (key_varint t' n).
Proof. intros. rewrite <- (app_nil_r (key_varint t' n)). apply nohead_key_varint; [auto|exact I]. Qed.

Ltac nh :=
  repeat first
    [ exact I
    | apply nohead_key_varint_end; lia
    | apply nohead_key_bytes_end; lia
    | apply nohead_key_varint; [lia|]
    | apply nohead_key_bytes; [lia|]
    | apply nohead_key_msg; lia
    | apply nohead_key_optmsg; [lia|] ].

Lemma key_varint_pf t n n' r r' :
  nohead t r -> nohead t r' -> key_varint t n ++ r = key_varint t n' ++ r' -> n = n' /\ r = r'.
Proof.
  unfold key_varint. intros Hr Hr' E.
  destruct (n =? 0) eqn:Z; destruct (n' =? 0) eqn:Z'.
  - apply N.eqb_eq in Z, Z'. subst. auto.
  - cbn in E. subst r. cbn in Hr. congruence.
  - cbn in E. subst r'. cbn in Hr'. congruence.
  - cbn in E. injection E as E. apply varint_pf in E. exact E.
Qed.

Lemma key_bytes_pf t b b' r r' :
  nohead t r -> nohead t r' -> key_bytes t b ++ r = key_bytes t b' ++ r' -> b = b' /\ r = r'.
Proof.
  unfold key_bytes. intros Hr Hr' E.
  destruct b as [|x b]; destruct b' as [|x' b'].
  - auto.
  - cbn [app] in E. subst r. cbn in Hr. congruence.
  - cbn [app] in E. subst r'. cbn in Hr'. congruence.
  - cbn [app] in E. injection E as E. rewrite <- !app_assoc in E. apply ld_pf in E. exact E.
Qed.

Lemma key_msg_pf t b b' r r' : key_msg t b ++ r = key_msg t b' ++ r' -> b = b' /\ r = r'.
Proof.
  unfold key_msg. cbn [app]. intros E. injection E as E. rewrite <- !app_assoc in E.
  apply ld_pf in E. exact E.
Qed.

Lemma key_optmsg_pf t ob ob' r r' :
  nohead t r -> nohead t r' -> key_optmsg t ob ++ r = key_optmsg t ob' ++ r' -> ob = ob' /\ r = r'.
Proof.
  intros Hr Hr' E. destruct ob as [b|]; destruct ob' as [b'|]; cbn [key_optmsg] in E.
  - apply key_msg_pf in E. destruct E. subst. auto.
  - cbn in E. subst r'. cbn in Hr'. congruence.
  - cbn in E. subst r. cbn in Hr. congruence.
  - auto.
Qed.

Lemma key_varint_end_inj t n n' : key_varint t n = key_varint t n' -> n = n'.
Proof.
  intros E. destruct (key_varint_pf t n n' [] []) as [E1 _]; try exact I; [rewrite !app_nil_r; exact E|exact E1].
Qed.

Lemma key_bytes_end_inj t b b' : key_bytes t b = key_bytes t b' -> b = b'.
Proof.
  intros E. destruct (key_bytes_pf t b b' [] []) as [E1 _]; try exact I; [rewrite !app_nil_r; exact E|exact E1].
Qed.

(** two's-complement cast is injective on the int64 range *)
Lemma u64_inj a b :
  (-9223372036854775808 <= a < 9223372036854775808)%Z ->
  (-9223372036854775808 <= b < 9223372036854775808)%Z -> u64 a = u64 b -> a = b.
Proof.
  unfold u64. intros Ha Hb E. apply Z2N.inj in E; [lia|apply Z.mod_pos_bound; lia|apply Z.mod_pos_bound; lia].
Qed.
