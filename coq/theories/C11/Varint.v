(** C11 — byte strings and the protobuf base-128 varint (definitions only).

    A byte is an [N] (the encoders only ever produce values below 256 when their inputs are
    bytes; the injectivity theorems do not need the range).  [varint] transcribes
    [encodeVarintCanonical] / [binary.PutUvarint]:

      for v >= 1<<7 { buf[i] = uint8(v&0x7f | 0x80); v >>= 7; i++ }; buf[i] = uint8(v)

    The loop is run with fuel [N.size_nat n] (the bit length of [n]), which always suffices,
    so the function is the unbounded mathematical varint. *)
From Coq Require Import List ZArith NArith Bool.
Import ListNotations.
Local Open Scope N_scope.

Definition bytes := list N.

Definition len (b : bytes) : N := N.of_nat (length b).

Fixpoint varint_fuel (fuel : nat) (n : N) : bytes :=
  match fuel with
  | O => [n]
  | S f => if n <? 128 then [n] else (n mod 128 + 128) :: varint_fuel f (n / 128)
  end.

Definition varint (n : N) : bytes := varint_fuel (N.size_nat n) n.

(** Go conversions [uint64(x)] of a signed integer: two's complement. *)
Definition u64 (z : Z) : N := Z.to_N (z mod 18446744073709551616)%Z.

(** little-endian / big-endian minimal byte strings of a natural number ([big.Int.Bytes],
    [putint]); [be_bytes 0 = []]. *)
Fixpoint le_fuel (fuel : nat) (n : N) : bytes :=
  match fuel with
  | O => []
  | S f => if n =? 0 then [] else (n mod 256) :: le_fuel f (n / 256)
  end.
Definition le_bytes (n : N) : bytes := le_fuel (N.size_nat n) n.
Definition be_bytes (n : N) : bytes := rev (le_bytes n).

(** value of a big-endian byte string ([big.Int.SetBytes]) *)
Definition be_val (b : bytes) : N := fold_left (fun a x => a * 256 + x) b 0.

Fixpoint bytes_eqb (a b : bytes) : bool :=
  match a, b with
  | [], [] => true
  | x :: a', y :: b' => (x =? y) && bytes_eqb a' b'
  | _, _ => false
  end.
