(** C11 — proposals sign-then-verify, rejection of malformed / malleable transaction values as an
    error class, stateless validation of decoded votes / proposals, signer selection at the fork
    block, and what SigToPub refuses before any curve arithmetic. *)
From Coq Require Import List ZArith NArith Bool Lia.
From Kardia Require Import C11.Varint C11.Proto C11.RLPItem C11.Model C11.ProofsVarint C11.ProofsRLP
  C11.ProofsSign C11.ProofsTx Generated.C11Facts.
Import ListNotations.
Local Open Scope N_scope.

Section Extra.
  Variable oracle : N -> N -> N -> option (N * bytes).
  Variable H : bytes -> bytes.

  (** ** the signer's own signature over a 32-byte hash verifies (votes and proposals share it) *)
  Lemma verify_signature_fwd addr h r s recid sig :
    oracle r s recid = Some (addr, h) -> recid < 2 ->
    1 <= r < secp256k1_n -> 1 <= s < secp256k1_n ->
    len sig = signature_length -> be_val (firstn 32 sig) = r -> be_val (firstn 32 (skipn 32 sig)) = s ->
    nth 64 sig 0 = recid ->
    verify_signature oracle addr h sig = true.
  Proof.
    intros O Hr Rr Rs L Er Es Ev.
    unfold verify_signature, sig_to_addr. rewrite L, N.eqb_refl. cbn [negb]. rewrite Er, Es, Ev.
    destruct (r =? 0) eqn:R0; [apply N.eqb_eq in R0; lia|].
    destruct (s =? 0) eqn:S0; [apply N.eqb_eq in S0; lia|].
    destruct (secp256k1_n <=? r) eqn:RN; [apply N.leb_le in RN; lia|].
    destruct (secp256k1_n <=? s) eqn:SN; [apply N.leb_le in SN; lia|]. cbn [orb].
    assert (Hl : N.land recid 251 = recid) by (assert (recid = 0 \/ recid = 1) as [->| ->] by lia; reflexivity).
    rewrite Hl. destruct (recid <? 2) eqn:Lt; [|apply N.ltb_ge in Lt; lia].
    rewrite O. replace (bytes_eqb h h) with true by (symmetry; apply bytes_eqb_eq; reflexivity).
    apply N.eqb_refl.
  Qed.

  Lemma proposal_sign_then_verify chain addr p b r s recid sig :
    proposal_sign_bytes chain p = Some b -> oracle r s recid = Some (addr, H b) -> recid < 2 ->
    1 <= r < secp256k1_n -> 1 <= s < secp256k1_n ->
    len sig = signature_length -> be_val (firstn 32 sig) = r -> be_val (firstn 32 (skipn 32 sig)) = s ->
    nth 64 sig 0 = recid ->
    proposal_verify oracle H chain addr p sig = VOk.
  Proof.
    intros S O Hr Rr Rs L Er Es Ev. unfold proposal_verify. rewrite S.
    rewrite (verify_signature_fwd addr (H b) r s recid sig); auto.
  Qed.

  (** a string of any other length than 65 verifies for nothing *)
  Lemma verify_signature_bad_length addr h sig :
    len sig <> signature_length -> verify_signature oracle addr h sig = false.
  Proof.
    intros L. unfold verify_signature, sig_to_addr.
    destruct (len sig =? signature_length) eqn:E; [apply N.eqb_eq in E; contradiction|reflexivity].
  Qed.

  (** ** malformed or malleable (high-s) values are REJECTED WITH AN ERROR by every signer *)
  Definition bad_values (r s : N) : Prop :=
    r = 0 \/ secp256k1_n <= r \/ s = 0 \/ secp256k1_half_n < s.

  Lemma bad_values_invalid v r s : bad_values r s -> validate_signature_values v r s true = false.
  Proof.
    intros B. destruct (validate_signature_values v r s true) eqn:V; [|reflexivity].
    exfalso. apply sig_values in V. unfold bad_values in B. lia.
  Qed.

  Lemma recover_plain_bad h r s vb : bad_values r s -> recover_plain oracle h r s vb = SErrInvalidSig.
  Proof.
    intros B. unfold recover_plain. destruct (256 <=? Z.abs vb)%Z; [reflexivity|].
    rewrite (bad_values_invalid _ r s B). reflexivity.
  Qed.

  Lemma malformed_values_rejected sg t : bad_values (t_r t) (t_s t) ->
    sender oracle H sg t = SErrInvalidSig \/ sender oracle H sg t = SErrChainId.
  Proof.
    intros B. destruct sg as [|c]; cbn [sender].
    - left. apply recover_plain_bad. exact B.
    - destruct (negb (is_protected (t_v t))); [left; apply recover_plain_bad; exact B|].
      destruct (negb (derive_chain_id (t_v t) =? c)); [right; reflexivity|].
      left. apply recover_plain_bad. exact B.
  Qed.

  (** the (r, N - s) twin of an accepted transaction signature is rejected, whatever V it carries *)
  Lemma high_s_twin_rejected sg t a sg' t' :
    sender oracle H sg t = SOk a -> t_r t' = t_r t -> t_s t' = secp256k1_n - t_s t ->
    sender oracle H sg' t' = SErrInvalidSig \/ sender oracle H sg' t' = SErrChainId.
  Proof.
    intros E Er Es. apply sender_sig_values in E. destruct E as [_ [S1 S2]].
    apply malformed_values_rejected. unfold bad_values. rewrite Es.
    right. right. right. unfold secp256k1_half_n in *.
    assert (secp256k1_n = 2 * (secp256k1_n / 2) + 1) by reflexivity. lia.
  Qed.

  (** ** what SigToPub refuses before any curve arithmetic *)
  Lemma sig_to_pub_rejects_sound h sig :
    sig_to_pub_rejects sig = true -> sig_to_addr oracle h sig = None.
  Proof.
    unfold sig_to_pub_rejects, sig_to_addr. intros E.
    destruct (negb (len sig =? signature_length)); [reflexivity|]. cbn [orb] in E.
    rewrite E. reflexivity.
  Qed.

  Lemma rejected_never_verifies addr h sig :
    sig_to_pub_rejects sig = true -> verify_signature oracle addr h sig = false.
  Proof. intros E. unfold verify_signature. rewrite (sig_to_pub_rejects_sound h sig E). reflexivity. Qed.
End Extra.

Lemma sig_to_pub_rejects_iff sig :
  sig_to_pub_rejects sig = false <->
  len sig = signature_length /\ 1 <= be_val (firstn 32 sig) < secp256k1_n /\
  1 <= be_val (firstn 32 (skipn 32 sig)) < secp256k1_n.
Proof.
  unfold sig_to_pub_rejects.
  set (r := be_val (firstn 32 sig)). set (s := be_val (firstn 32 (skipn 32 sig))).
  destruct (N.eqb_spec (len sig) signature_length) as [L|L]; cbn [negb orb].
  - destruct (N.eqb_spec r 0); destruct (N.eqb_spec s 0);
      destruct (N.leb_spec secp256k1_n r); destruct (N.leb_spec secp256k1_n s); cbn [orb];
      split; intros Hx; try discriminate; try (repeat split; lia); try reflexivity;
      exfalso; lia.
  - split; [discriminate|]. intros [Hx _]. contradiction.
Qed.



(** ** stateless validation of decoded votes and proposals *)
Lemma vote_validate_basic_ok v n :
  vote_validate_basic v n = VBOk <->
  (v_type v = prevote_type \/ v_type v = precommit_type) /\
  (bid_is_zero (v_bid v) = true \/ bid_is_complete (v_bid v) = true) /\ n <> 0.
Proof.
  unfold vote_validate_basic, is_vote_type_valid.
  destruct (Z.eqb_spec (v_type v) prevote_type) as [T1|T1];
    destruct (Z.eqb_spec (v_type v) precommit_type) as [T2|T2]; cbn [orb negb];
    destruct (bid_is_zero (v_bid v)); destruct (bid_is_complete (v_bid v)); cbn [negb andb];
    destruct (N.eqb_spec n 0) as [N0|N0];
    split; intros Hx; try discriminate; try reflexivity;
    try (repeat split; auto; fail);
    try (destruct Hx as (Ht & Hb & Hn); try contradiction; destruct Ht; try contradiction;
         destruct Hb; discriminate).
Qed.

Lemma proposal_validate_basic_ok p n :
  proposal_validate_basic p n = VBOk <->
  bid_is_complete (p_bid p) = true /\ b_total (p_bid p) <= max_block_parts_count /\ n <> 0.
Proof.
  unfold proposal_validate_basic.
  destruct (bid_is_complete (p_bid p)); cbn [negb];
    destruct (N.ltb_spec max_block_parts_count (b_total (p_bid p)));
    destruct (N.eqb_spec n 0);
    split; intros Hx; try discriminate; try reflexivity; try (repeat split; auto; lia);
    destruct Hx as (Hc & Ht & Hn); try discriminate; try contradiction; lia.
Qed.

(** a vote that passed ValidateBasic carries one of the two vote types: the range hypothesis
    of the sign-bytes injectivity theorems is discharged for every decoded vote *)
Lemma validated_vote_type v n : vote_validate_basic v n = VBOk -> int32 (v_type v).
Proof.
  intros E. apply vote_validate_basic_ok in E. destruct E as ([T|T] & _); rewrite T; unfold int32; cbv; split; congruence.
Qed.

(** a complete block id is not the nil block id (what separates a proposal's POL block id and
    a non-nil vote from a nil vote) *)
Lemma complete_not_zero b : bid_is_complete b = true -> bid_is_zero b = false.
Proof.
  unfold bid_is_complete, bid_is_zero, psh_is_zero. intros E.
  destruct (all_zero (to_hash32 (b_hash b))); [discriminate|reflexivity].
Qed.

(** ** signer selection: replay protection is in force from the fork block on, for good *)
Lemma is_forked_iff s h : is_forked (Some s) (Some h) = true <-> s <= h.
Proof. cbn [is_forked]. apply N.leb_le. Qed.

Lemma make_signer_forked c fork head :
  is_forked fork head = true -> make_signer (Some c) fork head = ChainIDSigner c.
Proof. intros F. unfold make_signer. rewrite F. reflexivity. Qed.

Lemma make_signer_unforked c fork head :
  is_forked fork head = false -> make_signer c fork head = Homestead.
Proof. intros F. unfold make_signer. rewrite F. reflexivity. Qed.

Lemma make_signer_monotone c s h h' :
  s <= h -> h <= h' -> make_signer c (Some s) (Some h') = make_signer c (Some s) (Some h).
Proof.
  intros A B. unfold make_signer.
  rewrite (proj2 (is_forked_iff s h) A), (proj2 (is_forked_iff s h')) by lia. reflexivity.
Qed.

(** the signer every node derives for a block at or after the fork rejects a transaction that
    was signed for another (non-zero) chain id *)
Lemma make_signer_chain_bound oracle H c c' s h recid t :
  s <= h -> c' <> 0 -> recid < 2 -> c <> c' ->
  t_v t = signature_v (ChainIDSigner c') recid ->
  sender oracle H (make_signer (Some c) (Some s) (Some h)) t = SErrChainId.
Proof.
  intros F Hc Hr Hcc HV. rewrite make_signer_forked by (apply is_forked_iff; exact F).
  eapply chainid_binding; eauto.
Qed.

Lemma latest_signer_for_chain_id_some c : latest_signer_for_chain_id (Some c) = ChainIDSigner c.
Proof. reflexivity. Qed.

(** the hypotheses are satisfiable / the boundary is where the Go code puts it *)
Example validate_examples :
  let z := repeat 0 32 in
  let h := 1 :: repeat 0 31 in
  let mkv ty b := {| v_type := ty; v_height := 1; v_round := 0; v_bid := b; v_secs := 0%Z; v_nanos := 0%Z |} in
  let mkp b := {| p_height := 1; p_round := 0; p_pol := 0; p_bid := b; p_secs := 0%Z; p_nanos := 0%Z |} in
  vote_validate_basic (mkv 1%Z {| b_hash := z; b_total := 0; b_phash := z |}) 65 = VBOk /\
  vote_validate_basic (mkv 32%Z {| b_hash := z; b_total := 0; b_phash := z |}) 65 = VBType /\
  vote_validate_basic (mkv 2%Z {| b_hash := h; b_total := 0; b_phash := z |}) 65 = VBBlockID /\
  vote_validate_basic (mkv 2%Z {| b_hash := h; b_total := 1; b_phash := h |}) 0 = VBNoSig /\
  proposal_validate_basic (mkp {| b_hash := h; b_total := 1601; b_phash := h |}) 65 = VBOk /\
  proposal_validate_basic (mkp {| b_hash := h; b_total := 1602; b_phash := h |}) 65 = VBParts /\
  proposal_validate_basic (mkp {| b_hash := z; b_total := 0; b_phash := z |}) 65 = VBBlockID /\
  make_signer (Some 24) (Some 10) (Some 9) = Homestead /\
  make_signer (Some 24) (Some 10) (Some 10) = ChainIDSigner 24 /\
  make_signer None (Some 0) (Some 0) = ChainIDSigner 0 /\
  make_signer (Some 24) None (Some 10) = Homestead /\
  make_signer (Some 24) (Some 10) None = Homestead.
Proof. vm_compute. repeat split; reflexivity. Qed.
