(** C11 — injectivity of the vote / proposal sign bytes and their disjointness. *)
From Coq Require Import List ZArith NArith Bool Lia.
From Kardia Require Import C11.Varint C11.Proto C11.ProofsVarint C11.Model Generated.C11Facts.
Import ListNotations.
Local Open Scope N_scope.
Ltac Zify.zify_post_hook ::= Z.to_euclidean_division_equations.

Definition int32 (z : Z) : Prop := (-2147483648 <= z < 2147483648)%Z.

(** the hashes a [types.BlockID] can hold: exactly 32 bytes each *)
Definition wf_bid (b : block_id) : Prop := length (b_hash b) = 32%nat /\ length (b_phash b) = 32%nat.

Lemma ts_valid_range s n : ts_valid s n = true ->
  (-9223372036854775808 <= s < 9223372036854775808)%Z /\ (-9223372036854775808 <= n < 9223372036854775808)%Z.
Proof.
  unfold ts_valid, min_valid_seconds, max_valid_seconds. intros V.
  apply andb_prop in V. destruct V as [V V4]. apply andb_prop in V. destruct V as [V V3].
  apply andb_prop in V. destruct V as [V1 V2]. lia.
Qed.

Lemma enc_ts_inj s n s' n' : ts_valid s n = true -> ts_valid s' n' = true ->
  enc_ts s n = enc_ts s' n' -> s = s' /\ n = n'.
Proof.
  intros V V' E. apply ts_valid_range in V, V'. unfold enc_ts in E.
  apply key_varint_pf in E; [|nh|nh]. destruct E as [E1 E2].
  apply key_varint_end_inj in E2.
  split; apply u64_inj; tauto.
Qed.

Lemma enc_psh_inj t h t' h' : enc_psh t h = enc_psh t' h' -> t = t' /\ h = h'.
Proof.
  unfold enc_psh. intros E. apply key_varint_pf in E; [|nh|nh]. destruct E as [E1 E2].
  apply key_bytes_end_inj in E2. auto.
Qed.

Lemma enc_cbid_inj b b' : enc_cbid b = enc_cbid b' -> b = b'.
Proof.
  unfold enc_cbid. intros E.
  rewrite <- (app_nil_r (key_msg 18 (enc_psh (b_total b) (b_phash b)))) in E.
  rewrite <- (app_nil_r (key_msg 18 (enc_psh (b_total b') (b_phash b')))) in E.
  apply key_bytes_pf in E; [|nh|nh]. destruct E as [E1 E2].
  apply key_msg_pf in E2. destruct E2 as [E2 _]. apply enc_psh_inj in E2. destruct E2.
  destruct b, b'; cbn in *; subst; reflexivity.
Qed.

Lemma all_zero_repeat b : all_zero b = true -> b = repeat 0 (length b).
Proof.
  induction b as [|x b IH]; cbn [all_zero forallb length repeat]; intros A; [reflexivity|].
  apply andb_prop in A. destruct A as [A1 A2]. apply N.eqb_eq in A1. subst x. f_equal. auto.
Qed.

Lemma to_hash32_id b : length b = 32%nat -> to_hash32 b = b.
Proof. intros L. unfold to_hash32. rewrite L. cbn. reflexivity. Qed.

(** for 32-byte hashes the canonical (nullable) block id determines the block id *)
Lemma canonical_bid_inj b b' : wf_bid b -> wf_bid b' -> canonical_bid b = canonical_bid b' -> b = b'.
Proof.
  intros [L1 L2] [L1' L2'] E. unfold canonical_bid in E.
  destruct (bid_is_zero b) eqn:Z; destruct (bid_is_zero b') eqn:Z'; try discriminate.
  - unfold bid_is_zero in Z, Z'. rewrite !to_hash32_id in Z, Z' by assumption.
    apply andb_prop in Z, Z'. destruct Z as [Z Z3], Z' as [Z' Z3'].
    apply andb_prop in Z, Z'. destruct Z as [Z1 Z2], Z' as [Z1' Z2'].
    apply all_zero_repeat in Z1, Z3, Z1', Z3'. apply N.eqb_eq in Z2, Z2'.
    rewrite L1 in Z1. rewrite L2 in Z3. rewrite L1' in Z1'. rewrite L2' in Z3'.
    destruct b, b'; cbn in *; subst; reflexivity.
  - injection E as E. apply enc_cbid_inj. exact E.
Qed.

(** * votes *)

Lemma vote_body_inj c v c' v' :
  int32 (v_type v) -> int32 (v_type v') ->
  ts_valid (v_secs v) (v_nanos v) = true -> ts_valid (v_secs v') (v_nanos v') = true ->
  canonical_vote_body c v = canonical_vote_body c' v' ->
  c = c' /\ v_type v = v_type v' /\ v_height v = v_height v' /\ v_round v = v_round v' /\
  canonical_bid (v_bid v) = canonical_bid (v_bid v') /\ v_secs v = v_secs v' /\ v_nanos v = v_nanos v'.
Proof.
  unfold canonical_vote_body, int32. intros T T' V V' E.
  apply key_varint_pf in E; [|nh|nh]. destruct E as [E1 E].
  apply key_varint_pf in E; [|nh|nh]. destruct E as [E2 E].
  apply key_varint_pf in E; [|nh|nh]. destruct E as [E3 E].
  apply key_optmsg_pf in E; [|nh|nh]. destruct E as [E4 E].
  apply key_msg_pf in E. destruct E as [E5 E].
  apply key_bytes_end_inj in E.
  apply enc_ts_inj in E5; [|assumption|assumption]. destruct E5.
  apply u64_inj in E1; [|lia|lia]. tauto.
Qed.

Lemma vote_sign_bytes_inj c v c' v' b :
  int32 (v_type v) -> int32 (v_type v') ->
  vote_sign_bytes c v = Some b -> vote_sign_bytes c' v' = Some b ->
  c = c' /\ v_type v = v_type v' /\ v_height v = v_height v' /\ v_round v = v_round v' /\
  canonical_bid (v_bid v) = canonical_bid (v_bid v') /\ v_secs v = v_secs v' /\ v_nanos v = v_nanos v'.
Proof.
  unfold vote_sign_bytes. intros T T' S S'.
  destruct (ts_valid (v_secs v) (v_nanos v)) eqn:V; [|discriminate].
  destruct (ts_valid (v_secs v') (v_nanos v')) eqn:V'; [|discriminate].
  injection S as S. injection S' as S'. subst b. apply delimited_inj in S'.
  apply vote_body_inj; auto.
Qed.

Lemma vote_sign_bytes_inj_wf c v c' v' b :
  int32 (v_type v) -> int32 (v_type v') -> wf_bid (v_bid v) -> wf_bid (v_bid v') ->
  vote_sign_bytes c v = Some b -> vote_sign_bytes c' v' = Some b -> c = c' /\ v = v'.
Proof.
  intros T T' W W' S S'.
  destruct (vote_sign_bytes_inj c v c' v' b T T' S S') as (E0 & E1 & E2 & E3 & E4 & E5 & E6).
  apply canonical_bid_inj in E4; [|assumption|assumption].
  split; [assumption|]. destruct v, v'; cbn in *; subst; reflexivity.
Qed.

(** * proposals *)

Lemma proposal_body_inj c p c' p' :
  ts_valid (p_secs p) (p_nanos p) = true -> ts_valid (p_secs p') (p_nanos p') = true ->
  canonical_proposal_body c p = canonical_proposal_body c' p' ->
  c = c' /\ p_height p = p_height p' /\ p_round p = p_round p' /\ p_pol p = p_pol p' /\
  canonical_bid (p_bid p) = canonical_bid (p_bid p') /\ p_secs p = p_secs p' /\ p_nanos p = p_nanos p'.
Proof.
  unfold canonical_proposal_body. intros V V' E.
  apply key_varint_pf in E; [|nh|nh]. destruct E as [_ E].
  apply key_varint_pf in E; [|nh|nh]. destruct E as [E2 E].
  apply key_varint_pf in E; [|nh|nh]. destruct E as [E3 E].
  apply key_varint_pf in E; [|nh|nh]. destruct E as [E3' E].
  apply key_optmsg_pf in E; [|nh|nh]. destruct E as [E4 E].
  apply key_msg_pf in E. destruct E as [E5 E].
  apply key_bytes_end_inj in E.
  apply enc_ts_inj in E5; [|assumption|assumption]. tauto.
Qed.

Lemma proposal_sign_bytes_inj c p c' p' b :
  proposal_sign_bytes c p = Some b -> proposal_sign_bytes c' p' = Some b ->
  c = c' /\ p_height p = p_height p' /\ p_round p = p_round p' /\ p_pol p = p_pol p' /\
  canonical_bid (p_bid p) = canonical_bid (p_bid p') /\ p_secs p = p_secs p' /\ p_nanos p = p_nanos p'.
Proof.
  unfold proposal_sign_bytes. intros S S'.
  destruct (ts_valid (p_secs p) (p_nanos p)) eqn:V; [|discriminate].
  destruct (ts_valid (p_secs p') (p_nanos p')) eqn:V'; [|discriminate].
  injection S as S. injection S' as S'. subst b. apply delimited_inj in S'.
  apply proposal_body_inj; auto.
Qed.

Lemma proposal_sign_bytes_inj_wf c p c' p' b :
  wf_bid (p_bid p) -> wf_bid (p_bid p') ->
  proposal_sign_bytes c p = Some b -> proposal_sign_bytes c' p' = Some b -> c = c' /\ p = p'.
Proof.
  intros W W' S S'.
  destruct (proposal_sign_bytes_inj c p c' p' b S S') as (E0 & E1 & E2 & E3 & E4 & E5 & E6).
  apply canonical_bid_inj in E4; [|assumption|assumption].
  split; [assumption|]. destruct p, p'; cbn in *; subst; reflexivity.
Qed.

(** * a vote's sign bytes are never a proposal's (whatever the vote's type value, 32 included) *)

Lemma enc_ts_ne_cbid s n b : enc_ts s n = enc_cbid b -> False.
Proof.
  unfold enc_ts, enc_cbid, key_varint, key_bytes, key_msg.
  destruct (u64 s =? 0); destruct (u64 n =? 0); destruct (b_hash b); cbn [app]; intros E;
    try discriminate; injection E as E; lia.
Qed.

Lemma vote_proposal_body_disjoint c v c' p : canonical_vote_body c v = canonical_proposal_body c' p -> False.
Proof.
  unfold canonical_vote_body, canonical_proposal_body. intros E.
  apply key_varint_pf in E; [|nh|nh]. destruct E as [_ E].
  apply key_varint_pf in E; [|nh|nh]. destruct E as [_ E].
  apply key_varint_pf in E; [|nh|nh]. destruct E as [_ E].
  unfold key_varint in E at 1.
  destruct (canonical_bid (v_bid v)) as [vb|]; cbn [key_optmsg] in E.
  - (* the vote has a block id: next key 0x22; the proposal continues with 0x20, 0x2a or 0x32 *)
    destruct (p_pol p =? 0); [destruct (canonical_bid (p_bid p))|]; unfold key_msg in E; cbn [app key_optmsg] in E;
      injection E as E; lia.
  - (* nil vote: next key 0x2a (timestamp); must be the proposal's block id *)
    destruct (p_pol p =? 0).
    + destruct (canonical_bid (p_bid p)) as [pb|] eqn:CB; cbn [key_optmsg app] in E.
      * apply key_msg_pf in E. destruct E as [E _].
        unfold canonical_bid in CB. destruct (bid_is_zero (p_bid p)); [discriminate|].
        injection CB as CB. subst pb. apply enc_ts_ne_cbid in E. exact E.
      * unfold key_msg in E. cbn [app] in E. injection E as E. lia.
    + unfold key_msg in E. cbn [app] in E. injection E as E. lia.
Qed.

Lemma vote_proposal_disjoint c v c' p b b' :
  vote_sign_bytes c v = Some b -> proposal_sign_bytes c' p = Some b' -> b <> b'.
Proof.
  unfold vote_sign_bytes, proposal_sign_bytes. intros S S' E.
  destruct (ts_valid (v_secs v) (v_nanos v)); [|discriminate].
  destruct (ts_valid (p_secs p) (p_nanos p)); [|discriminate].
  injection S as S. injection S' as S'. subst b b'. apply delimited_inj in E.
  apply vote_proposal_body_disjoint in E. exact E.
Qed.

(** proto-level caveat (not reachable through [types.Vote], whose hashes are [32]byte arrays):
    raw hashes of different lengths that are all zero canonicalise to the same nil block id *)
Example proto_level_zero_hash_lengths_coincide :
  let v  := {| v_type := 1; v_height := 1; v_round := 1; v_bid := {| b_hash := []; b_total := 0; b_phash := [] |}; v_secs := 0; v_nanos := 0 |} in
  let v' := {| v_type := 1; v_height := 1; v_round := 1; v_bid := {| b_hash := [0]; b_total := 0; b_phash := [] |}; v_secs := 0; v_nanos := 0 |} in
  vote_sign_bytes [] v = vote_sign_bytes [] v' /\ v <> v'.
Proof. split; [vm_compute; reflexivity|discriminate]. Qed.

(** the hypotheses are satisfiable: a concrete precommit and its exact sign bytes *)
Example vote_sign_bytes_example :
  vote_sign_bytes [107; 97; 105]
    {| v_type := 2; v_height := 5; v_round := 1;
       v_bid := {| b_hash := repeat 0 31 ++ [7]; b_total := 1; b_phash := repeat 0 31 ++ [9] |};
       v_secs := 1600000000; v_nanos := 5 |} <> None.
Proof. vm_compute. discriminate. Qed.
