(** C11 — RLP encoding of a flat list of byte strings (what [rlpHash([]interface{}{...})]
    produces for the transaction signing hash).  Definitions only.
    [rlp_header] = [puthead]/[encodeStringHeader]/[listhead.encode];
    [rlp_str] = [writeBytes]/[writeUint64]/[writeBigInt] applied to the minimal big-endian
    bytes; [rlp_list] = list header over the concatenated item encodings. *)
From Coq Require Import List ZArith NArith Bool.
From Kardia Require Import C11.Varint.
Import ListNotations.
Local Open Scope N_scope.

Definition rlp_header (off n : N) : bytes :=
  if n <? 56 then [off + n] else (off + 55 + len (be_bytes n)) :: be_bytes n.

Definition rlp_str (b : bytes) : bytes :=
  match b with
  | [x] => if x <? 128 then [x] else rlp_header 128 1 ++ b
  | _ => rlp_header 128 (len b) ++ b
  end.

Definition rlp_list (items : list bytes) : bytes :=
  let p := concat items in rlp_header 192 (len p) ++ p.

Definition rlp_list_of_strs (fields : list bytes) : bytes := rlp_list (map rlp_str fields).
