(** C11 — property theorems only.  Each is closed by [exact] of a lemma proved in Proofs*.v and
    followed by [Print Assumptions].

    Representation: bytes are [N]; a vote carries the int32 type value, uint64 height, uint32
    round (both unbounded [N] here: the theorems hold without the range), a block id whose two
    hashes are 32-byte strings ([wf_bid], what [types.BlockID] can hold), and the time as
    [(t.Unix(), t.Nanosecond())]; sign bytes exist ([Some]) exactly for times protobuf accepts.
    The chain id is an arbitrary byte string.  Signatures are ideal: [oracle r s recid = Some
    (a, h)] iff the 65-byte string [r || s || recid] was produced by [a]'s key over the 32-byte
    hash [h]; [H] is Keccak-256 (any function: conclusions are "... or an explicit collision"). *)
From Coq Require Import List ZArith NArith Bool.
From Kardia Require Import C11.Varint C11.Proto C11.RLPItem C11.Model C11.ProofsVarint C11.ProofsRLP
  C11.ProofsSign C11.ProofsTx C11.ProofsExtra C11.ProofsCross Generated.C11Facts.
Import ListNotations.
Local Open Scope N_scope.

(** the protobuf varint is injective and prefix-free (no bound on the value) *)
Theorem C11_varint_prefix_free :
  forall n n' r r', varint n ++ r = varint n' ++ r' -> n = n' /\ r = r'.
Proof. exact varint_pf. Qed.
Print Assumptions C11_varint_prefix_free.

(** equal vote sign bytes => equal chain id, type, height, round, block id (hash, parts total,
    parts hash), seconds and nanos: i.e. the same chain and the same vote *)
Theorem C11_vote_signbytes_injective :
  forall c v c' v' b,
    int32 (v_type v) -> int32 (v_type v') -> wf_bid (v_bid v) -> wf_bid (v_bid v') ->
    vote_sign_bytes c v = Some b -> vote_sign_bytes c' v' = Some b -> c = c' /\ v = v'.
Proof. exact vote_sign_bytes_inj_wf. Qed.
Print Assumptions C11_vote_signbytes_injective.

(** the same without the 32-byte assumption (proto level, raw hash bytes): every scalar field
    and the canonical (nullable) block id encoding coincide *)
Theorem C11_vote_signbytes_injective_fields :
  forall c v c' v' b,
    int32 (v_type v) -> int32 (v_type v') ->
    vote_sign_bytes c v = Some b -> vote_sign_bytes c' v' = Some b ->
    c = c' /\ v_type v = v_type v' /\ v_height v = v_height v' /\ v_round v = v_round v' /\
    canonical_bid (v_bid v) = canonical_bid (v_bid v') /\ v_secs v = v_secs v' /\ v_nanos v = v_nanos v'.
Proof. exact vote_sign_bytes_inj. Qed.
Print Assumptions C11_vote_signbytes_injective_fields.

(** proposals: chain id, height, round, POL round, block id, time *)
Theorem C11_proposal_signbytes_injective :
  forall c p c' p' b,
    wf_bid (p_bid p) -> wf_bid (p_bid p') ->
    proposal_sign_bytes c p = Some b -> proposal_sign_bytes c' p' = Some b -> c = c' /\ p = p'.
Proof. exact proposal_sign_bytes_inj_wf. Qed.
Print Assumptions C11_proposal_signbytes_injective.

(** a vote's sign bytes are never a proposal's — for every vote type value, 32 (ProposalType)
    included: the field layouts alone separate them *)
Theorem C11_vote_vs_proposal_disjoint :
  forall c v c' p b b',
    vote_sign_bytes c v = Some b -> proposal_sign_bytes c' p = Some b' -> b <> b'.
Proof. exact vote_proposal_disjoint. Qed.
Print Assumptions C11_vote_vs_proposal_disjoint.

(** RLP of a list of byte strings determines the list (so a 6-field Homestead preimage is
    never a 9-field chain-id preimage) *)
Theorem C11_rlp_list_injective :
  forall l l', rlp_list_of_strs l = rlp_list_of_strs l' -> l = l'.
Proof. exact rlp_list_of_strs_inj. Qed.
Print Assumptions C11_rlp_list_injective.

(** equal signing-hash preimages => same signer kind and chain id, and the same nonce, price,
    gas limit, recipient, amount and payload *)
Theorem C11_tx_sighash_injective :
  forall s t s' t', wf_tx t -> wf_tx t' ->
    tx_sighash_preimage s t = tx_sighash_preimage s' t' -> s = s' /\ same_signed_fields t t'.
Proof. exact tx_sighash_injective. Qed.
Print Assumptions C11_tx_sighash_injective.

(** ValidateSignatureValues (homestead rule): exactly 1 <= r < N, 1 <= s <= N/2, v in {0,1} *)
Theorem C11_sig_values :
  forall v r s,
    validate_signature_values v r s true = true <->
    (1 <= r < secp256k1_n /\ 1 <= s <= secp256k1_half_n /\ (v = 0 \/ v = 1)).
Proof. exact sig_values. Qed.
Print Assumptions C11_sig_values.

(** any transaction for which Sender returns an address has canonical (low-s, in-range) values *)
Theorem C11_sig_values_sender :
  forall oracle H sg t a, sender oracle H sg t = SOk a ->
    1 <= t_r t < secp256k1_n /\ 1 <= t_s t <= secp256k1_half_n.
Proof. exact sender_sig_values. Qed.
Print Assumptions C11_sig_values_sender.

(** exact V range: [recoverPlain] (also the dual-event caller) accepts |V| in {27,28} only;
    HomesteadSigner accepts exactly V in {27,28}; ChainIDSigner c exactly {27,28,35+2c,36+2c}.
    In particular no V + k*256 or V + 2^64 alias of a genuine signature is accepted. *)
Theorem C11_recover_plain_v_range :
  forall oracle h r s vb a, recover_plain oracle h r s vb = SOk a -> (Z.abs vb = 27 \/ Z.abs vb = 28)%Z.
Proof. exact (fun oracle => recover_plain_v_range oracle (fun b => b)). Qed.
Print Assumptions C11_recover_plain_v_range.

Theorem C11_sender_v_homestead :
  forall oracle H t a, sender oracle H Homestead t = SOk a -> t_v t = 27 \/ t_v t = 28.
Proof. exact sender_homestead_v. Qed.
Print Assumptions C11_sender_v_homestead.

Theorem C11_sender_v_chainid :
  forall oracle H c t a, sender oracle H (ChainIDSigner c) t = SOk a ->
    t_v t = 27 \/ t_v t = 28 \/ t_v t = 35 + 2 * c \/ t_v t = 36 + 2 * c.
Proof. exact sender_chainid_v. Qed.
Print Assumptions C11_sender_v_chainid.

(** a transaction whose V was produced for chain id c (non-zero) is rejected with
    ErrInvalidChainId by the signer of every other chain id *)
Theorem C11_chainid_binding :
  forall oracle H c c' recid t, c <> 0 -> recid < 2 -> c' <> c ->
    t_v t = signature_v (ChainIDSigner c) recid ->
    sender oracle H (ChainIDSigner c') t = SErrChainId.
Proof. exact chainid_binding. Qed.
Print Assumptions C11_chainid_binding.

(** ... and a protected transaction is rejected by the Homestead signer *)
Theorem C11_protected_rejected_by_homestead :
  forall oracle H t, is_protected (t_v t) = true -> sender oracle H Homestead t = SErrInvalidSig.
Proof. exact protected_rejected_by_homestead. Qed.
Print Assumptions C11_protected_rejected_by_homestead.

(** by design (stated, not a defect): an unprotected transaction (v = 27/28) is accepted by
    the chain-id signer of every chain exactly as by the Homestead signer *)
Theorem C11_unprotected_tx_not_chain_bound :
  forall oracle H c t, is_protected (t_v t) = false ->
    sender oracle H (ChainIDSigner c) t = sender oracle H Homestead t.
Proof. exact unprotected_any_chain. Qed.
Print Assumptions C11_unprotected_tx_not_chain_bound.

(** SignTx then Sender under the same signer returns the signer, for both signer kinds and
    every chain id (0 included) *)
Theorem C11_sign_then_recover :
  forall oracle H sg t a recid,
    recid < 2 -> validate_signature_values recid (t_r t) (t_s t) true = true ->
    oracle (t_r t) (t_s t) recid = Some (a, H (signtx_preimage sg t)) ->
    t_v t = signature_v sg recid ->
    sender oracle H sg t = SOk a.
Proof. exact sign_then_recover. Qed.
Print Assumptions C11_sign_then_recover.

Theorem C11_vote_sign_then_verify :
  forall oracle H chain addr v b r s recid sig,
    vote_sign_bytes chain v = Some b -> oracle r s recid = Some (addr, H b) -> recid < 2 ->
    1 <= r < secp256k1_n -> 1 <= s < secp256k1_n ->
    len sig = signature_length -> be_val (firstn 32 sig) = r -> be_val (firstn 32 (skipn 32 sig)) = s ->
    nth 64 sig 0 = recid ->
    vote_verify oracle H chain addr addr v sig = VOk.
Proof. exact vote_sign_then_verify. Qed.
Print Assumptions C11_vote_sign_then_verify.

(** remark, by design: VerifySignature sees a 65-byte string only through r, s and the recovery
    byte with bit 2 cleared (recovery bytes 4/5 alias 0/1); together with C11_binding an alias is
    accepted for the same message and signer only — the property text restricts "malleable /
    malformed values are rejected" to transactions. *)
Theorem C11_signature_recid_alias_remark :
  forall oracle addr h sig sig',
    len sig = len sig' -> firstn 32 sig = firstn 32 sig' ->
    firstn 32 (skipn 32 sig) = firstn 32 (skipn 32 sig') ->
    N.land (nth 64 sig 0) 251 = N.land (nth 64 sig' 0) 251 ->
    verify_signature oracle addr h sig = verify_signature oracle addr h sig'.
Proof. exact verify_signature_alias. Qed.
Print Assumptions C11_signature_recid_alias_remark.

(** composition: a signature string accepted for a vote is accepted for no other chain id or
    vote and under no other address, unless the two sign byte strings collide under H *)
Theorem C11_binding :
  forall oracle H chain addr vaddr v chain' addr' vaddr' v' sig,
    int32 (v_type v) -> int32 (v_type v') -> wf_bid (v_bid v) -> wf_bid (v_bid v') ->
    vote_verify oracle H chain addr vaddr v sig = VOk ->
    vote_verify oracle H chain' addr' vaddr' v' sig = VOk ->
    addr = addr' /\ vaddr = vaddr' /\
    ((chain = chain' /\ v = v') \/
     exists b b', vote_sign_bytes chain v = Some b /\ vote_sign_bytes chain' v' = Some b' /\ collision H b b').
Proof. exact vote_binding. Qed.
Print Assumptions C11_binding.

Theorem C11_binding_proposal :
  forall oracle H chain addr p chain' addr' p' sig,
    wf_bid (p_bid p) -> wf_bid (p_bid p') ->
    proposal_verify oracle H chain addr p sig = VOk ->
    proposal_verify oracle H chain' addr' p' sig = VOk ->
    addr = addr' /\
    ((chain = chain' /\ p = p') \/
     exists b b', proposal_sign_bytes chain p = Some b /\ proposal_sign_bytes chain' p' = Some b' /\ collision H b b').
Proof. exact proposal_binding. Qed.
Print Assumptions C11_binding_proposal.

(** a signature accepted for a vote is accepted for a proposal only through a collision *)
Theorem C11_binding_vote_vs_proposal :
  forall oracle H chain addr vaddr v chain' addr' p sig,
    vote_verify oracle H chain addr vaddr v sig = VOk ->
    proposal_verify oracle H chain' addr' p sig = VOk ->
    exists b b', vote_sign_bytes chain v = Some b /\ proposal_sign_bytes chain' p = Some b' /\ collision H b b'.
Proof. exact vote_proposal_binding. Qed.
Print Assumptions C11_binding_vote_vs_proposal.

(** the signature values (V, R, S) of an accepted transaction yield the same sender for any
    other transaction / signer they are attached to only if the six signed fields are the
    same (or the preimages collide under H) *)
Theorem C11_binding_tx :
  forall oracle H sg t a sg' t' a', wf_tx t -> wf_tx t' ->
    sender oracle H sg t = SOk a -> sender oracle H sg' t' = SOk a' ->
    t_v t = t_v t' -> t_r t = t_r t' -> t_s t = t_s t' ->
    a = a' /\ (same_signed_fields t t' \/
               exists hs hs', collision H (tx_sighash_preimage hs t) (tx_sighash_preimage hs' t')).
Proof. exact tx_binding. Qed.
Print Assumptions C11_binding_tx.

(** the proposer's own signature over the proposal sign bytes verifies (as setProposal checks it) *)
Theorem C11_proposal_sign_then_verify :
  forall oracle H chain addr p b r s recid sig,
    proposal_sign_bytes chain p = Some b -> oracle r s recid = Some (addr, H b) -> recid < 2 ->
    1 <= r < secp256k1_n -> 1 <= s < secp256k1_n ->
    len sig = signature_length -> be_val (firstn 32 sig) = r -> be_val (firstn 32 (skipn 32 sig)) = s ->
    nth 64 sig 0 = recid ->
    proposal_verify oracle H chain addr p sig = VOk.
Proof. exact proposal_sign_then_verify. Qed.
Print Assumptions C11_proposal_sign_then_verify.

(** malformed (r = 0, r >= N, s = 0) or malleable (s > N/2) values are rejected WITH AN ERROR
    (ErrInvalidSig, or ErrInvalidChainId when V already names another chain) by every signer,
    for every transaction content and every V *)
Theorem C11_malformed_values_rejected :
  forall oracle H sg t,
    (t_r t = 0 \/ secp256k1_n <= t_r t \/ t_s t = 0 \/ secp256k1_half_n < t_s t) ->
    sender oracle H sg t = SErrInvalidSig \/ sender oracle H sg t = SErrChainId.
Proof. exact malformed_values_rejected. Qed.
Print Assumptions C11_malformed_values_rejected.

(** the (r, N - s) twin of any accepted transaction signature is rejected under every signer,
    content and V *)
Theorem C11_high_s_twin_rejected :
  forall oracle H sg t a sg' t',
    sender oracle H sg t = SOk a -> t_r t' = t_r t -> t_s t' = secp256k1_n - t_s t ->
    sender oracle H sg' t' = SErrInvalidSig \/ sender oracle H sg' t' = SErrChainId.
Proof. exact high_s_twin_rejected. Qed.
Print Assumptions C11_high_s_twin_rejected.

(** strings SigToPub refuses (length other than 65, r or s outside [1, N-1]) verify for no
    address and no hash; and that test is exact *)
Theorem C11_rejected_string_never_verifies :
  forall oracle addr h sig, sig_to_pub_rejects sig = true -> verify_signature oracle addr h sig = false.
Proof. exact rejected_never_verifies. Qed.
Print Assumptions C11_rejected_string_never_verifies.

Theorem C11_sig_to_pub_rejects_exact :
  forall sig,
    sig_to_pub_rejects sig = false <->
    len sig = signature_length /\ 1 <= be_val (firstn 32 sig) < secp256k1_n /\
    1 <= be_val (firstn 32 (skipn 32 sig)) < secp256k1_n.
Proof. exact sig_to_pub_rejects_iff. Qed.
Print Assumptions C11_sig_to_pub_rejects_exact.

(** Vote.ValidateBasic accepts exactly: type prevote or precommit, block id nil or complete,
    non-empty signature *)
Theorem C11_vote_validate_basic :
  forall v n,
    vote_validate_basic v n = VBOk <->
    (v_type v = prevote_type \/ v_type v = precommit_type) /\
    (bid_is_zero (v_bid v) = true \/ bid_is_complete (v_bid v) = true) /\ n <> 0.
Proof. exact vote_validate_basic_ok. Qed.
Print Assumptions C11_vote_validate_basic.

(** Proposal.ValidateBasic accepts exactly: complete block id, at most MaxBlockPartsCount
    parts, non-empty signature *)
Theorem C11_proposal_validate_basic :
  forall p n,
    proposal_validate_basic p n = VBOk <->
    bid_is_complete (p_bid p) = true /\ b_total (p_bid p) <= max_block_parts_count /\ n <> 0.
Proof. exact proposal_validate_basic_ok. Qed.
Print Assumptions C11_proposal_validate_basic.

(** C11_binding for decoded votes: the type-range hypothesis is discharged by ValidateBasic *)
Theorem C11_binding_validated :
  forall oracle H chain addr vaddr v chain' addr' vaddr' v' sig n n',
    vote_validate_basic v n = VBOk -> vote_validate_basic v' n' = VBOk ->
    wf_bid (v_bid v) -> wf_bid (v_bid v') ->
    vote_verify oracle H chain addr vaddr v sig = VOk ->
    vote_verify oracle H chain' addr' vaddr' v' sig = VOk ->
    addr = addr' /\ vaddr = vaddr' /\
    ((chain = chain' /\ v = v') \/
     exists b b', vote_sign_bytes chain v = Some b /\ vote_sign_bytes chain' v' = Some b' /\ collision H b b').
Proof.
  exact (fun oracle H chain addr vaddr v chain' addr' vaddr' v' sig n n' V V' =>
           vote_binding oracle H chain addr vaddr v chain' addr' vaddr' v' sig
             (validated_vote_type v n V) (validated_vote_type v' n' V')).
Qed.
Print Assumptions C11_binding_validated.

(** MakeSigner: the chain-id signer is selected exactly from the fork block on (and stays),
    and that signer rejects a transaction signed for another non-zero chain id *)
Theorem C11_make_signer_fork_boundary :
  forall c s h, (s <= h -> make_signer (Some c) (Some s) (Some h) = ChainIDSigner c) /\
                (h < s -> make_signer (Some c) (Some s) (Some h) = Homestead).
Proof.
  exact (fun c s h => conj (fun L => make_signer_forked c (Some s) (Some h) (proj2 (is_forked_iff s h) L))
                           (fun L => make_signer_unforked (Some c) (Some s) (Some h)
                                       (proj2 (N.leb_gt s h) L))).
Qed.
Print Assumptions C11_make_signer_fork_boundary.

Theorem C11_make_signer_chain_bound :
  forall oracle H c c' s h recid t,
    s <= h -> c' <> 0 -> recid < 2 -> c <> c' ->
    t_v t = signature_v (ChainIDSigner c') recid ->
    sender oracle H (make_signer (Some c) (Some s) (Some h)) t = SErrChainId.
Proof. exact make_signer_chain_bound. Qed.
Print Assumptions C11_make_signer_chain_bound.

(** cross-domain separation (validators sign votes, proposals and transactions with one key):
    the sign bytes of a vote / proposal are never the signing preimage of a transaction.
    PARTIAL: for sign bytes shorter than 2 MiB (length varint of at most three bytes); the full
    statement is [forall c v b s t, vote_sign_bytes c v = Some b -> b <> tx_sighash_preimage s t].
    What is missing: for sign bytes of 2^49 bytes and more the two length HEADERS can coincide
    (varint fe fc fa f6 ee de be 7e = RLP long-list header of the same length), so the unbounded
    proof has to descend into the message bodies. *)
Theorem C11_vote_vs_tx_disjoint_partial :
  forall c v b s t, vote_sign_bytes c v = Some b -> len b < 2097152 -> b <> tx_sighash_preimage s t.
Proof. exact vote_tx_disjoint. Qed.
Print Assumptions C11_vote_vs_tx_disjoint_partial.

Theorem C11_proposal_vs_tx_disjoint_partial :
  forall c p b s t, proposal_sign_bytes c p = Some b -> len b < 2097152 -> b <> tx_sighash_preimage s t.
Proof. exact proposal_tx_disjoint. Qed.
Print Assumptions C11_proposal_vs_tx_disjoint_partial.

(** a 65-byte signature accepted for a vote (proposal), re-used as the (R, S, recovery id) of a
    transaction under any signer, yields a sender only through a Keccak collision between the
    sign bytes and the transaction's signing preimage (same partiality as above) *)
Theorem C11_binding_vote_vs_tx_partial :
  forall oracle H chain addr vaddr v sig sg t a,
    vote_verify oracle H chain addr vaddr v sig = VOk ->
    sender oracle H sg t = SOk a ->
    t_r t = be_val (firstn 32 sig) -> t_s t = be_val (firstn 32 (skipn 32 sig)) ->
    (t_v t + 1) mod 2 = N.land (nth 64 sig 0) 251 ->
    exists b hs, vote_sign_bytes chain v = Some b /\
      (len b < 2097152 -> collision H b (tx_sighash_preimage hs t)).
Proof. exact vote_tx_binding. Qed.
Print Assumptions C11_binding_vote_vs_tx_partial.

Theorem C11_binding_proposal_vs_tx_partial :
  forall oracle H chain addr p sig sg t a,
    proposal_verify oracle H chain addr p sig = VOk ->
    sender oracle H sg t = SOk a ->
    t_r t = be_val (firstn 32 sig) -> t_s t = be_val (firstn 32 (skipn 32 sig)) ->
    (t_v t + 1) mod 2 = N.land (nth 64 sig 0) 251 ->
    exists b hs, proposal_sign_bytes chain p = Some b /\
      (len b < 2097152 -> collision H b (tx_sighash_preimage hs t)).
Proof. exact proposal_tx_binding. Qed.
Print Assumptions C11_binding_proposal_vs_tx_partial.

(** source tie: the guards and machine arithmetic of the model are the expressions of the Go
    sources themselves, regenerated on every check (statement spelled out in SourceTie.v) *)
From Kardia Require Import C11.SourceTie.
Theorem C11_source_tie : C11_source_tie_statement.
Proof. exact C11_source_tie_proof. Qed.
Print Assumptions C11_source_tie.

(** The decision-critical functions of the anchored code have exactly the decisions the source tie knows about
    (go2coq manifests, regenerated from /repo on every check; statement in SourceManifest.v). *)
From Kardia Require Import C11.SourceManifest.
Theorem C11_source_manifest : C11_source_manifest_statement.
Proof. exact C11_source_manifest_proof. Qed.
Print Assumptions C11_source_manifest.
