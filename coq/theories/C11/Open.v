(** C11 — statements that are NOT proved (kept as definitions so that nothing unproved is
    presented as a theorem).  What is missing for each is said next to it. *)
From Coq Require Import List ZArith NArith Bool.
From Kardia Require Import C11.Varint C11.Proto C11.RLPItem C11.Model.
Import ListNotations.
Local Open Scope N_scope.

(** Cross-domain separation without a size bound.  Proved in Properties.v for sign bytes shorter
    than 2 MiB ([C11_vote_vs_tx_disjoint_partial], [C11_proposal_vs_tx_disjoint_partial]); the
    argument there compares the length varint with the RLP list header and the two total lengths.
    Missing for the unbounded statement: from 2^49 bytes on the two headers can coincide (the
    8-byte varint fe fc fa f6 ee de be 7e is also the RLP long-list header announcing the same
    payload length 0xfcfaf6eedebe7e), so the proof has to continue into the bodies (protobuf field
    keys 0x08/0x10/... versus a list of six or nine RLP strings). *)
Definition C11_vote_vs_tx_disjoint_statement : Prop :=
  forall c v b s t, vote_sign_bytes c v = Some b -> b <> tx_sighash_preimage s t.

Definition C11_proposal_vs_tx_disjoint_statement : Prop :=
  forall c p b s t, proposal_sign_bytes c p = Some b -> b <> tx_sighash_preimage s t.
