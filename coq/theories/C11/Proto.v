(** C11 — the gogo-protobuf (proto3) field encoders that the generated
    [MarshalToSizedBuffer] functions of the canonical messages use (definitions only).
    [tag] is the already combined key byte (field number << 3 | wire type), as it appears
    literally in the generated code (0x8, 0x10, 0x22, ...). *)
From Coq Require Import List ZArith NArith Bool.
From Kardia Require Import C11.Varint.
Import ListNotations.
Local Open Scope N_scope.

(** scalar varint field: omitted when zero ([if m.Height != 0 { ... }]) *)
Definition key_varint (tag n : N) : bytes := if n =? 0 then [] else tag :: varint n.

(** bytes / string field: omitted when empty ([if len(m.ChainID) > 0 { ... }]) *)
Definition key_bytes (tag : N) (b : bytes) : bytes :=
  match b with [] => [] | _ => tag :: varint (len b) ++ b end.

(** embedded non-nullable message (always written, even when its encoding is empty) *)
Definition key_msg (tag : N) (b : bytes) : bytes := tag :: varint (len b) ++ b.

(** embedded nullable message ([if m.BlockID != nil { ... }]) *)
Definition key_optmsg (tag : N) (ob : option bytes) : bytes :=
  match ob with None => [] | Some b => key_msg tag b end.

(** [protoio.MarshalDelimited]: uvarint length prefix, then the message *)
Definition delimited (b : bytes) : bytes := varint (len b) ++ b.
