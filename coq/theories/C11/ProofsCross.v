(** C11 — cross-domain separation: the bytes signed for a vote or a proposal (a varint
    length-delimited protobuf message) are never the bytes hashed for a transaction (an RLP
    list), as long as the sign bytes are shorter than 2 MiB.  Validators sign votes, proposals
    and transactions with the same secp256k1 key, so this is what keeps a vote signature from
    being replayed as a transaction signature (and vice versa). *)
From Coq Require Import List ZArith NArith Bool Lia.
From Kardia Require Import C11.Varint C11.Proto C11.RLPItem C11.Model C11.ProofsVarint C11.ProofsRLP
  C11.ProofsSign C11.ProofsTx Generated.C11Facts.
Import ListNotations.
Local Open Scope N_scope.
Ltac Zify.zify_post_hook ::= Z.to_euclidean_division_equations.

(** ** fuel is irrelevant once it suffices *)
Lemma varint_fuel_enough : forall f f' n,
  n < 128 ^ (N.of_nat f + 1) -> n < 128 ^ (N.of_nat f' + 1) -> varint_fuel f n = varint_fuel f' n.
Proof.
  induction f as [|f IH]; intros f' n Hf Hf'.
  - cbn in Hf. destruct f' as [|f']; [reflexivity|]. cbn [varint_fuel].
    destruct (N.ltb_spec n 128); [reflexivity|lia].
  - destruct f' as [|f'].
    + cbn in Hf'. cbn [varint_fuel]. destruct (N.ltb_spec n 128); [reflexivity|lia].
    + cbn [varint_fuel]. destruct (N.ltb_spec n 128); [reflexivity|]. f_equal.
      rewrite Nat2N.inj_succ, N.add_succ_l, N.pow_succ_r' in Hf, Hf'.
      apply IH; apply N.div_lt_upper_bound; lia.
Qed.

Lemma varint_as_fuel f n : n < 128 ^ (N.of_nat f + 1) -> varint n = varint_fuel f n.
Proof.
  intros Hf. unfold varint. apply varint_fuel_enough; [|exact Hf].
  eapply N.lt_le_trans; [apply lt_pow128_size_nat|]. apply N.pow_le_mono_r; lia.
Qed.

Lemma varint_1 n : n < 128 -> varint n = [n].
Proof. intros Hn. rewrite (varint_as_fuel 0) by (cbn; lia). reflexivity. Qed.

Lemma varint_2 n : 128 <= n -> n < 16384 -> varint n = [n mod 128 + 128; n / 128].
Proof.
  intros Hl Hn. rewrite (varint_as_fuel 1) by (cbn; lia). cbn [varint_fuel].
  destruct (N.ltb_spec n 128); [lia|]. reflexivity.
Qed.

Lemma varint_3 n : 16384 <= n -> n < 2097152 ->
  varint n = [n mod 128 + 128; (n / 128) mod 128 + 128; n / 128 / 128].
Proof.
  intros Hl Hn. rewrite (varint_as_fuel 2) by (cbn; lia). cbn [varint_fuel].
  destruct (N.ltb_spec n 128); [lia|].
  destruct (N.ltb_spec (n / 128) 128); [lia|]. reflexivity.
Qed.

Lemma le_fuel_enough : forall f f' n,
  n < 256 ^ N.of_nat f -> n < 256 ^ N.of_nat f' -> le_fuel f n = le_fuel f' n.
Proof.
  induction f as [|f IH]; intros f' n Hf Hf'.
  - cbn in Hf. assert (n = 0) by lia. subst. destruct f'; reflexivity.
  - destruct f' as [|f'].
    + cbn in Hf'. assert (n = 0) by lia. subst. reflexivity.
    + cbn [le_fuel]. destruct (n =? 0); [reflexivity|]. f_equal.
      rewrite Nat2N.inj_succ, N.pow_succ_r' in Hf, Hf'.
      apply IH; apply N.div_lt_upper_bound; lia.
Qed.

Lemma be_bytes_as_fuel f n : n < 256 ^ N.of_nat f -> be_bytes n = rev (le_fuel f n).
Proof.
  intros Hf. unfold be_bytes, le_bytes. f_equal. apply le_fuel_enough; [apply lt_pow256_size_nat|exact Hf].
Qed.

Lemma be_bytes_1 n : 0 < n -> n < 256 -> be_bytes n = [n].
Proof.
  intros H0 Hn. rewrite (be_bytes_as_fuel 1) by (cbn; lia). cbn [le_fuel].
  destruct (N.eqb_spec n 0); [lia|]. cbn [rev app]. f_equal. lia.
Qed.

Lemma be_bytes_2 n : 256 <= n -> n < 65536 -> be_bytes n = [n / 256; n mod 256].
Proof.
  intros Hl Hn. rewrite (be_bytes_as_fuel 2) by (cbn; lia). cbn [le_fuel].
  destruct (N.eqb_spec n 0); [lia|]. destruct (N.eqb_spec (n / 256) 0); [lia|].
  cbn [rev app]. f_equal. lia.
Qed.

Lemma be_bytes_3 n : 65536 <= n -> n < 16777216 ->
  be_bytes n = [n / 256 / 256; (n / 256) mod 256; n mod 256].
Proof.
  intros Hl Hn. rewrite (be_bytes_as_fuel 3) by (cbn; lia). cbn [le_fuel].
  destruct (N.eqb_spec n 0); [lia|]. destruct (N.eqb_spec (n / 256) 0); [lia|].
  destruct (N.eqb_spec (n / 256 / 256) 0); [lia|].
  cbn [rev app]. f_equal. lia.
Qed.

Lemma cons_eq {A} (x y : A) (a b : list A) : x :: a = y :: b -> x = y /\ a = b.
Proof. intros E. injection E as E1 E2. auto. Qed.

Lemma len_app (a b : bytes) : len (a ++ b) = len a + len b.
Proof. unfold len. rewrite app_length. lia. Qed.

(** ** a length-delimited message shorter than 2 MiB is not an RLP list *)
Lemma delimited_ne_rlp_list body items : len body < 2097152 -> delimited body <> rlp_list items.
Proof.
  unfold delimited, rlp_list. set (p := concat items). set (L := len body). set (P := len p).
  intros HL E.
  assert (EL : len (varint L ++ body) = len (rlp_header 192 P ++ p)) by (rewrite E; reflexivity).
  rewrite !len_app in EL. fold L P in EL.
  unfold rlp_header in E, EL.
  destruct (N.ltb_spec L 128) as [L1|L1].
  { (* one-byte varint: first byte < 128, an RLP list starts at 192 or above *)
    rewrite (varint_1 L L1) in E. destruct (P <? 56); cbn [app] in E; apply cons_eq in E; destruct E as [E1 _]; lia. }
  destruct (N.ltb_spec L 16384) as [L2|L2].
  { rewrite (varint_2 L L1 L2) in E, EL. cbn [app] in E.
    destruct (N.ltb_spec P 56) as [P0|P0].
    { cbn [app] in E. unfold len in EL. cbn [app length] in EL. lia. }
    destruct (N.ltb_spec P 256) as [P1|P1].
    { rewrite (be_bytes_1 P) in E, EL by lia. cbn [app] in E. unfold len in EL. cbn [app length] in EL.
      apply cons_eq in E; destruct E as [E1 E]; apply cons_eq in E; destruct E as [E2 _]. lia. }
    destruct (N.ltb_spec P 65536) as [P2|P2].
    { rewrite (be_bytes_2 P P1 P2) in E, EL. cbn [app] in E. unfold len in EL. cbn [app length] in EL.
      apply cons_eq in E; destruct E as [E1 E]; apply cons_eq in E; destruct E as [E2 _]. lia. }
    destruct (N.ltb_spec P 16777216) as [P3|P3].
    { rewrite (be_bytes_3 P P2 P3) in E, EL. cbn [app] in E. unfold len in EL. cbn [app length] in EL. lia. }
    assert (Hk : 1 <= len (be_bytes P)) by (apply be_bytes_nonnil; lia).
    change ((192 + 55 + len (be_bytes P)) :: be_bytes P) with ([192 + 55 + len (be_bytes P)] ++ be_bytes P) in EL.
    rewrite len_app in EL. unfold len in EL, Hk. cbn [length] in EL. lia. }
  rewrite (varint_3 L L2 HL) in E, EL. cbn [app] in E.
  destruct (N.ltb_spec P 56) as [P0|P0].
  { cbn [app] in E. unfold len in EL. cbn [app length] in EL. lia. }
  destruct (N.ltb_spec P 256) as [P1|P1].
  { rewrite (be_bytes_1 P) in E, EL by lia. cbn [app] in E. unfold len in EL. cbn [app length] in EL. lia. }
  destruct (N.ltb_spec P 65536) as [P2|P2].
  { rewrite (be_bytes_2 P P1 P2) in E, EL. cbn [app] in E. unfold len in EL. cbn [app length] in EL.
    apply cons_eq in E; destruct E as [E1 E]; apply cons_eq in E; destruct E as [E2 E]; apply cons_eq in E; destruct E as [E3 _]. lia. }
  destruct (N.ltb_spec P 16777216) as [P3|P3].
  { rewrite (be_bytes_3 P P2 P3) in E, EL. cbn [app] in E. unfold len in EL. cbn [app length] in EL.
    apply cons_eq in E; destruct E as [E1 E]; apply cons_eq in E; destruct E as [E2 _]. lia. }
  (* P >= 2^24: the list is longer than the message *)
  assert (Hk : 1 <= len (be_bytes P)) by (apply be_bytes_nonnil; lia).
  change ((192 + 55 + len (be_bytes P)) :: be_bytes P) with ([192 + 55 + len (be_bytes P)] ++ be_bytes P) in EL.
  rewrite len_app in EL. unfold len in EL, Hk. cbn [length] in EL. lia.
Qed.

(** ** votes / proposals vs transactions *)
Lemma vote_tx_disjoint c v b s t :
  vote_sign_bytes c v = Some b -> len b < 2097152 -> b <> tx_sighash_preimage s t.
Proof.
  unfold vote_sign_bytes. destruct (ts_valid (v_secs v) (v_nanos v)); [|discriminate].
  intros E HL. injection E as E. subst b. unfold tx_sighash_preimage, rlp_list_of_strs.
  apply delimited_ne_rlp_list. unfold delimited in HL. rewrite len_app in HL. lia.
Qed.

Lemma proposal_tx_disjoint c p b s t :
  proposal_sign_bytes c p = Some b -> len b < 2097152 -> b <> tx_sighash_preimage s t.
Proof.
  unfold proposal_sign_bytes. destruct (ts_valid (p_secs p) (p_nanos p)); [|discriminate].
  intros E HL. injection E as E. subst b. unfold tx_sighash_preimage, rlp_list_of_strs.
  apply delimited_ne_rlp_list. unfold delimited in HL. rewrite len_app in HL. lia.
Qed.

Section CrossBinding.
  Variable oracle : N -> N -> N -> option (N * bytes).
  Variable H : bytes -> bytes.

  (** the recovery id a successful [Sender] looked the signature up with is fixed by V's parity *)
  Lemma sender_ok_recid sg t a : sender oracle H sg t = SOk a ->
    exists hs, oracle (t_r t) (t_s t) ((t_v t + 1) mod 2) = Some (a, H (tx_sighash_preimage hs t)).
  Proof.
    intros E. apply sender_ok in E.
    destruct E as (v & hs & Hv & _ & O & [[EV _]|(_ & _ & c & _ & _ & A)]); exists hs.
    - replace ((t_v t + 1) mod 2) with v by lia. exact O.
    - replace ((t_v t + 1) mod 2) with v by lia. exact O.
  Qed.

  (** a 65-byte signature that verifies for a vote, re-used as the (R, S, recovery id) of a
      transaction: the transaction yields a sender only through a Keccak collision between the
      vote sign bytes and the transaction's signing preimage *)
  Lemma vote_tx_binding chain addr vaddr v sig sg t a :
    vote_verify oracle H chain addr vaddr v sig = VOk ->
    sender oracle H sg t = SOk a ->
    t_r t = be_val (firstn 32 sig) -> t_s t = be_val (firstn 32 (skipn 32 sig)) ->
    (t_v t + 1) mod 2 = N.land (nth 64 sig 0) 251 ->
    exists b hs, vote_sign_bytes chain v = Some b /\
      (len b < 2097152 -> collision H b (tx_sighash_preimage hs t)).
  Proof.
    intros E E' Er Es Ev. apply vote_verify_ok in E. destruct E as (_ & b & S & V).
    apply (verify_signature_ok oracle H) in V. destruct V as (r & s & v0 & O & Hr & Hs & Hv & _).
    apply sender_ok_recid in E'. destruct E' as (hs & O').
    rewrite Er, Es, Ev, <- Hr, <- Hs, <- Hv, O in O'. injection O' as _ Eh.
    exists b, hs. split; [exact S|]. intros HL. split; [|exact Eh].
    exact (vote_tx_disjoint chain v b hs t S HL).
  Qed.

  Lemma proposal_tx_binding chain addr p sig sg t a :
    proposal_verify oracle H chain addr p sig = VOk ->
    sender oracle H sg t = SOk a ->
    t_r t = be_val (firstn 32 sig) -> t_s t = be_val (firstn 32 (skipn 32 sig)) ->
    (t_v t + 1) mod 2 = N.land (nth 64 sig 0) 251 ->
    exists b hs, proposal_sign_bytes chain p = Some b /\
      (len b < 2097152 -> collision H b (tx_sighash_preimage hs t)).
  Proof.
    intros E E' Er Es Ev. apply proposal_verify_ok in E. destruct E as (b & S & V).
    apply (verify_signature_ok oracle H) in V. destruct V as (r & s & v0 & O & Hr & Hs & Hv & _).
    apply sender_ok_recid in E'. destruct E' as (hs & O').
    rewrite Er, Es, Ev, <- Hr, <- Hs, <- Hv, O in O'. injection O' as _ Eh.
    exists b, hs. split; [exact S|]. intros HL. split; [|exact Eh].
    exact (proposal_tx_disjoint chain p b hs t S HL).
  Qed.
End CrossBinding.

(** the hypotheses of [vote_tx_binding] are jointly satisfiable exactly when the hash collides:
    with a constant "hash" and an oracle knowing the signature (r = 1, s = 1, recid = 0) by
    address 7, the same 65 bytes verify for a vote and recover 7 from a transaction *)
Definition cross_sig : bytes := repeat 0 31 ++ [1] ++ repeat 0 31 ++ [1] ++ [0].
Definition cross_oracle (r s v : N) : option (N * bytes) :=
  if (r =? 1) && (s =? 1) && (v =? 0) then Some (7, []) else None.
Definition cross_vote : vote :=
  {| v_type := 1%Z; v_height := 5; v_round := 0;
     v_bid := {| b_hash := repeat 0 32; b_total := 0; b_phash := repeat 0 32 |}; v_secs := 0%Z; v_nanos := 0%Z |}.
Definition cross_tx : tx :=
  {| t_nonce := 1; t_price := 1; t_gas := 21000; t_to := None; t_amount := 0; t_payload := [];
     t_v := 27; t_r := 1; t_s := 1 |}.
Example cross_example :
  vote_verify cross_oracle (fun _ => []) [107; 97; 105] 7 7 cross_vote cross_sig = VOk /\
  sender cross_oracle (fun _ => []) Homestead cross_tx = SOk 7 /\
  t_r cross_tx = be_val (firstn 32 cross_sig) /\ t_s cross_tx = be_val (firstn 32 (skipn 32 cross_sig)) /\
  (t_v cross_tx + 1) mod 2 = N.land (nth 64 cross_sig 0) 251.
Proof. vm_compute. repeat split; reflexivity. Qed.
