(** C11 — transaction signing hash preimage injectivity, signature-value validation, chain-id
    binding, sign-then-recover, and the composition with ideal signatures. *)
From Coq Require Import List ZArith NArith Bool Lia.
From Kardia Require Import C11.Varint C11.Proto C11.RLPItem C11.ProofsVarint C11.ProofsRLP C11.ProofsSign
  C11.Model Generated.C11Facts.
Import ListNotations.
Local Open Scope N_scope.
Ltac Zify.zify_post_hook ::= Z.to_euclidean_division_equations.

(** a recipient, when present, is a 20-byte address *)
Definition wf_tx (t : tx) : Prop := forall a, t_to t = Some a -> length a = 20%nat.

Definition same_signed_fields (t t' : tx) : Prop :=
  t_nonce t = t_nonce t' /\ t_price t = t_price t' /\ t_gas t = t_gas t' /\ t_to t = t_to t' /\
  t_amount t = t_amount t' /\ t_payload t = t_payload t'.

Lemma to_field_inj t t' : wf_tx t -> wf_tx t' ->
  match t_to t with None => [] | Some a => a end = match t_to t' with None => [] | Some a => a end ->
  t_to t = t_to t'.
Proof.
  intros W W' E. destruct (t_to t) as [a|] eqn:A; destruct (t_to t') as [a'|] eqn:A'.
  - subst. reflexivity.
  - specialize (W a A). subst a. discriminate.
  - specialize (W' a' A'). subst a'. discriminate.
  - reflexivity.
Qed.

Lemma base_fields_inj t t' : wf_tx t -> wf_tx t' -> base_fields t = base_fields t' -> same_signed_fields t t'.
Proof.
  unfold base_fields, same_signed_fields. intros W W' E.
  injection E as E1 E2 E3 E4 E5 E6.
  apply be_bytes_inj in E1, E2, E3, E5. apply to_field_inj in E4; auto. tauto.
Qed.

Lemma tx_sighash_injective s t s' t' : wf_tx t -> wf_tx t' ->
  tx_sighash_preimage s t = tx_sighash_preimage s' t' -> s = s' /\ same_signed_fields t t'.
Proof.
  unfold tx_sighash_preimage. intros W W' E. apply rlp_list_of_strs_inj in E.
  destruct s as [|c]; destruct s' as [|c']; cbn [sighash_fields] in E.
  - split; [reflexivity|apply base_fields_inj; auto].
  - unfold base_fields in E. cbn [app] in E. discriminate.
  - unfold base_fields in E. cbn [app] in E. discriminate.
  - assert (L : length (base_fields t) = length (base_fields t')) by reflexivity.
    apply app_eq_len in E; [|exact L]. destruct E as [E1 E2].
    injection E2 as E2. apply be_bytes_inj in E2. subst.
    split; [reflexivity|apply base_fields_inj; auto].
Qed.

(** * signature values *)

Lemma n_positive : 0 < secp256k1_n. Proof. reflexivity. Qed.

Lemma half_lt_n : secp256k1_half_n < secp256k1_n.
Proof. unfold secp256k1_half_n. pose proof n_positive. apply N.div_lt; lia. Qed.

Lemma sig_values v r s :
  validate_signature_values v r s true = true <->
  (1 <= r < secp256k1_n /\ 1 <= s <= secp256k1_half_n /\ (v = 0 \/ v = 1)).
Proof.
  pose proof half_lt_n as HL. unfold validate_signature_values.
  destruct (r <? 1) eqn:R1; [apply N.ltb_lt in R1|apply N.ltb_ge in R1]; cbn [orb].
  { split; [discriminate|lia]. }
  destruct (s <? 1) eqn:S1; [apply N.ltb_lt in S1|apply N.ltb_ge in S1]; cbn [orb].
  { split; [discriminate|lia]. }
  cbn [andb].
  destruct (secp256k1_half_n <? s) eqn:SH; [apply N.ltb_lt in SH|apply N.ltb_ge in SH].
  { split; [discriminate|lia]. }
  destruct (r <? secp256k1_n) eqn:RN; [apply N.ltb_lt in RN|apply N.ltb_ge in RN]; cbn [andb].
  2:{ split; [discriminate|lia]. }
  destruct (s <? secp256k1_n) eqn:SN; [apply N.ltb_lt in SN|apply N.ltb_ge in SN]; cbn [andb].
  2:{ split; [discriminate|lia]. }
  destruct (v =? 0) eqn:V0; [apply N.eqb_eq in V0|apply N.eqb_neq in V0]; cbn [orb].
  { split; [lia|reflexivity]. }
  destruct (v =? 1) eqn:V1; [apply N.eqb_eq in V1|apply N.eqb_neq in V1].
  { split; [lia|reflexivity]. }
  split; [discriminate|lia].
Qed.

(** frontier rule (homestead = false) only widens s to the full range *)
Lemma sig_values_frontier v r s :
  validate_signature_values v r s false = true <->
  (1 <= r < secp256k1_n /\ 1 <= s < secp256k1_n /\ (v = 0 \/ v = 1)).
Proof.
  unfold validate_signature_values.
  destruct (r <? 1) eqn:R1; [apply N.ltb_lt in R1|apply N.ltb_ge in R1]; cbn [orb].
  { split; [discriminate|lia]. }
  destruct (s <? 1) eqn:S1; [apply N.ltb_lt in S1|apply N.ltb_ge in S1]; cbn [orb].
  { split; [discriminate|lia]. }
  cbn [andb].
  destruct (r <? secp256k1_n) eqn:RN; [apply N.ltb_lt in RN|apply N.ltb_ge in RN]; cbn [andb].
  2:{ split; [discriminate|lia]. }
  destruct (s <? secp256k1_n) eqn:SN; [apply N.ltb_lt in SN|apply N.ltb_ge in SN]; cbn [andb].
  2:{ split; [discriminate|lia]. }
  destruct (v =? 0) eqn:V0; [apply N.eqb_eq in V0|apply N.eqb_neq in V0]; cbn [orb].
  { split; [lia|reflexivity]. }
  destruct (v =? 1) eqn:V1; [apply N.eqb_eq in V1|apply N.eqb_neq in V1].
  { split; [lia|reflexivity]. }
  split; [discriminate|lia].
Qed.

Lemma bytes_eqb_eq : forall a b, bytes_eqb a b = true <-> a = b.
Proof.
  induction a as [|x a IH]; destruct b as [|y b]; cbn [bytes_eqb]; split; intros E; try discriminate; auto.
  - apply andb_prop in E. destruct E as [E1 E2]. apply N.eqb_eq in E1. apply IH in E2. subst. reflexivity.
  - injection E as E1 E2. subst. rewrite N.eqb_refl. cbn. apply IH. reflexivity.
Qed.

(** * chain-id derivation *)

Lemma derive_signature_v c recid : c <> 0 -> recid < 2 ->
  is_protected (signature_v (ChainIDSigner c) recid) = true /\
  derive_chain_id (signature_v (ChainIDSigner c) recid) = c.
Proof.
  intros Hc Hr. cbn [signature_v]. destruct (c =? 0) eqn:Z; [apply N.eqb_eq in Z; contradiction|].
  set (V := recid + 35 + 2 * c). assert (HV : 37 <= V) by (unfold V; lia).
  split.
  - unfold is_protected. destruct (V <? 256); [|reflexivity].
    destruct (V =? 27) eqn:A; [apply N.eqb_eq in A; lia|].
    destruct (V =? 28) eqn:B; [apply N.eqb_eq in B; lia|]. reflexivity.
  - unfold derive_chain_id. destruct (V <? 18446744073709551616) eqn:L.
    + apply N.ltb_lt in L.
      destruct (V =? 27) eqn:A; [apply N.eqb_eq in A; lia|].
      destruct (V =? 28) eqn:B; [apply N.eqb_eq in B; lia|]. cbn [orb].
      unfold V in *. apply N2Z.inj. rewrite Z2N.id; lia.
    + unfold V. lia.
Qed.

(** [deriveChainId] inverts [35 + 2c + recid] even across its uint64 special-casing *)
Lemma protected_not_27_28 v : is_protected v = true -> v <> 27 /\ v <> 28.
Proof.
  unfold is_protected. destruct (v <? 256) eqn:L; [|apply N.ltb_ge in L; lia].
  destruct (v =? 27) eqn:A; [discriminate|]. destruct (v =? 28) eqn:B; [discriminate|].
  apply N.eqb_neq in A, B. auto.
Qed.

Lemma unprotected_27_28 v : is_protected v = false -> v = 27 \/ v = 28.
Proof.
  unfold is_protected. destruct (v <? 256); [|discriminate].
  destruct (v =? 27) eqn:A; [apply N.eqb_eq in A; auto|].
  destruct (v =? 28) eqn:B; [apply N.eqb_eq in B; auto|]. discriminate.
Qed.

Section IdealProofs.
  Variable oracle : N -> N -> N -> option (N * bytes).
  Variable H : bytes -> bytes.

  Definition collision (x y : bytes) : Prop := x <> y /\ H x = H y.

  Lemma recover_plain_ok h r s vb a : recover_plain oracle h r s vb = SOk a ->
    exists v, (v = 0 \/ v = 1) /\ Z.abs vb = (Z.of_N v + 27)%Z /\
      validate_signature_values v r s true = true /\ oracle r s v = Some (a, h).
  Proof.
    unfold recover_plain, ecrecover. intros E.
    destruct (256 <=? Z.abs vb)%Z eqn:B; [discriminate|]. apply Z.leb_gt in B.
    set (v := Z.to_N ((Z.abs vb mod 18446744073709551616 - 27) mod 256)) in *.
    destruct (validate_signature_values v r s true) eqn:V; [|discriminate]. cbn [negb] in E.
    destruct (oracle r s v) as [[a0 h0]|] eqn:O; [|discriminate].
    destruct (bytes_eqb h h0) eqn:BE; [|discriminate]. apply bytes_eqb_eq in BE. injection E as E. subst.
    pose proof (proj1 (sig_values v r s) V) as (_ & _ & Hv).
    exists v. repeat split; try assumption.
    assert (Hz : Z.of_N v = ((Z.abs vb mod 18446744073709551616 - 27) mod 256)%Z).
    { unfold v. rewrite Z2N.id; [reflexivity|apply Z.mod_pos_bound; lia]. }
    lia.
  Qed.

  Lemma recover_plain_fwd h r s vb a v : (v = 0 \/ v = 1) -> vb = (Z.of_N v + 27)%Z ->
    validate_signature_values v r s true = true -> oracle r s v = Some (a, h) ->
    recover_plain oracle h r s vb = SOk a.
  Proof.
    intros Hv Hvb V O. unfold recover_plain, ecrecover.
    assert (E : Z.to_N ((Z.abs vb mod 18446744073709551616 - 27) mod 256) = v).
    { destruct Hv; subst; reflexivity. }
    destruct (256 <=? Z.abs vb)%Z eqn:B; [apply Z.leb_le in B; lia|].
    rewrite E, V. cbn [negb]. rewrite O.
    replace (bytes_eqb h h) with true; [reflexivity|]. symmetry. apply bytes_eqb_eq. reflexivity.
  Qed.

  (** which (preimage, recid) a successful [sender] looked up *)
  Lemma sender_ok sg t a : sender oracle H sg t = SOk a ->
    exists v hs, (v = 0 \/ v = 1) /\ validate_signature_values v (t_r t) (t_s t) true = true /\
      oracle (t_r t) (t_s t) v = Some (a, H (tx_sighash_preimage hs t)) /\
      ((t_v t = v + 27 /\ hs = Homestead) \/
       (is_protected (t_v t) = true /\ hs = sg /\ exists c, sg = ChainIDSigner c /\ derive_chain_id (t_v t) = c /\
          Z.abs (Z.of_N (t_v t) - Z.of_N (2 * c) - 8) = (Z.of_N v + 27)%Z)).
  Proof.
    destruct sg as [|c]; cbn [sender]; intros E.
    - apply recover_plain_ok in E. destruct E as (v & Hv & Hab & V & O).
      exists v, Homestead. repeat split; try assumption. left. split; [lia|reflexivity].
    - destruct (is_protected (t_v t)) eqn:P; cbn [negb] in E.
      + destruct (derive_chain_id (t_v t) =? c) eqn:D; cbn [negb] in E; [|discriminate].
        apply N.eqb_eq in D.
        apply recover_plain_ok in E. destruct E as (v & Hv & Hab & V & O).
        exists v, (ChainIDSigner c). repeat split; try assumption. right.
        split; [reflexivity|]. split; [reflexivity|]. exists c. auto.
      + apply recover_plain_ok in E. destruct E as (v & Hv & Hab & V & O).
        exists v, Homestead. repeat split; try assumption. left. split; [lia|reflexivity].
  Qed.

  (** ** C11_sig_values at the [Sender] level: an accepted transaction has canonical values *)
  Lemma sender_sig_values sg t a : sender oracle H sg t = SOk a ->
    1 <= t_r t < secp256k1_n /\ 1 <= t_s t <= secp256k1_half_n.
  Proof.
    intros E. apply sender_ok in E. destruct E as (v & hs & _ & V & _).
    apply sig_values in V. tauto.
  Qed.

  (** ** the exact V values: [recoverPlain] rejects everything of more than 8 bits, and after
      that only 27/28 survive; through the chain-id path only 35+2c / 36+2c *)
  Lemma recover_plain_v_range h r s vb a : recover_plain oracle h r s vb = SOk a ->
    (Z.abs vb = 27 \/ Z.abs vb = 28)%Z.
  Proof.
    intros E. apply recover_plain_ok in E. destruct E as (v & [Hv|Hv] & Hab & _); subst v; lia.
  Qed.

  Lemma sender_homestead_v t a : sender oracle H Homestead t = SOk a -> t_v t = 27 \/ t_v t = 28.
  Proof.
    intros E. apply sender_ok in E.
    destruct E as (v & hs & Hv & _ & _ & [[EV _]|(_ & _ & c & Ec & _)]); [lia|discriminate].
  Qed.

  Lemma sender_chainid_v c t a : sender oracle H (ChainIDSigner c) t = SOk a ->
    t_v t = 27 \/ t_v t = 28 \/ t_v t = 35 + 2 * c \/ t_v t = 36 + 2 * c.
  Proof.
    intros E. apply sender_ok in E.
    destruct E as (v & hs & Hv & _ & _ & [[EV _]|(P & _ & c' & Ec & D & A)]); [lia|].
    injection Ec as Ec. subst c'. apply protected_not_27_28 in P.
    unfold derive_chain_id in D.
    destruct (t_v t <? 18446744073709551616) eqn:L.
    - apply N.ltb_lt in L.
      destruct (t_v t =? 27) eqn:A1; [apply N.eqb_eq in A1; lia|].
      destruct (t_v t =? 28) eqn:A2; [apply N.eqb_eq in A2; lia|]. cbn [orb] in D.
      assert (Dz : Z.of_N c = ((Z.of_N (t_v t) - 35) mod 18446744073709551616 / 2)%Z).
      { rewrite <- D. rewrite Z2N.id; [reflexivity|]. apply Z.div_pos; [apply Z.mod_pos_bound|]; lia. }
      lia.
    - apply N.ltb_ge in L. lia.
  Qed.

  (** hence the same (R, S) never yields a sender for two different V under one signer kind,
      except 27/28 vs 35+2c/36+2c of the chain-id signer (whose hashes differ, see tx_binding) *)

  (** ** chain-id binding *)
  Lemma chainid_mismatch c t : is_protected (t_v t) = true -> derive_chain_id (t_v t) <> c ->
    sender oracle H (ChainIDSigner c) t = SErrChainId.
  Proof.
    intros P D. cbn [sender]. rewrite P. cbn [negb].
    destruct (derive_chain_id (t_v t) =? c) eqn:E; [apply N.eqb_eq in E; contradiction|reflexivity].
  Qed.

  Lemma chainid_binding c c' recid t : c <> 0 -> recid < 2 -> c' <> c ->
    t_v t = signature_v (ChainIDSigner c) recid ->
    sender oracle H (ChainIDSigner c') t = SErrChainId.
  Proof.
    intros Hc Hr Hcc HV. destruct (derive_signature_v c recid Hc Hr) as [P D].
    apply chainid_mismatch; rewrite HV; [exact P|rewrite D; congruence].
  Qed.

  (** by design: an unprotected (v = 27/28) transaction is not chain-bound *)
  Lemma unprotected_any_chain c t : is_protected (t_v t) = false ->
    sender oracle H (ChainIDSigner c) t = sender oracle H Homestead t.
  Proof. intros P. cbn [sender]. rewrite P. reflexivity. Qed.

  (** a protected transaction is never accepted by the Homestead signer *)
  Lemma protected_rejected_by_homestead t : is_protected (t_v t) = true ->
    sender oracle H Homestead t = SErrInvalidSig.
  Proof.
    intros P. apply protected_not_27_28 in P. cbn [sender]. unfold recover_plain.
    destruct (256 <=? Z.abs (Z.of_N (t_v t)))%Z eqn:B; [reflexivity|]. apply Z.leb_gt in B.
    set (v := Z.to_N ((Z.abs (Z.of_N (t_v t)) mod 18446744073709551616 - 27) mod 256)).
    destruct (validate_signature_values v (t_r t) (t_s t) true) eqn:V; [|reflexivity].
    exfalso. apply sig_values in V. destruct V as (_ & _ & Hv).
    assert (Hz : Z.of_N v = ((Z.abs (Z.of_N (t_v t)) mod 18446744073709551616 - 27) mod 256)%Z).
    { unfold v. rewrite Z2N.id; [reflexivity|apply Z.mod_pos_bound; lia]. }
    lia.
  Qed.

  (** ** sign then recover (types.SignTx followed by Sender under the same signer) *)
  Lemma sign_then_recover sg t a recid :
    recid < 2 -> validate_signature_values recid (t_r t) (t_s t) true = true ->
    oracle (t_r t) (t_s t) recid = Some (a, H (signtx_preimage sg t)) ->
    t_v t = signature_v sg recid ->
    sender oracle H sg t = SOk a.
  Proof.
    intros Hr V O HV. assert (Hv : recid = 0 \/ recid = 1) by lia.
    destruct sg as [|c]; cbn [sender signtx_preimage signature_v] in *.
    - eapply recover_plain_fwd; eauto. rewrite HV. lia.
    - destruct (c =? 0) eqn:Z.
      + assert (P : is_protected (t_v t) = false) by (rewrite HV; destruct Hv; subst; reflexivity).
        rewrite P. cbn [negb]. eapply recover_plain_fwd; eauto. rewrite HV. lia.
      + apply N.eqb_neq in Z. destruct (derive_signature_v c recid Z Hr) as [P D].
        cbn [signature_v] in P, D. destruct (c =? 0) eqn:Z'; [apply N.eqb_eq in Z'; contradiction|].
        rewrite <- HV in P, D. rewrite P, D, N.eqb_refl. cbn [negb].
        eapply recover_plain_fwd; eauto. rewrite HV. lia.
  Qed.

  (** ** composition: a transaction signature is bound to the signer and the six signed fields *)
  Lemma tx_binding sg t a sg' t' a' : wf_tx t -> wf_tx t' ->
    sender oracle H sg t = SOk a -> sender oracle H sg' t' = SOk a' ->
    t_v t = t_v t' -> t_r t = t_r t' -> t_s t = t_s t' ->
    a = a' /\ (same_signed_fields t t' \/
               exists hs hs', collision (tx_sighash_preimage hs t) (tx_sighash_preimage hs' t')).
  Proof.
    intros W W' E E' EV ER ES.
    apply sender_ok in E, E'.
    destruct E as (v & hs & Hv & _ & O & C). destruct E' as (v' & hs' & Hv' & _ & O' & C').
    rewrite <- ER, <- ES, <- EV in *.
    assert (Evv : v = v').
    { destruct C as [[C _]|(P & _ & c & Ec & D & A)]; destruct C' as [[C' _]|(P' & _ & c' & Ec' & D' & A')].
      - lia.
      - apply protected_not_27_28 in P'. lia.
      - apply protected_not_27_28 in P. lia.
      - assert (c = c') by congruence. subst c'. lia. }
    subst v'. rewrite O in O'. injection O' as Ea Eh. split; [exact Ea|].
    destruct (list_eq_dec N.eq_dec (tx_sighash_preimage hs t) (tx_sighash_preimage hs' t')) as [Ep|Np].
    - left. apply tx_sighash_injective in Ep; tauto.
    - right. exists hs, hs'. split; assumption.
  Qed.

  (** ** composition for votes and proposals *)
  Lemma verify_signature_ok addr h sig : verify_signature oracle addr h sig = true ->
    exists r s v, oracle r s v = Some (addr, h) /\ r = be_val (firstn 32 sig) /\
      s = be_val (firstn 32 (skipn 32 sig)) /\ v = N.land (nth 64 sig 0) 251 /\
      len sig = signature_length /\ 1 <= r < secp256k1_n /\ 1 <= s < secp256k1_n.
  Proof.
    unfold verify_signature, sig_to_addr. intros E.
    destruct (len sig =? signature_length) eqn:L; cbn [negb] in E; [|discriminate].
    apply N.eqb_eq in L.
    set (r := be_val (firstn 32 sig)) in *. set (s := be_val (firstn 32 (skipn 32 sig))) in *.
    destruct (r =? 0) eqn:R0; cbn [orb] in E; [discriminate|].
    destruct (s =? 0) eqn:S0; cbn [orb] in E; [discriminate|].
    destruct (secp256k1_n <=? r) eqn:RN; cbn [orb] in E; [discriminate|].
    destruct (secp256k1_n <=? s) eqn:SN; cbn [orb] in E; [discriminate|].
    apply N.eqb_neq in R0, S0. apply N.leb_gt in RN, SN.
    destruct (N.land (nth 64 sig 0) 251 <? 2); [|discriminate].
    destruct (oracle r s (N.land (nth 64 sig 0) 251)) as [[a0 h0]|] eqn:O; [|discriminate].
    destruct (bytes_eqb h h0) eqn:B; [|discriminate]. apply bytes_eqb_eq in B. apply N.eqb_eq in E. subst.
    exists r, s, (N.land (nth 64 sig 0) 251). repeat split; try assumption; lia.
  Qed.

  (** one signature string verifies for at most one (address, hash) *)
  Lemma verify_signature_functional addr h addr' h' sig :
    verify_signature oracle addr h sig = true -> verify_signature oracle addr' h' sig = true ->
    addr = addr' /\ h = h'.
  Proof.
    intros E E'. apply verify_signature_ok in E, E'.
    destruct E as (r & s & v & O & Er & Es & Ev & _). destruct E' as (r' & s' & v' & O' & Er' & Es' & Ev' & _).
    subst. rewrite O in O'. injection O' as A B. auto.
  Qed.

  (** remark (by design, btcec masks the "compressed key" bit of the recovery byte): the outcome
      of [VerifySignature] depends on the 65-byte string only through r, s and byte 64 with bit 2
      cleared, so recovery bytes 4/5 are aliases of 0/1 for the same message and signer; by
      [verify_signature_functional] no alias verifies for any other (address, hash). *)
  Lemma verify_signature_alias addr h sig sig' :
    len sig = len sig' -> firstn 32 sig = firstn 32 sig' ->
    firstn 32 (skipn 32 sig) = firstn 32 (skipn 32 sig') ->
    N.land (nth 64 sig 0) 251 = N.land (nth 64 sig' 0) 251 ->
    verify_signature oracle addr h sig = verify_signature oracle addr h sig'.
  Proof.
    intros L R S V. unfold verify_signature, sig_to_addr. rewrite L, R, S, V. reflexivity.
  Qed.

  Lemma vote_verify_ok chain addr vaddr v sig : vote_verify oracle H chain addr vaddr v sig = VOk ->
    vaddr = addr /\ exists b, vote_sign_bytes chain v = Some b /\ verify_signature oracle addr (H b) sig = true.
  Proof.
    unfold vote_verify. intros E. destruct (vaddr =? addr) eqn:A; cbn [negb] in E; [|discriminate].
    apply N.eqb_eq in A. split; [exact A|].
    destruct (vote_sign_bytes chain v) as [b|]; [|discriminate].
    exists b. split; [reflexivity|]. destruct (verify_signature oracle addr (H b) sig); [reflexivity|discriminate].
  Qed.

  Lemma proposal_verify_ok chain addr p sig : proposal_verify oracle H chain addr p sig = VOk ->
    exists b, proposal_sign_bytes chain p = Some b /\ verify_signature oracle addr (H b) sig = true.
  Proof.
    unfold proposal_verify. intros E.
    destruct (proposal_sign_bytes chain p) as [b|]; [|discriminate].
    exists b. split; [reflexivity|]. destruct (verify_signature oracle addr (H b) sig); [reflexivity|discriminate].
  Qed.

  Lemma vote_binding chain addr vaddr v chain' addr' vaddr' v' sig :
    int32 (v_type v) -> int32 (v_type v') -> wf_bid (v_bid v) -> wf_bid (v_bid v') ->
    vote_verify oracle H chain addr vaddr v sig = VOk ->
    vote_verify oracle H chain' addr' vaddr' v' sig = VOk ->
    addr = addr' /\ vaddr = vaddr' /\
    ((chain = chain' /\ v = v') \/
     exists b b', vote_sign_bytes chain v = Some b /\ vote_sign_bytes chain' v' = Some b' /\ collision b b').
  Proof.
    intros T T' W W' E E'. apply vote_verify_ok in E, E'.
    destruct E as (A & b & S & V). destruct E' as (A' & b' & S' & V').
    destruct (verify_signature_functional _ _ _ _ _ V V') as [Ea Eh].
    split; [exact Ea|]. split; [congruence|].
    destruct (list_eq_dec N.eq_dec b b') as [Eb|Nb].
    - left. subst b'. eapply vote_sign_bytes_inj_wf; eauto.
    - right. exists b, b'. repeat split; assumption.
  Qed.

  Lemma proposal_binding chain addr p chain' addr' p' sig :
    wf_bid (p_bid p) -> wf_bid (p_bid p') ->
    proposal_verify oracle H chain addr p sig = VOk ->
    proposal_verify oracle H chain' addr' p' sig = VOk ->
    addr = addr' /\
    ((chain = chain' /\ p = p') \/
     exists b b', proposal_sign_bytes chain p = Some b /\ proposal_sign_bytes chain' p' = Some b' /\ collision b b').
  Proof.
    intros W W' E E'. apply proposal_verify_ok in E, E'.
    destruct E as (b & S & V). destruct E' as (b' & S' & V').
    destruct (verify_signature_functional _ _ _ _ _ V V') as [Ea Eh].
    split; [exact Ea|].
    destruct (list_eq_dec N.eq_dec b b') as [Eb|Nb].
    - left. subst b'. eapply proposal_sign_bytes_inj_wf; eauto.
    - right. exists b, b'. repeat split; assumption.
  Qed.

  (** a signature accepted for a vote is accepted for a proposal only through a hash collision *)
  Lemma vote_proposal_binding chain addr vaddr v chain' addr' p sig :
    vote_verify oracle H chain addr vaddr v sig = VOk ->
    proposal_verify oracle H chain' addr' p sig = VOk ->
    exists b b', vote_sign_bytes chain v = Some b /\ proposal_sign_bytes chain' p = Some b' /\ collision b b'.
  Proof.
    intros E E'. apply vote_verify_ok in E. apply proposal_verify_ok in E'.
    destruct E as (A & b & S & V). destruct E' as (b' & S' & V').
    destruct (verify_signature_functional _ _ _ _ _ V V') as [Ea Eh].
    exists b, b'. repeat split; try assumption. eapply vote_proposal_disjoint; eauto.
  Qed.

  (** completeness: the signer's own signature over the sign bytes verifies *)
  Lemma vote_sign_then_verify chain addr v b r s recid sig :
    vote_sign_bytes chain v = Some b -> oracle r s recid = Some (addr, H b) -> recid < 2 ->
    1 <= r < secp256k1_n -> 1 <= s < secp256k1_n ->
    len sig = signature_length -> be_val (firstn 32 sig) = r -> be_val (firstn 32 (skipn 32 sig)) = s ->
    nth 64 sig 0 = recid ->
    vote_verify oracle H chain addr addr v sig = VOk.
  Proof.
    intros S O Hr Rr Rs L Er Es Ev. unfold vote_verify. rewrite N.eqb_refl. cbn [negb]. rewrite S.
    unfold verify_signature, sig_to_addr. rewrite L, N.eqb_refl. cbn [negb]. rewrite Er, Es, Ev.
    destruct (r =? 0) eqn:R0; [apply N.eqb_eq in R0; lia|].
    destruct (s =? 0) eqn:S0; [apply N.eqb_eq in S0; lia|].
    destruct (secp256k1_n <=? r) eqn:RN; [apply N.leb_le in RN; lia|].
    destruct (secp256k1_n <=? s) eqn:SN; [apply N.leb_le in SN; lia|]. cbn [orb].
    assert (Hl : N.land recid 251 = recid) by (assert (recid = 0 \/ recid = 1) as [->| ->] by lia; reflexivity).
    rewrite Hl. destruct (recid <? 2) eqn:Lt; [|apply N.ltb_ge in Lt; lia].
    rewrite O. replace (bytes_eqb (H b) (H b)) with true by (symmetry; apply bytes_eqb_eq; reflexivity).
    rewrite N.eqb_refl. reflexivity.
  Qed.
End IdealProofs.

(** the hypotheses of [sign_then_recover] / [tx_binding] are satisfiable: with the identity as
    "hash" and an oracle knowing one signature (r = 1, s = 1, recid = 0) by address 7 over the
    chain-id-24 preimage of a concrete transaction, Sender returns 7; under chain id 25 the
    same transaction is ErrInvalidChainId; with the amount changed the sender is lost. *)
Definition ex_tx : tx :=
  {| t_nonce := 1; t_price := 1; t_gas := 21000; t_to := Some (repeat 0 19 ++ [1]); t_amount := 5;
     t_payload := []; t_v := 35 + 2 * 24; t_r := 1; t_s := 1 |}.
Definition ex_oracle (r s v : N) : option (N * bytes) :=
  if (r =? 1) && (s =? 1) && (v =? 0) then Some (7, tx_sighash_preimage (ChainIDSigner 24) ex_tx) else None.

Example sender_example :
  sender ex_oracle (fun b => b) (ChainIDSigner 24) ex_tx = SOk 7 /\
  sender ex_oracle (fun b => b) (ChainIDSigner 25) ex_tx = SErrChainId /\
  sender ex_oracle (fun b => b) Homestead ex_tx = SErrInvalidSig /\
  sender ex_oracle (fun b => b) (ChainIDSigner 24)
    {| t_nonce := 1; t_price := 1; t_gas := 21000; t_to := Some (repeat 0 19 ++ [1]); t_amount := 6;
       t_payload := []; t_v := 35 + 2 * 24; t_r := 1; t_s := 1 |} = SOther.
Proof. vm_compute. repeat split. Qed.
