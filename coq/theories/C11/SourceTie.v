(** C11 — tie of the model's guards and machine arithmetic to the Go SOURCE.
    [Generated/C11Source.v] is produced on every check by /verif/go2coq from /repo's working tree:
    every guard / integer expression of
      types/transaction_signing.go  ChainIDSigner.Sender / SignatureValues / Equal, deriveChainId,
                                    decodeSignature, FrontierSigner.SignatureValues
      types/transaction.go          isProtectedV, Transaction.Protected, recoverPlain, SignTx
      types/vote.go, proposal.go    Vote.Verify, Vote.ValidateBasic, Proposal.ValidateBasic
      types/canonical_types.go      CanonicalizeBlockID;  types/signable.go VerifySignature
      types/block.go, part_set.go   BlockID.IsZero / IsComplete, PartSetHeader.IsZero
      lib/crypto/crypto.go          ValidateSignatureValues;  lib/crypto/signature.go SigToPub, Sign
      configs/chain_config.go       isForked (MakeSigner's fork test)
      types/transaction_signing.go  MakeSigner, LatestSigner, LatestSignerForChainID, NewChainIDSigner, Sender (cache test)
    and the constants MaxBlockPartsCount, SignatureLength, PrevoteType, PrecommitType, ProposalType.
    The lemmas say that the functions of C11/Model.v ARE these expressions, placed branch by branch
    as in the Go functions, applied to exactly the operands the Go text names (the [_atoms] lists).

    Atoms of type [int] that are results of [big.Int.Cmp] / [Sign] / [BitLen] / [Uint64] are
    interpreted by [ncmp] / [bitlen] / [uint64_of] below (their math/big meaning on the
    non-negative values RLP decoding yields). *)
From Coq Require Import List ZArith NArith Bool Lia String Znumtheory.
From Kardia Require Import Base.GoSem.
From Kardia Require Import Generated.C11Source.
From Kardia Require Import Generated.C11Facts C11.Varint C11.Proto C11.RLPItem C11.Model.
Import ListNotations.
Local Open Scope Z_scope.

(** ** math/big readings of the [int] / [uint64] atoms *)
Definition cmp_int (a b : Z) : Z := match a ?= b with Lt => -1 | Eq => 0 | Gt => 1 end.
(** [x.Cmp(y)] on non-negative big integers; [x.Sign()] is [ncmp x 0] *)
Definition ncmp (a b : N) : Z := cmp_int (Z.of_N a) (Z.of_N b).
(** [x.BitLen()] (of the absolute value) *)
Definition bitlen (n : N) : Z := Z.of_N (N.size n).
(** [x.Uint64()]: the low 64 bits of the absolute value *)
Definition uint64_of (n : N) : Z := Z.of_N n mod 18446744073709551616.

Lemma ncmp_lt a b : (ncmp a b <? 0) = (a <? b)%N.
Proof. unfold ncmp, cmp_int, N.ltb. rewrite N2Z.inj_compare. destruct (a ?= b)%N; reflexivity. Qed.
Lemma ncmp_gt a b : (ncmp a b >? 0) = (b <? a)%N.
Proof.
  unfold ncmp, cmp_int, N.ltb. rewrite N2Z.inj_compare, (N.compare_antisym a b).
  destruct (a ?= b)%N; reflexivity.
Qed.
Lemma ncmp_ge a b : (ncmp a b >=? 0) = (b <=? a)%N.
Proof.
  unfold ncmp, cmp_int, N.leb. rewrite N2Z.inj_compare, (N.compare_antisym a b).
  destruct (a ?= b)%N; reflexivity.
Qed.
Lemma ncmp_eq a b : (ncmp a b =? 0) = (a =? b)%N.
Proof.
  unfold ncmp, cmp_int. rewrite N2Z.inj_compare.
  destruct (N.compare_spec a b) as [E|L|G]; symmetry.
  - subst. rewrite N.eqb_refl. reflexivity.
  - apply N.eqb_neq. lia.
  - apply N.eqb_neq. lia.
Qed.
Lemma ncmp_ne a b : go_neqb (ncmp a b) 0 = negb (a =? b)%N.
Proof. unfold go_neqb. rewrite ncmp_eq. reflexivity. Qed.
Lemma zofn_eqb a b : (Z.of_N a =? Z.of_N b) = (a =? b)%N.
Proof. destruct (N.eqb_spec a b); destruct (Z.eqb_spec (Z.of_N a) (Z.of_N b)); try reflexivity; lia. Qed.
Lemma zofn_gtb a b : (Z.of_N a >? Z.of_N b) = (b <? a)%N.
Proof. rewrite Z.gtb_ltb. destruct (N.ltb_spec b a); destruct (Z.ltb_spec (Z.of_N b) (Z.of_N a)); try reflexivity; lia. Qed.
Lemma zofn_leb a b : (Z.of_N a <=? Z.of_N b) = (a <=? b)%N.
Proof. destruct (N.leb_spec a b); destruct (Z.leb_spec (Z.of_N a) (Z.of_N b)); try reflexivity; lia. Qed.

(** [BitLen() <= k] is [< 2^k] *)
Lemma size_le_iff n k : (N.size n <= k)%N <-> (n < 2 ^ k)%N.
Proof.
  split; intros Hs.
  - apply N.lt_le_trans with (2 ^ N.size n)%N; [apply N.size_gt|].
    apply N.pow_le_mono_r; [discriminate|exact Hs].
  - destruct (N.le_gt_cases (N.size n) k) as [Hle|Hgt]; [exact Hle|exfalso].
    assert (Hk : (N.succ k <= N.size n)%N) by lia.
    pose proof (N.size_le n) as Hl.
    assert (Hp : (2 ^ N.succ k <= 2 ^ N.size n)%N) by (apply N.pow_le_mono_r; [discriminate|exact Hk]).
    rewrite N.pow_succ_r' in Hp. rewrite N.succ_double_spec in Hl. lia.
Qed.
Lemma bitlen_le n k : (bitlen n <=? Z.of_N k) = (n <? 2 ^ k)%N.
Proof.
  unfold bitlen. rewrite zofn_leb.
  destruct (N.leb_spec (N.size n) k) as [H|H]; destruct (N.ltb_spec n (2 ^ k)) as [H'|H']; try reflexivity; exfalso.
  - apply size_le_iff in H. lia.
  - apply size_le_iff in H'. lia.
Qed.
Lemma bitlen_gt n k : (bitlen n >? Z.of_N k) = (2 ^ k <=? n)%N.
Proof.
  rewrite Z.gtb_ltb, Z.ltb_antisym, bitlen_le, N.ltb_antisym, negb_involutive. reflexivity.
Qed.
Lemma uint64_small n : (n < 18446744073709551616)%N -> uint64_of n = Z.of_N n.
Proof. intros H. unfold uint64_of. apply Z.mod_small. lia. Qed.

(** ** constants *)
Lemma tie_consts :
  Z.of_N signature_length = lib_crypto__SignatureLength /\
  Z.of_N max_block_parts_count = types__MaxBlockPartsCount /\
  prevote_type = proto_kardiachain_types__PrevoteType /\
  precommit_type = proto_kardiachain_types__PrecommitType /\
  proposal_type = proto_kardiachain_types__ProposalType.
Proof. repeat split; reflexivity. Qed.

(** ** crypto.ValidateSignatureValues: the whole function *)
Lemma tie_validate_signature_values v r s hs :
  validate_signature_values v r s hs =
  if lib_crypto__ValidateSignatureValues__if_r_Cmp_common_Big1_lt_0_or_s_Cmp_common_Big1_lt_0 (ncmp r 1) (ncmp s 1)
  then false
  else if lib_crypto__ValidateSignatureValues__if_homestead_and_s_Cmp_secp256k1halfN_gt_0 hs (ncmp s secp256k1_half_n)
  then false
  else lib_crypto__ValidateSignatureValues__ret_r_Cmp_secp256k1N_lt_0_and_s_Cmp_secp256k1N_lt_0_and_v_eq_0_or_v_eq_1
         (ncmp r secp256k1_n) (ncmp s secp256k1_n) (Z.of_N v).
Proof.
  unfold validate_signature_values,
    lib_crypto__ValidateSignatureValues__if_r_Cmp_common_Big1_lt_0_or_s_Cmp_common_Big1_lt_0,
    lib_crypto__ValidateSignatureValues__if_homestead_and_s_Cmp_secp256k1halfN_gt_0,
    lib_crypto__ValidateSignatureValues__ret_r_Cmp_secp256k1N_lt_0_and_s_Cmp_secp256k1N_lt_0_and_v_eq_0_or_v_eq_1.
  rewrite !ncmp_lt, ncmp_gt.
  change 0 with (Z.of_N 0). change 1 with (Z.of_N 1). rewrite !zofn_eqb. reflexivity.
Qed.

(** ** isProtectedV / Transaction.Protected *)
Lemma tie_is_protected v :
  is_protected v =
  if types__isProtectedV__if_V_BitLen_le_8 (bitlen v)
  then types__isProtectedV__ret_v_ne_27_and_v_ne_28 (uint64_of v)
  else true.
Proof.
  unfold is_protected, types__isProtectedV__if_V_BitLen_le_8, types__isProtectedV__ret_v_ne_27_and_v_ne_28.
  change 8 with (Z.of_N 8). rewrite bitlen_le. change (2 ^ 8)%N with 256%N.
  destruct (N.ltb_spec v 256) as [H|H]; [|reflexivity].
  rewrite uint64_small by lia. unfold go_neqb.
  change 27 with (Z.of_N 27). change 28 with (Z.of_N 28). rewrite !zofn_eqb. reflexivity.
Qed.
Lemma tie_tx_protected v :
  types__Transaction_Protected__ret_tx_data_V_ne_nil_and_isProtectedV_tx_data_V true (is_protected v) = is_protected v.
Proof. reflexivity. Qed.

(** ** deriveChainId: both guards; the uint64 expression [(v - 35) / 2] sits inside a
    [SetUint64(...)] argument, which go2coq does not emit — it is written here with the same
    GoSem operators *)
Lemma tie_derive_chain_id v :
  derive_chain_id v =
  if types__deriveChainId__if_v_BitLen_le_64 (bitlen v)
  then if types__deriveChainId__if_v_eq_27_or_v_eq_28 (uint64_of v) then 0%N
       else Z.to_N (go_quot U64 (go_sub U64 (uint64_of v) 35) 2)
  else ((v - 35) / 2)%N.
Proof.
  unfold derive_chain_id, types__deriveChainId__if_v_BitLen_le_64, types__deriveChainId__if_v_eq_27_or_v_eq_28.
  change 64 with (Z.of_N 64). rewrite bitlen_le. change (2 ^ 64)%N with 18446744073709551616%N.
  destruct (N.ltb_spec v 18446744073709551616) as [H|H]; [|reflexivity].
  rewrite uint64_small by exact H.
  change 27 with (Z.of_N 27). change 28 with (Z.of_N 28). rewrite !zofn_eqb.
  destruct ((v =? 27)%N || (v =? 28)%N)%bool; [reflexivity|].
  f_equal. unfold go_quot, go_sub. cbn [wrap].
  set (x := (Z.of_N v - 35) mod 18446744073709551616).
  assert (Hx : 0 <= x < 18446744073709551616) by (apply Z.mod_pos_bound; lia).
  rewrite Z.quot_div_nonneg by lia.
  symmetry. apply Z.mod_small.
  pose proof (Z.div_pos x 2). pose proof (Z.div_le_upper_bound x 2 x). lia.
Qed.

(** ** recoverPlain: the whole function *)
Lemma tie_set_V x : types__recoverPlain__set_V x = (x - 27) mod 256.
Proof.
  unfold types__recoverPlain__set_V, go_conv, go_sub. cbn [wrap].
  symmetry. apply Zmod_div_mod; [lia|lia|].
  exists 72057594037927936. reflexivity.
Qed.
Lemma tie_recover_plain oracle h r s vb :
  recover_plain oracle h r s vb =
  if types__recoverPlain__if_Vb_BitLen_gt_8 (bitlen (Z.to_N (Z.abs vb))) then SErrInvalidSig
  else let v := Z.to_N (types__recoverPlain__set_V (Z.abs vb mod 18446744073709551616)) in
       if types__recoverPlain__if_not_crypto_ValidateSignatureValues_V_R_S_homestead (validate_signature_values v r s true)
       then SErrInvalidSig
       else ecrecover oracle h r s v.
Proof.
  unfold recover_plain, types__recoverPlain__if_Vb_BitLen_gt_8,
    types__recoverPlain__if_not_crypto_ValidateSignatureValues_V_R_S_homestead.
  change 8 with (Z.of_N 8). rewrite bitlen_gt. change (2 ^ 8)%N with 256%N.
  replace (256 <=? Z.to_N (Z.abs vb))%N with (256 <=? Z.abs vb).
  2:{ pose proof (Z.abs_nonneg vb).
      destruct (Z.leb_spec 256 (Z.abs vb)); destruct (N.leb_spec 256 (Z.to_N (Z.abs vb))); try reflexivity; lia. }
  rewrite tie_set_V. reflexivity.
Qed.

(** ** ChainIDSigner.Sender: the whole function (the Homestead branch is HomesteadSigner.Sender) *)
Lemma tie_sender_chainid oracle H c t :
  sender oracle H (ChainIDSigner c) t =
  if types__ChainIDSigner_Sender__if_not_tx_Protected (is_protected (t_v t))
  then sender oracle H Homestead t
  else if types__ChainIDSigner_Sender__if_tx_ChainId__Cmp_s_chainId_ne_0 (ncmp (derive_chain_id (t_v t)) c)
  then SErrChainId
  else recover_plain oracle (H (tx_sighash_preimage (ChainIDSigner c) t)) (t_r t) (t_s t)
         (Z.of_N (t_v t) - Z.of_N (2 * c) - 8).
Proof.
  unfold sender, types__ChainIDSigner_Sender__if_not_tx_Protected,
    types__ChainIDSigner_Sender__if_tx_ChainId__Cmp_s_chainId_ne_0.
  rewrite ncmp_ne. reflexivity.
Qed.

(** ** ChainIDSigner.SignatureValues / SignTx: the chain-id-zero switch *)
Lemma tie_signature_v c recid :
  signature_v (ChainIDSigner c) recid =
  if types__ChainIDSigner_SignatureValues__if_s_chainId_Sign_ne_0 (ncmp c 0)
  then (recid + 35 + 2 * c)%N else (recid + 27)%N.
Proof.
  unfold signature_v, types__ChainIDSigner_SignatureValues__if_s_chainId_Sign_ne_0.
  rewrite ncmp_ne. destruct (c =? 0)%N; reflexivity.
Qed.
Lemma tie_signtx_preimage c t :
  signtx_preimage (ChainIDSigner c) t =
  if types__SignTx__if_id_ne_nil_and_id_Sign_eq_0 true (ncmp c 0)
  then tx_sighash_preimage Homestead t else tx_sighash_preimage (ChainIDSigner c) t.
Proof.
  unfold signtx_preimage, types__SignTx__if_id_ne_nil_and_id_Sign_eq_0. rewrite ncmp_eq. reflexivity.
Qed.
Lemma tie_signtx_preimage_homestead t x :
  signtx_preimage Homestead t =
  if types__SignTx__if_id_ne_nil_and_id_Sign_eq_0 false x
  then tx_sighash_preimage (ChainIDSigner 0) t else tx_sighash_preimage Homestead t.
Proof. reflexivity. Qed.
Lemma tie_signer_equal ok c c' :
  types__ChainIDSigner_Equal__ret_ok_and_signer_chainId_Cmp_s_chainId_eq_0 ok (ncmp c' c) = (ok && (c' =? c)%N)%bool.
Proof. unfold types__ChainIDSigner_Equal__ret_ok_and_signer_chainId_Cmp_s_chainId_eq_0. rewrite ncmp_eq. reflexivity. Qed.

(** ** signature length guards (decodeSignature, FrontierSigner.SignatureValues, SigToPub, Sign) *)
Lemma tie_len_guards n :
  types__decodeSignature__if_len_sig_ne_crypto_SignatureLength (Z.of_N n) = negb (n =? signature_length)%N /\
  types__FrontierSigner_SignatureValues__if_len_sig_ne_65 (Z.of_N n) = negb (n =? signature_length)%N /\
  lib_crypto__SigToPub__if_len_sig_ne_SignatureLength (Z.of_N n) = negb (n =? signature_length)%N /\
  lib_crypto__Sign__if_len_hash_ne_32 (Z.of_N n) = negb (n =? 32)%N.
Proof.
  unfold types__decodeSignature__if_len_sig_ne_crypto_SignatureLength, types__FrontierSigner_SignatureValues__if_len_sig_ne_65,
    lib_crypto__SigToPub__if_len_sig_ne_SignatureLength, lib_crypto__Sign__if_len_hash_ne_32, go_neqb, signature_length.
  change 65 with (Z.of_N 65). change 32 with (Z.of_N 32). rewrite !zofn_eqb. repeat split; reflexivity.
Qed.

(** ** crypto.SigToPub: length and range guards as placed in [sig_to_addr] / [sig_to_pub_rejects];
    the header byte [sig[64] + 27] and Sign's inverse [sig[0] - 27] *)
Lemma tie_sig_to_pub_range r s :
  lib_crypto__SigToPub__if_r_Sign_eq_0_or_s_Sign_eq_0_or_r_Cmp_secp256k1N_ge_0_or_s_Cmp_b70b570f
    (ncmp r 0) (ncmp s 0) (ncmp r secp256k1_n) (ncmp s secp256k1_n)
  = ((r =? 0)%N || (s =? 0)%N || (secp256k1_n <=? r)%N || (secp256k1_n <=? s)%N)%bool.
Proof.
  unfold lib_crypto__SigToPub__if_r_Sign_eq_0_or_s_Sign_eq_0_or_r_Cmp_secp256k1N_ge_0_or_s_Cmp_b70b570f.
  rewrite !ncmp_eq, !ncmp_ge. reflexivity.
Qed.
Lemma tie_sig_to_pub_rejects sig :
  sig_to_pub_rejects sig =
  (lib_crypto__SigToPub__if_len_sig_ne_SignatureLength (Z.of_N (len sig)) ||
   lib_crypto__SigToPub__if_r_Sign_eq_0_or_s_Sign_eq_0_or_r_Cmp_secp256k1N_ge_0_or_s_Cmp_b70b570f
     (ncmp (be_val (firstn 32 sig)) 0) (ncmp (be_val (firstn 32 (skipn 32 sig))) 0)
     (ncmp (be_val (firstn 32 sig)) secp256k1_n) (ncmp (be_val (firstn 32 (skipn 32 sig))) secp256k1_n))%bool.
Proof.
  unfold sig_to_pub_rejects. rewrite tie_sig_to_pub_range.
  destruct (tie_len_guards (len sig)) as (_ & _ & -> & _). reflexivity.
Qed.
Lemma tie_sig_to_addr oracle h sig :
  sig_to_addr oracle h sig =
  if lib_crypto__SigToPub__if_len_sig_ne_SignatureLength (Z.of_N (len sig)) then None
  else
    let r := be_val (firstn 32 sig) in
    let s := be_val (firstn 32 (skipn 32 sig)) in
    let it := N.land (nth 64 sig 0%N) 251 in
    if lib_crypto__SigToPub__if_r_Sign_eq_0_or_s_Sign_eq_0_or_r_Cmp_secp256k1N_ge_0_or_s_Cmp_b70b570f
         (ncmp r 0) (ncmp s 0) (ncmp r secp256k1_n) (ncmp s secp256k1_n) then None
    else if (it <? 2)%N then
      match oracle r s it with
      | Some (a, h') => if bytes_eqb h h' then Some a else None
      | None => None
      end
    else None.
Proof.
  unfold sig_to_addr. cbv zeta. rewrite tie_sig_to_pub_range.
  destruct (tie_len_guards (len sig)) as (_ & _ & -> & _). reflexivity.
Qed.
Lemma tie_header_byte v : 0 <= v < 256 ->
  lib_crypto__SigToPub__assign v = (v + 27) mod 256 /\
  lib_crypto__Sign__set_v (lib_crypto__SigToPub__assign v) = v.
Proof.
  intros Hv. unfold lib_crypto__SigToPub__assign, lib_crypto__Sign__set_v, go_add, go_sub. cbn [wrap].
  split; [reflexivity|].
  rewrite Zminus_mod_idemp_l. replace (v + 27 - 27) with v by lia. apply Z.mod_small. exact Hv.
Qed.
(** an uncompressed key (65 bytes, first byte 4) passes recoverPlain's format test, nothing else does *)
Lemma tie_pub_format l b :
  types__recoverPlain__if_len_pub_eq_0_or_pub_at_0_ne_4 l b = ((l =? 0) || negb (b =? 4))%bool.
Proof. reflexivity. Qed.

(** ** types.VerifySignature and Vote.Verify: the whole functions *)
Lemma tie_verify_signature oracle addr h sig :
  verify_signature oracle addr h sig =
  if types__VerifySignature__if_signPubKey_eq_nil_or_err_ne_nil
       (match sig_to_addr oracle h sig with None => true | Some _ => false end) false
  then false
  else match sig_to_addr oracle h sig with Some a => (a =? addr)%N | None => false end.
Proof.
  unfold verify_signature, types__VerifySignature__if_signPubKey_eq_nil_or_err_ne_nil.
  destruct (sig_to_addr oracle h sig); reflexivity.
Qed.
Lemma tie_vote_verify oracle H chain addr vaddr v sig :
  vote_verify oracle H chain addr vaddr v sig =
  if types__Vote_Verify__if_not_vote_ValidatorAddress_Equal_address (vaddr =? addr)%N then VErrAddress
  else match vote_sign_bytes chain v with
       | None => VCrash
       | Some b =>
         if types__Vote_Verify__if_not_VerifySignature_address_crypto_Keccak256_signBytes_vote_Signature
              (verify_signature oracle addr (H b) sig)
         then VErrSignature else VOk
       end.
Proof.
  unfold vote_verify, types__Vote_Verify__if_not_vote_ValidatorAddress_Equal_address,
    types__Vote_Verify__if_not_VerifySignature_address_crypto_Keccak256_signBytes_vote_Signature.
  destruct (negb (vaddr =? addr)%N); [reflexivity|].
  destruct (vote_sign_bytes chain v) as [b|]; [|reflexivity].
  destruct (verify_signature oracle addr (H b) sig); reflexivity.
Qed.

(** ** block ids: IsZero / IsComplete / PartSetHeader.IsZero and CanonicalizeBlockID's nil test *)
Lemma tie_psh_is_zero b :
  psh_is_zero b = types__PartSetHeader_IsZero__ret_psh_Total_eq_0_and_psh_Hash_IsZero
                    (Z.of_N (b_total b)) (all_zero (to_hash32 (b_phash b))).
Proof.
  unfold psh_is_zero, types__PartSetHeader_IsZero__ret_psh_Total_eq_0_and_psh_Hash_IsZero.
  change 0 with (Z.of_N 0). rewrite zofn_eqb. reflexivity.
Qed.
Lemma tie_bid_is_zero b :
  bid_is_zero b = types__BlockID_IsZero__ret_blockID_Hash_IsZero_and_blockID_PartsHeader_IsZero
                    (all_zero (to_hash32 (b_hash b))) (psh_is_zero b).
Proof.
  unfold bid_is_zero, psh_is_zero, types__BlockID_IsZero__ret_blockID_Hash_IsZero_and_blockID_PartsHeader_IsZero.
  rewrite andb_assoc. reflexivity.
Qed.
Lemma tie_bid_is_complete b :
  bid_is_complete b = types__BlockID_IsComplete__ret_not_blockID_Hash_IsZero_and_not_blockID_PartsHeader_IsZero
                        (all_zero (to_hash32 (b_hash b))) (psh_is_zero b).
Proof. reflexivity. Qed.
Lemma tie_canonical_bid b :
  canonical_bid b =
  if types__CanonicalizeBlockID__if_rbid_eq_nil_or_rbid_IsZero false (bid_is_zero b) then None else Some (enc_cbid b).
Proof. reflexivity. Qed.

(** ** Vote.ValidateBasic / Proposal.ValidateBasic: the whole functions *)
Lemma tie_vote_validate_basic v n :
  vote_validate_basic v n =
  if types__Vote_ValidateBasic__if_not_IsVoteTypeValid_vote_Type (is_vote_type_valid (v_type v)) then VBType
  else if types__Vote_ValidateBasic__if_not_vote_BlockID_IsZero_and_not_vote_BlockID_IsComplete
            (bid_is_zero (v_bid v)) (bid_is_complete (v_bid v)) then VBBlockID
  else if types__Vote_ValidateBasic__if_len_vote_Signature_eq_0 (Z.of_N n) then VBNoSig
  else VBOk.
Proof.
  unfold vote_validate_basic, types__Vote_ValidateBasic__if_not_IsVoteTypeValid_vote_Type,
    types__Vote_ValidateBasic__if_not_vote_BlockID_IsZero_and_not_vote_BlockID_IsComplete,
    types__Vote_ValidateBasic__if_len_vote_Signature_eq_0.
  change 0 with (Z.of_N 0). rewrite zofn_eqb. reflexivity.
Qed.
Lemma tie_is_vote_type_valid t :
  is_vote_type_valid t = ((t =? proto_kardiachain_types__PrevoteType) || (t =? proto_kardiachain_types__PrecommitType))%bool.
Proof. reflexivity. Qed.
Lemma tie_proposal_validate_basic p n :
  proposal_validate_basic p n =
  if types__Proposal_ValidateBasic__if_not_p_POLBlockID_IsComplete (bid_is_complete (p_bid p)) then VBBlockID
  else if types__Proposal_ValidateBasic__if_p_POLBlockID_PartsHeader_Total_gt_MaxBlockPartsCount (Z.of_N (b_total (p_bid p)))
  then VBParts
  else if types__Proposal_ValidateBasic__if_len_p_Signature_eq_0 (Z.of_N n) then VBNoSig
  else VBOk.
Proof.
  unfold proposal_validate_basic, types__Proposal_ValidateBasic__if_not_p_POLBlockID_IsComplete,
    types__Proposal_ValidateBasic__if_p_POLBlockID_PartsHeader_Total_gt_MaxBlockPartsCount,
    types__Proposal_ValidateBasic__if_len_p_Signature_eq_0.
  change 1601 with (Z.of_N max_block_parts_count). rewrite zofn_gtb.
  change 0 with (Z.of_N 0). rewrite zofn_eqb. reflexivity.
Qed.

(** ** configs.isForked (the fork test of MakeSigner) *)
Lemma tie_is_forked fork head :
  is_forked fork head =
  if configs__isForked__if_s_eq_nil_or_head_eq_nil
       (match fork with None => true | Some _ => false end) (match head with None => true | Some _ => false end)
  then false
  else configs__isForked__ret_mul_s_le_mul_head
         (Z.of_N (match fork with Some s => s | None => 0%N end)) (Z.of_N (match head with Some h => h | None => 0%N end)).
Proof.
  unfold is_forked, configs__isForked__if_s_eq_nil_or_head_eq_nil, configs__isForked__ret_mul_s_le_mul_head.
  destruct fork as [s|], head as [h|]; try reflexivity. cbn [orb]. rewrite zofn_leb. reflexivity.
Qed.


(** ** signer selection: MakeSigner / LatestSigner / LatestSignerForChainID / NewChainIDSigner *)
Definition is_nil {A} (o : option A) : bool := match o with None => true | Some _ => false end.
Lemma tie_make_signer chain fork head :
  make_signer chain fork head =
  if types__MakeSigner__case_config_IsGalaxias_blockNumber (is_forked fork head)
  then new_chain_id_signer chain else Homestead.
Proof. reflexivity. Qed.
Lemma tie_latest_signer chain fork :
  latest_signer chain fork =
  if types__LatestSigner__if_config_ChainID_ne_nil (negb (is_nil chain))
  then if types__LatestSigner__if_config_GalaxiasBlock_ne_nil (negb (is_nil fork))
       then new_chain_id_signer chain else Homestead
  else Homestead.
Proof. destruct chain, fork; reflexivity. Qed.
Lemma tie_latest_signer_for_chain_id chain :
  latest_signer_for_chain_id chain =
  if types__LatestSignerForChainID__if_chainID_eq_nil (is_nil chain) then Homestead else new_chain_id_signer chain.
Proof. destruct chain; reflexivity. Qed.
Lemma tie_new_chain_id_signer chain :
  new_chain_id_signer chain =
  ChainIDSigner (if types__NewChainIDSigner__if_chainId_eq_nil (is_nil chain) then 0%N
                 else match chain with Some c => c | None => 0%N end).
Proof. destruct chain; reflexivity. Qed.
(** the [uint64] operand of the 27/28 tests is [V.Uint64()] (what [uint64_of] reads) *)
Lemma tie_let_v x : types__isProtectedV__let_v x = x /\ types__deriveChainId__let_v x = x.
Proof. split; reflexivity. Qed.

(** ** the operands (what is compared, not only how) *)
Lemma tie_atoms :
  lib_crypto__ValidateSignatureValues__if_r_Cmp_common_Big1_lt_0_or_s_Cmp_common_Big1_lt_0_atoms
    = ["r.Cmp(common.Big1) : int"; "s.Cmp(common.Big1) : int"]%string
  /\ lib_crypto__ValidateSignatureValues__if_homestead_and_s_Cmp_secp256k1halfN_gt_0_atoms
    = ["homestead : bool"; "s.Cmp(secp256k1halfN) : int"]%string
  /\ lib_crypto__ValidateSignatureValues__ret_r_Cmp_secp256k1N_lt_0_and_s_Cmp_secp256k1N_lt_0_and_v_eq_0_or_v_eq_1_atoms
    = ["r.Cmp(secp256k1N) : int"; "s.Cmp(secp256k1N) : int"; "v : byte"]%string
  /\ lib_crypto__SigToPub__if_len_sig_ne_SignatureLength_atoms = ["len(sig) : int"]%string
  /\ lib_crypto__SigToPub__if_r_Sign_eq_0_or_s_Sign_eq_0_or_r_Cmp_secp256k1N_ge_0_or_s_Cmp_b70b570f_atoms
    = ["r.Sign() : int"; "s.Sign() : int"; "r.Cmp(secp256k1N) : int"; "s.Cmp(secp256k1N) : int"]%string
  /\ lib_crypto__SigToPub__assign_atoms = ["sig[64] : byte"]%string
  /\ lib_crypto__Sign__if_len_hash_ne_32_atoms = ["len(hash) : int"]%string
  /\ lib_crypto__Sign__set_v_atoms = ["sig[0] : byte"]%string
  /\ types__isProtectedV__if_V_BitLen_le_8_atoms = ["V.BitLen() : int"]%string
  /\ types__isProtectedV__ret_v_ne_27_and_v_ne_28_atoms = ["v : uint64"]%string
  /\ types__Transaction_Protected__ret_tx_data_V_ne_nil_and_isProtectedV_tx_data_V_atoms
    = ["tx.data.V != nil : bool"; "isProtectedV(tx.data.V) : bool"]%string
  /\ types__deriveChainId__if_v_BitLen_le_64_atoms = ["v.BitLen() : int"]%string
  /\ types__deriveChainId__if_v_eq_27_or_v_eq_28_atoms = ["v : uint64"]%string
  /\ types__recoverPlain__if_Vb_BitLen_gt_8_atoms = ["Vb.BitLen() : int"]%string
  /\ types__recoverPlain__set_V_atoms = ["Vb.Uint64() : uint64"]%string
  /\ types__recoverPlain__if_not_crypto_ValidateSignatureValues_V_R_S_homestead_atoms
    = ["crypto.ValidateSignatureValues(V, R, S, homestead) : bool"]%string
  /\ types__recoverPlain__if_len_pub_eq_0_or_pub_at_0_ne_4_atoms = ["len(pub) : int"; "pub[0] : byte"]%string
  /\ types__ChainIDSigner_Sender__if_not_tx_Protected_atoms = ["tx.Protected() : bool"]%string
  /\ types__ChainIDSigner_Sender__if_tx_ChainId__Cmp_s_chainId_ne_0_atoms = ["tx.ChainId().Cmp(s.chainId) : int"]%string
  /\ types__ChainIDSigner_SignatureValues__if_s_chainId_Sign_ne_0_atoms = ["s.chainId.Sign() : int"]%string
  /\ types__ChainIDSigner_Equal__ret_ok_and_signer_chainId_Cmp_s_chainId_eq_0_atoms
    = ["ok : bool"; "signer.chainId.Cmp(s.chainId) : int"]%string
  /\ types__SignTx__if_id_ne_nil_and_id_Sign_eq_0_atoms = ["id != nil : untyped bool"; "id.Sign() : int"]%string
  /\ types__decodeSignature__if_len_sig_ne_crypto_SignatureLength_atoms = ["len(sig) : int"]%string
  /\ types__FrontierSigner_SignatureValues__if_len_sig_ne_65_atoms = ["len(sig) : int"]%string
  /\ types__Vote_Verify__if_not_vote_ValidatorAddress_Equal_address_atoms = ["vote.ValidatorAddress.Equal(address) : bool"]%string
  /\ types__Vote_Verify__if_not_VerifySignature_address_crypto_Keccak256_signBytes_vote_Signature_atoms
    = ["VerifySignature(address, crypto.Keccak256(signBytes), vote.Signature) : bool"]%string
  /\ types__VerifySignature__if_signPubKey_eq_nil_or_err_ne_nil_atoms
    = ["signPubKey == nil : untyped bool"; "err != nil : untyped bool"]%string
  /\ types__Vote_ValidateBasic__if_not_IsVoteTypeValid_vote_Type_atoms = ["IsVoteTypeValid(vote.Type) : bool"]%string
  /\ types__Vote_ValidateBasic__if_not_vote_BlockID_IsZero_and_not_vote_BlockID_IsComplete_atoms
    = ["vote.BlockID.IsZero() : bool"; "vote.BlockID.IsComplete() : bool"]%string
  /\ types__Vote_ValidateBasic__if_len_vote_Signature_eq_0_atoms = ["len(vote.Signature) : int"]%string
  /\ types__Proposal_ValidateBasic__if_not_p_POLBlockID_IsComplete_atoms = ["p.POLBlockID.IsComplete() : bool"]%string
  /\ types__Proposal_ValidateBasic__if_p_POLBlockID_PartsHeader_Total_gt_MaxBlockPartsCount_atoms
    = ["p.POLBlockID.PartsHeader.Total : uint32"]%string
  /\ types__Proposal_ValidateBasic__if_len_p_Signature_eq_0_atoms = ["len(p.Signature) : int"]%string
  /\ types__CanonicalizeBlockID__if_rbid_eq_nil_or_rbid_IsZero_atoms = ["rbid == nil : bool"; "rbid.IsZero() : bool"]%string
  /\ types__BlockID_IsZero__ret_blockID_Hash_IsZero_and_blockID_PartsHeader_IsZero_atoms
    = ["blockID.Hash.IsZero() : bool"; "blockID.PartsHeader.IsZero() : bool"]%string
  /\ types__BlockID_IsComplete__ret_not_blockID_Hash_IsZero_and_not_blockID_PartsHeader_IsZero_atoms
    = ["blockID.Hash.IsZero() : bool"; "blockID.PartsHeader.IsZero() : bool"]%string
  /\ types__PartSetHeader_IsZero__ret_psh_Total_eq_0_and_psh_Hash_IsZero_atoms = ["psh.Total : uint32"; "psh.Hash.IsZero() : bool"]%string
  /\ configs__isForked__if_s_eq_nil_or_head_eq_nil_atoms = ["s == nil : untyped bool"; "head == nil : untyped bool"]%string
  /\ types__MakeSigner__case_config_IsGalaxias_blockNumber_atoms = ["config.IsGalaxias(blockNumber) : bool"]%string
  /\ types__LatestSigner__if_config_ChainID_ne_nil_atoms = ["config.ChainID != nil : untyped bool"]%string
  /\ types__LatestSigner__if_config_GalaxiasBlock_ne_nil_atoms = ["config.GalaxiasBlock != nil : untyped bool"]%string
  /\ types__LatestSignerForChainID__if_chainID_eq_nil_atoms = ["chainID == nil : untyped bool"]%string
  /\ types__NewChainIDSigner__if_chainId_eq_nil_atoms = ["chainId == nil : untyped bool"]%string
  /\ types__Sender__if_sc_ne_nil_atoms = ["sc != nil : untyped bool"]%string
  /\ types__Sender__if_sigCache_signer_Equal_signer_atoms = ["sigCache.signer.Equal(signer) : bool"]%string
  /\ types__isProtectedV__let_v_atoms = ["V.Uint64() : uint64"]%string
  /\ types__deriveChainId__let_v_atoms = ["v.Uint64() : uint64"]%string
  /\ configs__isForked__ret_mul_s_le_mul_head_atoms = ["*s : uint64"; "*head : uint64"]%string.
Proof. repeat split; reflexivity. Qed.

(** ** the whole tie as one statement (quoted by Properties.v) *)
Definition C11_source_tie_statement : Prop :=
  (Z.of_N signature_length = lib_crypto__SignatureLength /\
   Z.of_N max_block_parts_count = types__MaxBlockPartsCount /\
   prevote_type = proto_kardiachain_types__PrevoteType /\
   precommit_type = proto_kardiachain_types__PrecommitType /\
   proposal_type = proto_kardiachain_types__ProposalType)
  /\ (forall v r s hs,
        validate_signature_values v r s hs =
        if lib_crypto__ValidateSignatureValues__if_r_Cmp_common_Big1_lt_0_or_s_Cmp_common_Big1_lt_0 (ncmp r 1) (ncmp s 1)
        then false
        else if lib_crypto__ValidateSignatureValues__if_homestead_and_s_Cmp_secp256k1halfN_gt_0 hs (ncmp s secp256k1_half_n)
        then false
        else lib_crypto__ValidateSignatureValues__ret_r_Cmp_secp256k1N_lt_0_and_s_Cmp_secp256k1N_lt_0_and_v_eq_0_or_v_eq_1
               (ncmp r secp256k1_n) (ncmp s secp256k1_n) (Z.of_N v))
  /\ (forall v,
        is_protected v =
        if types__isProtectedV__if_V_BitLen_le_8 (bitlen v)
        then types__isProtectedV__ret_v_ne_27_and_v_ne_28 (uint64_of v) else true)
  /\ (forall v, types__Transaction_Protected__ret_tx_data_V_ne_nil_and_isProtectedV_tx_data_V true (is_protected v) = is_protected v)
  /\ (forall v,
        derive_chain_id v =
        if types__deriveChainId__if_v_BitLen_le_64 (bitlen v)
        then if types__deriveChainId__if_v_eq_27_or_v_eq_28 (uint64_of v) then 0%N
             else Z.to_N (go_quot U64 (go_sub U64 (uint64_of v) 35) 2)
        else ((v - 35) / 2)%N)
  /\ (forall oracle h r s vb,
        recover_plain oracle h r s vb =
        if types__recoverPlain__if_Vb_BitLen_gt_8 (bitlen (Z.to_N (Z.abs vb))) then SErrInvalidSig
        else let v := Z.to_N (types__recoverPlain__set_V (Z.abs vb mod 18446744073709551616)) in
             if types__recoverPlain__if_not_crypto_ValidateSignatureValues_V_R_S_homestead (validate_signature_values v r s true)
             then SErrInvalidSig
             else ecrecover oracle h r s v)
  /\ (forall oracle H c t,
        sender oracle H (ChainIDSigner c) t =
        if types__ChainIDSigner_Sender__if_not_tx_Protected (is_protected (t_v t))
        then sender oracle H Homestead t
        else if types__ChainIDSigner_Sender__if_tx_ChainId__Cmp_s_chainId_ne_0 (ncmp (derive_chain_id (t_v t)) c)
        then SErrChainId
        else recover_plain oracle (H (tx_sighash_preimage (ChainIDSigner c) t)) (t_r t) (t_s t)
               (Z.of_N (t_v t) - Z.of_N (2 * c) - 8))
  /\ (forall c recid,
        signature_v (ChainIDSigner c) recid =
        if types__ChainIDSigner_SignatureValues__if_s_chainId_Sign_ne_0 (ncmp c 0)
        then (recid + 35 + 2 * c)%N else (recid + 27)%N)
  /\ (forall c t,
        signtx_preimage (ChainIDSigner c) t =
        if types__SignTx__if_id_ne_nil_and_id_Sign_eq_0 true (ncmp c 0)
        then tx_sighash_preimage Homestead t else tx_sighash_preimage (ChainIDSigner c) t)
  /\ (forall ok c c',
        types__ChainIDSigner_Equal__ret_ok_and_signer_chainId_Cmp_s_chainId_eq_0 ok (ncmp c' c) = (ok && (c' =? c)%N)%bool)
  /\ (forall n,
        types__decodeSignature__if_len_sig_ne_crypto_SignatureLength (Z.of_N n) = negb (n =? signature_length)%N /\
        types__FrontierSigner_SignatureValues__if_len_sig_ne_65 (Z.of_N n) = negb (n =? signature_length)%N /\
        lib_crypto__SigToPub__if_len_sig_ne_SignatureLength (Z.of_N n) = negb (n =? signature_length)%N /\
        lib_crypto__Sign__if_len_hash_ne_32 (Z.of_N n) = negb (n =? 32)%N)
  /\ (forall oracle h sig,
        sig_to_addr oracle h sig =
        if lib_crypto__SigToPub__if_len_sig_ne_SignatureLength (Z.of_N (len sig)) then None
        else
          let r := be_val (firstn 32 sig) in
          let s := be_val (firstn 32 (skipn 32 sig)) in
          let it := N.land (nth 64 sig 0%N) 251 in
          if lib_crypto__SigToPub__if_r_Sign_eq_0_or_s_Sign_eq_0_or_r_Cmp_secp256k1N_ge_0_or_s_Cmp_b70b570f
               (ncmp r 0) (ncmp s 0) (ncmp r secp256k1_n) (ncmp s secp256k1_n) then None
          else if (it <? 2)%N then
            match oracle r s it with
            | Some (a, h') => if bytes_eqb h h' then Some a else None
            | None => None
            end
          else None)
  /\ (forall sig,
        sig_to_pub_rejects sig =
        (lib_crypto__SigToPub__if_len_sig_ne_SignatureLength (Z.of_N (len sig)) ||
         lib_crypto__SigToPub__if_r_Sign_eq_0_or_s_Sign_eq_0_or_r_Cmp_secp256k1N_ge_0_or_s_Cmp_b70b570f
           (ncmp (be_val (firstn 32 sig)) 0) (ncmp (be_val (firstn 32 (skipn 32 sig))) 0)
           (ncmp (be_val (firstn 32 sig)) secp256k1_n) (ncmp (be_val (firstn 32 (skipn 32 sig))) secp256k1_n))%bool)
  /\ (forall v, 0 <= v < 256 ->
        lib_crypto__SigToPub__assign v = (v + 27) mod 256 /\
        lib_crypto__Sign__set_v (lib_crypto__SigToPub__assign v) = v)
  /\ (forall l b, types__recoverPlain__if_len_pub_eq_0_or_pub_at_0_ne_4 l b = ((l =? 0) || negb (b =? 4))%bool)
  /\ (forall oracle addr h sig,
        verify_signature oracle addr h sig =
        if types__VerifySignature__if_signPubKey_eq_nil_or_err_ne_nil
             (match sig_to_addr oracle h sig with None => true | Some _ => false end) false
        then false
        else match sig_to_addr oracle h sig with Some a => (a =? addr)%N | None => false end)
  /\ (forall oracle H chain addr vaddr v sig,
        vote_verify oracle H chain addr vaddr v sig =
        if types__Vote_Verify__if_not_vote_ValidatorAddress_Equal_address (vaddr =? addr)%N then VErrAddress
        else match vote_sign_bytes chain v with
             | None => VCrash
             | Some b =>
               if types__Vote_Verify__if_not_VerifySignature_address_crypto_Keccak256_signBytes_vote_Signature
                    (verify_signature oracle addr (H b) sig)
               then VErrSignature else VOk
             end)
  /\ (forall b,
        psh_is_zero b = types__PartSetHeader_IsZero__ret_psh_Total_eq_0_and_psh_Hash_IsZero
                          (Z.of_N (b_total b)) (all_zero (to_hash32 (b_phash b))))
  /\ (forall b,
        bid_is_zero b = types__BlockID_IsZero__ret_blockID_Hash_IsZero_and_blockID_PartsHeader_IsZero
                          (all_zero (to_hash32 (b_hash b))) (psh_is_zero b))
  /\ (forall b,
        bid_is_complete b = types__BlockID_IsComplete__ret_not_blockID_Hash_IsZero_and_not_blockID_PartsHeader_IsZero
                              (all_zero (to_hash32 (b_hash b))) (psh_is_zero b))
  /\ (forall b,
        canonical_bid b =
        if types__CanonicalizeBlockID__if_rbid_eq_nil_or_rbid_IsZero false (bid_is_zero b) then None else Some (enc_cbid b))
  /\ (forall v n,
        vote_validate_basic v n =
        if types__Vote_ValidateBasic__if_not_IsVoteTypeValid_vote_Type (is_vote_type_valid (v_type v)) then VBType
        else if types__Vote_ValidateBasic__if_not_vote_BlockID_IsZero_and_not_vote_BlockID_IsComplete
                  (bid_is_zero (v_bid v)) (bid_is_complete (v_bid v)) then VBBlockID
        else if types__Vote_ValidateBasic__if_len_vote_Signature_eq_0 (Z.of_N n) then VBNoSig
        else VBOk)
  /\ (forall t,
        is_vote_type_valid t =
        ((t =? proto_kardiachain_types__PrevoteType) || (t =? proto_kardiachain_types__PrecommitType))%bool)
  /\ (forall p n,
        proposal_validate_basic p n =
        if types__Proposal_ValidateBasic__if_not_p_POLBlockID_IsComplete (bid_is_complete (p_bid p)) then VBBlockID
        else if types__Proposal_ValidateBasic__if_p_POLBlockID_PartsHeader_Total_gt_MaxBlockPartsCount (Z.of_N (b_total (p_bid p)))
        then VBParts
        else if types__Proposal_ValidateBasic__if_len_p_Signature_eq_0 (Z.of_N n) then VBNoSig
        else VBOk)
  /\ (forall fork head,
        is_forked fork head =
        if configs__isForked__if_s_eq_nil_or_head_eq_nil
             (match fork with None => true | Some _ => false end) (match head with None => true | Some _ => false end)
        then false
        else configs__isForked__ret_mul_s_le_mul_head
               (Z.of_N (match fork with Some s => s | None => 0%N end))
               (Z.of_N (match head with Some h => h | None => 0%N end)))
  /\ (forall chain fork head,
        make_signer chain fork head =
        if types__MakeSigner__case_config_IsGalaxias_blockNumber (is_forked fork head)
        then new_chain_id_signer chain else Homestead)
  /\ (forall chain fork,
        latest_signer chain fork =
        if types__LatestSigner__if_config_ChainID_ne_nil (negb (is_nil chain))
        then if types__LatestSigner__if_config_GalaxiasBlock_ne_nil (negb (is_nil fork))
             then new_chain_id_signer chain else Homestead
        else Homestead)
  /\ (forall chain,
        latest_signer_for_chain_id chain =
        if types__LatestSignerForChainID__if_chainID_eq_nil (is_nil chain) then Homestead else new_chain_id_signer chain)
  /\ (forall chain,
        new_chain_id_signer chain =
        ChainIDSigner (if types__NewChainIDSigner__if_chainId_eq_nil (is_nil chain) then 0%N
                       else match chain with Some c => c | None => 0%N end))
  /\ (forall x, types__isProtectedV__let_v x = x /\ types__deriveChainId__let_v x = x)
  /\ (lib_crypto__ValidateSignatureValues__if_r_Cmp_common_Big1_lt_0_or_s_Cmp_common_Big1_lt_0_atoms
        = ["r.Cmp(common.Big1) : int"; "s.Cmp(common.Big1) : int"]%string
      /\ lib_crypto__ValidateSignatureValues__if_homestead_and_s_Cmp_secp256k1halfN_gt_0_atoms
        = ["homestead : bool"; "s.Cmp(secp256k1halfN) : int"]%string
      /\ lib_crypto__ValidateSignatureValues__ret_r_Cmp_secp256k1N_lt_0_and_s_Cmp_secp256k1N_lt_0_and_v_eq_0_or_v_eq_1_atoms
        = ["r.Cmp(secp256k1N) : int"; "s.Cmp(secp256k1N) : int"; "v : byte"]%string
      /\ lib_crypto__SigToPub__if_r_Sign_eq_0_or_s_Sign_eq_0_or_r_Cmp_secp256k1N_ge_0_or_s_Cmp_b70b570f_atoms
        = ["r.Sign() : int"; "s.Sign() : int"; "r.Cmp(secp256k1N) : int"; "s.Cmp(secp256k1N) : int"]%string
      /\ types__isProtectedV__if_V_BitLen_le_8_atoms = ["V.BitLen() : int"]%string
      /\ types__deriveChainId__if_v_BitLen_le_64_atoms = ["v.BitLen() : int"]%string
      /\ types__recoverPlain__if_Vb_BitLen_gt_8_atoms = ["Vb.BitLen() : int"]%string
      /\ types__recoverPlain__set_V_atoms = ["Vb.Uint64() : uint64"]%string
      /\ types__ChainIDSigner_Sender__if_tx_ChainId__Cmp_s_chainId_ne_0_atoms = ["tx.ChainId().Cmp(s.chainId) : int"]%string
      /\ types__ChainIDSigner_SignatureValues__if_s_chainId_Sign_ne_0_atoms = ["s.chainId.Sign() : int"]%string
      /\ types__SignTx__if_id_ne_nil_and_id_Sign_eq_0_atoms = ["id != nil : untyped bool"; "id.Sign() : int"]%string
      /\ types__Vote_Verify__if_not_vote_ValidatorAddress_Equal_address_atoms = ["vote.ValidatorAddress.Equal(address) : bool"]%string
      /\ types__Vote_Verify__if_not_VerifySignature_address_crypto_Keccak256_signBytes_vote_Signature_atoms
        = ["VerifySignature(address, crypto.Keccak256(signBytes), vote.Signature) : bool"]%string
      /\ types__Vote_ValidateBasic__if_not_IsVoteTypeValid_vote_Type_atoms = ["IsVoteTypeValid(vote.Type) : bool"]%string
      /\ types__Vote_ValidateBasic__if_len_vote_Signature_eq_0_atoms = ["len(vote.Signature) : int"]%string
      /\ types__Proposal_ValidateBasic__if_p_POLBlockID_PartsHeader_Total_gt_MaxBlockPartsCount_atoms
        = ["p.POLBlockID.PartsHeader.Total : uint32"]%string
      /\ types__Proposal_ValidateBasic__if_len_p_Signature_eq_0_atoms = ["len(p.Signature) : int"]%string
      /\ types__CanonicalizeBlockID__if_rbid_eq_nil_or_rbid_IsZero_atoms = ["rbid == nil : bool"; "rbid.IsZero() : bool"]%string
      /\ types__PartSetHeader_IsZero__ret_psh_Total_eq_0_and_psh_Hash_IsZero_atoms = ["psh.Total : uint32"; "psh.Hash.IsZero() : bool"]%string
      /\ types__MakeSigner__case_config_IsGalaxias_blockNumber_atoms = ["config.IsGalaxias(blockNumber) : bool"]%string
      /\ types__LatestSigner__if_config_ChainID_ne_nil_atoms = ["config.ChainID != nil : untyped bool"]%string
      /\ types__LatestSigner__if_config_GalaxiasBlock_ne_nil_atoms = ["config.GalaxiasBlock != nil : untyped bool"]%string
      /\ types__LatestSignerForChainID__if_chainID_eq_nil_atoms = ["chainID == nil : untyped bool"]%string
      /\ types__NewChainIDSigner__if_chainId_eq_nil_atoms = ["chainId == nil : untyped bool"]%string
      /\ types__Sender__if_sc_ne_nil_atoms = ["sc != nil : untyped bool"]%string
      /\ types__Sender__if_sigCache_signer_Equal_signer_atoms = ["sigCache.signer.Equal(signer) : bool"]%string
      /\ types__isProtectedV__let_v_atoms = ["V.Uint64() : uint64"]%string
      /\ types__deriveChainId__let_v_atoms = ["v.Uint64() : uint64"]%string
      /\ configs__isForked__ret_mul_s_le_mul_head_atoms = ["*s : uint64"; "*head : uint64"]%string).

Lemma C11_source_tie_proof : C11_source_tie_statement.
Proof.
  unfold C11_source_tie_statement.
  split; [exact tie_consts|]. split; [exact tie_validate_signature_values|].
  split; [exact tie_is_protected|]. split; [exact tie_tx_protected|].
  split; [exact tie_derive_chain_id|]. split; [exact tie_recover_plain|].
  split; [exact tie_sender_chainid|]. split; [exact tie_signature_v|].
  split; [exact tie_signtx_preimage|]. split; [exact tie_signer_equal|].
  split; [exact tie_len_guards|]. split; [exact tie_sig_to_addr|].
  split; [exact tie_sig_to_pub_rejects|]. split; [exact tie_header_byte|].
  split; [exact tie_pub_format|]. split; [exact tie_verify_signature|].
  split; [exact tie_vote_verify|]. split; [exact tie_psh_is_zero|].
  split; [exact tie_bid_is_zero|]. split; [exact tie_bid_is_complete|].
  split; [exact tie_canonical_bid|]. split; [exact tie_vote_validate_basic|].
  split; [exact tie_is_vote_type_valid|]. split; [exact tie_proposal_validate_basic|].
  split; [exact tie_is_forked|].
  split; [exact tie_make_signer|]. split; [exact tie_latest_signer|].
  split; [exact tie_latest_signer_for_chain_id|]. split; [exact tie_new_chain_id_signer|].
  split; [exact tie_let_v|].
  repeat split; reflexivity.
Qed.
