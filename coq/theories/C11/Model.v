(** C11 — model: the bytes that are signed for votes, proposals and transactions, the
    signature-value checks, and sender / signer derivation with an ideal signature oracle.
    Definitions only (no proofs here).

    Transcribed from (as of today's /repo, including fix commits b05f070, 1dac3ea, 108de2e, 22a82ab, 3be5eed):
      types/canonical_types.go   CreateCanonicalVote / CreateCanonicalProposal / CanonicalizeBlockID
      types/vote.go              VoteSignBytes, Vote.Verify
      types/proposal.go          ProposalSignBytes;  consensus/state.go setProposal (verification)
      lib/protoio/writer.go      MarshalDelimited
      proto/kardiachain/types/canonical.pb.go   MarshalToSizedBuffer of the canonical messages
      gogo/protobuf/types        StdTimeMarshalTo, TimestampProto/validateTimestamp, Timestamp marshal
      types/transaction_signing.go  HomesteadSigner / ChainIDSigner (Hash, Sender), deriveChainId
      types/transaction.go       isProtectedV, recoverPlain
      lib/crypto/crypto.go       ValidateSignatureValues;  lib/crypto/signature.go SigToPub
      types/signable.go          VerifySignature *)
From Coq Require Import List ZArith NArith Bool.
From Kardia Require Import C11.Varint C11.Proto C11.RLPItem Generated.C11Facts.
Import ListNotations.
Local Open Scope N_scope.

(** * Votes and proposals *)

Record block_id := { b_hash : bytes; b_total : N; b_phash : bytes }.

(** [types.Vote] fields that are signed; the type is the int32 enum value, the time is
    [(t.Unix(), t.Nanosecond())]. *)
Record vote := { v_type : Z; v_height : N; v_round : N; v_bid : block_id; v_secs : Z; v_nanos : Z }.

Record proposal := { p_height : N; p_round : N; p_pol : N; p_bid : block_id; p_secs : Z; p_nanos : Z }.

(** [common.BytesToHash]: crop from the left to 32 bytes, left-pad with zeros *)
Definition to_hash32 (b : bytes) : bytes :=
  let l := length b in
  if Nat.ltb 32 l then skipn (l - 32) b else repeat 0 (32 - l) ++ b.

Definition all_zero (b : bytes) : bool := forallb (N.eqb 0) b.

(** [BlockIDFromProto] then [BlockID.IsZero] (hash zero, total zero, parts hash zero) *)
Definition bid_is_zero (b : block_id) : bool :=
  all_zero (to_hash32 (b_hash b)) && (b_total b =? 0) && all_zero (to_hash32 (b_phash b)).

(** CanonicalPartSetHeader: total = field 1 varint (0x8), hash = field 2 bytes (0x12) *)
Definition enc_psh (total : N) (hash : bytes) : bytes := key_varint 8 total ++ key_bytes 18 hash.

(** CanonicalBlockID: hash = field 1 bytes (0xa), part_set_header = field 2, non-nullable (0x12) *)
Definition enc_cbid (b : block_id) : bytes :=
  key_bytes 10 (b_hash b) ++ key_msg 18 (enc_psh (b_total b) (b_phash b)).

(** [CanonicalizeBlockID]: nil for the zero block id *)
Definition canonical_bid (b : block_id) : option bytes :=
  if bid_is_zero b then None else Some (enc_cbid b).

Definition min_valid_seconds : Z := (-62135596800)%Z.
Definition max_valid_seconds : Z := 253402300800%Z.

(** [validateTimestamp] *)
Definition ts_valid (secs nanos : Z) : bool :=
  (min_valid_seconds <=? secs)%Z && (secs <? max_valid_seconds)%Z && (0 <=? nanos)%Z && (nanos <? 1000000000)%Z.

(** google.protobuf.Timestamp: seconds = field 1 varint, nanos = field 2 varint *)
Definition enc_ts (secs nanos : Z) : bytes := key_varint 8 (u64 secs) ++ key_varint 16 (u64 nanos).

(** CanonicalVote: type 0x8, height 0x10, round 0x18, block_id 0x22 (nullable),
    timestamp 0x2a (stdtime, non-nullable), chain_id 0x32 *)
Definition canonical_vote_body (chain : bytes) (v : vote) : bytes :=
  key_varint 8 (u64 (v_type v)) ++ key_varint 16 (v_height v) ++ key_varint 24 (v_round v) ++
  key_optmsg 34 (canonical_bid (v_bid v)) ++ key_msg 42 (enc_ts (v_secs v) (v_nanos v)) ++
  key_bytes 50 chain.

(** [VoteSignBytes]; [None] = the marshaller returns an error and VoteSignBytes panics *)
Definition vote_sign_bytes (chain : bytes) (v : vote) : option bytes :=
  if ts_valid (v_secs v) (v_nanos v) then Some (delimited (canonical_vote_body chain v)) else None.

(** CanonicalProposal: type 0x8 (constant ProposalType), height 0x10, round 0x18,
    pol_round 0x20, block_id 0x2a (nullable), timestamp 0x32, chain_id 0x3a *)
Definition canonical_proposal_body (chain : bytes) (p : proposal) : bytes :=
  key_varint 8 (u64 proposal_type) ++ key_varint 16 (p_height p) ++ key_varint 24 (p_round p) ++
  key_varint 32 (p_pol p) ++
  key_optmsg 42 (canonical_bid (p_bid p)) ++ key_msg 50 (enc_ts (p_secs p) (p_nanos p)) ++
  key_bytes 58 chain.

Definition proposal_sign_bytes (chain : bytes) (p : proposal) : option bytes :=
  if ts_valid (p_secs p) (p_nanos p) then Some (delimited (canonical_proposal_body chain p)) else None.

(** * Transactions *)

(** [txdata]; recipient [None] = contract creation (nil pointer); V, R, S as decoded from RLP
    (non-negative). *)
Record tx := { t_nonce : N; t_price : N; t_gas : N; t_to : option bytes; t_amount : N;
               t_payload : bytes; t_v : N; t_r : N; t_s : N }.

Inductive signer := Homestead | ChainIDSigner (chain : N).

Definition base_fields (t : tx) : list bytes :=
  [ be_bytes (t_nonce t); be_bytes (t_price t); be_bytes (t_gas t);
    match t_to t with None => [] | Some a => a end;
    be_bytes (t_amount t); t_payload t ].

(** [FrontierSigner.Hash] (six fields) and [ChainIDSigner.Hash] (plus chainId, 0, 0) *)
Definition sighash_fields (s : signer) (t : tx) : list bytes :=
  match s with
  | Homestead => base_fields t
  | ChainIDSigner c => base_fields t ++ [be_bytes c; be_bytes 0; be_bytes 0]
  end.

Definition tx_sighash_preimage (s : signer) (t : tx) : bytes := rlp_list_of_strs (sighash_fields s t).

(** [types.SignTx] (fixes 22a82ab, 3be5eed): the signer's hash, except that a ChainIDSigner
    with chain id 0 signs the Homestead hash *)
Definition signtx_preimage (s : signer) (t : tx) : bytes :=
  match s with
  | Homestead => tx_sighash_preimage Homestead t
  | ChainIDSigner c => if c =? 0 then tx_sighash_preimage Homestead t else tx_sighash_preimage s t
  end.

(** [Signer.SignatureValues]: V for recovery id 0/1 *)
Definition signature_v (s : signer) (recid : N) : N :=
  match s with
  | Homestead => recid + 27
  | ChainIDSigner c => if c =? 0 then recid + 27 else recid + 35 + 2 * c
  end.

(** [isProtectedV] *)
Definition is_protected (v : N) : bool :=
  if v <? 256 then negb (v =? 27) && negb (v =? 28) else true.

(** [deriveChainId] (uint64 arithmetic wraps when v < 35) *)
Definition derive_chain_id (v : N) : N :=
  if v <? 18446744073709551616 then
    if (v =? 27) || (v =? 28) then 0
    else Z.to_N (((Z.of_N v - 35) mod 18446744073709551616) / 2)%Z
  else (v - 35) / 2.

Definition secp256k1_half_n : N := secp256k1_n / 2.

(** [crypto.ValidateSignatureValues] *)
Definition validate_signature_values (v r s : N) (homestead : bool) : bool :=
  if (r <? 1) || (s <? 1) then false
  else if homestead && (secp256k1_half_n <? s) then false
  else (r <? secp256k1_n) && (s <? secp256k1_n) && ((v =? 0) || (v =? 1)).

Inductive sender_result := SOk (addr : N) | SOther | SErrChainId | SErrInvalidSig.
Inductive verify_result := VOk | VErrAddress | VErrSignature | VCrash.

Section Ideal.
  (** Ideal signatures: [oracle r s recid = Some (a, h)] iff the 65-byte signature
      [r || s || recid] was produced by the key of address [a] over the 32-byte hash [h].
      [H] is Keccak-256. *)
  Variable oracle : N -> N -> N -> option (N * bytes).
  Variable H : bytes -> bytes.

  (** [crypto.Ecrecover] + address derivation, idealised: the signer if the signature is over
      exactly this hash, otherwise some unrelated address or an error ([SOther]). *)
  Definition ecrecover (h : bytes) (r s v : N) : sender_result :=
    match oracle r s v with
    | Some (a, h') => if bytes_eqb h h' then SOk a else SOther
    | None => SOther
    end.

  (** [recoverPlain] (always called with homestead = true) *)
  Definition recover_plain (h : bytes) (r s : N) (vb : Z) : sender_result :=
    if (256 <=? Z.abs vb)%Z then SErrInvalidSig
    else
      let v := Z.to_N (((Z.abs vb mod 18446744073709551616) - 27) mod 256)%Z in
      if negb (validate_signature_values v r s true) then SErrInvalidSig
      else ecrecover h r s v.

  (** [Signer.Sender] *)
  Definition sender (sg : signer) (t : tx) : sender_result :=
    match sg with
    | Homestead => recover_plain (H (tx_sighash_preimage Homestead t)) (t_r t) (t_s t) (Z.of_N (t_v t))
    | ChainIDSigner c =>
      if negb (is_protected (t_v t)) then
        recover_plain (H (tx_sighash_preimage Homestead t)) (t_r t) (t_s t) (Z.of_N (t_v t))
      else if negb (derive_chain_id (t_v t) =? c) then SErrChainId
      else recover_plain (H (tx_sighash_preimage (ChainIDSigner c) t)) (t_r t) (t_s t)
             (Z.of_N (t_v t) - Z.of_N (2 * c) - 8)%Z
    end.

  (** [crypto.SigToPub] followed by [PubkeyToAddress]: length check, r and s in [1, N-1]
      (fix 108de2e), then btcec.RecoverCompact with header byte sig[64]+27: iteration = sig[64] &^ 4; iterations
      2,3 (x = r + N) and anything >= 8 never correspond to a signature the signer produced. *)
  Definition sig_to_addr (h : bytes) (sig : bytes) : option N :=
    if negb (len sig =? signature_length) then None
    else
      let r := be_val (firstn 32 sig) in
      let s := be_val (firstn 32 (skipn 32 sig)) in
      let vb := nth 64 sig 0 in
      let it := N.land vb 251 in
      if (r =? 0) || (s =? 0) || (secp256k1_n <=? r) || (secp256k1_n <=? s) then None
      else if it <? 2 then
        match oracle r s it with
        | Some (a, h') => if bytes_eqb h h' then Some a else None
        | None => None
        end
      else None.

  (** [types.VerifySignature] *)
  Definition verify_signature (addr : N) (h : bytes) (sig : bytes) : bool :=
    match sig_to_addr h sig with Some a => a =? addr | None => false end.

  (** [Vote.Verify] *)
  Definition vote_verify (chain : bytes) (addr vaddr : N) (v : vote) (sig : bytes) : verify_result :=
    if negb (vaddr =? addr) then VErrAddress
    else match vote_sign_bytes chain v with
         | None => VCrash
         | Some b => if verify_signature addr (H b) sig then VOk else VErrSignature
         end.

  (** proposal verification in [ConsensusState.setProposal] *)
  Definition proposal_verify (chain : bytes) (addr : N) (p : proposal) (sig : bytes) : verify_result :=
    match proposal_sign_bytes chain p with
    | None => VCrash
    | Some b => if verify_signature addr (H b) sig then VOk else VErrSignature
    end.
End Ideal.

(** * Stateless validation of decoded votes / proposals, signer selection, SigToPub rejection
      (added for the ValidateBasic / MakeSigner / SigToPub families of the harness) *)

(** [IsVoteTypeValid] *)
Definition is_vote_type_valid (t : Z) : bool := (t =? prevote_type)%Z || (t =? precommit_type)%Z.

(** [PartSetHeader.IsZero], [BlockID.IsZero] / [IsComplete] at the types level (hashes are [32]byte) *)
Definition psh_is_zero (b : block_id) : bool := (b_total b =? 0) && all_zero (to_hash32 (b_phash b)).
Definition bid_is_complete (b : block_id) : bool :=
  negb (all_zero (to_hash32 (b_hash b))) && negb (psh_is_zero b).

Inductive vb_result := VBOk | VBType | VBBlockID | VBParts | VBNoSig.

(** [Vote.ValidateBasic] ([BlockID.ValidateBasic] cannot fail on a [32]byte hash) *)
Definition vote_validate_basic (v : vote) (siglen : N) : vb_result :=
  if negb (is_vote_type_valid (v_type v)) then VBType
  else if negb (bid_is_zero (v_bid v)) && negb (bid_is_complete (v_bid v)) then VBBlockID
  else if siglen =? 0 then VBNoSig
  else VBOk.

(** [Proposal.ValidateBasic] *)
Definition proposal_validate_basic (p : proposal) (siglen : N) : vb_result :=
  if negb (bid_is_complete (p_bid p)) then VBBlockID
  else if max_block_parts_count <? b_total (p_bid p) then VBParts
  else if siglen =? 0 then VBNoSig
  else VBOk.

(** [configs.isForked] *)
Definition is_forked (fork head : option N) : bool :=
  match fork, head with
  | Some s, Some h => s <=? h
  | _, _ => false
  end.

(** [NewChainIDSigner]: a nil chain id is chain id 0 *)
Definition new_chain_id_signer (chain : option N) : signer :=
  ChainIDSigner (match chain with Some c => c | None => 0 end).

(** [MakeSigner] *)
Definition make_signer (chain fork head : option N) : signer :=
  if is_forked fork head then new_chain_id_signer chain else Homestead.

(** [LatestSigner] *)
Definition latest_signer (chain fork : option N) : signer :=
  match chain, fork with
  | Some _, Some _ => new_chain_id_signer chain
  | _, _ => Homestead
  end.

(** [LatestSignerForChainID] *)
Definition latest_signer_for_chain_id (chain : option N) : signer :=
  match chain with None => Homestead | Some _ => new_chain_id_signer chain end.

(** [crypto.SigToPub] returns an error before any curve arithmetic: wrong length, or r / s
    outside [1, N-1] (fix 108de2e) *)
Definition sig_to_pub_rejects (sig : bytes) : bool :=
  negb (len sig =? signature_length) ||
  (let r := be_val (firstn 32 sig) in
   let s := be_val (firstn 32 (skipn 32 sig)) in
   (r =? 0) || (s =? 0) || (secp256k1_n <=? r) || (secp256k1_n <=? s)).
