(** C11 — RLP strings are injective and prefix-free; a flat list of strings is injective. *)
From Coq Require Import List ZArith NArith Bool Lia.
From Kardia Require Import C11.Varint C11.ProofsVarint C11.RLPItem.
Import ListNotations.
Local Open Scope N_scope.
Ltac Zify.zify_post_hook ::= Z.to_euclidean_division_equations.

Definition le_val (l : bytes) : N := fold_right (fun x a => x + 256 * a) 0 l.

Lemma le_fuel_val : forall f n, n < 256 ^ N.of_nat f -> le_val (le_fuel f n) = n.
Proof.
  induction f as [|f IH]; intros n Hn.
  - cbn in Hn. cbn. lia.
  - rewrite Nat2N.inj_succ, N.pow_succ_r' in Hn. cbn [le_fuel].
    destruct (n =? 0) eqn:Z.
    + apply N.eqb_eq in Z. subst. reflexivity.
    + cbn [le_val fold_right]. fold (le_val (le_fuel f (n / 256))).
      rewrite IH; [lia|]. apply N.div_lt_upper_bound; lia.
Qed.

Lemma le_bytes_inj n n' : le_bytes n = le_bytes n' -> n = n'.
Proof.
  intros E. apply (f_equal le_val) in E. unfold le_bytes in E.
  rewrite !le_fuel_val in E by apply lt_pow256_size_nat. exact E.
Qed.

Lemma be_bytes_inj n n' : be_bytes n = be_bytes n' -> n = n'.
Proof.
  unfold be_bytes. intros E. apply (f_equal (@rev N)) in E. rewrite !rev_involutive in E.
  apply le_bytes_inj. exact E.
Qed.

Lemma be_bytes_nonnil n : n <> 0 -> 1 <= len (be_bytes n).
Proof.
  intros Hn. unfold be_bytes, len. rewrite rev_length. unfold le_bytes.
  destruct n as [|p]; [congruence|]. cbn [N.size_nat].
  destruct (Pos.size_nat p) eqn:S; [destruct p; discriminate|].
  cbn [le_fuel]. cbn [N.eqb]. cbn [length]. lia.
Qed.

Lemma rlp_header_pf off n n' r r' :
  rlp_header off n ++ r = rlp_header off n' ++ r' -> n = n' /\ r = r'.
Proof.
  unfold rlp_header. intros E.
  destruct (n <? 56) eqn:L; destruct (n' <? 56) eqn:L'; cbn [app] in E; injection E as E1 E2.
  - split; [lia|assumption].
  - apply N.ltb_lt in L. apply N.ltb_ge in L'. pose proof (be_bytes_nonnil n'). lia.
  - apply N.ltb_lt in L'. apply N.ltb_ge in L. pose proof (be_bytes_nonnil n). lia.
  - assert (EL : len (be_bytes n) = len (be_bytes n')) by lia.
    apply app_eq_len in E2; [|apply len_eq; exact EL]. destruct E2 as [E2 E3].
    apply be_bytes_inj in E2. auto.
Qed.

Lemma rlp_header_head off n : exists x t, rlp_header off n = x :: t /\ off <= x.
Proof.
  unfold rlp_header. destruct (n <? 56); eexists; eexists; (split; [reflexivity|lia]).
Qed.

(** [rlp_str] is either the single small byte or header ++ payload *)
Lemma rlp_str_cases a :
  (exists x, a = [x] /\ x < 128 /\ rlp_str a = [x]) \/ rlp_str a = rlp_header 128 (len a) ++ a.
Proof.
  destruct a as [|x [|y a]]; cbn [rlp_str]; auto.
  destruct (x <? 128) eqn:L; [left; exists x; apply N.ltb_lt in L; auto|right; reflexivity].
Qed.

Lemma rlp_str_pf a b r r' : rlp_str a ++ r = rlp_str b ++ r' -> a = b /\ r = r'.
Proof.
  intros E.
  destruct (rlp_str_cases a) as [(x & Ea & Lx & Ra)|Ra]; destruct (rlp_str_cases b) as [(y & Eb & Ly & Rb)|Rb];
    rewrite Ra, Rb in E.
  - cbn in E. injection E as E1 E2. subst. auto.
  - destruct (rlp_header_head 128 (len b)) as (h & t & Hh & Hl). rewrite Hh in E. cbn in E.
    injection E as E1 E2. lia.
  - destruct (rlp_header_head 128 (len a)) as (h & t & Hh & Hl). rewrite Hh in E. cbn in E.
    injection E as E1 E2. lia.
  - rewrite <- !app_assoc in E. apply rlp_header_pf in E. destruct E as [L E].
    apply app_eq_len; [apply len_eq; exact L|exact E].
Qed.

Lemma rlp_str_nonnil a : rlp_str a <> [].
Proof.
  destruct (rlp_str_cases a) as [(x & _ & _ & R)|R]; rewrite R; [discriminate|].
  destruct (rlp_header_head 128 (len a)) as (h & t & Hh & _). rewrite Hh. discriminate.
Qed.

Lemma concat_rlp_strs_inj : forall l l', concat (map rlp_str l) = concat (map rlp_str l') -> l = l'.
Proof.
  induction l as [|a l IH]; destruct l' as [|b l']; cbn [map concat]; intros E.
  - reflexivity.
  - symmetry in E. apply app_eq_nil in E. destruct E as [E _]. apply rlp_str_nonnil in E. contradiction.
  - apply app_eq_nil in E. destruct E as [E _]. apply rlp_str_nonnil in E. contradiction.
  - apply rlp_str_pf in E. destruct E as [E1 E2]. subst. f_equal. auto.
Qed.

(** the RLP encoding of a list of byte strings determines the list (its length included) *)
Lemma rlp_list_of_strs_inj l l' : rlp_list_of_strs l = rlp_list_of_strs l' -> l = l'.
Proof.
  unfold rlp_list_of_strs, rlp_list. cbv zeta. intros E.
  apply rlp_header_pf in E. destruct E as [_ E].
  apply concat_rlp_strs_inj. exact E.
Qed.
