(** C08 proofs, part 8: the StateDB's snapshot bookkeeping (ModelSnap.v: snapAccounts, snapStorage,
    prevAccount/prevStorage of the journalled resetObjectChange entries).
    - it never changes what the StateDB answers (the projection to Model.v's [step] is exact);
    - a StateDB without snapshot layer keeps none of it;
    - RevertToSnapshot restores it exactly, for arbitrarily nested snapshots: what Commit hands to the
      snapshot tree does not depend on reverted operations. *)
From Coq Require Import List ZArith NArith Bool Lia.
From Kardia Require Import C08.Model C08.ModelSnap C08.ProofsEqv C08.ProofsInv C08.ProofsUndo C08.ProofsRevert C08.Proofs.
Import ListNotations.
Local Open Scope N_scope.

(** ---------------------------------------------------------------- forward / backward over journal entries *)

Definition cfwd (es : list entry) (ss : sstate) : sstate :=
  fold_right (fun e acc => match e with JResetObject a _ _ => snap_reset a acc | _ => acc end) ss es.
Definition crew (es : list entry) (ss : sstate) : sstate :=
  fold_left (fun acc e => match e with JResetObject a _ _ => snap_unreset a acc | _ => acc end) es ss.

Lemma snap_after_plain_cfwd : forall b ss, snap_after_plain b ss = cfwd (new_entries b (st_journal (ss_st ss))) ss.
Proof. reflexivity. Qed.
Lemma snap_after_revert_crew : forall b ss, snap_after_revert b ss = crew (new_entries (st_journal (ss_st ss)) b) ss.
Proof. reflexivity. Qed.

Lemma reset_ctl : forall a ss, ss_st (snap_reset a ss) = ss_st ss /\ ss_snap (snap_reset a ss) = ss_snap ss.
Proof. intros; split; reflexivity. Qed.
Lemma unreset_ctl : forall a ss, ss_st (snap_unreset a ss) = ss_st ss /\ ss_snap (snap_unreset a ss) = ss_snap ss.
Proof. intros a ss; unfold snap_unreset. destruct (ss_saved ss) as [|[pa ps] rest]; split; reflexivity. Qed.

Lemma cfwd_ctl : forall es ss, ss_st (cfwd es ss) = ss_st ss /\ ss_snap (cfwd es ss) = ss_snap ss.
Proof.
  induction es as [|e es IH]; intro ss; cbn [cfwd fold_right]; auto.
  fold (cfwd es ss). destruct (IH ss) as (A & B). destruct e; auto.
Qed.
Lemma crew_ctl : forall es ss, ss_st (crew es ss) = ss_st ss /\ ss_snap (crew es ss) = ss_snap ss.
Proof.
  induction es as [|e es IH]; intro ss; cbn [crew fold_left]; auto.
  match goal with |- context [fold_left ?f es ?x] => change (fold_left f es x) with (crew es x) end.
  destruct e; try apply IH.
  destruct (IH (snap_unreset a ss)) as (A & B). destruct (unreset_ctl a ss) as (C & D). rewrite A, B; auto.
Qed.

Lemma crew_app : forall e1 e2 ss, crew (e1 ++ e2) ss = crew e2 (crew e1 ss).
Proof. intros; unfold crew; apply fold_left_app. Qed.

(** ---------------------------------------------------------------- projection to Model.v *)

Lemma sstep_projects : forall ss o,
  ss_st (fst (sstep ss o)) = fst (step (ss_st ss) o) /\ snd (sstep ss o) = snd (step (ss_st ss) o).
Proof.
  intros ss o. unfold sstep. destruct (step (ss_st ss) o) as [s' ans] eqn:E. cbn [fst snd].
  assert (P : forall b, ss_st (snap_after_plain b (with_st ss s')) = s').
  { intro b. rewrite snap_after_plain_cfwd. destruct (cfwd_ctl (new_entries b (st_journal (ss_st (with_st ss s')))) (with_st ss s')) as (A & _). rewrite A. reflexivity. }
  assert (R : forall b, ss_st (snap_after_revert b (with_st ss s')) = s').
  { intro b. rewrite snap_after_revert_crew. destruct (crew_ctl (new_entries (st_journal (ss_st (with_st ss s'))) b) (with_st ss s')) as (A & _). rewrite A. reflexivity. }
  destruct o; cbn [fst snd]; try (destruct (ss_snap ss); cbn [fst snd]; split; auto; fail).
  (* Commit *)
  unfold scommit. unfold step in E. destruct (commit de (ss_st ss)) as [s1 c]. inversion E; subst s' ans.
  destruct (ss_snap ss); cbn [fst snd ss_st]; auto.
Qed.

(** a StateDB without snapshot layer keeps no snapshot data *)
Lemma detached_keeps_nothing : forall ss o, ss_snap ss = None ->
  ss_snap (fst (sstep ss o)) = None /\
  (ss_acc (fst (sstep ss o)) = ss_acc ss /\ ss_sto (fst (sstep ss o)) = ss_sto ss /\ ss_saved (fst (sstep ss o)) = ss_saved ss
   \/ exists de, o = OCommit de).
Proof.
  intros ss o H. unfold sstep. destruct (step (ss_st ss) o) as [s' ans]. rewrite H.
  destruct o; cbn [fst]; try (split; [exact H|left; repeat split]; fail).
  split; [|right; eexists; reflexivity]. unfold scommit. destruct (commit de (ss_st ss)). rewrite H. reflexivity.
Qed.

(** ---------------------------------------------------------------- the snapshot data, up to extensional equality *)

Definition saved_eq (p q : option account * fmap N) : Prop := fst p = fst q /\ forall k, snd p k = snd q k.

Definition ceqv (x y : sstate) : Prop :=
  (forall a, ss_acc x a = ss_acc y a) /\ (forall a k, ss_sto x a k = ss_sto y a k) /\
  Forall2 saved_eq (ss_saved x) (ss_saved y).

Lemma saved_eq_refl : forall p, saved_eq p p.
Proof. intro p; split; auto. Qed.
Lemma Forall2_saved_refl : forall l, Forall2 saved_eq l l.
Proof. induction l; constructor; auto using saved_eq_refl. Qed.
Lemma ceqv_refl : forall x, ceqv x x.
Proof. intro x; repeat split; auto using Forall2_saved_refl. Qed.

Lemma Forall2_saved_trans : forall l1 l2 l3, Forall2 saved_eq l1 l2 -> Forall2 saved_eq l2 l3 -> Forall2 saved_eq l1 l3.
Proof.
  intros l1 l2 l3 H1. revert l3. induction H1 as [|p q l1 l2 Hpq Hl IH]; intros l3 H2.
  - inversion H2; constructor.
  - inversion H2 as [|q' r l2' l3' Hqr Hl' E1 E2]; subst. constructor.
    + destruct Hpq as (A & B). destruct Hqr as (C & D). split; [congruence|]. intro k. rewrite B. apply D.
    + apply IH; auto.
Qed.
Lemma ceqv_trans : forall x y z, ceqv x y -> ceqv y z -> ceqv x z.
Proof.
  intros x y z (A & B & C) (A' & B' & C'). split; [|split].
  - intro a. rewrite A; auto.
  - intros a k. rewrite B; auto.
  - eapply Forall2_saved_trans; eauto.
Qed.

Lemma unreset_ceqv : forall a x y, ceqv x y -> ceqv (snap_unreset a x) (snap_unreset a y).
Proof.
  intros a x y (A & B & C). unfold snap_unreset.
  destruct (ss_saved x) as [|[pa ps] lx] eqn:Ex; destruct (ss_saved y) as [|[qa qs] ly] eqn:Ey; inversion C; subst.
  - split; [|split]; auto. rewrite Ex, Ey. constructor.
  - match goal with H : saved_eq _ _ |- _ => destruct H as (P1 & P2) end. cbn [fst snd] in P1, P2. subst qa.
    split; [|split]; cbn [ss_acc ss_sto ss_saved]; auto.
    + intro b. destruct pa; auto. unfold fupd. destruct (N.eqb b a); auto.
    + intros b k. destruct (N.eqb b a); auto.
Qed.

Lemma crew_ceqv : forall es x y, ceqv x y -> ceqv (crew es x) (crew es y).
Proof.
  induction es as [|e es IH]; intros x y H; cbn [crew fold_left]; auto.
  match goal with |- ceqv (fold_left ?f es ?u) (fold_left ?f es ?v) => change (ceqv (crew es u) (crew es v)) end.
  apply IH. destruct e; auto. apply unreset_ceqv; auto.
Qed.

(** undoing a createObject's bookkeeping right after doing it is exact *)
Lemma unreset_reset : forall a x, ceqv (snap_unreset a (snap_reset a x)) x.
Proof.
  intros a x. unfold snap_unreset, snap_reset. cbn [ss_saved ss_acc ss_sto ss_st ss_snap].
  split; [|split]; cbn [ss_acc ss_sto ss_saved].
  - intro b. destruct (ss_acc x a) as [v|] eqn:E.
    + unfold fupd, fdel. destruct (N.eqb b a) eqn:Eb; auto. apply N.eqb_eq in Eb; subst b. auto.
    + unfold fdel. destruct (N.eqb b a) eqn:Eb; auto. apply N.eqb_eq in Eb; subst b. auto.
  - intros b k. destruct (N.eqb b a) eqn:Eb; auto. apply N.eqb_eq in Eb; subst b. auto.
  - apply Forall2_saved_refl.
Qed.

Lemma crew_cfwd : forall es x, ceqv (crew es (cfwd es x)) x.
Proof.
  induction es as [|e es IH]; intro x; [apply ceqv_refl|].
  cbn [cfwd fold_right crew fold_left]. fold (cfwd es x).
  match goal with |- ceqv (fold_left ?f es ?u) _ => change (fold_left f es u) with (crew es u) end.
  destruct e; try apply IH.
  eapply ceqv_trans; [apply crew_ceqv; apply unreset_reset|]. apply IH.
Qed.

(** ---------------------------------------------------------------- new_entries *)

Lemma new_entries_app : forall (es j : list entry), new_entries j (es ++ j) = es.
Proof.
  intros es j. unfold new_entries. rewrite app_length. replace (length es + length j - length j)%nat with (length es) by lia.
  rewrite firstn_app, Nat.sub_diag, firstn_all. cbn. apply app_nil_r.
Qed.
Lemma new_entries_same : forall (j : list entry), new_entries j j = nil.
Proof. intro j. exact (new_entries_app nil j). Qed.

(** ---------------------------------------------------------------- revert exactness *)

Fixpoint srun (ops : list op) (ss : sstate) : sstate :=
  match ops with
  | nil => ss
  | o :: t => srun t (fst (sstep ss o))
  end.

Lemma srun_projects : forall ops ss, ss_st (srun ops ss) = run ops (ss_st ss).
Proof.
  induction ops as [|o t IH]; intro ss; cbn [srun run]; auto.
  rewrite IH. destruct (sstep_projects ss o) as (A & _). rewrite A. reflexivity.
Qed.

Section SRevert.
  Variable ss0 : sstate.
  Variable p0 : N.
  Hypothesis wf0 : wf (ss_st ss0).
  Hypothesis att0 : ss_snap ss0 = Some p0.
  Let s0 := ss_st ss0.

  (** the snapshot is still valid, and undoing the bookkeeping of the entries journalled since then
      gives back the snapshot data of [ss0] *)
  Definition SGood (ss : sstate) : Prop :=
    Good s0 (ss_st ss) /\ ss_snap ss = Some p0 /\
    ceqv (crew (new_entries (st_journal s0) (st_journal (ss_st ss))) ss) ss0.

  Lemma good_journal : forall s, Good s0 s -> exists es, st_journal s = es ++ st_journal s0.
  Proof. intros s (_ & _ & es & rest & J & _). exists es; auto. Qed.

  (** [crew] only looks at the snapshot data *)
  Lemma crew_with_st : forall es ss s', ceqv (crew es (with_st ss s')) (crew es ss).
  Proof.
    intros es ss s'. unfold with_st.
    assert (Q : forall l x y, ss_acc x = ss_acc y -> ss_sto x = ss_sto y -> ss_saved x = ss_saved y ->
                ss_acc (crew l x) = ss_acc (crew l y) /\ ss_sto (crew l x) = ss_sto (crew l y) /\ ss_saved (crew l x) = ss_saved (crew l y)).
    { induction l as [|e l IH]; intros x y H1 H2 H3; cbn [crew fold_left]; auto.
      match goal with |- context [fold_left ?f l ?u] => change (fold_left f l u) with (crew l u) end.
      match goal with |- context [fold_left ?f l ?u] => change (fold_left f l u) with (crew l u) end.
      destruct e; try (apply IH; auto; fail).
      apply IH; unfold snap_unreset; rewrite H3; destruct (ss_saved y) as [|[pa ps] rest] eqn:Ey; cbn [ss_acc ss_sto ss_saved]; rewrite ?H1, ?H2; auto; congruence. }
    destruct (Q es (mkSS s' (ss_snap ss) (ss_acc ss) (ss_sto ss) (ss_saved ss)) ss eq_refl eq_refl eq_refl) as (Q1 & Q2 & Q3).
    split; [|split]; [rewrite Q1; auto | rewrite Q2; auto | rewrite Q3; apply Forall2_saved_refl].
  Qed.

  (** a step that appends [es'] to the journal *)
  Lemma sgood_append : forall ss s' es', SGood ss -> Good s0 s' ->
    st_journal s' = es' ++ st_journal (ss_st ss) -> SGood (cfwd es' (with_st ss s')).
  Proof.
    intros ss s' es' (G & Sn & C) G' J'.
    destruct (good_journal _ G) as (es & J).
    destruct (cfwd_ctl es' (with_st ss s')) as (St & Snp). unfold SGood. rewrite St, Snp. cbn [with_st ss_st ss_snap].
    split; [exact G'|]. split; [exact Sn|].
    rewrite J', J, app_assoc, new_entries_app, crew_app.
    eapply ceqv_trans; [apply crew_ceqv; apply crew_cfwd|].
    eapply ceqv_trans; [apply crew_with_st|]. rewrite J, new_entries_app in C. exact C.
  Qed.

  Lemma sstep_plain_shape : forall ss o, plain o = true -> ss_snap ss = Some p0 ->
    fst (sstep ss o) = snap_after_plain (st_journal (ss_st ss)) (with_st ss (fst (step (ss_st ss) o))).
  Proof.
    intros ss o Hp Sn. unfold sstep. destruct (step (ss_st ss) o) as [s' ans]. rewrite Sn.
    destruct o; try discriminate; reflexivity.
  Qed.

  Lemma sgood_plain : forall ss o, SGood ss -> plain o = true -> SGood (fst (sstep ss o)).
  Proof.
    intros ss o SG Hp. pose proof SG as (G & Sn & C).
    rewrite (sstep_plain_shape ss o Hp Sn), snap_after_plain_cfwd. cbn [with_st ss_st].
    pose proof (good_plain s0 (ss_st ss) o G Hp) as G'.
    destruct G as (Hw & _). destruct Hw as (Hk & _).
    destruct (step_ext (ss_st ss) o Hk Hp) as (_ & _ & _ & _ & _ & es' & J' & _).
    rewrite J', new_entries_app. apply sgood_append; auto.
  Qed.

  Lemma sgood_init : SGood (fst (sstep ss0 OSnapshot)).
  Proof.
    assert (E : fst (sstep ss0 OSnapshot) = with_st ss0 (fst (snapshot s0))).
    { unfold sstep, step. fold s0. destruct (snapshot s0) as [s1 id] eqn:E1. rewrite att0. cbn [fst].
      rewrite snap_after_plain_cfwd. cbn [with_st ss_st].
      assert (J : st_journal s1 = st_journal s0) by (unfold snapshot in E1; inversion E1; reflexivity).
      fold s0. rewrite J, new_entries_same. reflexivity. }
    rewrite E. unfold SGood. cbn [with_st ss_st ss_snap].
    split; [exact (good_init s0 wf0)|]. split; [exact att0|].
    assert (J : st_journal (fst (snapshot s0)) = st_journal s0) by reflexivity.
    rewrite J, new_entries_same. cbn [crew fold_left]. repeat split; auto using Forall2_saved_refl.
  Qed.

  Lemma sgood_snapshot : forall ss, SGood ss -> SGood (fst (sstep ss OSnapshot)).
  Proof.
    intros ss SG. pose proof SG as (G & Sn & C).
    assert (E : fst (sstep ss OSnapshot) = cfwd nil (with_st ss (fst (snapshot (ss_st ss))))).
    { unfold sstep, step. destruct (snapshot (ss_st ss)) as [s1 id] eqn:E1. rewrite Sn. cbn [fst].
      rewrite snap_after_plain_cfwd. cbn [with_st ss_st].
      assert (J : st_journal s1 = st_journal (ss_st ss)) by (unfold snapshot in E1; inversion E1; reflexivity).
      rewrite J, new_entries_same. reflexivity. }
    rewrite E. apply sgood_append; auto. exact (good_snapshot s0 (ss_st ss) G).
  Qed.

  (** RevertToSnapshot: the journal afterwards is a suffix of the journal before *)
  Lemma revert_journal : forall s i, exists k, (k <= length (st_journal s))%nat /\
    st_journal (fst (revert_to s i)) = skipn k (st_journal s).
  Proof.
    intros s i. pose proof (revert_to_spec s i) as H. cbn zeta in H.
    destruct (nth_error (st_revs s) (search_rev (st_revs s) i 0)) as [[i' j]|]; [destruct (N.eqb i' i)|];
      rewrite H; cbn [fst]; try (exists O; split; [lia|reflexivity]).
    exists (length (st_journal s) - j)%nat. split; [lia|]. cbn [set_revs st_journal].
    destruct (rewind_journal (length (st_journal s) - j) s) as (A & _).
    destruct (rewind (length (st_journal s) - j) s); cbn in *; exact A.
  Qed.

  Lemma sstep_revert_shape : forall ss i, ss_snap ss = Some p0 ->
    fst (sstep ss (ORevert i)) =
    crew (new_entries (st_journal (fst (revert_to (ss_st ss) i))) (st_journal (ss_st ss)))
         (with_st ss (fst (revert_to (ss_st ss) i))).
  Proof.
    intros ss i Sn. unfold sstep, step. destruct (revert_to (ss_st ss) i) as [s' p]. rewrite Sn. cbn [fst].
    rewrite snap_after_revert_crew. reflexivity.
  Qed.

  Lemma skipn_app_le : forall (A : Type) k (l1 l2 : list A), (k <= length l1)%nat -> skipn k (l1 ++ l2) = skipn k l1 ++ l2.
  Proof. intros A k l1 l2 H. rewrite skipn_app. replace (k - length l1)%nat with O by lia. reflexivity. Qed.

  Lemma sgood_revert : forall ss i, SGood ss ->
    SGood (fst (sstep ss (ORevert i))) \/ Dead s0 (ss_st (fst (sstep ss (ORevert i)))).
  Proof.
    intros ss i SG. pose proof SG as (G & Sn & C).
    destruct (sstep_projects ss (ORevert i)) as (A & _).
    assert (A' : ss_st (fst (sstep ss (ORevert i))) = fst (revert_to (ss_st ss) i)).
    { rewrite A. unfold step. destruct (revert_to (ss_st ss) i); reflexivity. }
    destruct (good_revert s0 wf0 (ss_st ss) i G) as [G'|D]; [left|right; rewrite A'; exact D].
    rewrite (sstep_revert_shape ss i Sn).
    destruct (good_journal _ G) as (es & J). destruct (good_journal _ G') as (es2 & J2).
    destruct (revert_journal (ss_st ss) i) as (k & Kle & K). rewrite J in K. rewrite J, app_length in Kle.
    assert (Hk : (k <= length es)%nat).
    { assert (L : length (st_journal (fst (revert_to (ss_st ss) i))) = (length es + length (st_journal s0) - k)%nat)
        by (rewrite K, skipn_length, app_length; reflexivity).
      rewrite J2, app_length in L. clear - L Kle. lia. }
    rewrite skipn_app_le in K by exact Hk.
    assert (E2 : es2 = skipn k es) by (rewrite J2 in K; apply app_inv_tail in K; exact K).
    set (s' := fst (revert_to (ss_st ss) i)) in *.
    assert (NE : new_entries (st_journal s') (st_journal (ss_st ss)) = firstn k es).
    { unfold new_entries. rewrite K, J, !app_length, skipn_length.
      replace (length es + length (st_journal s0) - (length es - k + length (st_journal s0)))%nat with k by lia.
      rewrite firstn_app. replace (k - length es)%nat with O by lia. cbn [firstn]. apply app_nil_r. }
    rewrite NE. destruct (crew_ctl (firstn k es) (with_st ss s')) as (St & Snp).
    unfold SGood. rewrite St, Snp. cbn [with_st ss_st ss_snap]. split; [exact G'|]. split; [exact Sn|].
    rewrite J2, new_entries_app, E2, <- crew_app, firstn_skipn.
    eapply ceqv_trans; [apply crew_with_st|]. rewrite J, new_entries_app in C. exact C.
  Qed.

  Lemma dead_sstep : forall ss o, Dead s0 (ss_st ss) -> Dead s0 (ss_st (fst (sstep ss o))).
  Proof. intros ss o D. destruct (sstep_projects ss o) as (A & _). rewrite A. apply dead_step; auto. Qed.

  Lemma sgood_step : forall ss o, SGood ss -> SGood (fst (sstep ss o)) \/ Dead s0 (ss_st (fst (sstep ss o))).
  Proof.
    intros ss o SG. destruct (plain o) eqn:Hp; [left; apply sgood_plain; auto|].
    destruct o; try discriminate.
    - left; apply sgood_snapshot; auto.
    - apply sgood_revert; auto.
    - right. destruct SG as (G & _). destruct (sstep_projects ss (OFinalise de)) as (A & _). rewrite A.
      destruct (good_step s0 wf0 (ss_st ss) (OFinalise de) G) as [X|X]; [|exact X].
      exfalso. destruct X as (_ & _ & es & rest & _ & _ & R & _). unfold step in R; cbn [fst] in R.
      destruct (finalise_fields de (ss_st ss)) as (R0 & _). rewrite R0 in R. destruct (st_revs s0); discriminate.
    - right. destruct SG as (G & _). destruct (sstep_projects ss (OIntermediateRoot de)) as (A & _). rewrite A.
      destruct (good_step s0 wf0 (ss_st ss) (OIntermediateRoot de) G) as [X|X]; [|exact X].
      exfalso. destruct X as (_ & _ & es & rest & _ & _ & R & _). unfold step in R; cbn [fst] in R.
      destruct (intermediate_root_fields de (ss_st ss)) as (R0 & _). rewrite R0 in R. destruct (st_revs s0); discriminate.
    - right. destruct SG as (G & _). destruct (sstep_projects ss (OCommit de)) as (A & _). rewrite A.
      destruct (good_step s0 wf0 (ss_st ss) (OCommit de) G) as [X|X]; [|exact X].
      exfalso. destruct X as (_ & _ & es & rest & _ & _ & R & _). unfold step in R.
      destruct (commit_fields de (ss_st ss)) as (R0 & _). destruct (commit de (ss_st ss)); cbn [fst] in *.
      rewrite R0 in R. destruct (st_revs s0); discriminate.
  Qed.

  Lemma srun_inv : forall ops ss, SGood ss \/ Dead s0 (ss_st ss) -> SGood (srun ops ss) \/ Dead s0 (ss_st (srun ops ss)).
  Proof.
    induction ops as [|o t IH]; intros ss H; cbn [srun]; auto. apply IH.
    destruct H as [H|H]; [apply sgood_step; auto | right; apply dead_sstep; auto].
  Qed.

  (** the theorem: Snapshot(); any operations; RevertToSnapshot(id) while id is still valid *)
  Theorem snap_revert_exact : forall ops,
    let ss1 := fst (sstep ss0 OSnapshot) in
    let ssN := srun ops ss1 in
    In (st_nextrev s0) (map fst (st_revs (ss_st ssN))) ->
    ceqv (fst (sstep ssN (ORevert (st_nextrev s0)))) ss0.
  Proof.
    intros ops ss1 ssN Hin.
    destruct (srun_inv ops ss1 (or_introl sgood_init)) as [SG|(_ & _ & D)]; [|contradiction].
    fold ssN in SG. pose proof SG as (G & Sn & C).
    rewrite (sstep_revert_shape ssN _ Sn).
    destruct (good_journal _ G) as (es & J).
    (* the journal after the revert is the journal at Snapshot() *)
    assert (JR : st_journal (fst (revert_to (ss_st ssN) (st_nextrev s0))) = st_journal s0).
    { pose proof G as (Hw & Hn & es' & rest & J' & E & R & F).
      pose proof (revert_to_spec (ss_st ssN) (st_nextrev s0)) as H. cbn zeta in H.
      destruct Hw as (_ & Ha & _). rewrite R in Ha.
      assert (S : search_rev (st_revs (ss_st ssN)) (st_nextrev s0) 0 = length (st_revs s0)).
      { rewrite R. erewrite search_found by eauto. reflexivity. }
      assert (Nth : nth_error (st_revs (ss_st ssN)) (length (st_revs s0)) = Some (st_nextrev s0, length (st_journal s0))).
      { rewrite R, nth_error_app2 by lia. rewrite Nat.sub_diag. reflexivity. }
      rewrite S, Nth, N.eqb_refl in H. rewrite H. cbn [fst set_revs].
      destruct (rewind_journal (length (st_journal (ss_st ssN)) - length (st_journal s0)) (ss_st ssN)) as (RJ & _).
      match goal with |- st_journal ?x = _ => assert (X : st_journal x = st_journal (rewind (length (st_journal (ss_st ssN)) - length (st_journal s0)) (ss_st ssN))) by (destruct (rewind (length (st_journal (ss_st ssN)) - length (st_journal s0)) (ss_st ssN)); reflexivity) end.
      rewrite X, RJ, J', app_length. replace (length es' + length (st_journal s0) - length (st_journal s0))%nat with (length es') by lia.
      rewrite skipn_app, skipn_all, Nat.sub_diag. reflexivity. }
    rewrite JR. eapply ceqv_trans; [apply crew_with_st|]. exact C.
  Qed.
End SRevert.

(** ---------------------------------------------------------------- reachable StateDBs with snapshot fields *)


Inductive sreachable : sstate -> Prop :=
| sr_new : forall c layer, sreachable (snew_state c layer)
| sr_step : forall ss o, sreachable ss -> sreachable (fst (sstep ss o))
| sr_copy : forall ss, sreachable ss -> sreachable (scopy ss).

Lemma sreachable_reachable : forall ss, sreachable ss -> reachable (ss_st ss).
Proof.
  induction 1 as [c layer|ss o H IH|ss H IH].
  - apply r_new.
  - destruct (sstep_projects ss o) as (A & _). rewrite A. apply r_step; auto.
  - apply r_copy; auto.
Qed.

Lemma sreachable_wf : forall ss, sreachable ss -> wf (ss_st ss).
Proof. intros ss H. apply wf_reachable, sreachable_reachable; auto. Qed.

Lemma srun_reachable : forall ops ss, sreachable ss -> sreachable (srun ops ss).
Proof. induction ops as [|o t IH]; intros ss H; cbn [srun]; auto. apply IH, sr_step; auto. Qed.

(** the theorem for reachable, attached StateDBs *)
Theorem snap_revert_exact_reachable : forall ss0 p0 ops,
  sreachable ss0 -> ss_snap ss0 = Some p0 ->
  let id := st_nextrev (ss_st ss0) in
  let ssN := srun ops (fst (sstep ss0 OSnapshot)) in
  In id (map fst (st_revs (ss_st ssN))) ->
  ceqv (fst (sstep ssN (ORevert id))) ss0.
Proof. intros ss0 p0 ops R A. exact (snap_revert_exact ss0 p0 (sreachable_wf ss0 R) A ops). Qed.

(** the hypotheses are satisfiable and the statement is not vacuous: a StateDB attached to layer 0
    that has snapshot data for contract 1 (written by an IntermediateRoot); the reverted segment
    re-creates the contract (which deletes that data) and nests a reverted snapshot *)
Definition sexample_ss0 : sstate :=
  srun [OSetNonce 1 1; OSetState 1 0 7; OIntermediateRoot false] (snew_state fempty (Some 0)).
Definition sexample_ops : list op :=
  [OCreateAccount 1; OSnapshot; OSetState 1 1 9; OCreateAccount 1; ORevert 1; OSetNonce 1 5].

Lemma sexample_valid :
  sreachable sexample_ss0 /\ ss_snap sexample_ss0 = Some 0 /\
  is_some (ss_acc sexample_ss0 1) = true /\ ss_sto sexample_ss0 1 0 = Some 7 /\
  let ssN := srun sexample_ops (fst (sstep sexample_ss0 OSnapshot)) in
  In (st_nextrev (ss_st sexample_ss0)) (map fst (st_revs (ss_st ssN))) /\
  is_some (ss_acc ssN 1) = false /\ ss_sto ssN 1 0 = None.
Proof.
  split; [unfold sexample_ss0; apply srun_reachable, sr_new|].
  vm_compute. repeat split; auto.
Qed.
