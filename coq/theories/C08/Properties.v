(** C08 — property theorems only.  Each is closed by [exact] of a lemma proved in Proofs*.v
    and followed by [Print Assumptions].
    Reading guide: [ask s q] is the answer of getter [q] (Exist, Empty, GetBalance, GetNonce,
    GetCodeHash, GetCode, HasSuicided, GetState, GetCommittedState, GetRefund, GetLogs, Preimages,
    AddressInAccessList, SlotInAccessList, GetTransientState) on state [s]; [wf] is an invariant of
    every reachable state (C08_wf_reachable). *)
From Coq Require Import List ZArith NArith Bool.
From Kardia Require Import C08.Model C08.ProofsEqv C08.ProofsInv C08.ProofsUndo C08.ProofsRevert C08.Proofs C08.ProofsCoh.
Import ListNotations.
Local Open Scope N_scope.

(** every setter and every getter: undoing the journal entries it appended restores all observables *)
Theorem C08_undo_apply : forall s o,
  wf s -> plain o = true ->
  exists es, st_journal (fst (step s o)) = es ++ st_journal s /\
             forall q, ask (rewind (length es) (fst (step s o))) q = ask s q.
Proof. exact undo_apply. Qed.
Print Assumptions C08_undo_apply.

(** each journal entry's revert depends on the observable state only *)
Theorem C08_undo_congruence : forall e s1 s2, eqv s1 s2 -> forall q, ask (undo e s1) q = ask (undo e s2) q.
Proof. exact undo_congruence. Qed.
Print Assumptions C08_undo_congruence.

(** RevertToSnapshot(id) restores every observable to its value at Snapshot(), for arbitrary
    operation sequences in between — setters, getters, further (nested) snapshots and reverts,
    Finalise/IntermediateRoot/Commit — whenever id is still a valid revision (otherwise the Go
    code panics); the call does not panic. *)
Theorem C08_revert_exact : forall s ops,
  wf s ->
  let s1 := fst (snapshot s) in
  let id := snd (snapshot s) in
  let sN := run ops s1 in
  In id (map fst (st_revs sN)) ->
  snd (revert_to sN id) = false /\ forall q, ask (fst (revert_to sN id)) q = ask s q.
Proof. exact revert_exact. Qed.
Print Assumptions C08_revert_exact.

Theorem C08_wf_reachable : forall s, reachable s -> wf s.
Proof. exact wf_reachable. Qed.
Print Assumptions C08_wf_reachable.

(** the hypotheses of C08_revert_exact are satisfiable (nested snapshot reverted inside) *)
Example C08_revert_exact_example :
  reachable example_s /\
  In (snd (snapshot example_s)) (map fst (st_revs (run example_ops (fst (snapshot example_s))))).
Proof. split; [repeat constructor | exact example_valid]. Qed.
Print Assumptions C08_revert_exact_example.

(** operations on a copy and on the original do not influence each other (in the model states
    are values; the harness checks that the implementation's copies behave like that) *)
Theorem C08_copy_independent : forall l s,
  run2 l (s, copy s) = (run (pick OnOriginal l) s, run (pick OnCopy l) (copy s)).
Proof. exact copy_independent. Qed.
Print Assumptions C08_copy_independent.

(** PARTIAL: a fresh copy shows the observables of the original if the objects Copy leaves
    behind agree with the account trie ([clean_unkept]; its reachability is in Open.v) *)
Theorem C08_copy_observables_partial : forall s, st_crashed s = false -> clean_unkept s -> forall q, ask (copy s) q = ask s q.
Proof. exact copy_observables. Qed.
Print Assumptions C08_copy_observables_partial.

(** PARTIAL read-back: a StateDB opened on committed content returns exactly that content, and
    Commit returns the account trie of the committing state (the link "content = what the
    setters wrote" needs the cache-coherence invariant, see Open.v) *)
Theorem C08_readback_partial : forall c a k,
  ask (new_state c) (QExist a) = AB (is_some (c a)) /\
  ask (new_state c) (QBalance a) = AZ (match c a with Some d => ac_balance d | None => 0%Z end) /\
  ask (new_state c) (QNonce a) = AN (match c a with Some d => ac_nonce d | None => 0 end) /\
  ask (new_state c) (QCodeHash a) = AON (match c a with Some d => Some (ac_code d) | None => None end) /\
  ask (new_state c) (QState a k) = AN (match c a with Some d => ac_storage d k | None => 0 end) /\
  ask (new_state c) (QCommitted a k) = AN (match c a with Some d => ac_storage d k | None => 0 end).
Proof. exact readback_fresh. Qed.
Print Assumptions C08_readback_partial.

Theorem C08_commit_content : forall de s, snd (commit de s) = st_trie (fst (commit de s)).
Proof. exact commit_content. Qed.
Print Assumptions C08_commit_content.

(** REFUTED as stated in the property text (known finding): a touch of the existing empty RIPEMD
    account inside a reverted snapshot is invisible to every getter after the revert, yet it
    changes the finalised content — the account is deleted by IntermediateRoot(true) — whereas
    the history with the reverted segment erased keeps it. *)
Theorem C08_ripemd_exception :
  (forall q, ask (fst (revert_to (run [OAddBalance ripemd 0] (fst (snapshot ripemd_world))) (snd (snapshot ripemd_world)))) q
             = ask ripemd_world q) /\
  is_some (st_trie (run with_reverted_touch ripemd_world) ripemd) = false /\
  is_some (st_trie (run surviving_only ripemd_world) ripemd) = true.
Proof. exact ripemd_exception. Qed.
Print Assumptions C08_ripemd_exception.

(** no reachable state has hit a nil dereference / index panic inside the package — neither in a
    forward operation nor in any journal revert ([reachable] allows every operation, including the
    two documented API panics, which leave the flag untouched) *)
Theorem C08_no_internal_crash : forall s, reachable s -> st_crashed s = false.
Proof. exact no_internal_crash. Qed.
Print Assumptions C08_no_internal_crash.

(** cache coherence of every reachable state: the originStorage cache of every live, deleted or
    journalled (resetObjectChange.prev) object agrees with the object's storage trie, and
    journal.dirties counts at least the journal entries of every address *)
Theorem C08_cache_coherent : forall s, reachable s -> SI s.
Proof. exact cache_coherent. Qed.
Print Assumptions C08_cache_coherent.

(** REFUTED for copies taken in the middle of a transaction: the copy of a state with a pending
    self-destruct commits the account (the original deletes it), keeps the suicided flag on a
    live object, and a copy of THAT state differs from it on HasSuicided *)
Theorem C08_copy_midtx_refuted :
  reachable midtx_c /\
  st_journal midtx_s <> nil /\
  ask midtx_c (QSuicided 1) = AB true /\ ask (copy midtx_c) (QSuicided 1) = AB false /\
  is_some (snd (commit true (copy midtx_s)) 1) = true /\ is_some (snd (commit true midtx_s) 1) = false.
Proof. exact copy_midtx_refuted. Qed.
Print Assumptions C08_copy_midtx_refuted.
