(** C08 — property theorems only.  Each is closed by [exact] of a lemma proved in Proofs*.v
    and followed by [Print Assumptions].
    Reading guide: [ask s q] is the answer of getter [q] (Exist, Empty, GetBalance, GetNonce,
    GetCodeHash, GetCode, HasSuicided, GetState, GetCommittedState, GetRefund, GetLogs, Preimages,
    AddressInAccessList, SlotInAccessList, GetTransientState) on state [s]; [wf] is an invariant of
    every reachable state (C08_wf_reachable). *)
From Coq Require Import List ZArith NArith Bool.
From Kardia Require Import C08.Model C08.ProofsEqv C08.ProofsInv C08.ProofsUndo C08.ProofsRevert C08.Proofs C08.ProofsCoh.
From Kardia Require Import C08.ModelSnap C08.ModelSnapHeap C08.ProofsSnap C08.ProofsSnapDB C08.ProofsSnapBridge C08.SourceTie.
Import ListNotations.
Local Open Scope N_scope.

(** every setter and every getter: undoing the journal entries it appended restores all observables *)
Theorem C08_undo_apply : forall s o,
  wf s -> plain o = true ->
  exists es, st_journal (fst (step s o)) = es ++ st_journal s /\
             forall q, ask (rewind (length es) (fst (step s o))) q = ask s q.
Proof. exact undo_apply. Qed.
Print Assumptions C08_undo_apply.

(** each journal entry's revert depends on the observable state only *)
Theorem C08_undo_congruence : forall e s1 s2, eqv s1 s2 -> forall q, ask (undo e s1) q = ask (undo e s2) q.
Proof. exact undo_congruence. Qed.
Print Assumptions C08_undo_congruence.

(** RevertToSnapshot(id) restores every observable to its value at Snapshot(), for arbitrary
    operation sequences in between — setters, getters, further (nested) snapshots and reverts,
    Finalise/IntermediateRoot/Commit — whenever id is still a valid revision (otherwise the Go
    code panics); the call does not panic. *)
Theorem C08_revert_exact : forall s ops,
  wf s ->
  let s1 := fst (snapshot s) in
  let id := snd (snapshot s) in
  let sN := run ops s1 in
  In id (map fst (st_revs sN)) ->
  snd (revert_to sN id) = false /\ forall q, ask (fst (revert_to sN id)) q = ask s q.
Proof. exact revert_exact. Qed.
Print Assumptions C08_revert_exact.

Theorem C08_wf_reachable : forall s, reachable s -> wf s.
Proof. exact wf_reachable. Qed.
Print Assumptions C08_wf_reachable.

(** the hypotheses of C08_revert_exact are satisfiable (nested snapshot reverted inside) *)
Example C08_revert_exact_example :
  reachable example_s /\
  In (snd (snapshot example_s)) (map fst (st_revs (run example_ops (fst (snapshot example_s))))).
Proof. split; [repeat constructor | exact example_valid]. Qed.
Print Assumptions C08_revert_exact_example.

(** operations on a copy and on the original do not influence each other (in the model states
    are values; the harness checks that the implementation's copies behave like that) *)
Theorem C08_copy_independent : forall l s,
  run2 l (s, copy s) = (run (pick OnOriginal l) s, run (pick OnCopy l) (copy s)).
Proof. exact copy_independent. Qed.
Print Assumptions C08_copy_independent.

(** PARTIAL: a fresh copy shows the observables of the original if the objects Copy leaves
    behind agree with the account trie ([clean_unkept]; its reachability is in Open.v) *)
Theorem C08_copy_observables_partial : forall s, st_crashed s = false -> clean_unkept s -> forall q, ask (copy s) q = ask s q.
Proof. exact copy_observables. Qed.
Print Assumptions C08_copy_observables_partial.

(** PARTIAL read-back: a StateDB opened on committed content returns exactly that content, and
    Commit returns the account trie of the committing state (the link "content = what the
    setters wrote" needs the cache-coherence invariant, see Open.v) *)
Theorem C08_readback_partial : forall c a k,
  ask (new_state c) (QExist a) = AB (is_some (c a)) /\
  ask (new_state c) (QBalance a) = AZ (match c a with Some d => ac_balance d | None => 0%Z end) /\
  ask (new_state c) (QNonce a) = AN (match c a with Some d => ac_nonce d | None => 0 end) /\
  ask (new_state c) (QCodeHash a) = AON (match c a with Some d => Some (ac_code d) | None => None end) /\
  ask (new_state c) (QState a k) = AN (match c a with Some d => ac_storage d k | None => 0 end) /\
  ask (new_state c) (QCommitted a k) = AN (match c a with Some d => ac_storage d k | None => 0 end).
Proof. exact readback_fresh. Qed.
Print Assumptions C08_readback_partial.

Theorem C08_commit_content : forall de s, snd (commit de s) = st_trie (fst (commit de s)).
Proof. exact commit_content. Qed.
Print Assumptions C08_commit_content.

(** REFUTED as stated in the property text (known finding): a touch of the existing empty RIPEMD
    account inside a reverted snapshot is invisible to every getter after the revert, yet it
    changes the finalised content — the account is deleted by IntermediateRoot(true) — whereas
    the history with the reverted segment erased keeps it. *)
Theorem C08_ripemd_exception :
  (forall q, ask (fst (revert_to (run [OAddBalance ripemd 0] (fst (snapshot ripemd_world))) (snd (snapshot ripemd_world)))) q
             = ask ripemd_world q) /\
  is_some (st_trie (run with_reverted_touch ripemd_world) ripemd) = false /\
  is_some (st_trie (run surviving_only ripemd_world) ripemd) = true.
Proof. exact ripemd_exception. Qed.
Print Assumptions C08_ripemd_exception.

(** no reachable state has hit a nil dereference / index panic inside the package — neither in a
    forward operation nor in any journal revert ([reachable] allows every operation, including the
    two documented API panics, which leave the flag untouched) *)
Theorem C08_no_internal_crash : forall s, reachable s -> st_crashed s = false.
Proof. exact no_internal_crash. Qed.
Print Assumptions C08_no_internal_crash.

(** cache coherence of every reachable state: the originStorage cache of every live, deleted or
    journalled (resetObjectChange.prev) object agrees with the object's storage trie, and
    journal.dirties counts at least the journal entries of every address *)
Theorem C08_cache_coherent : forall s, reachable s -> SI s.
Proof. exact cache_coherent. Qed.
Print Assumptions C08_cache_coherent.

(** REFUTED for copies taken in the middle of a transaction: the copy of a state with a pending
    self-destruct commits the account (the original deletes it), keeps the suicided flag on a
    live object, and a copy of THAT state differs from it on HasSuicided *)
Theorem C08_copy_midtx_refuted :
  reachable midtx_c /\
  st_journal midtx_s <> nil /\
  ask midtx_c (QSuicided 1) = AB true /\ ask (copy midtx_c) (QSuicided 1) = AB false /\
  is_some (snd (commit true (copy midtx_s)) 1) = true /\ is_some (snd (commit true midtx_s) 1) = false.
Proof. exact copy_midtx_refuted. Qed.
Print Assumptions C08_copy_midtx_refuted.

(** ------------------------------------------------------------------------------------------------
    Reading committed state back through the snapshot layers (ModelSnap.v: diff layers over the disk
    layer, kai/state/snapshot/{difflayer,disklayer}.go, Tree.Update/Cap/diffToDisk).
    [built s va vs]: the chain [s] was made from an empty disk layer by any sequence of Tree.Update
    (a block's destruct set, accounts, slots), Tree.Cap (flatten / diffToDisk, any depth) and reads;
    [va]/[vs] is the overlay of the blocks' data in order. *)

(** every account and every slot read through the chain — whatever the bloom filter contains beyond
    what was added to it — is the overlay of the blocks written so far *)
Theorem C08_snapshot_layers_read_content : forall s va vs, built s va vs -> forall fp a k,
  snd (snap_account fp s a) = va a /\ snd (snap_storage fp s a k) = vs a k.
Proof. exact built_read. Qed.
Print Assumptions C08_snapshot_layers_read_content.

(** the hypothesis is satisfiable: two blocks, the second destructs what the first created, capped to depth 1 and to disk *)
Example C08_snapshot_layers_example :
  exists va vs, built (snap_cap (snap_cap (snap_update (snap_update (mkSnap nil (empty_disk 0)) 1 (fun _ => false)
                   (fupd fempty 1 empty_account) (fun a => if N.eqb a 1 then fupd fempty 0 42 else fempty))
                   2 (fun a => N.eqb a 1) fempty (fun _ => fempty)) 1) 0) va vs /\ vs 1 0 = 0.
Proof. eexists; eexists; split; [repeat constructor|reflexivity]. Qed.
Print Assumptions C08_snapshot_layers_example.

(** false positives of the bloom filter never change an answer (nor the cache the read fills) *)
Theorem C08_snapshot_bloom_irrelevant : forall fp1 fp2 s a k,
  snap_account fp1 s a = snap_account fp2 s a /\ snap_storage fp1 s a k = snap_storage fp2 s a k.
Proof. exact bloom_irrelevant. Qed.
Print Assumptions C08_snapshot_bloom_irrelevant.

(** a read returns what the chain stands for, keeps the clean cache in step with the database and
    changes nothing else *)
Theorem C08_snapshot_read_spec : forall fp s a k, coherent (sn_disk s) ->
  (snd (snap_account fp s a) = view_acc s a /\
   coherent (sn_disk (fst (snap_account fp s a))) /\ same_snap s (fst (snap_account fp s a))) /\
  (snd (snap_storage fp s a k) = view_sto s a k /\
   coherent (sn_disk (fst (snap_storage fp s a k))) /\ same_snap s (fst (snap_storage fp s a k))).
Proof. intros fp s a k H; split; [exact (snap_account_spec fp s a H)|exact (snap_storage_spec fp s a k H)]. Qed.
Print Assumptions C08_snapshot_read_spec.

(** Tree.Cap with any number of layers (flatten of the layers below, accumulator kept in memory or
    merged onto disk by diffToDisk) changes no account and no slot of the capped root *)
Theorem C08_snapshot_cap_preserves : forall s layers, coherent (sn_disk s) ->
  coherent (sn_disk (snap_cap s layers)) /\
  (forall a, view_acc (snap_cap s layers) a = view_acc s a) /\
  (forall a k, view_sto (snap_cap s layers) a k = view_sto s a k).
Proof. exact snap_cap_spec. Qed.
Print Assumptions C08_snapshot_cap_preserves.

(** the layer Cap puts into the tree for the flattened root (accumulator or new disk layer) stands
    for exactly what the layers it replaces stood for *)
Theorem C08_snapshot_cap_registrations : forall s layers r t, coherent (sn_disk s) -> In (r, t) (snap_cap_regs s layers) ->
  coherent (sn_disk t) /\
  (forall a, view_acc t a = over_acc (below s layers) (dk_acc (sn_disk s)) a) /\
  (forall a k, view_sto t a k = over_sto (below s layers) (dk_sto (sn_disk s)) a k).
Proof. exact snap_cap_regs_spec. Qed.
Print Assumptions C08_snapshot_cap_registrations.

(** REFUTED (a variant, not the code): diffLayer.Storage without the probe for the account's destruct
    marker returns the old incarnation's slot from the disk layer (42) where the chain stands for 0 —
    the probe that AccountRLP and Storage both make is necessary *)
Theorem C08_storage_without_destruct_probe_refuted :
  coherent (sn_disk probe_snap) /\
  view_sto probe_snap 1 0 = 0 /\
  snd (snap_storage (fun _ => false) probe_snap 1 0) = 0 /\
  snd (snap_storage_noprobe (fun _ => false) probe_snap 1 0) = 42.
Proof. exact probe_needed. Qed.
Print Assumptions C08_storage_without_destruct_probe_refuted.

(** REFUTED as stated in the property text (known finding, inherited from go-ethereum): with the
    sharing Go's flatten has (ModelSnapHeap.v) the layer object of block b3, which is never marked
    stale, answers 0 for slot 0 of contract 1 before Cap and 1 — block b4's value — after Cap has
    flattened b2..b4: a StateDB still attached to it reads what was NOT written at its root *)
Theorem C08_flatten_aliasing_refuted :
  h_storage 10 alias_heap 1 1 0 = Some 0 /\
  let h' := fst (h_flatten 10 alias_heap 2) in
  option_map hl_stale (nth_error (hh_layers h') 1) = Some false /\
  h_storage 10 h' 1 1 0 = Some 1.
Proof. exact flatten_aliasing. Qed.
Print Assumptions C08_flatten_aliasing_refuted.

(** ------------------------------------------------------------------------------------------------
    The StateDB's own snapshot data (snapAccounts, snapStorage, and the copies kept in the journal's
    resetObjectChange entries), [sstep] = every StateDB operation with that bookkeeping. *)

(** the bookkeeping never changes the StateDB proper: states and answers are those of [step] *)
Theorem C08_snapdata_projection : forall ss o,
  ss_st (fst (sstep ss o)) = fst (step (ss_st ss) o) /\ snd (sstep ss o) = snd (step (ss_st ss) o).
Proof. exact sstep_projects. Qed.
Print Assumptions C08_snapdata_projection.

(** a StateDB that is not attached to a snapshot layer keeps no snapshot data *)
Theorem C08_snapdata_detached : forall ss o, ss_snap ss = None ->
  ss_snap (fst (sstep ss o)) = None /\
  (ss_acc (fst (sstep ss o)) = ss_acc ss /\ ss_sto (fst (sstep ss o)) = ss_sto ss /\ ss_saved (fst (sstep ss o)) = ss_saved ss
   \/ exists de, o = OCommit de).
Proof. exact detached_keeps_nothing. Qed.
Print Assumptions C08_snapdata_detached.

(** RevertToSnapshot(id) restores snapAccounts, snapStorage and the saved blobs to their values at
    Snapshot(), for arbitrary operation sequences in between (nested snapshots and reverts,
    createObject over existing objects, ...) whenever id is still valid: what Commit later hands to
    the snapshot tree does not depend on reverted operations *)
Theorem C08_snapdata_revert_exact : forall ss0 p0 ops,
  sreachable ss0 -> ss_snap ss0 = Some p0 ->
  let id := st_nextrev (ss_st ss0) in
  let ssN := srun ops (fst (sstep ss0 OSnapshot)) in
  In id (map fst (st_revs (ss_st ssN))) ->
  ceqv (fst (sstep ssN (ORevert id))) ss0.
Proof. exact snap_revert_exact_reachable. Qed.
Print Assumptions C08_snapdata_revert_exact.

(** the hypotheses are satisfiable, non-vacuously: the reverted segment deletes snapshot data that the revert brings back *)
Example C08_snapdata_revert_exact_example :
  sreachable sexample_ss0 /\ ss_snap sexample_ss0 = Some 0 /\
  is_some (ss_acc sexample_ss0 1) = true /\ ss_sto sexample_ss0 1 0 = Some 7 /\
  let ssN := srun sexample_ops (fst (sstep sexample_ss0 OSnapshot)) in
  In (st_nextrev (ss_st sexample_ss0)) (map fst (st_revs (ss_st ssN))) /\
  is_some (ss_acc ssN 1) = false /\ ss_sto ssN 1 0 = None.
Proof. exact sexample_valid. Qed.
Print Assumptions C08_snapdata_revert_exact_example.

(** ------------------------------------------------------------------------------------------------
    From the StateDB to the snapshot tree.  [Sync base ss] (ProofsSnapBridge.v): every address either
    agrees between the account trie and the snapshot data laid over [base] (the content of the layer
    the StateDB is attached to), or has had its snapshot data cleared and is due to be rewritten by the
    next Finalise; live objects' storage roots agree with the flat storage; deleted objects have no
    snapshot data; pending addresses have objects; objects that are neither pending nor journal-dirty
    have nothing to flush. *)

(** PARTIAL (the hypothesis [Sync] is proved for a freshly opened StateDB only, see Open.v): what Commit
    hands to Tree.Update (stateObjectsDestruct, snapAccounts, snapStorage), laid over the parent
    layer's content, is the committed content — every account, and every slot of the flat storage
    (nothing dangling under absent accounts) *)
Theorem C08_snapshot_handover_partial : forall base ss de p, Sync base ss -> ss_snap ss = Some p ->
  exists ss' h, scommit de ss = (ss', snd (commit de (ss_st ss)), Some h) /\ ho_parent h = p /\
    forall a, over_acc1 (handover_layer h) base a = snd (commit de (ss_st ss)) a /\
              forall k, over_sto1 (handover_layer h) (flat base) a k = flat (snd (commit de (ss_st ss))) a k.
Proof. exact handover_content. Qed.
Print Assumptions C08_snapshot_handover_partial.

(** the hypothesis is satisfiable: a StateDB just opened on the layer's root *)
Theorem C08_sync_new : forall base l, Sync base (snew_state base l).
Proof. exact sync_new. Qed.
Print Assumptions C08_sync_new.

(** PARTIAL towards "[Sync] holds in every reachable state": Snapshot, Finalise and IntermediateRoot —
    the operations that rewrite the snapshot data wholesale (deletion of destructed accounts' data,
    updateStateObject, updateTrie) — keep it; setters, getters, RevertToSnapshot and Copy are open *)
Theorem C08_sync_block_ops_partial : forall base ss o p, Sync base ss -> ss_snap ss = Some p ->
  match o with OSnapshot | OFinalise _ | OIntermediateRoot _ => True | _ => False end ->
  Sync base (fst (sstep ss o)) /\ ss_snap (fst (sstep ss o)) = Some p.
Proof. exact sync_sstep_block_ops. Qed.
Print Assumptions C08_sync_block_ops_partial.

(** ------------------------------------------------------------------------------------------------
    SOURCE TIE: the decisions of Model.v / ModelSnap.v are the expressions go2coq regenerates from the
    Go sources on every check (Generated/C08Source.v): stateObject.empty, the zero-amount exits of
    AddBalance/SubBalance, SetState's no-op test, the dirty/pending/cached/destructed chain of
    GetState/GetCommittedState, updateTrie's skip test, touch's RIPEMD case, getStateObject,
    createObject/CreateAccount, Suicide, Empty, AddRefund/SubRefund (uint64 arithmetic and the panic
    test), Snapshot, RevertToSnapshot's search predicate and validity test, Finalise's deletion test,
    clearJournalAndRefund, IntermediateRoot/Commit's deleted tests, journal.append/dirty/revert (counter
    arithmetic, loop bounds = length - journalIndex), resetObjectChange/suicideChange/addLogChange
    reverts, diffLayer.AccountRLP/Storage (both bloom probes), accountRLP/storage walks, flatten,
    Tree.Cap/cap (layers == 0, the dive loop = layers - 1 parents, the genAbort test), diffToDisk's
    write-or-delete test; with the atoms (what is compared) pinned. *)
Theorem C08_source_tie : C08_source_tie_statement.
Proof. exact C08_source_tie_proof. Qed.
Print Assumptions C08_source_tie.

(** The decision-critical functions of the anchored code have exactly the decisions the source tie knows about
    (go2coq manifests, regenerated from /repo on every check; statement in SourceManifest.v). *)
From Kardia Require Import C08.SourceManifest.
Theorem C08_source_manifest : C08_source_manifest_statement.
Proof. exact C08_source_manifest_proof. Qed.
Print Assumptions C08_source_manifest.
