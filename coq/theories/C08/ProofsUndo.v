(** C08 proofs, part 2: every setter and every getter extends the journal by entries whose
    reverts bring the state back (up to [eqv]) — the one-step "undo . apply = id". *)
From Coq Require Import List ZArith NArith Bool Lia.
From Kardia Require Import C08.Model C08.ProofsEqv.
Import ListNotations.
Local Open Scope N_scope.

Definition undos (es : list entry) (s : state) : state := fold_left (fun t e => undo e t) es s.

Lemma undos_eqv : forall es s1 s2, eqv s1 s2 -> eqv (undos es s1) (undos es s2).
Proof. induction es; intros; cbn; auto. apply IHes. apply undo_eqv; auto. Qed.

Lemma pop1_undo : forall e j s, eqv (pop1 e j s) (undo e s).
Proof.
  intros; unfold pop1. eapply eqv_trans; [apply undo_dirty_eqv|]. apply undo_eqv. apply set_journal_eqv.
Qed.

Lemma rewind_undos : forall es s j, st_journal s = es ++ j -> eqv (rewind (length es) s) (undos es s).
Proof.
  induction es as [|e es IH]; intros s j H; [apply eqv_refl|].
  cbn [length app] in *. rewrite (rewind_S _ _ _ _ H). cbn [undos fold_left].
  eapply eqv_trans; [apply (IH _ j); apply pop1_journal|].
  apply undos_eqv. apply pop1_undo.
Qed.

(** [ext s0 s1]: s1 is s0 plus journalled changes; the revision bookkeeping is untouched *)
Definition ext (s0 s1 : state) : Prop :=
  st_revs s1 = st_revs s0 /\ st_nextrev s1 = st_nextrev s0 /\
  exists es, st_journal s1 = es ++ st_journal s0 /\ eqv (rewind (length es) s1) s0.

Lemma ext_intro : forall s0 s1 es,
  st_revs s1 = st_revs s0 -> st_nextrev s1 = st_nextrev s0 ->
  st_journal s1 = es ++ st_journal s0 -> eqv (undos es s1) s0 -> ext s0 s1.
Proof.
  intros s0 s1 es R N J E; repeat split; auto. exists es; split; auto.
  eapply eqv_trans; [apply (rewind_undos _ _ _ J)|exact E].
Qed.

Lemma ext_refl : forall s, ext s s.
Proof. intro s; apply (ext_intro s s nil); auto. apply eqv_refl. Qed.

Lemma ext_trans : forall s0 s1 s2, ext s0 s1 -> ext s1 s2 -> ext s0 s2.
Proof.
  intros s0 s1 s2 (R1 & N1 & es1 & J1 & E1) (R2 & N2 & es2 & J2 & E2).
  repeat split; try congruence. exists (es2 ++ es1). split.
  - rewrite J2, J1, app_assoc; reflexivity.
  - rewrite app_length, rewind_add.
    eapply eqv_trans; [|exact E1]. apply rewind_eqv; auto.
    destruct (rewind_journal (length es2) s2) as (A & _). rewrite A, J2.
    rewrite skipn_app, skipn_all, Nat.sub_diag. reflexivity.
Qed.

(** a step that only changes [eqv]-invisible things *)
Lemma ext_silent : forall s s', ctl s' = ctl s -> eqv s' s -> ext s s'.
Proof.
  intros s s' C E; unfold ctl in C; injection C as J R N.
  apply (ext_intro s s' nil); auto.
Qed.

Lemma ext_only_objs : forall s s', only_objs s s' -> ext s s'.
Proof.
  intros s s' H. apply ext_silent; [apply only_objs_glob; auto | apply eqv_sym, only_objs_eqv; auto].
Qed.

(** ---------------------------------------------------------------- building blocks *)

Definition has (s : state) (a : N) (o : obj) : Prop := st_objs s a = Some o /\ o_deleted o = false.

Lemma has_peek : forall s a o, has s a o -> peek s a = Some o /\ live s a = Some o.
Proof. intros s a o [H D]; unfold live, peek; rewrite H, D; auto. Qed.

Lemma jappend_fields : forall s e,
  st_journal (jappend s e) = e :: st_journal s /\ glob (jappend s e) = glob s /\
  st_objs (jappend s e) = st_objs s /\ st_revs (jappend s e) = st_revs s /\ st_nextrev (jappend s e) = st_nextrev s.
Proof. intros s e; unfold jappend, glob. destruct (dirtied e); ss; auto 10. Qed.

Lemma jappend_peek : forall s e x, peek (jappend s e) x = peek s x.
Proof.
  intros; unfold peek. destruct (jappend_fields s e) as (_ & G & O & _). unglob G. rewrite O. congruence.
Qed.

Lemma get_obj_spec : forall s a,
  only_objs s (fst (get_obj s a)) /\ snd (get_obj s a) = live s a /\
  forall o, snd (get_obj s a) = Some o -> has (fst (get_obj s a)) a o.
Proof.
  intros s a. rewrite get_obj_state. split; [apply get_deleted_state|]. split; [apply get_obj_res|].
  intros o H. pose proof (get_deleted_loaded s a) as L. rewrite get_deleted_res in L.
  rewrite get_obj_res in H. unfold live in H.
  destruct (peek s a) as [o'|]; [|discriminate]. destruct (o_deleted o') eqn:D; [discriminate|].
  inversion H; subst. split; auto.
Qed.

(** one journalled change of one live object *)
Lemma ext_field : forall s a o e o' f b,
  has s a o -> (forall t, undo e t = with_live t a f b) -> o_deleted o' = false ->
  obj_eqv (st_destruct s a) (f o') o ->
  ext s (put_obj (jappend s e) a o').
Proof.
  intros s a o e o' f b Hh Hu Hd He.
  destruct (jappend_fields s e) as (J & G & O & R & N).
  apply (ext_intro s _ [e]); [ss; auto | ss; auto | ss; rewrite J; reflexivity | ].
  - cbn [undos fold_left]. rewrite Hu.
    destruct (with_live_spec (put_obj (jappend s e) a o') a f b) as (G' & _ & P).
    eapply (eqv_frame s s); [apply eqv_refl | | reflexivity |].
    + rewrite G', <- G. unfold glob; ss; reflexivity.
    + intro x; rewrite P. destruct (has_peek _ _ _ Hh) as (Pk & _).
      eqb x a.
      * unfold live. rewrite peek_put, eqb_refl', Hd, Pk. cbn. exact He.
      * rewrite peek_put. apply N.eqb_neq in E; rewrite E. rewrite jappend_peek.
        apply opt_rel_refl, obj_eqv_refl.
Qed.

Lemma create_object_spec : forall s a,
  let '(s3, newobj, _) := create_object s a in
  ext s s3 /\ has s3 a newobj /\ newobj = new_object empty_account.
Proof.
  intros s a; unfold create_object.
  pose proof (get_deleted_res s a) as Hr. pose proof (get_deleted_state s a) as Hs.
  pose proof (get_deleted_loaded s a) as Hl.
  destruct (get_deleted s a) as [s1 prev]; ss. subst prev.
  destruct (only_objs_glob _ _ Hs) as (G1 & C1 & _). pose proof Hs as [_ Hp].
  assert (E1 : ext s s1) by (apply ext_only_objs; auto).
  destruct (peek s a) as [p|] eqn:Pk.
  - (* reset *)
    specialize (Hl p eq_refl).
    set (s1' := if st_destruct s1 a then s1 else set_destruct s1 (tupd (st_destruct s1) a true)).
    set (e := JResetObject a p (st_destruct s1 a)).
    destruct (jappend_fields s1' e) as (J & G & O & R & N).
    assert (F : st_journal s1' = st_journal s1 /\ st_revs s1' = st_revs s1 /\ st_nextrev s1' = st_nextrev s1 /\
                st_objs s1' = st_objs s1 /\ st_trie s1' = st_trie s1)
      by (unfold s1'; destruct (st_destruct s1 a); ss; auto).
    destruct F as (F1 & F2 & F3 & F4 & F5).
    split; [|split; [split; ss; [unfold fupd; rewrite eqb_refl'|]; reflexivity | reflexivity]].
    eapply ext_trans; [exact E1|].
    apply (ext_intro s1 _ [e]); [ss; congruence | ss; congruence | ss; rewrite J, F1; reflexivity | ].
    + cbn [undos fold_left]. unfold e at 1. unfold undo.
      assert (X : forall t, (forall x, st_destruct t x = st_destruct s1 x) -> st_trie t = st_trie s1 ->
                  (forall x, peek t x = peek s1 x) ->
                  st_refund t = st_refund s1 -> (forall x, st_logs t x = st_logs s1 x) -> st_logsize t = st_logsize s1 ->
                  (forall x, st_preimages t x = st_preimages s1 x) -> (forall x, st_aladdrs t x = st_aladdrs s1 x) ->
                  st_alslots t = st_alslots s1 -> (forall x y, st_transient t x y = st_transient s1 x y) -> eqv t s1).
      { intros t D T P ? ? ? ? ? ? ?. constructor; auto. intro x; rewrite P, D. apply opt_rel_refl, obj_eqv_refl. }
      unglob G.
      destruct (st_destruct s1 a) eqn:Da; apply X; ss; try congruence.
      all: try (intro x; unfold peek; ss; unfold fupd; rewrite O, F4, ?F5;
                eqb x a; [rewrite Hl; reflexivity | try rewrite H0; try reflexivity]).
      all: try (intros; congruence).
      * unfold s1' in *. rewrite Da in *. congruence.
      * unfold s1' in *. rewrite Da in *. ss. intro x. unfold tupd.
        match goal with H : st_destruct _ = _ |- _ => rewrite H end. ss. unfold tupd.
        eqb x a; [rewrite Da; reflexivity | reflexivity].
      * unfold s1' in *. rewrite Da in *. ss. congruence.
  - (* create *)
    set (e := JCreateObject a).
    destruct (jappend_fields s1 e) as (J & G & O & R & N).
    split; [|split; [split; ss; [unfold fupd; rewrite eqb_refl'|]; reflexivity | reflexivity]].
    eapply ext_trans; [exact E1|].
    apply (ext_intro s1 _ [e]); [ss; congruence | ss; congruence | ss; rewrite J; reflexivity | ].
    + cbn [undos fold_left]. unfold e at 1. unfold undo.
      eapply (eqv_frame s1 s1); [apply eqv_refl | | reflexivity |].
      * rewrite <- G. unfold glob; ss; reflexivity.
      * intro x; unfold peek; ss. unglob G. unfold fdel, fupd. rewrite O.
        eqb x a.
        -- assert (P0 : peek s1 a = None) by (rewrite Hp; exact Pk).
           unfold peek in P0. match goal with H : st_trie _ = st_trie s1 |- _ => rewrite H end.
           destruct (st_objs s1 a); [discriminate|]. rewrite P0. exact I.
        -- match goal with H : st_trie _ = st_trie s1 |- _ => rewrite H end.
           apply opt_rel_refl, obj_eqv_refl.
Qed.
