(** C08 proofs, part 2: every setter and every getter extends the journal by entries whose
    reverts bring the state back (up to [eqv]) — the one-step "undo . apply = id". *)
From Coq Require Import List ZArith NArith Bool Lia.
From Kardia Require Import C08.Model C08.ProofsEqv C08.ProofsInv.
Import ListNotations.
Local Open Scope N_scope.

Definition undos (es : list entry) (s : state) : state := fold_left (fun t e => undo e t) es s.

Lemma undos_eqv : forall es s1 s2, eqv s1 s2 -> eqv (undos es s1) (undos es s2).
Proof. induction es; intros; cbn; auto. apply IHes. apply undo_eqv; auto. Qed.

Lemma pop1_undo : forall e j s, eqv (pop1 e j s) (undo e s).
Proof.
  intros; unfold pop1. eapply eqv_trans; [apply undo_dirty_eqv|]. apply undo_eqv. apply set_journal_eqv.
Qed.

Lemma rewind_undos : forall es s j, st_journal s = es ++ j -> eqv (rewind (length es) s) (undos es s).
Proof.
  induction es as [|e es IH]; intros s j H; [apply eqv_refl|].
  cbn [length app] in *. rewrite (rewind_S _ _ _ _ H). cbn [undos fold_left].
  eapply eqv_trans; [apply (IH _ j); apply pop1_journal|].
  apply undos_eqv. apply pop1_undo.
Qed.

(** shape invariants the reverts rely on: no empty slot set in the access list (DeleteSlot
    truncates the slice when a set becomes empty) and logSize within uint64 *)
Definition NE (l : list (list N)) : Prop := Forall (fun sm => sm <> nil) l.
(** every index stored in accessList.addresses points into accessList.slots *)
Definition al_ok (s : state) : Prop :=
  forall a idx, st_aladdrs s a = Some (Some idx) -> nth_error (st_alslots s) idx <> None.
(** [wfU] is stable under journal reverts; [al_ok] is re-established after a revert from the
    state the revert returns to *)
Definition wfU (s : state) : Prop := NE (st_alslots s) /\ st_logsize s < two64.
Definition wfK (s : state) : Prop := wfU s /\ al_ok s.

Lemma wfK_frame : forall s s', st_alslots s' = st_alslots s -> st_aladdrs s' = st_aladdrs s ->
  st_logsize s' = st_logsize s -> wfK s -> wfK s'.
Proof. intros s s' A B C [[H1 H2] H3]; unfold wfK, wfU, al_ok; rewrite A, B, C; auto. Qed.

(** [ext s0 s1]: s1 is s0 plus journalled changes; the revision bookkeeping is untouched *)
Definition ext (s0 s1 : state) : Prop :=
  st_revs s1 = st_revs s0 /\ st_nextrev s1 = st_nextrev s0 /\ (wfK s0 -> wfK s1) /\
  pt s1 = pt s0 /\ (SI s0 -> SI s1) /\
  exists es, st_journal s1 = es ++ st_journal s0 /\ eqv (rewind (length es) s1) s0.

Lemma ext_intro : forall s0 s1 es,
  st_revs s1 = st_revs s0 -> st_nextrev s1 = st_nextrev s0 -> (wfK s0 -> wfK s1) ->
  st_journal s1 = es ++ st_journal s0 -> eqv (undos es s1) s0 ->
  pt s1 = pt s0 -> (SI s0 -> SI s1) -> ext s0 s1.
Proof.
  intros s0 s1 es R N W J E P I; split; [|split; [|split; [|split; [|split]]]]; auto. exists es; split; auto.
  eapply eqv_trans; [apply (rewind_undos _ _ _ J)|exact E].
Qed.

Lemma ext_refl : forall s, ext s s.
Proof. intro s; apply (ext_intro s s nil); auto. apply eqv_refl. Qed.

Lemma ext_trans : forall s0 s1 s2, ext s0 s1 -> ext s1 s2 -> ext s0 s2.
Proof.
  intros s0 s1 s2 (R1 & N1 & W1 & P1 & I1 & es1 & J1 & E1) (R2 & N2 & W2 & P2 & I2 & es2 & J2 & E2).
  split; [|split; [|split; [|split; [|split]]]]; try congruence; auto. exists (es2 ++ es1). split.
  - rewrite J2, J1, app_assoc; reflexivity.
  - rewrite app_length, rewind_add.
    eapply eqv_trans; [|exact E1]. apply rewind_eqv; auto.
    destruct (rewind_journal (length es2) s2) as (A & _). rewrite A, J2.
    rewrite skipn_app, skipn_all, Nat.sub_diag. reflexivity.
Qed.

(** a step that only changes [eqv]-invisible things *)
Lemma ext_silent : forall s s', ctl s' = ctl s -> (wfK s -> wfK s') -> eqv s' s ->
  pt s' = pt s -> (SI s -> SI s') -> ext s s'.
Proof.
  intros s s' C W E P I; unfold ctl in C; injection C as J R N.
  apply (ext_intro s s' nil); auto.
Qed.

Lemma ext_only_objs : forall s s', only_objs s s' -> ext s s'.
Proof.
  intros s s' H. apply ext_silent; [apply only_objs_glob; auto | | apply eqv_sym, only_objs_eqv; auto | | apply SI_only_objs; auto].
  - destruct (only_objs_glob _ _ H) as (G & _). unglob G. apply wfK_frame; congruence.
  - destruct H as [H _]. rewrite H. reflexivity.
Qed.

(** ---------------------------------------------------------------- building blocks *)

Definition has (s : state) (a : N) (o : obj) : Prop := st_objs s a = Some o /\ o_deleted o = false.

Lemma has_peek : forall s a o, has s a o -> peek s a = Some o /\ live s a = Some o.
Proof. intros s a o [H D]; unfold live, peek; rewrite H, D; auto. Qed.

Lemma jappend_fields : forall s e,
  st_journal (jappend s e) = e :: st_journal s /\ glob (jappend s e) = glob s /\
  st_objs (jappend s e) = st_objs s /\ st_revs (jappend s e) = st_revs s /\ st_nextrev (jappend s e) = st_nextrev s.
Proof. intros s e; unfold jappend, glob. destruct (dirtied e); ss; auto 10. Qed.

Lemma jappend_peek : forall s e x, peek (jappend s e) x = peek s x.
Proof.
  intros; unfold peek. destruct (jappend_fields s e) as (_ & G & O & _). unglob G. rewrite O. congruence.
Qed.

Lemma get_obj_spec : forall s a,
  only_objs s (fst (get_obj s a)) /\ snd (get_obj s a) = live s a /\
  forall o, snd (get_obj s a) = Some o -> has (fst (get_obj s a)) a o.
Proof.
  intros s a. rewrite get_obj_state. split; [apply get_deleted_state|]. split; [apply get_obj_res|].
  intros o H. pose proof (get_deleted_loaded s a) as L. rewrite get_deleted_res in L.
  rewrite get_obj_res in H. unfold live in H.
  destruct (peek s a) as [o'|]; [|discriminate]. destruct (o_deleted o') eqn:D; [discriminate|].
  inversion H; subst. split; auto.
Qed.

(** one journalled change of one live object *)
Lemma ext_field : forall s a o e o' f b,
  has s a o -> (forall t, undo e t = with_live t a f b) -> o_deleted o' = false ->
  obj_eqv (st_destruct s a) (f o') o ->
  (forall a0 p pd, e <> JResetObject a0 p pd) -> (coh o -> coh o') ->
  ext s (put_obj (jappend s e) a o').
Proof.
  intros s a o e o' f b Hh Hu Hd He Hne Hco.
  destruct (jappend_fields s e) as (J & G & O & R & N).
  apply (ext_intro s _ [e]); [ss; auto | ss; auto | | ss; rewrite J; reflexivity | | | ].
  3: { unfold pt; ss. unglob G. unfold jappend. destruct (dirtied e); ss; reflexivity. }
  3: { intro HI. apply SI_put; [apply SI_jappend; auto; intros; subst; exfalso; eapply Hne; eauto|].
       apply Hco. destruct HI as (_ & B & _). eapply B. apply Hh. }
  - unglob G. apply wfK_frame; ss; congruence.
  - cbn [undos fold_left]. rewrite Hu.
    destruct (with_live_spec (put_obj (jappend s e) a o') a f b) as (G' & _ & P).
    eapply (eqv_frame s s); [apply eqv_refl | | reflexivity | |].
    3: { rewrite with_live_crashed. unfold live. rewrite peek_put, eqb_refl', Hd. ss.
         unfold jappend. destruct (dirtied e); reflexivity. }
    + rewrite G', <- G. unfold glob; ss; reflexivity.
    + intro x; rewrite P. destruct (has_peek _ _ _ Hh) as (Pk & _).
      eqb x a.
      * unfold live. rewrite peek_put, eqb_refl', Hd, Pk. cbn. exact He.
      * rewrite peek_put. apply N.eqb_neq in E; rewrite E. rewrite jappend_peek.
        apply opt_rel_refl, obj_eqv_refl.
Qed.

Ltac sj := unfold jappend; cbn [dirtied]; ss.
Ltac wkf := (apply wfK_frame; sj; reflexivity).

Lemma reset_undo_eqv : forall s1 a p, st_objs s1 a = Some p ->
  eqv (undo (JResetObject a p (st_destruct s1 a))
        (put_obj (jappend (if st_destruct s1 a then s1 else set_destruct s1 (tupd (st_destruct s1) a true))
                          (JResetObject a p (st_destruct s1 a))) a (new_object empty_account))) s1.
Proof.
  intros s1 a p Hl.
  destruct (st_destruct s1 a) eqn:Da; unfold undo; sj; constructor; ss; auto.
  - intro x; unfold peek; ss; unfold fupd. eqb x a; [rewrite Hl|]; apply opt_rel_refl, obj_eqv_refl.
  - intro x; unfold tupd. eqb x a; auto.
  - intro x; unfold peek; ss; unfold fupd. eqb x a; [rewrite Hl|]; apply opt_rel_refl, obj_eqv_refl.
Qed.

Lemma create_undo_eqv : forall s1 a, peek s1 a = None ->
  eqv (undo (JCreateObject a) (put_obj (jappend s1 (JCreateObject a)) a (new_object empty_account))) s1.
Proof.
  intros s1 a Hp. unfold undo; sj; constructor; ss; auto.
  intro x; unfold peek in *; ss; unfold fdel, fupd. eqb x a.
  - destruct (st_objs s1 a); [discriminate|]. rewrite Hp. exact I.
  - apply opt_rel_refl, obj_eqv_refl.
Qed.

Lemma create_object_spec : forall s a,
  ext s (fst (fst (create_object s a))) /\ has (fst (fst (create_object s a))) a (snd (fst (create_object s a))) /\
  snd (fst (create_object s a)) = new_object empty_account.
Proof.
  intros s a; unfold create_object.
  pose proof (get_deleted_res s a) as Hr. pose proof (get_deleted_state s a) as Hs.
  pose proof (get_deleted_loaded s a) as Hl.
  destruct (get_deleted s a) as [s1 prev]; ss. subst prev.
  pose proof Hs as [_ Hp].
  assert (E1 : ext s s1) by (apply ext_only_objs; auto).
  split; [|split; [split; ss; [unfold fupd; rewrite eqb_refl'|]; reflexivity | reflexivity]].
  eapply ext_trans; [exact E1|].
  destruct (peek s a) as [p|] eqn:Pk.
  - specialize (Hl p eq_refl).
    apply (ext_intro s1 _ [JResetObject a p (st_destruct s1 a)]).
    + destruct (st_destruct s1 a); sj; reflexivity.
    + destruct (st_destruct s1 a); sj; reflexivity.
    + destruct (st_destruct s1 a); wkf.
    + destruct (st_destruct s1 a); sj; reflexivity.
    + cbn [undos fold_left]. apply reset_undo_eqv; auto.
    + destruct (st_destruct s1 a); unfold pt; sj; reflexivity.
    + intro HI. apply SI_put; [|apply coh_new].
      assert (Cp : coh p) by (destruct HI as (_ & B & _); eauto).
      apply SI_jappend; [|intros a0 p0 pd0 Heq; inversion Heq; subst; exact Cp].
      destruct (st_destruct s1 a); [exact HI|]. eapply SI_frame; [| | |exact HI]; reflexivity.
  - apply (ext_intro s1 _ [JCreateObject a]); [sj; reflexivity | sj; reflexivity | wkf | sj; reflexivity | | unfold pt; sj; reflexivity | ].
    + cbn [undos fold_left]. apply create_undo_eqv. rewrite Hp; auto.
    + intro HI. apply SI_put; [|apply coh_new]. apply SI_jappend; auto. intros; discriminate.
Qed.

Lemma get_or_new_spec : forall s a,
  ext s (fst (get_or_new s a)) /\ has (fst (get_or_new s a)) a (snd (get_or_new s a)).
Proof.
  intros s a; unfold get_or_new.
  destruct (get_obj_spec s a) as (H1 & H2 & H3).
  destruct (get_obj s a) as [s1 r]; ss. destruct r as [o|].
  - ss. split; [apply ext_only_objs; auto | apply H3; reflexivity].
  - destruct (create_object_spec s1 a) as (A & B & _).
    destruct (create_object s1 a) as [[s2 o] pv]; ss. split; auto.
    eapply ext_trans; [apply ext_only_objs; eauto | exact A].
Qed.

(** replacing a live object by an indistinguishable one is invisible *)
Lemma ext_put_eqv : forall s a o o', has s a o -> obj_eqv (st_destruct s a) o' o -> (coh o -> coh o') ->
  ext s (put_obj s a o').
Proof.
  intros s a o o' Hh He Hco. apply ext_silent; [reflexivity| wkf | | reflexivity |
    intro HI; apply SI_put; auto; apply Hco; destruct HI as (_ & B & _); eapply B; apply Hh].
  eapply (eqv_frame s s); [apply eqv_refl | reflexivity | reflexivity | | reflexivity].
  intro x; rewrite peek_put. eqb x a.
  - destruct (has_peek _ _ _ Hh) as (P & _). rewrite P. exact He.
  - apply opt_rel_refl, obj_eqv_refl.
Qed.

Lemma ext_set_balance : forall s a o v, has s a o -> ext s (obj_set_balance s a o v).
Proof.
  intros s a o v Hh; unfold obj_set_balance.
  eapply (ext_field s a o _ _ (fun o' => seto_data o' (setac_balance (o_data o') (ac_balance (o_data o)))) true); auto; try (intros; discriminate); try (intros Hc kk vv Hk; exact (Hc kk vv Hk)).
  - apply Hh.
  - constructor; ss; auto.
Qed.

Lemma ext_touch : forall s a, ext s (touch s a).
Proof.
  intros s a. apply (ext_intro s _ [JTouch a]).
  - unfold touch. destruct (N.eqb a ripemd); sj; reflexivity.
  - unfold touch. destruct (N.eqb a ripemd); sj; reflexivity.
  - unfold touch. destruct (N.eqb a ripemd); wkf.
  - unfold touch. destruct (N.eqb a ripemd); sj; reflexivity.
  - cbn [undos fold_left undo]. unfold touch. destruct (N.eqb a ripemd); sj; constructor; ss; auto;
      intro x; apply opt_rel_refl, obj_eqv_refl.
  - unfold touch, pt. destruct (N.eqb a ripemd); sj; reflexivity.
  - intro HI. apply SI_touch; auto.
Qed.

Lemma add_balance_ext : forall s a v, ext s (add_balance s a v).
Proof.
  intros s a v; unfold add_balance. destruct (get_or_new_spec s a) as (E & Hh).
  destruct (get_or_new s a) as [s1 o]; ss.
  destruct (Z.eqb v 0).
  - destruct (obj_empty o); [eapply ext_trans; [exact E | apply ext_touch] | exact E].
  - eapply ext_trans; [exact E | apply ext_set_balance; auto].
Qed.

Lemma sub_balance_ext : forall s a v, ext s (sub_balance s a v).
Proof.
  intros s a v; unfold sub_balance. destruct (get_or_new_spec s a) as (E & Hh).
  destruct (get_or_new s a) as [s1 o]; ss.
  destruct (Z.eqb v 0); [exact E|]. eapply ext_trans; [exact E | apply ext_set_balance; auto].
Qed.

Lemma set_balance_ext : forall s a v, ext s (set_balance s a v).
Proof.
  intros s a v; unfold set_balance. destruct (get_or_new_spec s a) as (E & Hh).
  destruct (get_or_new s a) as [s1 o]; ss. eapply ext_trans; [exact E | apply ext_set_balance; auto].
Qed.

Lemma set_nonce_ext : forall s a n, ext s (set_nonce s a n).
Proof.
  intros s a n; unfold set_nonce. destruct (get_or_new_spec s a) as (E & Hh).
  destruct (get_or_new s a) as [s1 o]; ss. eapply ext_trans; [exact E|].
  eapply (ext_field s1 a o _ _ (fun o' => seto_data o' (setac_nonce (o_data o') (ac_nonce (o_data o)))) true); auto; try (intros; discriminate); try (intros Hc kk vv Hk; exact (Hc kk vv Hk)).
  - apply Hh.
  - constructor; ss; auto.
Qed.

Lemma set_code_ext : forall s a c, ext s (set_code s a c).
Proof.
  intros s a c; unfold set_code. destruct (get_or_new_spec s a) as (E & Hh).
  destruct (get_or_new s a) as [s1 o]; ss. eapply ext_trans; [exact E|].
  eapply (ext_field s1 a o _ _ (fun o' => seto_dirtycode (seto_data o' (setac_code (o_data o') (ac_code (o_data o)))) true) true); auto; try (intros; discriminate); try (intros Hc kk vv Hk; exact (Hc kk vv Hk)).
  - apply Hh.
  - constructor; ss; auto.
Qed.

Lemma set_state_ext : forall s a k v, ext s (set_state s a k v).
Proof.
  intros s a k v; unfold set_state. destruct (get_or_new_spec s a) as (E & Hh).
  destruct (get_or_new s a) as [s1 o]; ss.
  pose proof (obj_get_state_val (st_destruct s1 a) o k) as Hv.
  pose proof (obj_get_state_obj (st_destruct s1 a) o k) as Ho.
  pose proof (obj_get_state_coh (st_destruct s1 a) o k) as Hcoh.
  destruct (obj_get_state (st_destruct s1 a) o k) as [oc prev]; ss. subst prev.
  (* the state after the cache fill *)
  set (o1 := match oc with Some o' => o' | None => o end).
  set (s2 := match oc with Some o' => put_obj s1 a o' | None => s1 end).
  assert (Ho1 : obj_eqv (st_destruct s1 a) o o1).
  { unfold o1; destruct oc; [apply Ho; reflexivity | apply obj_eqv_refl]. }
  assert (E2 : ext s1 s2).
  { unfold s2; destruct oc; [|apply ext_refl].
    eapply ext_put_eqv; [exact Hh | apply obj_eqv_sym; apply Ho; reflexivity | apply Hcoh; reflexivity]. }
  assert (H2 : has s2 a o1).
  { unfold s2, o1; destruct oc; [|exact Hh]. split; ss; [unfold fupd; rewrite eqb_refl'; reflexivity|].
    rewrite <- (oe_deleted _ _ _ (Ho o0 eq_refl)). apply Hh. }
  assert (D2 : st_destruct s2 a = st_destruct s1 a) by (unfold s2; destruct oc; reflexivity).
  destruct (N.eqb (state_val (st_destruct s1 a) o k) v).
  - eapply ext_trans; eauto.
  - eapply ext_trans; [exact E|]. eapply ext_trans; [exact E2|].
    eapply (ext_field s2 a o1 _ _ (fun o' => seto_dirty o' (fupd (o_dirty o') k (state_val (st_destruct s1 a) o k))) true); auto; try (intros; discriminate); try (intros Hc kk vv Hk; exact (Hc kk vv Hk)).
    + ss. apply H2.
    + rewrite D2. constructor; ss; auto.
      intro k'; unfold state_val at 1; ss. unfold fupd. eqb k' k.
      * apply (oe_state _ _ _ Ho1).
      * reflexivity.
Qed.

(** createObject over a live or deleted predecessor, whatever object ends up stored *)
Lemma reset_undo_eqv' : forall s1 a p t,
  st_objs s1 a = Some p ->
  glob t = glob (if st_destruct s1 a then s1 else set_destruct s1 (tupd (st_destruct s1) a true)) ->
  (forall x, x <> a -> st_objs t x = st_objs s1 x) ->
  st_crashed t = st_crashed s1 ->
  eqv (undo (JResetObject a p (st_destruct s1 a)) t) s1.
Proof.
  intros s1 a p t Hl G Hx Hcr. unfold undo.
  destruct (st_destruct s1 a) eqn:Da; unglob G; constructor; ss; try congruence; try (intros; congruence).
  - intro x; unfold peek; ss; unfold fupd. eqb x a; [rewrite Hl | rewrite Hx by auto; replace (st_trie t) with (st_trie s1) by congruence];
      apply opt_rel_refl, obj_eqv_refl.
  - intro x; unfold tupd. match goal with H : st_destruct t = _ |- _ => rewrite H end. unfold tupd.
    eqb x a; auto.
  - intro x; unfold peek; ss; unfold fupd. eqb x a; [rewrite Hl | rewrite Hx by auto; replace (st_trie t) with (st_trie s1) by congruence];
      apply opt_rel_refl, obj_eqv_refl.
Qed.

Lemma create_account_ext : forall s a, ext s (create_account s a).
Proof.
  intros s a; unfold create_account.
  pose proof (create_object_spec s a) as (A & B & C).
  unfold create_object in *.
  pose proof (get_deleted_res s a) as Hr. pose proof (get_deleted_state s a) as Hs.
  pose proof (get_deleted_loaded s a) as Hl.
  destruct (get_deleted s a) as [s1 prev]; ss. subst prev.
  destruct (peek s a) as [p|] eqn:Pk; [|exact A].
  destruct (o_deleted p); [exact A|].
  specialize (Hl p eq_refl).
  eapply ext_trans; [apply ext_only_objs; eauto|].
  apply (ext_intro s1 _ [JResetObject a p (st_destruct s1 a)]).
  - destruct (st_destruct s1 a); sj; reflexivity.
  - destruct (st_destruct s1 a); sj; reflexivity.
  - destruct (st_destruct s1 a); wkf.
  - destruct (st_destruct s1 a); sj; reflexivity.
  - cbn [undos fold_left]. apply reset_undo_eqv'; auto.
    + intros x Hx. apply N.eqb_neq in Hx. destruct (st_destruct s1 a); sj; unfold fupd; rewrite !Hx; reflexivity.
    + destruct (st_destruct s1 a); sj; reflexivity.
  - destruct (st_destruct s1 a); unfold pt; sj; reflexivity.
  - intro HI. assert (Cp : coh p) by (destruct HI as (_ & Bo & _); eauto).
    apply SI_put; [apply SI_put; [|apply coh_new]|intros kk vv Hk; discriminate].
    apply SI_jappend; [|intros a0 p0 pd0 Heq; inversion Heq; subst; exact Cp].
    destruct (st_destruct s1 a); [exact HI|]. eapply SI_frame; [| | |exact HI]; reflexivity.
Qed.

Lemma suicide_ext : forall s a, ext s (fst (suicide s a)).
Proof.
  intros s a; unfold suicide. destruct (get_obj_spec s a) as (H1 & H2 & H3).
  destruct (get_obj s a) as [s1 r]; ss. destruct r as [o|]; ss; [|apply ext_only_objs; auto].
  eapply ext_trans; [apply ext_only_objs; eauto|]. specialize (H3 o eq_refl).
  eapply (ext_field s1 a o _ _ (fun o' => seto_data (seto_suicided o' (o_suicided o)) (setac_balance (o_data o') (ac_balance (o_data o)))) false); auto; try (intros; discriminate); try (intros Hc kk vv Hk; exact (Hc kk vv Hk)).
  - apply H3.
  - constructor; ss; auto.
Qed.

(** ---------------------------------------------------------------- global counters and lists *)


Lemma refl_objs : forall s x, opt_rel (obj_eqv (st_destruct s x)) (peek s x) (peek s x).
Proof. intros; apply opt_rel_refl, obj_eqv_refl. Qed.

Ltac pk := (intro; unfold peek; ss; apply opt_rel_refl, obj_eqv_refl).
Ltac sig := (let HSI := fresh "HSI" in intro HSI;
             first [ eapply SI_glob1; [exact HSI | sj; reflexivity | sj; reflexivity | sj; reflexivity | reflexivity]
                   | eapply SI_glob2; [exact HSI | sj; reflexivity | sj; reflexivity | sj; reflexivity | reflexivity | reflexivity] ]).
Ltac sil := (let HSI := fresh "HSI" in intro HSI; eapply SI_frame; [| | |exact HSI]; reflexivity).

Lemma add_refund_ext : forall s g, ext s (add_refund s g).
Proof.
  intros s g; unfold add_refund. apply (ext_intro s _ [JRefund (st_refund s)]); try (sj; reflexivity); try sig; try wkf.
  cbn [undos fold_left undo]; sj. constructor; ss; auto; try pk.
Qed.

Lemma sub_refund_ext : forall s g, ext s (fst (sub_refund s g)).
Proof.
  intros s g; unfold sub_refund.
  destruct (N.ltb (st_refund (jappend s (JRefund (st_refund s)))) g); ss;
  (apply (ext_intro s _ [JRefund (st_refund s)]); try (sj; reflexivity); try sig; try wkf;
   cbn [undos fold_left undo]; sj; constructor; ss; auto; try pk).
Qed.

Lemma two64_pos : two64 <> 0. Proof. discriminate. Qed.

Lemma log_roundtrip : forall x, x < two64 -> ((x + 1) mod two64 + (two64 - 1)) mod two64 = x.
Proof.
  intros x H. unfold two64 in *.
  destruct (N.eq_dec (x + 1) 18446744073709551616) as [E|E].
  - rewrite E, N.mod_same by discriminate. cbn [N.add]. rewrite N.mod_small by lia. lia.
  - rewrite (N.mod_small (x + 1)) by lia.
    replace (x + 1 + (18446744073709551616 - 1)) with (x + 1 * 18446744073709551616) by lia.
    rewrite N.mod_add by discriminate. apply N.mod_small; lia.
Qed.

Lemma undo_addlog_snoc : forall t th l x, st_logs t th = l ++ [x] ->
  undo (JAddLog th) t = set_logsize (set_logs t (tupd (st_logs t) th l)) ((st_logsize t + (two64 - 1)) mod two64).
Proof.
  intros t th l x H; unfold undo. rewrite H. rewrite removelast_last.
  destruct (l ++ [x]) eqn:E; [destruct l; discriminate|]. reflexivity.
Qed.

Lemma add_log_ext : forall s p, st_logsize s < two64 -> ext s (add_log s p).
Proof.
  intros s p Hw; unfold add_log. apply (ext_intro s _ [JAddLog (st_thash s)]); try (sj; reflexivity); try sig.
  { unfold wfK, wfU, al_ok; sj. intros [[? ?] ?]; repeat split; auto. apply N.mod_lt. discriminate. }
  cbn [undos fold_left]. sj.
  erewrite undo_addlog_snoc; [|ss; unfold tupd; rewrite eqb_refl'; reflexivity].
  ss. constructor; ss; auto; try pk.
  - intro t; unfold tupd. eqb t (st_thash s); reflexivity.
  - apply log_roundtrip; auto.
Qed.

Lemma add_preimage_ext : forall s h p, ext s (add_preimage s h p).
Proof.
  intros s h p; unfold add_preimage. destruct (st_preimages s h) eqn:Ep; [apply ext_refl|].
  apply (ext_intro s _ [JAddPreimage h]); try (sj; reflexivity); try sig; try wkf.
  cbn [undos fold_left undo]; sj. constructor; ss; auto; try pk.
  intro x; unfold fdel, fupd. eqb x h; auto.
Qed.

Lemma set_transient_ext : forall s a k v, ext s (set_transient_state s a k v).
Proof.
  intros s a k v; unfold set_transient_state. destruct (N.eqb (st_transient s a k) v); [apply ext_refl|].
  apply (ext_intro s _ [JTransient a k (st_transient s a k)]); try (sj; reflexivity); try sig; try wkf.
  cbn [undos fold_left undo]; sj. constructor; ss; auto; try pk.
  intros x y. rewrite eqb_refl'. eqb x a; [|reflexivity]. unfold tupd. eqb y k; reflexivity.
Qed.

Lemma add_address_al_ext : forall s a, ext s (add_address_al s a).
Proof.
  intros s a; unfold add_address_al. destruct (st_aladdrs s a) eqn:Ea; [apply ext_refl|].
  apply (ext_intro s _ [JALAddr a]); try (sj; reflexivity); try sig.
  { unfold wfK, wfU, al_ok; sj. intros [[? ?] Hk]; repeat split; auto.
    intros x idx; unfold fupd. destruct (N.eqb x a); [discriminate|apply Hk]. }
  cbn [undos fold_left undo]; sj. constructor; ss; auto; try pk.
  intro x; unfold fdel, fupd. eqb x a; auto.
Qed.

Lemma nth_error_list_set : forall (V : Type) (l : list V) i v x, nth_error l i = Some x -> nth_error (list_set l i v) i = Some v.
Proof. induction l; destruct i; cbn; intros; try discriminate; eauto. Qed.

Lemma list_set_list_set : forall (V : Type) (l : list V) i v x, nth_error l i = Some x -> list_set (list_set l i v) i x = l.
Proof.
  induction l; destruct i; cbn; intros; try discriminate; auto.
  - inversion H; reflexivity.
  - f_equal; eauto.
Qed.

Lemma remove_n_notin : forall k l, mem k l = false -> remove_n k l = l.
Proof.
  induction l; cbn; intro H; [reflexivity|]. apply orb_false_iff in H. destruct H as [H1 H2].
  rewrite N.eqb_sym, H1. cbn. f_equal; auto.
Qed.

Lemma remove_n_snoc : forall k l, mem k l = false -> remove_n k (l ++ [k]) = l.
Proof.
  intros k l H. unfold remove_n. rewrite filter_app. cbn. rewrite eqb_refl'. cbn. rewrite app_nil_r.
  apply remove_n_notin; auto.
Qed.

Lemma delete_slot_al_spec : forall t a k idx sm,
  st_aladdrs t a = Some (Some idx) -> nth_error (st_alslots t) idx = Some sm ->
  delete_slot_al t a k =
  match remove_n k sm with
  | nil => set_aladdrs (set_alslots t (firstn idx (st_alslots t))) (fupd (st_aladdrs t) a None)
  | _ :: _ => set_alslots t (list_set (st_alslots t) idx (remove_n k sm))
  end.
Proof. intros t a k idx sm H1 H2; unfold delete_slot_al. rewrite H1, H2. reflexivity. Qed.

Lemma remove_n_single : forall k, remove_n k [k] = nil.
Proof. intro k; cbn. rewrite eqb_refl'. reflexivity. Qed.

Lemma NE_snoc : forall l k, NE l -> NE (l ++ [[k]]).
Proof. intros l k H; unfold NE in *. apply Forall_app; split; auto. constructor; [discriminate|constructor]. Qed.

Lemma NE_list_set : forall l i v, NE l -> v <> nil -> NE (list_set l i v).
Proof.
  unfold NE; induction l; destruct i; cbn; intros v H Hv; auto; inversion H; subst; constructor; auto.
Qed.

Lemma NE_firstn : forall l n, NE l -> NE (firstn n l).
Proof.
  unfold NE; induction l; destruct n; cbn; intro H; auto. inversion H; subst. constructor; auto.
Qed.

Lemma list_set_length : forall (V : Type) (l : list V) i v, length (list_set l i v) = length l.
Proof. induction l; destruct i; cbn; intros; auto. Qed.

Lemma al_ok_list_set : forall s i v, al_ok s -> al_ok (set_alslots s (list_set (st_alslots s) i v)).
Proof.
  intros s i v H a idx Ha; ss. specialize (H a idx Ha). rewrite nth_error_Some in *. rewrite list_set_length. exact H.
Qed.

Lemma al_ok_snoc : forall s a v (F : state -> state),
  al_ok s -> (forall t, st_aladdrs (F t) = st_aladdrs t) -> (forall t, st_alslots (F t) = st_alslots t) ->
  al_ok (F (set_alslots (set_aladdrs s (fupd (st_aladdrs s) a (Some (length (st_alslots s))))) (st_alslots s ++ [v]))).
Proof.
  intros s a v F H F1 F2 x idx. rewrite F1, F2; ss. unfold fupd. rewrite nth_error_Some, app_length. cbn [length].
  destruct (N.eqb x a).
  - intro E; inversion E; subst. lia.
  - intro E. specialize (H x idx E). rewrite nth_error_Some in H. lia.
Qed.

Lemma add_slot_al_ext : forall s a k, NE (st_alslots s) -> al_ok s -> ext s (add_slot_al s a k).
Proof.
  intros s a k Hne Hok; unfold add_slot_al.
  assert (Fn : nth_error (st_alslots s ++ [[k]]) (length (st_alslots s)) = Some [k]).
  { rewrite nth_error_app2 by lia. rewrite Nat.sub_diag. reflexivity. }
  assert (Ff : firstn (length (st_alslots s)) (st_alslots s ++ [[k]]) = st_alslots s).
  { rewrite firstn_app, Nat.sub_diag, firstn_all. cbn. apply app_nil_r. }
  destruct (st_aladdrs s a) as [[idx|]|] eqn:Ea.
  - destruct (nth_error (st_alslots s) idx) as [sm|] eqn:En.
    + destruct (mem k sm) eqn:Em; [apply ext_refl|].
      apply (ext_intro s _ [JALSlot a k]); try (sj; reflexivity); try sig.
      { unfold wfK, wfU; sj. intros [[? ?] Hk]; repeat split; auto; [apply NE_list_set; auto; destruct sm; discriminate|].
        apply (al_ok_list_set s idx (sm ++ [k]) Hk). }
      cbn [undos fold_left undo].
      erewrite delete_slot_al_spec; [| sj; exact Ea | sj; eapply nth_error_list_set; eauto].
      rewrite remove_n_snoc by auto.
      assert (sm <> nil).
      { unfold NE in Hne. rewrite Forall_forall in Hne. apply Hne. eapply nth_error_In; eauto. }
      destruct sm as [|x sm']; [congruence|]. sj.
      constructor; ss; auto; try pk. eapply list_set_list_set; eauto.
    + exfalso. exact (Hok a idx Ea En).
  - apply (ext_intro s _ [JALSlot a k]); try (sj; reflexivity); try sig.
    { unfold wfK, wfU; sj. intros [[? ?] Hk]; repeat split; auto; [apply NE_snoc; auto|].
      intros x idx; ss. unfold fupd. rewrite nth_error_Some, app_length. cbn [length].
      destruct (N.eqb x a); [intro E; inversion E; subst; lia | intro E; specialize (Hk x idx E); rewrite nth_error_Some in Hk; lia]. }
    cbn [undos fold_left undo].
    erewrite delete_slot_al_spec; [| sj; unfold fupd; rewrite eqb_refl'; reflexivity | sj; exact Fn].
    rewrite remove_n_single. sj. rewrite Ff.
    constructor; ss; auto; try pk.
    intro x; unfold fupd. eqb x a; auto.
  - apply (ext_intro s _ [JALSlot a k; JALAddr a]); try (sj; reflexivity); try sig.
    { unfold wfK, wfU; sj. intros [[? ?] Hk]; repeat split; auto; [apply NE_snoc; auto|].
      intros x idx; ss. unfold fupd. rewrite nth_error_Some, app_length. cbn [length].
      destruct (N.eqb x a); [intro E; inversion E; subst; lia | intro E; specialize (Hk x idx E); rewrite nth_error_Some in Hk; lia]. }
    cbn [undos fold_left undo].
    erewrite delete_slot_al_spec; [| sj; unfold fupd; rewrite eqb_refl'; reflexivity | sj; exact Fn].
    rewrite remove_n_single. sj. rewrite Ff.
    constructor; ss; auto; try pk.
    intro x; unfold fdel, fupd. eqb x a; auto.
Qed.

(** ---------------------------------------------------------------- getters *)

Lemma read_ext : forall s q, ext s (fst (read s q)).
Proof.
  intros s q.
  assert (A : forall a (f : option obj -> answer), ext s (fst (let (s1, r) := get_obj s a in (s1, f r)))).
  { intros a f. destruct (get_obj_spec s a) as (H1 & _). destruct (get_obj s a); ss. apply ext_only_objs; auto. }
  assert (B : forall c a k, ext s (fst (read_slot c s a k))).
  { intros c a k; unfold read_slot. destruct (get_obj_spec s a) as (H1 & H2 & H3).
    destruct (get_obj s a) as [s1 r]; ss. destruct r as [o|]; ss; [|apply ext_only_objs; auto].
    specialize (H3 o eq_refl).
    pose proof (obj_get_state_obj (st_destruct s1 a) o k) as Ho1.
    pose proof (obj_get_committed_obj (st_destruct s1 a) o k) as Ho2.
    pose proof (obj_get_state_coh (st_destruct s1 a) o k) as Hc1.
    pose proof (obj_get_committed_coh (st_destruct s1 a) o k) as Hc2.
    eapply ext_trans; [apply ext_only_objs; eauto|].
    destruct c.
    - destruct (obj_get_committed (st_destruct s1 a) o k) as [[o'|] v]; ss; [|apply ext_refl].
      eapply ext_put_eqv; [exact H3 | apply obj_eqv_sym; auto | apply Hc2; reflexivity].
    - destruct (obj_get_state (st_destruct s1 a) o k) as [[o'|] v]; ss; [|apply ext_refl].
      eapply ext_put_eqv; [exact H3 | apply obj_eqv_sym; auto | apply Hc1; reflexivity]. }
  destruct q; unfold read; auto; apply ext_refl.
Qed.

(** ---------------------------------------------------------------- the one-step theorem *)

(** operations that neither touch the revision stack nor clear the journal *)
Definition plain (o : op) : bool :=
  match o with
  | OSnapshot | ORevert _ | OFinalise _ | OIntermediateRoot _ | OCommit _ => false
  | _ => true
  end.

Lemma step_ext : forall s o, wfK s -> plain o = true -> ext s (fst (step s o)).
Proof.
  intros s o [[Hne Hls] Hok] Hp; destruct o; try discriminate; unfold step; ss.
  - apply create_account_ext.
  - apply add_balance_ext.
  - apply sub_balance_ext.
  - apply set_balance_ext.
  - apply set_nonce_ext.
  - apply set_code_ext.
  - apply set_state_ext.
  - pose proof (suicide_ext s a). destruct (suicide s a); ss; auto.
  - apply add_refund_ext.
  - pose proof (sub_refund_ext s g). destruct (sub_refund s g); ss; auto.
  - apply add_log_ext; auto.
  - apply add_preimage_ext.
  - apply add_address_al_ext.
  - apply add_slot_al_ext; auto.
  - apply set_transient_ext.
  - apply ext_silent; [reflexivity| wkf | | reflexivity | sil]. constructor; ss; auto; try pk.
  - apply read_ext.
Qed.
