(** C08 proofs, part 3: RevertToSnapshot restores every observable, for arbitrary operation
    sequences with arbitrarily nested snapshots/reverts in between. *)
From Coq Require Import List ZArith NArith Bool Lia.
From Kardia Require Import C08.Model C08.ProofsEqv C08.ProofsUndo.
Import ListNotations.
Local Open Scope N_scope.

(* conversion order only: unfold the big state transformers last *)
Strategy 1000 [finalise intermediate_root commit copy rewind revert_to].

(** ---------------------------------------------------------------- invariants *)

(** revision ids strictly ascending, all in [lo, hi) *)
Fixpoint asc (lo : N) (l : list (N * nat)) (hi : N) : Prop :=
  match l with
  | nil => lo <= hi
  | (i, _) :: t => lo <= i /\ asc (i + 1) t hi
  end.

Definition wf (s : state) : Prop := wfK s /\ asc 0 (st_revs s) (st_nextrev s).

Lemma asc_le : forall l lo hi, asc lo l hi -> lo <= hi.
Proof. induction l as [|[i j] t IH]; cbn; intros lo hi H; [auto|]. destruct H as [H1 H2]. apply IH in H2. lia. Qed.

Lemma asc_weaken : forall l lo lo' hi hi', asc lo l hi -> lo' <= lo -> hi <= hi' -> asc lo' l hi'.
Proof.
  induction l as [|[i j] t IH]; cbn; intros lo lo' hi hi' H A B; [lia|].
  destruct H as [H1 H2]. split; [lia|]. eapply IH; eauto. lia.
Qed.

Lemma asc_snoc : forall l lo hi j, asc lo l hi -> asc lo (l ++ [(hi, j)]) (hi + 1).
Proof.
  induction l as [|[i j'] t IH]; cbn; intros lo hi j H; [split; lia|].
  destruct H as [H1 H2]. split; auto.
Qed.

Lemma asc_firstn : forall n l lo hi, asc lo l hi -> asc lo (firstn n l) hi.
Proof.
  induction n; intros l lo hi H; cbn; [eapply asc_le; eauto|].
  destruct l as [|[i j] t]; cbn in *; auto. destruct H; split; auto.
Qed.

Lemma asc_In : forall l lo hi i, asc lo l hi -> In i (map fst l) -> lo <= i < hi.
Proof.
  induction l as [|[i' j] t IH]; cbn; intros lo hi i H Hi; [tauto|].
  destruct H as [H1 H2]. destruct Hi as [->|Hi].
  - apply asc_le in H2. lia.
  - apply (IH _ _ _ H2) in Hi. lia.
Qed.

Lemma asc_app : forall l1 l2 lo hi, asc lo (l1 ++ l2) hi -> exists mid, asc lo l1 mid /\ asc mid l2 hi.
Proof.
  induction l1 as [|[i j] t IH]; cbn; intros l2 lo hi H.
  - exists lo; split; [lia|auto].
  - destruct H as [H1 H2]. destruct (IH _ _ _ H2) as (mid & A & B). exists mid; auto.
Qed.

(** sort.Search finds the entry with the requested id *)
Lemma search_found : forall l1 lo hi id j l2 n,
  asc lo (l1 ++ (id, j) :: l2) hi -> search_rev (l1 ++ (id, j) :: l2) id n = (n + length l1)%nat.
Proof.
  induction l1 as [|[i j'] t IH]; cbn [app search_rev length]; intros lo hi id j l2 n H.
  - rewrite N.leb_refl. lia.
  - cbn in H. destruct H as [H1 H2].
    assert (i < id).
    { destruct (asc_app _ _ _ _ H2) as (mid & A & B). cbn in B. apply asc_le in A. lia. }
    replace (N.leb id i) with false by (symmetry; apply N.leb_gt; auto).
    rewrite (IH _ _ _ _ _ _ H2). lia.
Qed.

(** ---------------------------------------------------------------- wfK is stable *)

Lemma undo_wfK : forall e s, wfK s -> wfK (undo e s).
Proof.
  intros e s [Hn Hl].
  assert (W : forall a f b, wfK (with_live s a f b)).
  { intros a f b. destruct (with_live_spec s a f b) as (G & _). unglob G. unfold wfK. split; congruence. }
  destruct e; unfold undo; auto; try (split; ss; auto; fail).
  - destruct prevdestruct; split; ss; auto.
  - split.
    + destruct (st_logs s txhash); ss; auto.
    + ss. apply N.mod_lt. discriminate.
  - unfold delete_slot_al.
    destruct (st_aladdrs s a) as [[idx|]|]; try (split; ss; auto; fail).
    destruct (nth_error (st_alslots s) idx); try (split; ss; auto; fail).
    destruct (remove_n k l) eqn:Er; split; ss; auto.
    + apply NE_firstn; auto.
    + apply NE_list_set; auto. discriminate.
Qed.

Lemma rewind_wfK : forall n s, wfK s -> wfK (rewind n s).
Proof.
  induction n; intros s H; [exact H|]. cbn [rewind].
  destruct (st_journal s) as [|e j]; auto. apply IHn.
  assert (X : forall t, wfK t -> wfK (undo_dirty e t)).
  { intros t [? ?]; unfold undo_dirty. destruct (dirtied e); split; ss; auto. }
  apply X. apply undo_wfK. destruct H; split; ss; auto.
Qed.

(* NB: these three are proved on a destructed state by evaluation only; comparing two
   different big state expressions by conversion is what makes the kernel slow. *)
Ltac fields_by_eval s :=
  destruct s as [x0 x1 x2 x3 x4 x5 x6 x7 x8 x9 x10 x11 x12 x13 j x15 x16 x17 x18]; destruct j;
  (split; [reflexivity | split; [reflexivity | intros [H1 H2]; split; [exact H1 | exact H2]]]).

Lemma finalise_fields : forall de s,
  st_revs (finalise de s) = nil /\ st_nextrev (finalise de s) = st_nextrev s /\ (wfK s -> wfK (finalise de s)).
Proof. intros de s. fields_by_eval s. Qed.

Lemma intermediate_root_fields : forall de s,
  st_revs (intermediate_root de s) = nil /\ st_nextrev (intermediate_root de s) = st_nextrev s /\
  (wfK s -> wfK (intermediate_root de s)).
Proof. intros de s. fields_by_eval s. Qed.

Lemma commit_fields : forall de s,
  st_revs (fst (commit de s)) = nil /\ st_nextrev (fst (commit de s)) = st_nextrev s /\
  (wfK s -> wfK (fst (commit de s))).
Proof. intros de s. fields_by_eval s. Qed.

(** what RevertToSnapshot does, given what its search returns *)
Lemma revert_to_spec : forall s revid,
  let idx := search_rev (st_revs s) revid O in
  match nth_error (st_revs s) idx with
  | Some (id, jidx) =>
    if N.eqb id revid
    then revert_to s revid = (set_revs (rewind (length (st_journal s) - jidx) s) (firstn idx (st_revs s)), false)
    else revert_to s revid = (s, true)
  | None => revert_to s revid = (s, true)
  end.
Proof.
  intros s revid idx; unfold revert_to. fold idx.
  destruct (nth_error (st_revs s) idx) as [[id jidx]|]; [|reflexivity].
  destruct (N.eqb id revid); cbn [negb]; [|reflexivity].
  destruct (rewind_journal (length (st_journal s) - jidx) s) as (_ & R & _). rewrite R. reflexivity.
Qed.

Lemma snapshot_wf : forall s, wf s -> wf (fst (snapshot s)).
Proof.
  intros s [[Hn Hl] Ha]. unfold snapshot; ss. split; [split; ss; auto|]. ss. apply asc_snoc; auto.
Qed.

Lemma revert_wf : forall s id, wf s -> wf (fst (revert_to s id)).
Proof.
  intros s id [Hk Ha].
  pose proof (revert_to_spec s id) as H. cbn zeta in H.
  destruct (nth_error (st_revs s) (search_rev (st_revs s) id 0)) as [[i j]|];
    [destruct (N.eqb i id)|]; rewrite H; try (split; auto; fail).
  destruct (rewind_journal (length (st_journal s) - j) s) as (_ & R & N).
  pose proof (rewind_wfK (length (st_journal s) - j) s Hk) as [K1 K2].
  cbn [fst]. split; [split; [exact K1 | exact K2]|].
  change (asc 0 (firstn (search_rev (st_revs s) id 0) (st_revs s)) (st_nextrev (rewind (length (st_journal s) - j) s))).
  rewrite N. apply asc_firstn; auto.
Qed.

Lemma finalise_wf : forall de s, wf s -> wf (finalise de s).
Proof.
  intros de s [Hk Ha]. destruct (finalise_fields de s) as (A & B & C). split; auto. rewrite A, B. cbn [asc]. lia.
Qed.

Lemma intermediate_root_wf : forall de s, wf s -> wf (intermediate_root de s).
Proof.
  intros de s [Hk Ha]. destruct (intermediate_root_fields de s) as (A & B & C). split; auto. rewrite A, B. cbn [asc]. lia.
Qed.

Lemma commit_wf : forall de s, wf s -> wf (fst (commit de s)).
Proof.
  intros de s [Hk Ha]. destruct (commit_fields de s) as (A & B & C). split; auto. rewrite A, B. cbn [asc]. lia.
Qed.

Lemma step_wf : forall s o, wf s -> wf (fst (step s o)).
Proof.
  intros s o Hw.
  destruct (plain o) eqn:Hp.
  - destruct Hw as [Hk Ha]. destruct (step_ext s o Hk Hp) as (R & N & W & _). split; auto. rewrite R, N; auto.
  - destruct o; try discriminate.
    + exact (snapshot_wf s Hw).
    + pose proof (revert_wf s id Hw) as X. unfold step. destruct (revert_to s id); exact X.
    + exact (finalise_wf de s Hw).
    + exact (intermediate_root_wf de s Hw).
    + pose proof (commit_wf de s Hw) as X. unfold step. destruct (commit de s); exact X.
Qed.

Lemma run_wf : forall ops s, wf s -> wf (run ops s).
Proof. induction ops; intros s H; cbn [run]; auto. apply IHops, step_wf; auto. Qed.

Lemma new_state_wf : forall c, wf (new_state c).
Proof. intro c; split; [split; cbn; [constructor | reflexivity] | cbn; lia]. Qed.

Lemma copy_wf : forall s, wf s -> wf (copy s).
Proof. intros s [[Hn Hl] _]; split; [split; auto | cbn; lia]. Qed.

(** ---------------------------------------------------------------- the snapshot invariant *)

Lemma In_firstn : forall (A : Type) n (l : list A) x, In x (firstn n l) -> In x l.
Proof. induction n; destruct l; cbn; intros; try tauto. destruct H; auto. Qed.

Lemma set_revs_eqv : forall t r, eqv (set_revs t r) t.
Proof. intros; constructor; ss; auto; pk. Qed.

Section Revert.
  Variable s0 : state.
  Hypothesis wf0 : wf s0.

  (** [s0]: the state on which Snapshot() is called; it returns [st_nextrev s0] *)
  Definition Good (s : state) : Prop :=
    wf s /\ st_nextrev s0 < st_nextrev s /\
    exists es rest,
      st_journal s = es ++ st_journal s0 /\ eqv (rewind (length es) s) s0 /\
      st_revs s = st_revs s0 ++ (st_nextrev s0, length (st_journal s0)) :: rest /\
      Forall (fun r => (length (st_journal s0) <= snd r)%nat) rest.

  (** the snapshot has been invalidated (reverted past, or journal cleared) and can never come back *)
  Definition Dead (s : state) : Prop :=
    wf s /\ st_nextrev s0 < st_nextrev s /\ ~ In (st_nextrev s0) (map fst (st_revs s)).

  Lemma good_init : Good (fst (snapshot s0)).
  Proof.
    split; [apply snapshot_wf; auto|]. unfold snapshot; ss. split; [lia|].
    exists nil, nil. split; [reflexivity|split; [|split; [reflexivity|constructor]]]. cbn [length rewind]. constructor; ss; auto; pk.
  Qed.

  Lemma good_plain : forall s o, Good s -> plain o = true -> Good (fst (step s o)).
  Proof.
    intros s o (Hw & Hn & es & rest & J & E & R & F) Hp.
    pose proof (step_wf s o Hw) as Hw'.
    destruct Hw as [Hk _]. destruct (step_ext s o Hk Hp) as (R' & N' & _ & es' & J' & E').
    split; auto. split; [rewrite N'; auto|].
    exists (es' ++ es), rest. split; [|split; [|split]]; auto.
    - rewrite J', J, app_assoc; reflexivity.
    - rewrite app_length, rewind_add. eapply eqv_trans; [|exact E]. apply rewind_eqv; auto.
      destruct (rewind_journal (length es') (fst (step s o))) as (A & _). rewrite A, J'.
      rewrite skipn_app, skipn_all, Nat.sub_diag. reflexivity.
    - rewrite R'; auto.
  Qed.

  Lemma good_snapshot : forall s, Good s -> Good (fst (snapshot s)).
  Proof.
    intros s (Hw & Hn & es & rest & J & E & R & F).
    split; [apply snapshot_wf; auto|]. unfold snapshot; ss. split; [lia|].
    exists es, (rest ++ [(st_nextrev s, length (st_journal s))]). split; [|split; [|split]]; auto.
    - eapply eqv_trans; [|exact E]. apply rewind_eqv; [|reflexivity].
      constructor; ss; auto; pk.
    - rewrite R, <- app_assoc. reflexivity.
    - apply Forall_app; split; auto. constructor; [|constructor]. cbn [snd]. rewrite J, app_length. lia.
  Qed.

  Lemma ids_below : forall i, In i (map fst (st_revs s0)) -> i < st_nextrev s0.
  Proof. intros i H. destruct wf0 as [_ A]. apply (asc_In _ _ _ _ A H). Qed.

  Lemma good_revert : forall s i, Good s -> Good (fst (revert_to s i)) \/ Dead (fst (revert_to s i)).
  Proof.
    intros s i G. pose proof G as (Hw & Hn & es & rest & J & E & R & F).
    pose proof (revert_wf s i Hw) as Hw'.
    pose proof (revert_to_spec s i) as H. cbn zeta in H.
    set (idx := search_rev (st_revs s) i 0) in *.
    destruct (nth_error (st_revs s) idx) as [[i' jidx]|] eqn:En; [destruct (N.eqb i' i)|];
      rewrite H in *; cbn [fst] in *; auto.
    set (k := (length (st_journal s) - jidx)%nat) in *.
    destruct (rewind_journal k s) as (RJ & RR & RN).
    destruct (Nat.le_gt_cases idx (length (st_revs s0))) as [Hle|Hgt].
    - (* the target is the snapshot itself or older: it is gone for good *)
      right. split; auto. split; [ss; rewrite RN; auto|]. ss.
      rewrite R, firstn_app. replace (idx - length (st_revs s0))%nat with O by lia. cbn [firstn]. rewrite app_nil_r.
      intro Hi.
      assert (In (st_nextrev s0) (map fst (st_revs s0))).
      { apply in_map_iff in Hi. destruct Hi as (x & Hx1 & Hx2). apply in_map_iff. exists x; split; auto.
        eapply In_firstn; eauto. }
      apply ids_below in H0. lia.
    - (* a younger snapshot: still Good, with a shorter journal suffix *)
      left. split; auto. split; [ss; rewrite RN; auto|].
      assert (Hm : nth_error rest (idx - length (st_revs s0) - 1) = Some (i', jidx)).
      { rewrite R in En. rewrite nth_error_app2 in En by lia.
        destruct (idx - length (st_revs s0))%nat as [|m] eqn:Ed; [lia|]. cbn in En.
        replace (S m - 1)%nat with m by lia. exact En. }
      assert (Hj : (length (st_journal s0) <= jidx)%nat).
      { rewrite Forall_forall in F. apply (F (i', jidx)). eapply nth_error_In; eauto. }
      assert (Hk : (k <= length es)%nat) by (unfold k; rewrite J, app_length; lia).
      exists (skipn k es), (firstn (idx - length (st_revs s0) - 1) rest). split; [|split; [|split]].
      + ss. rewrite RJ, J, skipn_app. replace (k - length es)%nat with O by lia. reflexivity.
      + eapply eqv_trans; [apply rewind_eqv; [apply set_revs_eqv | reflexivity]|].
        rewrite <- rewind_add. rewrite skipn_length. replace (k + (length es - k))%nat with (length es) by lia. exact E.
      + ss. rewrite R, firstn_app. rewrite firstn_all2 by lia. f_equal.
        destruct (idx - length (st_revs s0))%nat as [|m] eqn:Ed; [lia|]. cbn [firstn]. f_equal. f_equal. lia.
      + rewrite Forall_forall in *. intros x Hx. apply F. eapply In_firstn; eauto.
  Qed.

  Lemma good_clear : forall s s', Good s -> wf s' -> st_revs s' = nil -> st_nextrev s' = st_nextrev s -> Dead s'.
  Proof. intros s s' (_ & Hn & _) W R N. split; auto. split; [rewrite N; auto|]. rewrite R. cbn; tauto. Qed.

  Lemma dead_step : forall s o, Dead s -> Dead (fst (step s o)).
  Proof.
    intros s o (Hw & Hn & Hi). pose proof (step_wf s o Hw) as Hw'. split; auto.
    destruct (plain o) eqn:Hp.
    - destruct Hw as [Hk _]. destruct (step_ext s o Hk Hp) as (R & N & _). rewrite R, N. auto.
    - destruct o; try discriminate.
      + unfold step, snapshot; ss. split; [lia|]. rewrite map_app, in_app_iff. cbn. intros [H|[H|[]]]; [tauto|lia].
      + pose proof (revert_to_spec s id) as H. cbn zeta in H. unfold step.
        destruct (nth_error (st_revs s) (search_rev (st_revs s) id 0)) as [[i j]|]; [destruct (N.eqb i id)|];
          rewrite H; cbn [fst]; auto.
        destruct (rewind_journal (length (st_journal s) - j) s) as (_ & RR & RN). ss. rewrite RN. split; auto.
        intro X. apply Hi. apply in_map_iff in X. destruct X as (x & X1 & X2). apply in_map_iff. exists x; split; auto.
        eapply In_firstn; eauto.
      + destruct (finalise_fields de s) as (A & B & _). unfold step; cbn [fst]. rewrite A, B. cbn; tauto.
      + destruct (intermediate_root_fields de s) as (A & B & _). unfold step; cbn [fst]. rewrite A, B. cbn; tauto.
      + destruct (commit_fields de s) as (A & B & _). unfold step. destruct (commit de s). cbn [fst] in *. rewrite A, B. cbn; tauto.
  Qed.

  Lemma good_step : forall s o, Good s -> Good (fst (step s o)) \/ Dead (fst (step s o)).
  Proof.
    intros s o G. destruct (plain o) eqn:Hp; [left; apply good_plain; auto|].
    destruct o; try discriminate.
    - left. exact (good_snapshot s G).
    - pose proof (good_revert s id G) as X. unfold step. destruct (revert_to s id); exact X.
    - right. destruct G as (Hw & G'). destruct (finalise_fields de s) as (A & B & _).
      apply (good_clear s); auto. split; auto. exact (finalise_wf de s Hw).
    - right. destruct G as (Hw & G'). destruct (intermediate_root_fields de s) as (A & B & _).
      apply (good_clear s); auto. split; auto. exact (intermediate_root_wf de s Hw).
    - right. destruct G as (Hw & G'). destruct (commit_fields de s) as (A & B & _).
      pose proof (commit_wf de s Hw) as W. unfold step. destruct (commit de s). cbn [fst] in *.
      apply (good_clear s); auto. split; auto.
  Qed.

  Lemma run_inv : forall ops s, Good s \/ Dead s -> Good (run ops s) \/ Dead (run ops s).
  Proof.
    induction ops as [|o t IH]; intros s H; cbn [run]; auto. apply IH.
    destruct H as [H|H]; [apply good_step; auto | right; apply dead_step; auto].
  Qed.

  Lemma good_revert_exact : forall s, Good s ->
    snd (revert_to s (st_nextrev s0)) = false /\ eqv (fst (revert_to s (st_nextrev s0))) s0.
  Proof.
    intros s (Hw & Hn & es & rest & J & E & R & F).
    pose proof (revert_to_spec s (st_nextrev s0)) as H. cbn zeta in H.
    destruct Hw as [_ Ha]. rewrite R in Ha.
    assert (S : search_rev (st_revs s) (st_nextrev s0) 0 = length (st_revs s0)).
    { rewrite R. erewrite search_found by eauto. reflexivity. }
    assert (Nth : nth_error (st_revs s) (length (st_revs s0)) = Some (st_nextrev s0, length (st_journal s0))).
    { rewrite R, nth_error_app2 by lia. rewrite Nat.sub_diag. reflexivity. }
    rewrite S, Nth, N.eqb_refl in H. rewrite H. cbn [fst snd]. split; auto.
    eapply eqv_trans; [apply set_revs_eqv|].
    replace (length (st_journal s) - length (st_journal s0))%nat with (length es) by (rewrite J, app_length; lia).
    exact E.
  Qed.

  (** the theorem, on states *)
  Theorem revert_exact_eqv : forall ops,
    let s1 := fst (snapshot s0) in
    let sN := run ops s1 in
    In (st_nextrev s0) (map fst (st_revs sN)) ->
    snd (revert_to sN (st_nextrev s0)) = false /\ eqv (fst (revert_to sN (st_nextrev s0))) s0.
  Proof.
    intros ops s1 sN Hin.
    destruct (run_inv ops s1 (or_introl good_init)) as [G|(_ & _ & D)].
    - apply good_revert_exact; auto.
    - contradiction.
  Qed.
End Revert.
