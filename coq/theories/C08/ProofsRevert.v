(** C08 proofs, part 3: RevertToSnapshot restores every observable, for arbitrary operation
    sequences with arbitrarily nested snapshots/reverts in between. *)
From Coq Require Import List ZArith NArith Bool Lia.
From Kardia Require Import C08.Model C08.ProofsEqv C08.ProofsUndo.
Import ListNotations.
Local Open Scope N_scope.

(* conversion order only: unfold the big state transformers last *)
Strategy 1000 [finalise intermediate_root commit copy rewind revert_to].

(** ---------------------------------------------------------------- invariants *)

(** revision ids strictly ascending, all in [lo, hi) *)
Fixpoint asc (lo : N) (l : list (N * nat)) (hi : N) : Prop :=
  match l with
  | nil => lo <= hi
  | (i, _) :: t => lo <= i /\ asc (i + 1) t hi
  end.


Lemma asc_le : forall l lo hi, asc lo l hi -> lo <= hi.
Proof. induction l as [|[i j] t IH]; cbn; intros lo hi H; [auto|]. destruct H as [H1 H2]. apply IH in H2. lia. Qed.

Lemma asc_weaken : forall l lo lo' hi hi', asc lo l hi -> lo' <= lo -> hi <= hi' -> asc lo' l hi'.
Proof.
  induction l as [|[i j] t IH]; cbn; intros lo lo' hi hi' H A B; [lia|].
  destruct H as [H1 H2]. split; [lia|]. eapply IH; eauto. lia.
Qed.

Lemma asc_snoc : forall l lo hi j, asc lo l hi -> asc lo (l ++ [(hi, j)]) (hi + 1).
Proof.
  induction l as [|[i j'] t IH]; cbn; intros lo hi j H; [split; lia|].
  destruct H as [H1 H2]. split; auto.
Qed.

Lemma asc_firstn : forall n l lo hi, asc lo l hi -> asc lo (firstn n l) hi.
Proof.
  induction n; intros l lo hi H; cbn; [eapply asc_le; eauto|].
  destruct l as [|[i j] t]; cbn in *; auto. destruct H; split; auto.
Qed.

Lemma asc_In : forall l lo hi i, asc lo l hi -> In i (map fst l) -> lo <= i < hi.
Proof.
  induction l as [|[i' j] t IH]; cbn; intros lo hi i H Hi; [tauto|].
  destruct H as [H1 H2]. destruct Hi as [->|Hi].
  - apply asc_le in H2. lia.
  - apply (IH _ _ _ H2) in Hi. lia.
Qed.

Lemma asc_app : forall l1 l2 lo hi, asc lo (l1 ++ l2) hi -> exists mid, asc lo l1 mid /\ asc mid l2 hi.
Proof.
  induction l1 as [|[i j] t IH]; cbn; intros l2 lo hi H.
  - exists lo; split; [lia|auto].
  - destruct H as [H1 H2]. destruct (IH _ _ _ H2) as (mid & A & B). exists mid; auto.
Qed.

(** sort.Search finds the entry with the requested id *)
Lemma search_found : forall l1 lo hi id j l2 n,
  asc lo (l1 ++ (id, j) :: l2) hi -> search_rev (l1 ++ (id, j) :: l2) id n = (n + length l1)%nat.
Proof.
  induction l1 as [|[i j'] t IH]; cbn [app search_rev length]; intros lo hi id j l2 n H.
  - rewrite N.leb_refl. lia.
  - cbn in H. destruct H as [H1 H2].
    assert (i < id).
    { destruct (asc_app _ _ _ _ H2) as (mid & A & B). cbn in B. apply asc_le in A. lia. }
    replace (N.leb id i) with false by (symmetry; apply N.leb_gt; auto).
    rewrite (IH _ _ _ _ _ _ H2). lia.
Qed.



Lemma In_firstn : forall (A : Type) n (l : list A) x, In x (firstn n l) -> In x l.
Proof. induction n; destruct l; cbn; intros; try tauto. destruct H; auto. Qed.

Lemma set_revs_eqv : forall t r, eqv (set_revs t r) t.
Proof. intros; constructor; ss; auto; pk. Qed.

(** ---------------------------------------------------------------- wfU is stable under reverts *)

Lemma undo_wfU : forall e s, wfU s -> wfU (undo e s).
Proof.
  intros e s [Hn Hl].
  assert (W : forall a f b, wfU (with_live s a f b)).
  { intros a f b. destruct (with_live_spec s a f b) as (G & _). unglob G. unfold wfU. split; congruence. }
  destruct e; unfold undo; auto; try (split; ss; auto; fail).
  - destruct prevdestruct; split; ss; auto.
  - split.
    + destruct (st_logs s txhash); ss; auto.
    + ss. apply N.mod_lt. discriminate.
  - unfold delete_slot_al.
    destruct (st_aladdrs s a) as [[idx|]|]; try (split; ss; auto; fail).
    destruct (nth_error (st_alslots s) idx); try (split; ss; auto; fail).
    destruct (remove_n k l) eqn:Er; split; ss; auto.
    + apply NE_firstn; auto.
    + apply NE_list_set; auto. discriminate.
Qed.

Lemma rewind_wfU : forall n s, wfU s -> wfU (rewind n s).
Proof.
  induction n; intros s H; [exact H|]. cbn [rewind].
  destruct (st_journal s) as [|e j]; auto. apply IHn.
  assert (X : forall t, wfU t -> wfU (undo_dirty e t)).
  { intros t [? ?]; unfold undo_dirty. destruct (dirtied e); split; ss; auto. }
  apply X. apply undo_wfU. destruct H; split; ss; auto.
Qed.

Lemma al_ok_eqv : forall s1 s2, eqv s1 s2 -> al_ok s1 -> al_ok s2.
Proof.
  intros s1 s2 H K a idx Ha. rewrite <- (ev_aladdrs _ _ H) in Ha. rewrite <- (ev_alslots _ _ H). eauto.
Qed.

(* NB: these three are proved on a destructed state by evaluation only; comparing two
   different big state expressions by conversion is what makes the kernel slow. *)
Ltac fields_by_eval s :=
  destruct s as [x0 x1 x2 x3 x4 x5 x6 x7 x8 x9 x10 x11 x12 x13 j x15 x16 x17 x18]; destruct j;
  (split; [reflexivity | split; [reflexivity | split; [reflexivity |
    intros [[H1 H2] H3]; split; [split; [exact H1 | exact H2] | unfold al_ok in *; exact H3]]]]).

Lemma finalise_fields : forall de s,
  st_revs (finalise de s) = nil /\ st_nextrev (finalise de s) = st_nextrev s /\
  st_crashed (finalise de s) = st_crashed s /\ (wfK s -> wfK (finalise de s)).
Proof. intros de s. fields_by_eval s. Qed.

Lemma intermediate_root_fields : forall de s,
  st_revs (intermediate_root de s) = nil /\ st_nextrev (intermediate_root de s) = st_nextrev s /\
  st_crashed (intermediate_root de s) = st_crashed s /\ (wfK s -> wfK (intermediate_root de s)).
Proof. intros de s. fields_by_eval s. Qed.

Lemma commit_fields : forall de s,
  st_revs (fst (commit de s)) = nil /\ st_nextrev (fst (commit de s)) = st_nextrev s /\
  st_crashed (fst (commit de s)) = st_crashed s /\ (wfK s -> wfK (fst (commit de s))).
Proof. intros de s. fields_by_eval s. Qed.

(** what RevertToSnapshot does, given what its search returns *)
Lemma revert_to_spec : forall s revid,
  let idx := search_rev (st_revs s) revid O in
  match nth_error (st_revs s) idx with
  | Some (id, jidx) =>
    if N.eqb id revid
    then revert_to s revid = (set_revs (rewind (length (st_journal s) - jidx) s) (firstn idx (st_revs s)), false)
    else revert_to s revid = (s, true)
  | None => revert_to s revid = (s, true)
  end.
Proof.
  intros s revid idx; unfold revert_to. fold idx.
  destruct (nth_error (st_revs s) idx) as [[id jidx]|]; [|reflexivity].
  destruct (N.eqb id revid); cbn [negb]; [|reflexivity].
  destruct (rewind_journal (length (st_journal s) - jidx) s) as (_ & R & _). rewrite R. reflexivity.
Qed.

(** ---------------------------------------------------------------- the reachable-state invariant *)

(** journal indices of the valid revisions: within the journal, non-decreasing *)
Definition jbound (s : state) : Prop := Forall (fun r => (snd r <= length (st_journal s))%nat) (st_revs s).
Definition jsorted (l : list (N * nat)) : Prop :=
  forall i j r1 r2, (i < j)%nat -> nth_error l i = Some r1 -> nth_error l j = Some r2 -> (snd r1 <= snd r2)%nat.
(** reverting to any valid revision lands in a state whose access list is well indexed *)
Definition PK (t : state) : Prop := al_ok t /\ st_crashed t = false.
Definition hist (s : state) : Prop :=
  Forall (fun r => PK (rewind (length (st_journal s) - snd r) s)) (st_revs s).

Definition wf (s : state) : Prop :=
  wfK s /\ asc 0 (st_revs s) (st_nextrev s) /\ jbound s /\ jsorted (st_revs s) /\ hist s /\ st_crashed s = false.

Lemma PK_eqv : forall s1 s2, eqv s1 s2 -> PK s1 -> PK s2.
Proof. intros s1 s2 H [A B]; split; [eapply al_ok_eqv; eauto | rewrite <- (ev_crashed _ _ H); auto]. Qed.

(** the crash flag is sticky *)
Lemma undo_sticky : forall e s, st_crashed s = true -> st_crashed (undo e s) = true.
Proof.
  intros e s H.
  assert (W : forall a f b, st_crashed (with_live s a f b) = true)
    by (intros a f b; rewrite with_live_crashed, H; destruct (live s a); [|destruct b]; reflexivity).
  destruct e; unfold undo; auto.
  - destruct prevdestruct; ss; auto.
  - destruct (st_logs s txhash); ss; auto.
  - unfold delete_slot_al. destruct (st_aladdrs s a) as [[idx|]|]; ss; auto.
    destruct (nth_error (st_alslots s) idx); ss; auto. destruct (remove_n k l); ss; auto.
Qed.

Lemma rewind_sticky : forall n s, st_crashed (rewind n s) = false -> st_crashed s = false.
Proof.
  induction n; intros s H; [exact H|]. cbn [rewind] in H. destruct (st_journal s) as [|e j]; auto.
  apply IHn in H. destruct (st_crashed s) eqn:E; auto.
  assert (X : st_crashed (undo e (set_journal s j)) = true) by (apply undo_sticky; ss; auto).
  unfold undo_dirty in H. destruct (dirtied e); ss; congruence.
Qed.

Lemma nth_error_firstn_lt : forall (A : Type) n (l : list A) m, (m < n)%nat -> nth_error (firstn n l) m = nth_error l m.
Proof.
  induction n; intros l m H; [lia|]. destruct l; [destruct m; reflexivity|]. destruct m; [reflexivity|].
  cbn. apply IHn. lia.
Qed.

Lemma jsorted_firstn : forall n l, jsorted l -> jsorted (firstn n l).
Proof.
  intros n l H i j r1 r2 Hij H1 H2.
  assert (A : forall m r, nth_error (firstn n l) m = Some r -> nth_error l m = Some r).
  { intros m r Hm. assert (m < n)%nat.
    { destruct (Nat.lt_ge_cases m n); auto.
      assert (X : nth_error (firstn n l) m = None) by (apply nth_error_None; rewrite firstn_length; lia). congruence. }
    rewrite nth_error_firstn_lt in Hm by auto. exact Hm. }
  eapply H; eauto.
Qed.

Lemma al_ok_rewind_eqv : forall n s1 s2, eqv s1 s2 -> st_journal s1 = st_journal s2 ->
  PK (rewind n s2) -> PK (rewind n s1).
Proof. intros n s1 s2 E J K. eapply PK_eqv; [apply eqv_sym, rewind_eqv; eauto | exact K]. Qed.

Lemma snapshot_wf : forall s, wf s -> wf (fst (snapshot s)).
Proof.
  intros s (Hk & Ha & Hb & Hs & Hh & Hc). unfold snapshot; cbn [fst].
  assert (E : eqv (set_revs (set_nextrev s (st_nextrev s + 1)) (st_revs s ++ [(st_nextrev s, length (st_journal s))])) s)
    by (constructor; ss; auto; pk).
  split; [apply (wfK_frame s); auto|]. split; [ss; apply asc_snoc; auto|]. split; [|split; [|split; [|exact Hc]]].
  - unfold jbound in *; ss. apply Forall_app; split; auto.
  - ss. intros i j r1 r2 Hij H1 H2.
    destruct (Nat.lt_ge_cases j (length (st_revs s))) as [Hj|Hj].
    + rewrite nth_error_app1 in H1 by lia. rewrite nth_error_app1 in H2 by lia. exact (Hs i j r1 r2 Hij H1 H2).
    + rewrite nth_error_app2 in H2 by lia.
      destruct (j - length (st_revs s))%nat eqn:Ej; [|destruct n; discriminate]. inversion H2; subst. cbn [snd].
      rewrite nth_error_app1 in H1 by lia.
      unfold jbound in Hb. rewrite Forall_forall in Hb. apply (Hb r1). eapply nth_error_In; eauto.
  - unfold hist in *; ss. apply Forall_app; split.
    + rewrite Forall_forall in *. intros r Hr. eapply al_ok_rewind_eqv; [exact E | reflexivity | apply Hh; auto].
    + constructor; [|constructor]. cbn [snd]. rewrite Nat.sub_diag. cbn [rewind].
      eapply PK_eqv; [apply eqv_sym; exact E | split; [apply Hk | exact Hc]].
Qed.

Lemma revert_wf : forall s id, wf s -> wf (fst (revert_to s id)).
Proof.
  intros s id Hw. pose proof Hw as (Hk & Ha & Hb & Hs & Hh & Hc).
  pose proof (revert_to_spec s id) as H. cbn zeta in H.
  set (idx := search_rev (st_revs s) id 0) in *.
  destruct (nth_error (st_revs s) idx) as [[i j]|] eqn:En;
    [destruct (N.eqb i id)|]; rewrite H; auto.
  cbn [fst].
  set (k := (length (st_journal s) - j)%nat).
  destruct (rewind_journal k s) as (RJ & RR & RN).
  assert (Hj : (j <= length (st_journal s))%nat).
  { unfold jbound in Hb. rewrite Forall_forall in Hb. apply (Hb (i, j)). eapply nth_error_In; eauto. }
  assert (Hal : PK (rewind k s)).
  { unfold hist in Hh. rewrite Forall_forall in Hh. apply (Hh (i, j)). eapply nth_error_In; eauto. }
  assert (Hlen : length (st_journal (rewind k s)) = j) by (rewrite RJ, skipn_length; unfold k; lia).
  assert (Hlt : forall r, In r (firstn idx (st_revs s)) -> (snd r <= j)%nat /\ In r (st_revs s)).
  { intros r Hr. apply In_nth_error in Hr. destruct Hr as [m Hm].
    assert (m < idx)%nat.
    { destruct (Nat.lt_ge_cases m idx); auto.
      assert (X : nth_error (firstn idx (st_revs s)) m = None) by (apply nth_error_None; rewrite firstn_length; lia). congruence. }
    rewrite nth_error_firstn_lt in Hm by auto.
    split; [apply (Hs m idx r (i, j)); auto | eapply nth_error_In; eauto]. }
  split; [|split; [|split; [|split; [|split; [|exact (proj2 Hal)]]]]].
  - destruct Hk as [Hu _]. pose proof (rewind_wfU k s Hu) as [K1 K2].
    split; [split; [exact K1 | exact K2]|]. intros a0 i0 Ha0. exact (proj1 Hal a0 i0 Ha0).
  - change (asc 0 (firstn idx (st_revs s)) (st_nextrev (rewind k s))). rewrite RN. apply asc_firstn; auto.
  - unfold jbound. change (Forall (fun r => (snd r <= length (st_journal (rewind k s)))%nat) (firstn idx (st_revs s))).
    rewrite Hlen. rewrite Forall_forall. intros r Hr. apply Hlt; auto.
  - change (jsorted (firstn idx (st_revs s))). apply jsorted_firstn; auto.
  - unfold hist.
    change (Forall (fun r => PK (rewind (length (st_journal (rewind k s)) - snd r)
                                    (set_revs (rewind k s) (firstn idx (st_revs s))))) (firstn idx (st_revs s))).
    rewrite Hlen. rewrite Forall_forall. intros r Hr. destruct (Hlt r Hr) as [L1 L2].
    eapply al_ok_rewind_eqv; [apply set_revs_eqv | reflexivity |].
    rewrite <- rewind_add. replace (k + (j - snd r))%nat with (length (st_journal s) - snd r)%nat by (unfold k; lia).
    unfold hist in Hh. rewrite Forall_forall in Hh. apply Hh; auto.
Qed.

Lemma clear_wf : forall s', wfK s' -> st_revs s' = nil -> st_crashed s' = false -> wf s'.
Proof.
  intros s' K R C. unfold wf, jbound, hist. rewrite R. split; [exact K|]. split; [cbn; apply N.le_0_l|].
  split; [constructor|]. split; [|split; [constructor|exact C]].
  intros i j r1 r2 _ H1. destruct i; discriminate.
Qed.

Lemma finalise_wf : forall de s, wf s -> wf (finalise de s).
Proof.
  intros de s (Hk & _ & _ & _ & _ & Hc). destruct (finalise_fields de s) as (A & B & D & C). apply clear_wf; auto. congruence.
Qed.

Lemma intermediate_root_wf : forall de s, wf s -> wf (intermediate_root de s).
Proof.
  intros de s (Hk & _ & _ & _ & _ & Hc). destruct (intermediate_root_fields de s) as (A & B & D & C). apply clear_wf; auto. congruence.
Qed.

Lemma commit_wf : forall de s, wf s -> wf (fst (commit de s)).
Proof.
  intros de s (Hk & _ & _ & _ & _ & Hc). destruct (commit_fields de s) as (A & B & D & C). apply clear_wf; auto. congruence.
Qed.

Lemma plain_wf : forall s o, wf s -> plain o = true -> wf (fst (step s o)).
Proof.
  intros s o (Hk & Ha & Hb & Hs & Hh & Hc) Hp.
  destruct (step_ext s o Hk Hp) as (R & N & W & _ & _ & es & J & E).
  split; [auto|]. split; [rewrite R, N; auto|]. split; [|split; [|split]].
  4: { apply (rewind_sticky (length es)). rewrite (ev_crashed _ _ E). exact Hc. }
  - unfold jbound in *. rewrite R, J, app_length. rewrite Forall_forall in *. intros r Hr. specialize (Hb r Hr). lia.
  - rewrite R; auto.
  - unfold hist in *. rewrite R, J, app_length. rewrite Forall_forall in *. intros r Hr.
    unfold jbound in Hb. rewrite Forall_forall in Hb. specialize (Hb r Hr).
    replace (length es + length (st_journal s) - snd r)%nat with (length es + (length (st_journal s) - snd r))%nat by lia.
    rewrite rewind_add. eapply al_ok_rewind_eqv; [exact E | | apply Hh; auto].
    destruct (rewind_journal (length es) (fst (step s o))) as (A & _). rewrite A, J.
    rewrite skipn_app, skipn_all, Nat.sub_diag. reflexivity.
Qed.

Lemma step_wf : forall s o, wf s -> wf (fst (step s o)).
Proof.
  intros s o Hw.
  destruct (plain o) eqn:Hp; [apply plain_wf; auto|].
  destruct o; try discriminate.
  - exact (snapshot_wf s Hw).
  - pose proof (revert_wf s id Hw) as X. unfold step. destruct (revert_to s id); exact X.
  - exact (finalise_wf de s Hw).
  - exact (intermediate_root_wf de s Hw).
  - pose proof (commit_wf de s Hw) as X. unfold step. destruct (commit de s); exact X.
Qed.

Lemma run_wf : forall ops s, wf s -> wf (run ops s).
Proof. induction ops; intros s H; cbn [run]; auto. apply IHops, step_wf; auto. Qed.

Lemma new_state_wf : forall c, wf (new_state c).
Proof.
  intro c. apply clear_wf; [|reflexivity|reflexivity].
  split; [split; cbn; [constructor | reflexivity]|]. intros a idx H; discriminate.
Qed.

Lemma copy_wf : forall s, wf s -> wf (copy s).
Proof.
  intros s ([[Hn Hl] Hok] & _). apply clear_wf; [|reflexivity|reflexivity].
  split; [split; auto|]. intros a idx H. exact (Hok a idx H).
Qed.

(** ---------------------------------------------------------------- the snapshot invariant *)

Section Revert.
  Variable s0 : state.
  Hypothesis wf0 : wf s0.

  (** [s0]: the state on which Snapshot() is called; it returns [st_nextrev s0] *)
  Definition Good (s : state) : Prop :=
    wf s /\ st_nextrev s0 < st_nextrev s /\
    exists es rest,
      st_journal s = es ++ st_journal s0 /\ eqv (rewind (length es) s) s0 /\
      st_revs s = st_revs s0 ++ (st_nextrev s0, length (st_journal s0)) :: rest /\
      Forall (fun r => (length (st_journal s0) <= snd r)%nat) rest.

  (** the snapshot has been invalidated (reverted past, or journal cleared) and can never come back *)
  Definition Dead (s : state) : Prop :=
    wf s /\ st_nextrev s0 < st_nextrev s /\ ~ In (st_nextrev s0) (map fst (st_revs s)).

  Lemma good_init : Good (fst (snapshot s0)).
  Proof.
    split; [apply snapshot_wf; auto|]. unfold snapshot; ss. split; [lia|].
    exists nil, nil. split; [reflexivity|split; [|split; [reflexivity|constructor]]]. cbn [length rewind]. constructor; ss; auto; pk.
  Qed.

  Lemma good_plain : forall s o, Good s -> plain o = true -> Good (fst (step s o)).
  Proof.
    intros s o (Hw & Hn & es & rest & J & E & R & F) Hp.
    pose proof (step_wf s o Hw) as Hw'.
    destruct Hw as (Hk & _). destruct (step_ext s o Hk Hp) as (R' & N' & _ & _ & _ & es' & J' & E').
    split; auto. split; [rewrite N'; auto|].
    exists (es' ++ es), rest. split; [|split; [|split]]; auto.
    - rewrite J', J, app_assoc; reflexivity.
    - rewrite app_length, rewind_add. eapply eqv_trans; [|exact E]. apply rewind_eqv; auto.
      destruct (rewind_journal (length es') (fst (step s o))) as (A & _). rewrite A, J'.
      rewrite skipn_app, skipn_all, Nat.sub_diag. reflexivity.
    - rewrite R'; auto.
  Qed.

  Lemma good_snapshot : forall s, Good s -> Good (fst (snapshot s)).
  Proof.
    intros s (Hw & Hn & es & rest & J & E & R & F).
    split; [apply snapshot_wf; auto|]. unfold snapshot; ss. split; [lia|].
    exists es, (rest ++ [(st_nextrev s, length (st_journal s))]). split; [|split; [|split]]; auto.
    - eapply eqv_trans; [|exact E]. apply rewind_eqv; [|reflexivity].
      constructor; ss; auto; pk.
    - rewrite R, <- app_assoc. reflexivity.
    - apply Forall_app; split; auto. constructor; [|constructor]. cbn [snd]. rewrite J, app_length. lia.
  Qed.

  Lemma ids_below : forall i, In i (map fst (st_revs s0)) -> i < st_nextrev s0.
  Proof. intros i H. destruct wf0 as (_ & A & _). apply (asc_In _ _ _ _ A H). Qed.

  Lemma good_revert : forall s i, Good s -> Good (fst (revert_to s i)) \/ Dead (fst (revert_to s i)).
  Proof.
    intros s i G. pose proof G as (Hw & Hn & es & rest & J & E & R & F).
    pose proof (revert_wf s i Hw) as Hw'.
    pose proof (revert_to_spec s i) as H. cbn zeta in H.
    set (idx := search_rev (st_revs s) i 0) in *.
    destruct (nth_error (st_revs s) idx) as [[i' jidx]|] eqn:En; [destruct (N.eqb i' i)|];
      rewrite H in *; cbn [fst] in *; auto.
    set (k := (length (st_journal s) - jidx)%nat) in *.
    destruct (rewind_journal k s) as (RJ & RR & RN).
    destruct (Nat.le_gt_cases idx (length (st_revs s0))) as [Hle|Hgt].
    - (* the target is the snapshot itself or older: it is gone for good *)
      right. split; auto. split; [ss; rewrite RN; auto|]. ss.
      rewrite R, firstn_app. replace (idx - length (st_revs s0))%nat with O by lia. cbn [firstn]. rewrite app_nil_r.
      intro Hi.
      assert (In (st_nextrev s0) (map fst (st_revs s0))).
      { apply in_map_iff in Hi. destruct Hi as (x & Hx1 & Hx2). apply in_map_iff. exists x; split; auto.
        eapply In_firstn; eauto. }
      apply ids_below in H0. lia.
    - (* a younger snapshot: still Good, with a shorter journal suffix *)
      left. split; auto. split; [ss; rewrite RN; auto|].
      assert (Hm : nth_error rest (idx - length (st_revs s0) - 1) = Some (i', jidx)).
      { rewrite R in En. rewrite nth_error_app2 in En by lia.
        destruct (idx - length (st_revs s0))%nat as [|m] eqn:Ed; [lia|]. cbn in En.
        replace (S m - 1)%nat with m by lia. exact En. }
      assert (Hj : (length (st_journal s0) <= jidx)%nat).
      { rewrite Forall_forall in F. apply (F (i', jidx)). eapply nth_error_In; eauto. }
      assert (Hk : (k <= length es)%nat) by (unfold k; rewrite J, app_length; lia).
      exists (skipn k es), (firstn (idx - length (st_revs s0) - 1) rest). split; [|split; [|split]].
      + ss. rewrite RJ, J, skipn_app. replace (k - length es)%nat with O by lia. reflexivity.
      + eapply eqv_trans; [apply rewind_eqv; [apply set_revs_eqv | reflexivity]|].
        rewrite <- rewind_add. rewrite skipn_length. replace (k + (length es - k))%nat with (length es) by lia. exact E.
      + ss. rewrite R, firstn_app. rewrite firstn_all2 by lia. f_equal.
        destruct (idx - length (st_revs s0))%nat as [|m] eqn:Ed; [lia|]. cbn [firstn]. f_equal. f_equal. lia.
      + rewrite Forall_forall in *. intros x Hx. apply F. eapply In_firstn; eauto.
  Qed.

  Lemma good_clear : forall s s', Good s -> wf s' -> st_revs s' = nil -> st_nextrev s' = st_nextrev s -> Dead s'.
  Proof. intros s s' (_ & Hn & _) W R N. split; auto. split; [rewrite N; auto|]. rewrite R. cbn; tauto. Qed.

  Lemma dead_step : forall s o, Dead s -> Dead (fst (step s o)).
  Proof.
    intros s o (Hw & Hn & Hi). pose proof (step_wf s o Hw) as Hw'. split; auto.
    destruct (plain o) eqn:Hp.
    - destruct Hw as (Hk & _). destruct (step_ext s o Hk Hp) as (R & N & _). rewrite R, N. auto.
    - destruct o; try discriminate.
      + unfold step, snapshot; ss. split; [lia|]. rewrite map_app, in_app_iff. cbn. intros [H|[H|[]]]; [tauto|lia].
      + pose proof (revert_to_spec s id) as H. cbn zeta in H. unfold step.
        destruct (nth_error (st_revs s) (search_rev (st_revs s) id 0)) as [[i j]|]; [destruct (N.eqb i id)|];
          rewrite H; cbn [fst]; auto.
        destruct (rewind_journal (length (st_journal s) - j) s) as (_ & RR & RN). ss. rewrite RN. split; auto.
        intro X. apply Hi. apply in_map_iff in X. destruct X as (x & X1 & X2). apply in_map_iff. exists x; split; auto.
        eapply In_firstn; eauto.
      + destruct (finalise_fields de s) as (A & B & _). unfold step; cbn [fst]. rewrite A, B. cbn; tauto.
      + destruct (intermediate_root_fields de s) as (A & B & _). unfold step; cbn [fst]. rewrite A, B. cbn; tauto.
      + destruct (commit_fields de s) as (A & B & _). unfold step. destruct (commit de s). cbn [fst] in *. rewrite A, B. cbn; tauto.
  Qed.

  Lemma good_step : forall s o, Good s -> Good (fst (step s o)) \/ Dead (fst (step s o)).
  Proof.
    intros s o G. destruct (plain o) eqn:Hp; [left; apply good_plain; auto|].
    destruct o; try discriminate.
    - left. exact (good_snapshot s G).
    - pose proof (good_revert s id G) as X. unfold step. destruct (revert_to s id); exact X.
    - right. destruct G as (Hw & G'). destruct (finalise_fields de s) as (A & B & _).
      apply (good_clear s); auto. split; auto. exact (finalise_wf de s Hw).
    - right. destruct G as (Hw & G'). destruct (intermediate_root_fields de s) as (A & B & _).
      apply (good_clear s); auto. split; auto. exact (intermediate_root_wf de s Hw).
    - right. destruct G as (Hw & G'). destruct (commit_fields de s) as (A & B & _).
      pose proof (commit_wf de s Hw) as W. unfold step. destruct (commit de s). cbn [fst] in *.
      apply (good_clear s); auto. split; auto.
  Qed.

  Lemma run_inv : forall ops s, Good s \/ Dead s -> Good (run ops s) \/ Dead (run ops s).
  Proof.
    induction ops as [|o t IH]; intros s H; cbn [run]; auto. apply IH.
    destruct H as [H|H]; [apply good_step; auto | right; apply dead_step; auto].
  Qed.

  Lemma good_revert_exact : forall s, Good s ->
    snd (revert_to s (st_nextrev s0)) = false /\ eqv (fst (revert_to s (st_nextrev s0))) s0.
  Proof.
    intros s (Hw & Hn & es & rest & J & E & R & F).
    pose proof (revert_to_spec s (st_nextrev s0)) as H. cbn zeta in H.
    destruct Hw as (_ & Ha & _). rewrite R in Ha.
    assert (S : search_rev (st_revs s) (st_nextrev s0) 0 = length (st_revs s0)).
    { rewrite R. erewrite search_found by eauto. reflexivity. }
    assert (Nth : nth_error (st_revs s) (length (st_revs s0)) = Some (st_nextrev s0, length (st_journal s0))).
    { rewrite R, nth_error_app2 by lia. rewrite Nat.sub_diag. reflexivity. }
    rewrite S, Nth, N.eqb_refl in H. rewrite H. cbn [fst snd]. split; auto.
    eapply eqv_trans; [apply set_revs_eqv|].
    replace (length (st_journal s) - length (st_journal s0))%nat with (length es) by (rewrite J, app_length; lia).
    exact E.
  Qed.

  (** the theorem, on states *)
  Theorem revert_exact_eqv : forall ops,
    let s1 := fst (snapshot s0) in
    let sN := run ops s1 in
    In (st_nextrev s0) (map fst (st_revs sN)) ->
    snd (revert_to sN (st_nextrev s0)) = false /\ eqv (fst (revert_to sN (st_nextrev s0))) s0.
  Proof.
    intros ops s1 sN Hin.
    destruct (run_inv ops s1 (or_introl good_init)) as [G|(_ & _ & D)].
    - apply good_revert_exact; auto.
    - contradiction.
  Qed.
End Revert.
