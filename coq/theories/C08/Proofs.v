(** C08 proofs, part 4: the statements used by Properties.v. *)
From Coq Require Import List ZArith NArith Bool Lia.
From Kardia Require Import C08.Model C08.ProofsEqv C08.ProofsUndo C08.ProofsRevert.
Import ListNotations.
Local Open Scope N_scope.

(** one step: the journal entries an operation appends undo it on every observable *)
Lemma undo_apply : forall s o,
  wf s -> plain o = true ->
  exists es, st_journal (fst (step s o)) = es ++ st_journal s /\
             forall q, ask (rewind (length es) (fst (step s o))) q = ask s q.
Proof.
  intros s o [Hk _] Hp. destruct (step_ext s o Hk Hp) as (_ & _ & _ & _ & _ & es & J & E).
  exists es; split; auto. intro q; apply ask_eqv; auto.
Qed.

(** each single journal entry: its revert is a function of the observable state only
    (two indistinguishable states stay indistinguishable) *)
Lemma undo_congruence : forall e s1 s2, eqv s1 s2 -> forall q, ask (undo e s1) q = ask (undo e s2) q.
Proof. intros e s1 s2 H q; apply ask_eqv, undo_eqv; auto. Qed.

Lemma revert_exact : forall s ops,
  wf s ->
  let s1 := fst (snapshot s) in
  let id := snd (snapshot s) in
  let sN := run ops s1 in
  In id (map fst (st_revs sN)) ->
  snd (revert_to sN id) = false /\ forall q, ask (fst (revert_to sN id)) q = ask s q.
Proof.
  intros s ops Hw s1 id sN Hin.
  destruct (revert_exact_eqv s Hw ops Hin) as (A & B). split; auto.
  intro q; apply ask_eqv; auto.
Qed.

(** the invariant [wf] holds in every state a harness (or the node) can reach *)
Inductive reachable : state -> Prop :=
| r_new : forall c, reachable (new_state c)
| r_step : forall s o, reachable s -> reachable (fst (step s o))
| r_copy : forall s, reachable s -> reachable (copy s).

Lemma wf_reachable : forall s, reachable s -> wf s.
Proof. induction 1; auto using new_state_wf, step_wf, copy_wf. Qed.

(** the hypotheses of [revert_exact] are satisfiable, with a nested snapshot that is reverted
    inside and a snapshot id that is still valid at the end *)
Definition example_ops : list op :=
  [OSetState 1 0 7; OSnapshot; OSuicide 1; OAddSlotAL 1 2; ORevert 1; OAddBalance 3 0; OAddLog 4].
Definition example_s : state := run [OSetBalance 1 5; OSetState 1 0 9] (new_state fempty).

Lemma example_valid :
  In (snd (snapshot example_s)) (map fst (st_revs (run example_ops (fst (snapshot example_s))))).
Proof. vm_compute. auto. Qed.

(** copies: the model's states are values, so work on a copy cannot reach the original.
    Interleavings over the pair (original, copy) factor into the two separate runs. *)
Inductive side := OnOriginal | OnCopy.

Fixpoint run2 (l : list (side * op)) (w : state * state) : state * state :=
  match l with
  | nil => w
  | (OnOriginal, o) :: t => run2 t (fst (step (fst w) o), snd w)
  | (OnCopy, o) :: t => run2 t (fst w, fst (step (snd w) o))
  end.

Definition pick (sd : side) (l : list (side * op)) : list op :=
  map snd (filter (fun x => match fst x, sd with OnOriginal, OnOriginal | OnCopy, OnCopy => true | _, _ => false end) l).

Lemma copy_independent : forall l s,
  run2 l (s, copy s) = (run (pick OnOriginal l) s, run (pick OnCopy l) (copy s)).
Proof.
  assert (G : forall l a b, run2 l (a, b) = (run (pick OnOriginal l) a, run (pick OnCopy l) b)).
  { induction l as [|[[|] o] t IH]; intros a b; cbn [run2 fst snd]; [reflexivity| |]; rewrite IH; reflexivity. }
  intros; apply G.
Qed.

(** a fresh Copy shows the same observables as the original, provided the objects that Copy
    does not carry over (clean ones) agree with the account trie *)
Definition kept (s : state) (a : N) : bool :=
  (N.ltb 0 (st_dirties s a) && is_some (st_objs s a)) || st_pending s a || st_dirtyset s a.

Definition clean_unkept (s : state) : Prop :=
  forall a o, st_objs s a = Some o -> kept s a = false ->
    opt_rel (obj_eqv (st_destruct s a)) (Some o) (option_map new_object (st_trie s a)).

Lemma copy_observables : forall s, st_crashed s = false -> clean_unkept s -> forall q, ask (copy s) q = ask s q.
Proof.
  intros s Hcr Hc q. apply ask_eqv. constructor; cbn [copy st_trie st_destruct st_refund st_logs st_logsize
    st_preimages st_aladdrs st_alslots st_transient st_crashed]; auto.
  intro a. unfold peek; cbn [copy st_objs st_trie st_destruct]. fold (kept s a).
  destruct (kept s a) eqn:K.
  - destruct (st_objs s a); [cbn; apply obj_eqv_refl|]. apply opt_rel_refl, obj_eqv_refl.
  - destruct (st_objs s a) as [o|] eqn:Eo; [|apply opt_rel_refl, obj_eqv_refl].
    specialize (Hc a o Eo K). destruct (st_trie s a); cbn in *; [apply obj_eqv_sym; auto | tauto].
Qed.

(** read-back: a StateDB opened on committed content returns exactly that content *)
Lemma readback_fresh : forall c a k,
  ask (new_state c) (QExist a) = AB (is_some (c a)) /\
  ask (new_state c) (QBalance a) = AZ (match c a with Some d => ac_balance d | None => 0%Z end) /\
  ask (new_state c) (QNonce a) = AN (match c a with Some d => ac_nonce d | None => 0 end) /\
  ask (new_state c) (QCodeHash a) = AON (match c a with Some d => Some (ac_code d) | None => None end) /\
  ask (new_state c) (QState a k) = AN (match c a with Some d => ac_storage d k | None => 0 end) /\
  ask (new_state c) (QCommitted a k) = AN (match c a with Some d => ac_storage d k | None => 0 end).
Proof.
  intros c a k. unfold ask, read, read_slot, get_obj, get_deleted, new_state; cbn [st_objs st_trie fempty].
  destruct (c a) as [d|]; cbn; auto 10.
Qed.

(** Commit returns the account trie of the committing StateDB *)
Lemma commit_content : forall de s, snd (commit de s) = st_trie (fst (commit de s)).
Proof. intros; reflexivity. Qed.

(** the RIPEMD exception: a touch inside a reverted snapshot changes the finalised content *)
Definition ripemd_world : state := new_state (fupd fempty ripemd empty_account).
Definition with_reverted_touch : list op := [OSnapshot; OAddBalance ripemd 0; ORevert 0; OIntermediateRoot true].
Definition surviving_only : list op := [OIntermediateRoot true].

Lemma ripemd_exception :
  (forall q, ask (fst (revert_to (run [OAddBalance ripemd 0] (fst (snapshot ripemd_world))) (snd (snapshot ripemd_world)))) q
             = ask ripemd_world q) /\
  is_some (st_trie (run with_reverted_touch ripemd_world) ripemd) = false /\
  is_some (st_trie (run surviving_only ripemd_world) ripemd) = true.
Proof.
  split; [|split; vm_compute; reflexivity].
  intro q.
  pose proof (revert_exact ripemd_world [OAddBalance ripemd 0] (new_state_wf _)) as H. cbn zeta in H.
  destruct H as (_ & H); [vm_compute; auto|]. exact (H q).
Qed.

Lemma r_commit : forall de s, reachable s -> reachable (fst (commit de s)).
Proof.
  intros de s H. pose proof (r_step s (OCommit de) H) as R. unfold step in R. destruct (commit de s); exact R.
Qed.

(** Copy in the middle of a transaction (journal not empty): the copy keeps the dirty objects but
    not the journal, so its Finalise neither deletes a self-destructed account nor clears the
    flag; a later copy of that state then differs from it on HasSuicided. *)
Definition midtx_s : state := run [OSetBalance 1 5; OFinalise false; OSuicide 1] (new_state fempty).
Definition midtx_c : state := fst (commit true (copy midtx_s)).

Lemma copy_midtx_refuted :
  reachable midtx_c /\
  st_journal midtx_s <> nil /\
  ask midtx_c (QSuicided 1) = AB true /\ ask (copy midtx_c) (QSuicided 1) = AB false /\
  is_some (snd (commit true (copy midtx_s)) 1) = true /\ is_some (snd (commit true midtx_s) 1) = false.
Proof.
  split.
  - unfold midtx_c. apply r_commit, r_copy. unfold midtx_s. cbn [run]. repeat apply r_step. apply r_new.
  - split; [vm_compute; discriminate|]. repeat split; vm_compute; reflexivity.
Qed.
