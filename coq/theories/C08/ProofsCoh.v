(** C08 proofs: the cache-coherence invariant [SI] holds in every reachable state. *)
From Coq Require Import List ZArith NArith Bool Lia.
From Kardia Require Import C08.Model C08.ProofsEqv C08.ProofsInv C08.ProofsUndo C08.ProofsRevert C08.Proofs.
Import ListNotations.
Local Open Scope N_scope.

Lemma coh_finalise : forall o, coh o -> coh (obj_finalise o).
Proof. intros o H k v Hk; exact (H k v Hk). Qed.

Lemma coh_update_trie : forall o, coh o -> coh (obj_update_trie o).
Proof.
  intros o H k v. unfold obj_update_trie, obj_finalise, originz. ss.
  destruct (match o_dirty o k with Some v0 => Some v0 | None => o_pending o k end) as [w|].
  - destruct (N.eqb w (match o_origin o k with Some v0 => v0 | None => 0 end)).
    + intro Hk. apply (H k v Hk).
    + intro Hk; inversion Hk; reflexivity.
  - intro Hk. apply (H k v Hk).
Qed.

Lemma SI_nil : forall s, st_journal s = nil -> (forall a o, st_objs s a = Some o -> coh o) -> SI s.
Proof.
  intros s J B. split; [|split; [exact B|]].
  - intro a. rewrite J. cbn. lia.
  - rewrite J. intros a p pd [].
Qed.

Lemma finalise_journal : forall de s, st_journal (finalise de s) = nil.
Proof.
  intros de s. destruct s as [x0 x1 x2 x3 x4 x5 x6 x7 x8 x9 x10 x11 x12 x13 j x15 x16 x17 x18]; destruct j; reflexivity.
Qed.

Lemma finalise_objs : forall de s a,
  st_objs (finalise de s) a =
  if N.ltb 0 (st_dirties s a) then
    match st_objs s a with
    | Some o => if o_suicided o || (de && obj_empty o) then Some (seto_deleted o true) else Some (obj_finalise o)
    | None => None
    end
  else st_objs s a.
Proof.
  intros de s a. destruct s as [x0 x1 x2 x3 x4 x5 x6 x7 x8 x9 x10 x11 x12 x13 j x15 x16 x17 x18]; destruct j; reflexivity.
Qed.

Lemma finalise_SI : forall de s, SI s -> SI (finalise de s).
Proof.
  intros de s (_ & B & _). apply SI_nil; [apply finalise_journal|].
  intros a o. rewrite finalise_objs. destruct (N.ltb 0 (st_dirties s a)); [|apply B].
  destruct (st_objs s a) as [o0|] eqn:E; [|discriminate]. specialize (B a o0 E).
  destruct (o_suicided o0 || (de && obj_empty o0)); intro H; inversion H; subst.
  - intros k v Hk; exact (B k v Hk).
  - apply coh_finalise; auto.
Qed.

Lemma intermediate_root_journal : forall de s, st_journal (intermediate_root de s) = nil.
Proof. intros de s. exact (finalise_journal de s). Qed.

Lemma intermediate_root_objs : forall de s a,
  st_objs (intermediate_root de s) a =
  if st_pending (finalise de s) a then
    match st_objs (finalise de s) a with
    | Some o => if o_deleted o then Some o else Some (obj_update_trie o)
    | None => None
    end
  else st_objs (finalise de s) a.
Proof. intros; reflexivity. Qed.

Lemma intermediate_root_SI : forall de s, SI s -> SI (intermediate_root de s).
Proof.
  intros de s H. pose proof (finalise_SI de s H) as (_ & B & _).
  apply SI_nil; [apply intermediate_root_journal|].
  intros a o. rewrite intermediate_root_objs. destruct (st_pending (finalise de s) a); [|apply B].
  destruct (st_objs (finalise de s) a) as [o0|] eqn:E; [|discriminate]. specialize (B a o0 E).
  destruct (o_deleted o0); intro X; inversion X; subst; auto. apply coh_update_trie; auto.
Qed.

Lemma commit_journal : forall de s, st_journal (fst (commit de s)) = nil.
Proof. intros de s. exact (finalise_journal de s). Qed.

Lemma commit_objs : forall de s a,
  st_objs (fst (commit de s)) a =
  if st_dirtyset (intermediate_root de s) a then
    match st_objs (intermediate_root de s) a with
    | Some o => if o_deleted o then Some o else Some (obj_update_trie (seto_dirtycode o false))
    | None => None
    end
  else st_objs (intermediate_root de s) a.
Proof. intros; reflexivity. Qed.

Lemma commit_SI : forall de s, SI s -> SI (fst (commit de s)).
Proof.
  intros de s H. pose proof (intermediate_root_SI de s H) as (_ & B & _).
  apply SI_nil; [apply commit_journal|].
  intros a o. rewrite commit_objs. destruct (st_dirtyset (intermediate_root de s) a); [|apply B].
  destruct (st_objs (intermediate_root de s) a) as [o0|] eqn:E; [|discriminate]. specialize (B a o0 E).
  destruct (o_deleted o0); intro X; inversion X; subst; auto. apply coh_update_trie.
  intros k v Hk; exact (B k v Hk).
Qed.

Lemma copy_SI : forall s, SI s -> SI (copy s).
Proof.
  intros s (_ & B & _). apply SI_nil; [reflexivity|].
  intros a o; cbn [copy st_objs].
  match goal with |- (if ?c then _ else _) = _ -> _ => destruct c end; [apply B | discriminate].
Qed.

Lemma step_SI : forall s o, wf s -> SI s -> SI (fst (step s o)).
Proof.
  intros s o Hw H. destruct (plain o) eqn:Hp.
  - destruct Hw as [Hk _]. destruct (step_ext s o Hk Hp) as (_ & _ & _ & _ & I & _). auto.
  - destruct o; try discriminate.
    + unfold step, snapshot; cbn [fst]. eapply SI_frame; [| | |exact H]; reflexivity.
    + pose proof (revert_to_spec s id) as X. cbn zeta in X. unfold step.
      destruct (nth_error (st_revs s) (search_rev (st_revs s) id 0)) as [[i j]|]; [destruct (N.eqb i id)|];
        rewrite X; cbn [fst]; auto.
      destruct (rewind_SI (length (st_journal s) - j) s H) as (A & _).
      eapply SI_frame; [| | |exact A]; reflexivity.
    + exact (finalise_SI de s H).
    + exact (intermediate_root_SI de s H).
    + pose proof (commit_SI de s H) as X. unfold step. destruct (commit de s); exact X.
Qed.

Lemma new_state_SI : forall c, SI (new_state c).
Proof. intro c. apply SI_nil; [reflexivity|]. intros a o H; discriminate. Qed.

(** every reachable state: origin caches (of live, deleted and journalled objects) agree with the
    storage tries, and journal.dirties covers the journal *)
Lemma cache_coherent : forall s, reachable s -> SI s.
Proof.
  induction 1.
  - apply new_state_SI.
  - apply step_SI; auto. apply wf_reachable; auto.
  - apply copy_SI; auto.
Qed.

Lemma no_internal_crash : forall s, reachable s -> st_crashed s = false.
Proof. intros s H. apply wf_reachable in H. destruct H as (_ & _ & _ & _ & _ & C). exact C. Qed.
