(** C08 proofs, part 1: the observational equivalence [eqv] (what survives a journal revert),
    the getters respect it, and every journal-entry revert is a congruence for it. *)
From Coq Require Import List ZArith NArith Bool Lia.
From Kardia Require Import C08.Model.
Import ListNotations.
Local Open Scope N_scope.

(** simplification restricted to the model's projections/setters (never unfolds numbers) *)
Ltac ss :=
  cbn [st_trie st_objs st_pending st_dirtyset st_destruct st_refund st_thash st_txindex st_logs st_logsize
       st_preimages st_aladdrs st_alslots st_transient st_journal st_dirties st_revs st_nextrev st_crashed
       set_trie set_objs set_pending set_dirtyset set_destruct set_refund set_thash set_txindex set_logs set_logsize
       set_preimages set_aladdrs set_alslots set_transient set_journal set_dirties set_revs set_nextrev set_crashed
       set_transient_raw put_obj
       o_data o_origin o_pending o_dirty o_dirtycode o_suicided o_deleted
       seto_data seto_origin seto_pending seto_dirty seto_dirtycode seto_suicided seto_deleted
       ac_nonce ac_balance ac_code ac_storage setac_nonce setac_balance setac_code setac_storage
       new_object empty_account fst snd] in *.

Lemma eqb_refl' : forall x, N.eqb x x = true. Proof. intro; apply N.eqb_refl. Qed.

Ltac eqb x y :=
  let H := fresh "E" in
  destruct (N.eqb x y) eqn:H; [apply N.eqb_eq in H; try subst | apply N.eqb_neq in H].

(** ---------------------------------------------------------------- views *)

(** getDeletedStateObject without the caching side effect *)
Definition peek (s : state) (a : N) : option obj :=
  match st_objs s a with
  | Some o => Some o
  | None => option_map new_object (st_trie s a)
  end.

(** getStateObject without the caching side effect *)
Definition live (s : state) (a : N) : option obj :=
  match peek s a with
  | Some o => if o_deleted o then None else Some o
  | None => None
  end.

Definition committed_val (d : bool) (o : obj) (k : N) : N :=
  match o_pending o k with
  | Some v => v
  | None => match o_origin o k with
            | Some v => v
            | None => if d then 0 else ac_storage (o_data o) k
            end
  end.

Definition state_val (d : bool) (o : obj) (k : N) : N :=
  match o_dirty o k with Some v => v | None => committed_val d o k end.

(** two objects that no getter can tell apart ([d]: the address is in stateObjectsDestruct) *)
Record obj_eqv (d : bool) (o1 o2 : obj) : Prop := {
  oe_nonce : ac_nonce (o_data o1) = ac_nonce (o_data o2);
  oe_balance : ac_balance (o_data o1) = ac_balance (o_data o2);
  oe_code : ac_code (o_data o1) = ac_code (o_data o2);
  oe_suicided : o_suicided o1 = o_suicided o2;
  oe_deleted : o_deleted o1 = o_deleted o2;
  oe_committed : forall k, committed_val d o1 k = committed_val d o2 k;
  oe_state : forall k, state_val d o1 k = state_val d o2 k;
  oe_storage : forall k, ac_storage (o_data o1) k = ac_storage (o_data o2) k;
  oe_pending : forall k, o_pending o1 k = o_pending o2 k }.

Definition opt_rel {A : Type} (R : A -> A -> Prop) (x y : option A) : Prop :=
  match x, y with
  | Some a, Some b => R a b
  | None, None => True
  | _, _ => False
  end.

(** two states that no getter can tell apart, now or after undoing journal entries.
    Not compared: the transaction context (thash/txIndex are not journalled by design), journal, dirties, revisions, nextRevisionId, pending/dirty sets,
    the exact shape of the storage caches, dirtyCode. (The crash flag IS compared: two equivalent
    states crash on the same reverts.) *)
Record eqv (s1 s2 : state) : Prop := {
  ev_trie : st_trie s1 = st_trie s2;
  ev_destruct : forall a, st_destruct s1 a = st_destruct s2 a;
  ev_objs : forall a, opt_rel (obj_eqv (st_destruct s1 a)) (peek s1 a) (peek s2 a);
  ev_refund : st_refund s1 = st_refund s2;
  ev_logs : forall t, st_logs s1 t = st_logs s2 t;
  ev_logsize : st_logsize s1 = st_logsize s2;
  ev_preimages : forall h, st_preimages s1 h = st_preimages s2 h;
  ev_aladdrs : forall a, st_aladdrs s1 a = st_aladdrs s2 a;
  ev_alslots : st_alslots s1 = st_alslots s2;
  ev_transient : forall a k, st_transient s1 a k = st_transient s2 a k;
  ev_crashed : st_crashed s1 = st_crashed s2 }.

Lemma obj_eqv_refl : forall d o, obj_eqv d o o.
Proof. intros; constructor; auto. Qed.

Lemma obj_eqv_sym : forall d o1 o2, obj_eqv d o1 o2 -> obj_eqv d o2 o1.
Proof. intros d o1 o2 [? ? ? ? ? ? ? ? ?]; constructor; auto. Qed.

Lemma obj_eqv_trans : forall d o1 o2 o3, obj_eqv d o1 o2 -> obj_eqv d o2 o3 -> obj_eqv d o1 o3.
Proof.
  intros d o1 o2 o3 [? ? ? ? ? Hc1 Hs1 Ht1 Hp1] [? ? ? ? ? Hc2 Hs2 Ht2 Hp2]; constructor; try congruence.
  all: intro k; first [rewrite Hc1; apply Hc2 | rewrite Hs1; apply Hs2 | rewrite Ht1; apply Ht2 | rewrite Hp1; apply Hp2].
Qed.

Lemma opt_rel_refl : forall A (R : A -> A -> Prop), (forall x, R x x) -> forall o, opt_rel R o o.
Proof. intros A R H [x|]; cbn; auto. Qed.

Lemma eqv_refl : forall s, eqv s s.
Proof. intro s; constructor; auto. intro a; apply opt_rel_refl; apply obj_eqv_refl. Qed.

Lemma eqv_sym : forall s1 s2, eqv s1 s2 -> eqv s2 s1.
Proof.
  intros s1 s2 [? Hd Ho ? ? ? ? ? ? ? ?]; constructor; auto.
  intro a; specialize (Ho a); rewrite <- Hd.
  destruct (peek s1 a), (peek s2 a); cbn in *; auto using obj_eqv_sym.
Qed.

Lemma eqv_trans : forall s1 s2 s3, eqv s1 s2 -> eqv s2 s3 -> eqv s1 s3.
Proof.
  intros s1 s2 s3 [? Hd1 Ho1 ? Hl1 ? Hp1 Ha1 ? Ht1 ?] [? Hd2 Ho2 ? Hl2 ? Hp2 Ha2 ? Ht2 ?].
  constructor;
    [ congruence | intro a; rewrite Hd1; apply Hd2 | | congruence
    | intro t; rewrite Hl1; apply Hl2 | congruence | intro h; rewrite Hp1; apply Hp2
    | intro a; rewrite Ha1; apply Ha2 | congruence | intros a k; rewrite Ht1; apply Ht2 | congruence ].
  intro a; specialize (Ho1 a); specialize (Ho2 a); rewrite <- Hd1 in Ho2.
  destruct (peek s1 a), (peek s2 a), (peek s3 a); cbn in *; try tauto; eauto using obj_eqv_trans.
Qed.

(** ---------------------------------------------------------------- lookups *)

Lemma get_deleted_res : forall s a, snd (get_deleted s a) = peek s a.
Proof.
  intros s a; unfold get_deleted, peek.
  destruct (st_objs s a); [reflexivity|]. destruct (st_trie s a); reflexivity.
Qed.

(** loading changes only the live set, and only by caching what [peek] already sees *)
Definition only_objs (s s' : state) : Prop :=
  s' = set_objs s (st_objs s') /\ forall x, peek s' x = peek s x.

Lemma only_objs_refl : forall s, only_objs s s.
Proof. intro s; split; [destruct s; reflexivity | auto]. Qed.

Lemma get_deleted_state : forall s a, only_objs s (fst (get_deleted s a)).
Proof.
  intros s a; unfold get_deleted.
  destruct (st_objs s a) eqn:Eo; [apply only_objs_refl|].
  destruct (st_trie s a) eqn:Et; [|apply only_objs_refl].
  split; [reflexivity|].
  intro x; unfold peek; ss. unfold fupd. eqb x a.
  - rewrite Eo, Et; reflexivity.
  - reflexivity.
Qed.

Lemma get_obj_res : forall s a, snd (get_obj s a) = live s a.
Proof.
  intros s a; unfold get_obj, live. rewrite <- get_deleted_res.
  destruct (get_deleted s a) as [s1 [o|]]; ss; [destruct (o_deleted o)|]; reflexivity.
Qed.

Lemma get_obj_state : forall s a, fst (get_obj s a) = fst (get_deleted s a).
Proof.
  intros s a; unfold get_obj. destruct (get_deleted s a) as [s1 [o|]]; ss; [destruct (o_deleted o)|]; reflexivity.
Qed.

Lemma only_objs_eqv : forall s s', only_objs s s' -> eqv s s'.
Proof.
  intros s s' [H Hp]. rewrite H. constructor; ss; auto.
  intro a. rewrite <- H. rewrite Hp. apply opt_rel_refl, obj_eqv_refl.
Qed.

(** after a successful lookup the object is in the live set *)
Lemma get_deleted_loaded : forall s a o, snd (get_deleted s a) = Some o -> st_objs (fst (get_deleted s a)) a = Some o.
Proof.
  intros s a o; unfold get_deleted.
  destruct (st_objs s a) eqn:Eo; ss; [congruence|].
  destruct (st_trie s a); ss; [|discriminate].
  intro H; inversion H; subst. unfold fupd; rewrite eqb_refl'; reflexivity.
Qed.

(** ---------------------------------------------------------------- storage reads *)

Lemma obj_get_committed_val : forall d o k, snd (obj_get_committed d o k) = committed_val d o k.
Proof.
  intros; unfold obj_get_committed, committed_val.
  destruct (o_pending o k); [reflexivity|]. destruct (o_origin o k); [reflexivity|]. destruct d; reflexivity.
Qed.

Lemma obj_get_state_val : forall d o k, snd (obj_get_state d o k) = state_val d o k.
Proof.
  intros; unfold obj_get_state, state_val. destruct (o_dirty o k); [reflexivity|]. apply obj_get_committed_val.
Qed.

Lemma obj_get_committed_obj : forall d o k o', fst (obj_get_committed d o k) = Some o' -> obj_eqv d o o'.
Proof.
  intros d o k o'; unfold obj_get_committed.
  destruct (o_pending o k) eqn:Ep; ss; [discriminate|].
  destruct (o_origin o k) eqn:Eo; ss; [discriminate|].
  destruct d; ss; [discriminate|]. intro H; inversion H; subst; clear H.
  assert (Hc : forall k', committed_val false o k' =
                          committed_val false (seto_origin o (fupd (o_origin o) k (ac_storage (o_data o) k))) k').
  { intro k'; unfold committed_val; ss. destruct (o_pending o k'); [reflexivity|].
    unfold fupd. eqb k' k; [rewrite Eo; reflexivity | reflexivity]. }
  constructor; ss; auto.
  intro k'; unfold state_val; ss. destruct (o_dirty o k'); auto.
Qed.

Lemma obj_get_state_obj : forall d o k o', fst (obj_get_state d o k) = Some o' -> obj_eqv d o o'.
Proof.
  intros d o k o'; unfold obj_get_state. destruct (o_dirty o k); ss; [discriminate|]. apply obj_get_committed_obj.
Qed.

(** ---------------------------------------------------------------- frames *)

(** everything [eqv] compares, except the objects *)
Definition glob (s : state) :=
  (st_trie s, st_destruct s, st_refund s, st_thash s, st_txindex s, st_logs s, st_logsize s,
   st_preimages s, st_aladdrs s, st_alslots s, st_transient s).

(** what the revision machinery reads *)
Definition ctl (s : state) := (st_journal s, st_revs s, st_nextrev s).

Ltac unglob H :=
  unfold glob in H; inversion H; clear H.

Lemma only_objs_glob : forall s s', only_objs s s' -> glob s' = glob s /\ ctl s' = ctl s /\ st_crashed s' = st_crashed s.
Proof. intros s s' [H _]; rewrite H; unfold glob, ctl; ss; auto. Qed.

Lemma eqv_frame : forall s1 s2 s1' s2',
  eqv s1 s2 -> glob s1' = glob s1 -> glob s2' = glob s2 ->
  (forall x, opt_rel (obj_eqv (st_destruct s1 x)) (peek s1' x) (peek s2' x)) ->
  st_crashed s1' = st_crashed s2' ->
  eqv s1' s2'.
Proof.
  intros s1 s2 s1' s2' [? ? ? ? ? ? ? ? ? ? ?] G1 G2 Hp Hc. unglob G1. unglob G2.
  constructor; try congruence.
  all: try (intros; congruence).
  intro a. replace (st_destruct s1' a) with (st_destruct s1 a) by congruence. apply Hp.
Qed.

Lemma peek_put : forall s a o x, peek (put_obj s a o) x = if N.eqb x a then Some o else peek s x.
Proof. intros; unfold peek; ss; unfold fupd. destruct (N.eqb x a); reflexivity. Qed.

Lemma live_eqv : forall s1 s2 a, eqv s1 s2 ->
  opt_rel (obj_eqv (st_destruct s1 a)) (live s1 a) (live s2 a).
Proof.
  intros s1 s2 a H; unfold live. pose proof (ev_objs _ _ H a) as Ho.
  destruct (peek s1 a) as [o1|], (peek s2 a) as [o2|]; cbn in *; try tauto.
  rewrite <- (oe_deleted _ _ _ Ho). destruct (o_deleted o1); cbn; auto.
Qed.

Lemma with_live_spec : forall s a f b,
  glob (with_live s a f b) = glob s /\ ctl (with_live s a f b) = ctl s /\
  forall x, peek (with_live s a f b) x =
            if N.eqb x a then match live s a with Some o => Some (f o) | None => peek s a end else peek s x.
Proof.
  intros s a f b; unfold with_live.
  pose proof (get_obj_res s a) as Hr. pose proof (get_obj_state s a) as Hs.
  pose proof (get_deleted_state s a) as Hd.
  destruct (get_obj s a) as [s1 r]; ss; subst r; rewrite <- Hs in Hd.
  destruct (only_objs_glob _ _ Hd) as (G & C & _). destruct Hd as [_ Hp].
  destruct (live s a) as [o|].
  - repeat split.
    + rewrite <- G; unfold glob; ss; reflexivity.
    + rewrite <- C; unfold ctl; ss; reflexivity.
    + intro x; rewrite peek_put. destruct (N.eqb x a); auto.
  - assert (X : forall s0 : state, glob (if b then set_crashed s0 true else s0) = glob s0 /\
                           ctl (if b then set_crashed s0 true else s0) = ctl s0 /\
                           forall x, peek (if b then set_crashed s0 true else s0) x = peek s0 x).
    { intro s0; destruct b; unfold glob, ctl, peek; ss; auto. }
    destruct (X s1) as (G' & C' & P'). repeat split; try congruence.
    intro x; rewrite P', Hp. eqb x a; reflexivity.
Qed.

Lemma with_live_crashed : forall s a f b,
  st_crashed (with_live s a f b) =
  match live s a with Some _ => st_crashed s | None => if b then true else st_crashed s end.
Proof.
  intros s a f b; unfold with_live.
  pose proof (get_obj_res s a) as Hr. pose proof (get_obj_state s a) as Hs.
  pose proof (get_deleted_state s a) as Hd.
  destruct (get_obj s a) as [s1 r]; ss; subst r; rewrite <- Hs in Hd.
  destruct (only_objs_glob _ _ Hd) as (_ & _ & C).
  destruct (live s a); [ss; exact C | destruct b; ss; auto].
Qed.

(** ---------------------------------------------------------------- getters respect eqv *)

Lemma ask_acct : forall s a (f : option obj -> answer),
  snd (let (s1, r) := get_obj s a in (s1, f r)) = f (live s a).
Proof. intros; rewrite <- get_obj_res. destruct (get_obj s a); reflexivity. Qed.

Lemma ask_slot : forall c s a k,
  snd (read_slot c s a k) =
  AN (match live s a with
      | Some o => (if c then committed_val else state_val) (st_destruct s a) o k
      | None => 0 end).
Proof.
  intros c s a k; unfold read_slot.
  pose proof (get_obj_res s a) as Hr. pose proof (get_obj_state s a) as Hs.
  pose proof (get_deleted_state s a) as Hd.
  destruct (get_obj s a) as [s1 r]; ss; subst r; rewrite <- Hs in Hd.
  destruct (only_objs_glob _ _ Hd) as (G & _). unglob G.
  destruct (live s a) as [o|]; [|reflexivity].
  replace (st_destruct s1 a) with (st_destruct s a) by congruence.
  destruct c.
  - rewrite <- obj_get_committed_val. destruct (obj_get_committed (st_destruct s a) o k); reflexivity.
  - rewrite <- obj_get_state_val. destruct (obj_get_state (st_destruct s a) o k); reflexivity.
Qed.

Lemma al_contains_eqv : forall s1 s2 a k, eqv s1 s2 -> al_contains s1 a k = al_contains s2 a k.
Proof.
  intros s1 s2 a k H; unfold al_contains. rewrite (ev_aladdrs _ _ H), (ev_alslots _ _ H). reflexivity.
Qed.

Lemma ask_eqv : forall s1 s2 q, eqv s1 s2 -> ask s1 q = ask s2 q.
Proof.
  intros s1 s2 q H; unfold ask, read.
  assert (L : forall a, opt_rel (obj_eqv (st_destruct s1 a)) (live s1 a) (live s2 a)) by (intro; apply live_eqv; auto).
  destruct q; try (rewrite !ask_acct; specialize (L a);
                   destruct (live s1 a) as [o1|], (live s2 a) as [o2|]; cbn in L; try tauto;
                   try reflexivity; destruct L; unfold obj_empty; congruence).
  - unfold read. rewrite !ask_slot. specialize (L a). rewrite <- (ev_destruct _ _ H).
    destruct (live s1 a) as [o1|], (live s2 a) as [o2|]; cbn in L; try tauto. rewrite (oe_state _ _ _ L); reflexivity.
  - rewrite !ask_slot. specialize (L a). rewrite <- (ev_destruct _ _ H).
    destruct (live s1 a) as [o1|], (live s2 a) as [o2|]; cbn in L; try tauto. rewrite (oe_committed _ _ _ L); reflexivity.
  - cbn [snd]. rewrite (ev_refund _ _ H); reflexivity.
  - cbn [snd]. rewrite (ev_logs _ _ H); reflexivity.
  - cbn [snd]. rewrite (ev_preimages _ _ H); reflexivity.
  - cbn [snd]. rewrite (ev_aladdrs _ _ H); reflexivity.
  - cbn [snd]. rewrite (al_contains_eqv _ _ _ _ H); reflexivity.
  - cbn [snd]. rewrite (ev_transient _ _ H); reflexivity.
Qed.

(** ---------------------------------------------------------------- every revert is a congruence *)

Lemma committed_val_dirty : forall d o m k, committed_val d (seto_dirty o m) k = committed_val d o k.
Proof. reflexivity. Qed.

(** the field updates performed by the reverts preserve object equivalence *)
Lemma f_balance_eqv : forall d p o1 o2, obj_eqv d o1 o2 ->
  obj_eqv d (seto_data o1 (setac_balance (o_data o1) p)) (seto_data o2 (setac_balance (o_data o2) p)).
Proof. intros d p o1 o2 [? ? ? ? ? Hc Hs ? ?]; constructor; ss; auto. Qed.

Lemma f_nonce_eqv : forall d p o1 o2, obj_eqv d o1 o2 ->
  obj_eqv d (seto_data o1 (setac_nonce (o_data o1) p)) (seto_data o2 (setac_nonce (o_data o2) p)).
Proof. intros d p o1 o2 [? ? ? ? ? Hc Hs ? ?]; constructor; ss; auto. Qed.

Lemma f_code_eqv : forall d p b o1 o2, obj_eqv d o1 o2 ->
  obj_eqv d (seto_dirtycode (seto_data o1 (setac_code (o_data o1) p)) b)
            (seto_dirtycode (seto_data o2 (setac_code (o_data o2) p)) b).
Proof. intros d p b o1 o2 [? ? ? ? ? Hc Hs ? ?]; constructor; ss; auto. Qed.

Lemma f_suicide_eqv : forall d p b o1 o2, obj_eqv d o1 o2 ->
  obj_eqv d (seto_data (seto_suicided o1 p) (setac_balance (o_data o1) b))
            (seto_data (seto_suicided o2 p) (setac_balance (o_data o2) b)).
Proof. intros d p b o1 o2 [? ? ? ? ? Hc Hs ? ?]; constructor; ss; auto. Qed.

Lemma f_storage_eqv : forall d k p o1 o2, obj_eqv d o1 o2 ->
  obj_eqv d (seto_dirty o1 (fupd (o_dirty o1) k p)) (seto_dirty o2 (fupd (o_dirty o2) k p)).
Proof.
  intros d k p o1 o2 [? ? ? ? ? Hc Hs ? ?]; constructor; ss; auto.
  intro k'; specialize (Hs k'); specialize (Hc k'); unfold state_val in *; ss. unfold fupd.
  destruct (N.eqb k' k); [reflexivity|]. exact Hs.
Qed.

Lemma with_live_eqv : forall s1 s2 a f b,
  eqv s1 s2 -> (forall d o1 o2, obj_eqv d o1 o2 -> obj_eqv d (f o1) (f o2)) ->
  eqv (with_live s1 a f b) (with_live s2 a f b).
Proof.
  intros s1 s2 a f b H Hf.
  destruct (with_live_spec s1 a f b) as (G1 & _ & P1). destruct (with_live_spec s2 a f b) as (G2 & _ & P2).
  pose proof (live_eqv _ _ a H) as L.
  eapply eqv_frame; eauto.
  - intro x; rewrite P1, P2. eqb x a.
    + destruct (live s1 a) as [o1|], (live s2 a) as [o2|]; cbn in L |- *; try tauto; auto.
      apply (ev_objs _ _ H).
    + apply (ev_objs _ _ H).
  - rewrite !with_live_crashed, (ev_crashed _ _ H).
    destruct (live s1 a) as [o1|], (live s2 a) as [o2|]; cbn in L; try tauto; reflexivity.
Qed.

Lemma undo_eqv : forall e s1 s2, eqv s1 s2 -> eqv (undo e s1) (undo e s2).
Proof.
  intros e s1 s2 H; destruct e; unfold undo.
  - (* createObject *)
    eapply eqv_frame; eauto; try reflexivity; [|ss; apply (ev_crashed _ _ H)].
    intro x; unfold peek; ss; unfold fdel. eqb x a.
    + rewrite (ev_trie _ _ H). apply opt_rel_refl, obj_eqv_refl.
    + apply (ev_objs _ _ H).
  - (* resetObject *)
    assert (X : eqv (put_obj s1 a prev) (put_obj s2 a prev)).
    { eapply eqv_frame; eauto; try reflexivity; [|ss; apply (ev_crashed _ _ H)].
      intro x; rewrite !peek_put. eqb x a; [cbn; apply obj_eqv_refl | apply (ev_objs _ _ H)]. }
    destruct prevdestruct; [exact X|].
    destruct X as [? Hd Ho ? ? ? ? ? ? ? ?]. constructor; ss; auto.
    + intro x; unfold tupd. destruct (N.eqb x a); auto.
    + intro x; specialize (Ho x). unfold peek in *; ss. unfold tupd, fupd in *.
      eqb x a; [cbn; apply obj_eqv_refl | exact Ho].
  - apply with_live_eqv; auto using f_suicide_eqv.
  - apply with_live_eqv; auto using f_balance_eqv.
  - apply with_live_eqv; auto using f_nonce_eqv.
  - apply with_live_eqv; auto using f_storage_eqv.
  - apply with_live_eqv; auto using f_code_eqv.
  - destruct H; constructor; ss; auto.
  - (* addLog *)
    assert (X : forall s s', eqv s s' ->
              eqv (set_logsize s ((st_logsize s + (two64 - 1)) mod two64)) (set_logsize s' ((st_logsize s' + (two64 - 1)) mod two64))).
    { intros s s' E; rewrite (ev_logsize _ _ E); destruct E; constructor; ss; auto. }
    apply X. rewrite (ev_logs _ _ H). destruct (st_logs s2 txhash).
    + destruct H; constructor; ss; auto.
    + destruct H as [? ? ? ? Hl ? ? ? ? ? ?]; constructor; ss; auto.
      intro t; unfold tupd. destruct (N.eqb t txhash); auto.
  - destruct H as [? ? ? ? ? ? Hp ? ? ? ?]; constructor; ss; auto.
    intro h'; unfold fdel. destruct (N.eqb h' h); auto.
  - exact H.
  - destruct H as [? ? ? ? ? ? ? Ha ? ? ?]; constructor; ss; auto.
    intro x; unfold fdel. destruct (N.eqb x a); auto.
  - (* access-list slot *)
    unfold delete_slot_al. rewrite (ev_aladdrs _ _ H), (ev_alslots _ _ H).
    assert (C : forall s s', eqv s s' -> eqv (set_crashed s true) (set_crashed s' true))
      by (intros s s' E; destruct E; constructor; ss; auto).
    destruct (st_aladdrs s2 a) as [[idx|]|]; auto.
    destruct (nth_error (st_alslots s2) idx); auto.
    destruct (remove_n k l).
    + destruct H as [? ? ? ? ? ? ? Ha Hs ? ?]; constructor; ss; auto; try congruence.
      intro x; unfold fupd. destruct (N.eqb x a); auto.
    + destruct H as [? ? ? ? ? ? ? Ha Hs ? ?]; constructor; ss; auto; try congruence.
  - destruct H as [? ? ? ? ? ? ? ? ? Ht ?]; constructor; ss; auto.
    intros x y. destruct (N.eqb x a); auto. unfold tupd. destruct (N.eqb y k); auto.
Qed.

(** ---------------------------------------------------------------- rewind *)

Lemma undo_ctl : forall e s, ctl (undo e s) = ctl s.
Proof.
  intros e s; destruct e; unfold undo; try reflexivity.
  - destruct prevdestruct; reflexivity.
  - apply with_live_spec.
  - apply with_live_spec.
  - apply with_live_spec.
  - apply with_live_spec.
  - apply with_live_spec.
  - destruct (st_logs s txhash); reflexivity.
  - unfold delete_slot_al. destruct (st_aladdrs s a) as [[idx|]|]; try reflexivity.
    destruct (nth_error (st_alslots s) idx); try reflexivity. destruct (remove_n k l); reflexivity.
Qed.

Lemma undo_dirty_ctl : forall e s, ctl (undo_dirty e s) = ctl s.
Proof. intros e s; unfold undo_dirty. destruct (dirtied e); reflexivity. Qed.

Lemma undo_dirty_eqv : forall e s, eqv (undo_dirty e s) s.
Proof. intros e s; unfold undo_dirty. destruct (dirtied e); [|apply eqv_refl]. constructor; ss; auto. intro a; apply opt_rel_refl, obj_eqv_refl. Qed.

Lemma set_journal_eqv : forall s j, eqv (set_journal s j) s.
Proof. intros; constructor; ss; auto. intro a; apply opt_rel_refl, obj_eqv_refl. Qed.

Definition pop1 (e : entry) (j : list entry) (s : state) : state := undo_dirty e (undo e (set_journal s j)).

Lemma pop1_journal : forall e j s, st_journal (pop1 e j s) = j /\ st_revs (pop1 e j s) = st_revs s /\ st_nextrev (pop1 e j s) = st_nextrev s.
Proof.
  intros; unfold pop1.
  pose proof (undo_dirty_ctl e (undo e (set_journal s j))) as H1. pose proof (undo_ctl e (set_journal s j)) as H2.
  unfold ctl in *. rewrite H2 in H1. injection H1 as A B C. rewrite A, B, C. ss. auto.
Qed.

Lemma pop1_eqv : forall e j s1 s2, eqv s1 s2 -> eqv (pop1 e j s1) (pop1 e j s2).
Proof.
  intros; unfold pop1.
  eapply eqv_trans; [apply undo_dirty_eqv|]. eapply eqv_trans; [|apply eqv_sym, undo_dirty_eqv].
  apply undo_eqv. eapply eqv_trans; [apply set_journal_eqv|]. eapply eqv_trans; [eassumption|apply eqv_sym, set_journal_eqv].
Qed.

Lemma rewind_S : forall n s e j, st_journal s = e :: j -> rewind (S n) s = rewind n (pop1 e j s).
Proof. intros n s e j H; cbn [rewind]. rewrite H. reflexivity. Qed.

Lemma rewind_journal : forall n s, st_journal (rewind n s) = skipn n (st_journal s) /\
  st_revs (rewind n s) = st_revs s /\ st_nextrev (rewind n s) = st_nextrev s.
Proof.
  induction n; intro s; [cbn; auto|].
  destruct (st_journal s) as [|e j] eqn:E.
  - cbn [rewind]. rewrite E. cbn. rewrite E. auto.
  - rewrite (rewind_S _ _ _ _ E). destruct (IHn (pop1 e j s)) as (A & B & C).
    destruct (pop1_journal e j s) as (A' & B' & C'). rewrite A, B, C, A', B', C'. cbn. auto.
Qed.

Lemma rewind_eqv : forall n s1 s2, eqv s1 s2 -> st_journal s1 = st_journal s2 -> eqv (rewind n s1) (rewind n s2).
Proof.
  induction n; intros s1 s2 H J; [exact H|].
  destruct (st_journal s1) as [|e j] eqn:E.
  - cbn [rewind]. rewrite E, <- J. exact H.
  - rewrite (rewind_S _ _ _ _ E). symmetry in J. rewrite (rewind_S _ _ _ _ J).
    apply IHn; [apply pop1_eqv; auto|].
    destruct (pop1_journal e j s1) as (A & _). destruct (pop1_journal e j s2) as (B & _). congruence.
Qed.

Lemma rewind_add : forall n m s, rewind (n + m) s = rewind m (rewind n s).
Proof.
  induction n; intros m s; [reflexivity|].
  destruct (st_journal s) as [|e j] eqn:E.
  - cbn [rewind plus]. rewrite E. destruct m; cbn [rewind]; [|rewrite E]; reflexivity.
  - cbn [plus]. rewrite !(rewind_S _ _ _ _ E). apply IHn.
Qed.
