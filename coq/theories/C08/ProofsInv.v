(** C08 proofs: step invariants that are carried along every operation and every journal revert:
    the origin cache of every object agrees with its storage trie ([coh]), also for the objects
    remembered by resetObjectChange entries, and journal.dirties counts at least the journal's
    entries per address ([JD]). *)
From Coq Require Import List ZArith NArith Bool Lia.
From Kardia Require Import C08.Model C08.ProofsEqv.
Import ListNotations.
Local Open Scope N_scope.

Definition coh (o : obj) : Prop := forall k v, o_origin o k = Some v -> v = ac_storage (o_data o) k.

Definition hits (a : N) (e : entry) : N :=
  match dirtied e with Some x => if N.eqb x a then 1 else 0 | None => 0 end.
Fixpoint jcount (a : N) (j : list entry) : N :=
  match j with nil => 0 | e :: t => hits a e + jcount a t end.

Definition JD (s : state) : Prop := forall a, jcount a (st_journal s) <= st_dirties s a.
Definition jcoh (j : list entry) : Prop := forall a p pd, In (JResetObject a p pd) j -> coh p.
Definition SI (s : state) : Prop :=
  JD s /\ (forall a o, st_objs s a = Some o -> coh o) /\ jcoh (st_journal s).

(** not touched by plain operations or reverts *)
Definition pt (s : state) := (st_pending s, st_trie s).

Lemma coh_new : forall d, coh (new_object d).
Proof. intros d k v H; discriminate. Qed.

Lemma SI_frame : forall s s', st_journal s' = st_journal s -> st_dirties s' = st_dirties s ->
  st_objs s' = st_objs s -> SI s -> SI s'.
Proof. intros s s' J D O (A & B & C); unfold SI, JD; rewrite J, D, O; auto. Qed.

Lemma SI_put : forall s a o, SI s -> coh o -> SI (put_obj s a o).
Proof.
  intros s a o (A & B & C) H; split; [exact A|split; [|exact C]].
  intros x o' Hx; ss. unfold fupd in Hx. destruct (N.eqb x a); [inversion Hx; subst; auto | eauto].
Qed.

Lemma jcount_app : forall a l1 l2, jcount a (l1 ++ l2) = jcount a l1 + jcount a l2.
Proof. induction l1; intros; cbn [app jcount]; [reflexivity|]. rewrite IHl1. lia. Qed.

Lemma SI_jappend : forall s e, SI s -> (forall a p pd, e = JResetObject a p pd -> coh p) -> SI (jappend s e).
Proof.
  intros s e (A & B & C) H; unfold jappend, hits; split; [|split].
  - intro x. specialize (A x). unfold JD, jappend.
    destruct (dirtied e) as [y|] eqn:Ed; ss; cbn [jcount]; unfold hits; rewrite Ed; unfold tupd.
    + destruct (N.eqb y x) eqn:E1.
      * apply N.eqb_eq in E1; subst. rewrite N.eqb_refl. lia.
      * rewrite N.eqb_sym, E1. lia.
    + lia.
  - destruct (dirtied e); ss; exact B.
  - intros a p pd Hin. destruct (dirtied e); ss; (destruct Hin as [Hin|Hin]; [eapply H; eauto | eapply C; eauto]).
Qed.

Lemma SI_glob : forall s s' es, SI s -> st_objs s' = st_objs s -> st_dirties s' = st_dirties s ->
  st_journal s' = es ++ st_journal s -> Forall (fun e => dirtied e = None) es -> SI s'.
Proof.
  intros s s' es (A & B & C) O D J F. rewrite Forall_forall in F. split; [|split].
  - intro a. unfold JD in *. rewrite J, D, jcount_app.
    assert (Z : jcount a es = 0).
    { clear J. induction es as [|e t IH]; [reflexivity|]. cbn [jcount]. unfold hits. rewrite (F e) by (left; auto).
      rewrite IH; [reflexivity|]. intros x Hx; apply F; right; auto. }
    rewrite Z. apply A.
  - rewrite O; exact B.
  - intros a p pd Hin. rewrite J in Hin. apply in_app_or in Hin. destruct Hin as [Hin|Hin]; [|eapply C; eauto].
    apply F in Hin. discriminate.
Qed.

Lemma SI_only_objs : forall s s', only_objs s s' -> SI s -> SI s'.
Proof.
  intros s s' [H Hp] (A & B & C).
  assert (J : st_journal s' = st_journal s) by (rewrite H; reflexivity).
  assert (D : st_dirties s' = st_dirties s) by (rewrite H; reflexivity).
  split; [unfold JD; rewrite J, D; exact A|split; [|rewrite J; exact C]].
  intros a o Ho. specialize (Hp a). unfold peek in Hp. rewrite Ho in Hp.
  destruct (st_objs s a) as [o0|] eqn:E0.
  - inversion Hp; subst. eauto.
  - destruct (st_trie s a); [|discriminate]. inversion Hp; subst. apply coh_new.
Qed.

(** ---------------------------------------------------------------- reverts keep SI *)

Lemma with_live_objs : forall s a f b x o,
  st_objs (with_live s a f b) x = Some o ->
  (exists o0, live s a = Some o0 /\ x = a /\ o = f o0) \/ peek s x = Some o.
Proof.
  intros s a f b x o. unfold with_live.
  pose proof (get_obj_res s a) as Hr. pose proof (get_obj_state s a) as Hs.
  pose proof (get_deleted_state s a) as [Hd Hp]. rewrite <- Hs in Hd, Hp.
  destruct (get_obj s a) as [s1 r]; ss; subst r.
  assert (X : forall y oy, st_objs s1 y = Some oy -> peek s y = Some oy).
  { intros y oy Hy. rewrite <- Hp. unfold peek. rewrite Hy. reflexivity. }
  destruct (live s a) as [o0|].
  - ss. unfold fupd. eqb x a.
    + intro H; inversion H; subst. left; exists o0; auto.
    + intro H; right; auto.
  - destruct b; ss; intro H; right; auto.
Qed.

Lemma peek_coh : forall s x o, (forall a o, st_objs s a = Some o -> coh o) -> peek s x = Some o -> coh o.
Proof.
  intros s x o B H; unfold peek in H. destruct (st_objs s x) eqn:E; [inversion H; subst; eauto|].
  destruct (st_trie s x); [|discriminate]. inversion H; subst. apply coh_new.
Qed.

Lemma live_coh : forall s x o, (forall a o, st_objs s a = Some o -> coh o) -> live s x = Some o -> coh o.
Proof.
  intros s x o B H; unfold live in H. destruct (peek s x) eqn:E; [|discriminate].
  destruct (o_deleted o0); [discriminate|]. inversion H; subst. eapply peek_coh; eauto.
Qed.

Lemma undo_objs_coh : forall e s,
  (forall a o, st_objs s a = Some o -> coh o) -> (forall a p pd, e = JResetObject a p pd -> coh p) ->
  forall a o, st_objs (undo e s) a = Some o -> coh o.
Proof.
  intros e s B R.
  assert (W : forall a f b, (forall o, coh o -> coh (f o)) ->
              forall x o, st_objs (with_live s a f b) x = Some o -> coh o).
  { intros a f b Hf x o H. apply with_live_objs in H. destruct H as [(o0 & L & _ & ->)|H].
    - apply Hf. eapply live_coh; eauto.
    - eapply peek_coh; eauto. }
  destruct e; unfold undo; try exact B;
    try (apply W; intros o Ho kk vv H; exact (Ho kk vv H)).
  - intros x o; ss. unfold fdel. destruct (N.eqb x a); [discriminate|apply B].
  - intros x o. assert (Y : st_objs (put_obj s a prev) x = Some o -> coh o).
    { ss. unfold fupd. destruct (N.eqb x a); [intro H; inversion H; subst; eapply R; eauto | apply B]. }
    destruct prevdestruct; ss; exact Y.
  - intros x o. destruct (st_logs s txhash); ss; apply B.
  - intros x o. unfold delete_slot_al. destruct (st_aladdrs s a) as [[idx|]|]; ss; try apply B.
    destruct (nth_error (st_alslots s) idx); ss; try apply B. destruct (remove_n k l); ss; apply B.
Qed.

Lemma undo_dirties : forall e s, st_dirties (undo e s) = st_dirties s /\ pt (undo e s) = pt s.
Proof.
  intros e s.
  assert (W : forall a f b, st_dirties (with_live s a f b) = st_dirties s /\ pt (with_live s a f b) = pt s).
  { intros a f b. unfold with_live. pose proof (get_obj_state s a) as Hs.
    pose proof (get_deleted_state s a) as [Hd _]. rewrite <- Hs in Hd.
    destruct (get_obj s a) as [s1 r]; ss. rewrite Hd. destruct r; [|destruct b]; unfold pt; ss; auto. }
  destruct e; unfold undo; auto; try (unfold pt; ss; auto; fail).
  - destruct prevdestruct; unfold pt; ss; auto.
  - destruct (st_logs s txhash); unfold pt; ss; auto.
  - unfold delete_slot_al. destruct (st_aladdrs s a) as [[idx|]|]; unfold pt; ss; auto.
    destruct (nth_error (st_alslots s) idx); ss; auto. destruct (remove_n k l); ss; auto.
Qed.

Lemma pop1_SI : forall e j s, st_journal s = e :: j -> SI s -> SI (pop1 e j s).
Proof.
  intros e j s J (A & B & C). unfold pop1.
  assert (Cj : jcoh j) by (intros a p pd Hin; eapply C; rewrite J; right; eauto).
  assert (Ce : forall a p pd, e = JResetObject a p pd -> coh p) by (intros a p pd ->; eapply C; rewrite J; left; eauto).
  destruct (pop1_journal e j s) as (Jp & _).
  destruct (undo_dirties e (set_journal s j)) as (D & _). ss.
  split; [|split].
  - intro a. specialize (A a). rewrite J in A. cbn [jcount] in A. unfold hits in A.
    fold (pop1 e j s). rewrite Jp. unfold pop1, undo_dirty. destruct (dirtied e) as [y|] eqn:Ed.
    + ss. rewrite D. ss. unfold tupd. destruct (N.eqb a y) eqn:E1.
      * apply N.eqb_eq in E1; subst y. rewrite N.eqb_refl in A. lia.
      * rewrite N.eqb_sym in E1. rewrite E1 in A. lia.
    + rewrite D. ss. lia.
  - assert (X : forall a o, st_objs (undo e (set_journal s j)) a = Some o -> coh o)
      by (apply undo_objs_coh; ss; auto).
    unfold undo_dirty. destruct (dirtied e); ss; exact X.
  - fold (pop1 e j s). rewrite Jp. exact Cj.
Qed.

Lemma pop1_pt : forall e j s, pt (pop1 e j s) = pt s.
Proof.
  intros; unfold pop1, undo_dirty. destruct (undo_dirties e (set_journal s j)) as (_ & P).
  destruct (dirtied e); unfold pt in *; ss; exact P.
Qed.

Lemma rewind_SI : forall n s, SI s -> SI (rewind n s) /\ pt (rewind n s) = pt s.
Proof.
  induction n; intros s H; [auto|].
  destruct (st_journal s) as [|e j] eqn:E.
  - cbn [rewind]. rewrite E. auto.
  - rewrite (rewind_S _ _ _ _ E). destruct (IHn (pop1 e j s) (pop1_SI e j s E H)) as (A & B).
    split; auto. rewrite B. apply pop1_pt.
Qed.

Lemma SI_touch : forall s a, SI s -> SI (touch s a).
Proof.
  intros s a H. unfold touch.
  assert (X : SI (jappend s (JTouch a))) by (apply SI_jappend; auto; intros; discriminate).
  destruct (N.eqb a ripemd); [|exact X].
  destruct X as (A & B & C). split; [|split; [exact B | exact C]].
  intro x. specialize (A x). unfold JD in *. ss. unfold tupd. destruct (N.eqb x a) eqn:E.
  - apply N.eqb_eq in E; subst. lia.
  - exact A.
Qed.

Lemma obj_get_committed_coh : forall d o k o', fst (obj_get_committed d o k) = Some o' -> coh o -> coh o'.
Proof.
  intros d o k o'; unfold obj_get_committed.
  destruct (o_pending o k); ss; [discriminate|]. destruct (o_origin o k) eqn:Eo; ss; [discriminate|].
  destruct d; ss; [discriminate|]. intro H; inversion H; subst; clear H. intros Hc k' v'; ss. unfold fupd.
  destruct (N.eqb k' k) eqn:E; [apply N.eqb_eq in E; subst; intro X; inversion X; reflexivity | apply Hc].
Qed.

Lemma obj_get_state_coh : forall d o k o', fst (obj_get_state d o k) = Some o' -> coh o -> coh o'.
Proof.
  intros d o k o'; unfold obj_get_state. destruct (o_dirty o k); ss; [discriminate|]. apply obj_get_committed_coh.
Qed.

Lemma SI_glob1 : forall s s' e, SI s -> st_objs s' = st_objs s -> st_dirties s' = st_dirties s ->
  st_journal s' = e :: st_journal s -> dirtied e = None -> SI s'.
Proof. intros s s' e H O D J F. apply (SI_glob s s' [e]); auto. Qed.

Lemma SI_glob2 : forall s s' e1 e2, SI s -> st_objs s' = st_objs s -> st_dirties s' = st_dirties s ->
  st_journal s' = e1 :: e2 :: st_journal s -> dirtied e1 = None -> dirtied e2 = None -> SI s'.
Proof. intros s s' e1 e2 H O D J F1 F2. apply (SI_glob s s' [e1; e2]); auto. Qed.
