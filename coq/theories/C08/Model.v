(** C08 — StateDB atomicity: executable model of kai/state/{statedb,journal,state_object,
    access_list,transient_storage}.go, transcribed branch by branch.

    Conventions.  Addresses, slots, storage words, code blobs, tx hashes and preimages are
    identified by [N] (the harness maps small numbers to common.Address / common.Hash / []byte).
    Go maps are functions [N -> option V] ([fmap]); Go sets are [N -> bool]; loops that range over
    a map are written pointwise (their result does not depend on iteration order).
    The account trie [s.trie] and each object's storage trie are represented by their *content*
    (C07 covers trie <-> content): [st_trie] maps an address to the account, whose [ac_storage]
    is the content designated by [data.Root].  Contract code is identified by its id (0 = empty
    code), i.e. the code database is an injective hash table (trusted base: Keccak).
    The snapshot tree ([s.snap], [snapAccounts], [snapStorage]) is not modelled: the harness runs
    every case with and without it and requires identical observations.
    No proofs in this file. *)
From Coq Require Import List ZArith NArith Bool.
Import ListNotations.
Local Open Scope N_scope.

Definition fmap (V : Type) := N -> option V.
Definition fempty {V : Type} : fmap V := fun _ => None.
Definition fupd {V : Type} (m : fmap V) (k : N) (v : V) : fmap V :=
  fun x => if N.eqb x k then Some v else m x.
Definition fdel {V : Type} (m : fmap V) (k : N) : fmap V :=
  fun x => if N.eqb x k then None else m x.
Definition tupd {V : Type} (m : N -> V) (k : N) (v : V) : N -> V :=
  fun x => if N.eqb x k then v else m x.
Definition is_some {V : Type} (o : option V) : bool := match o with Some _ => true | None => false end.

Definition two64 : N := 18446744073709551616.
(** var ripemd = common.HexToAddress("0000000000000000000000000000000000000003") *)
Definition ripemd : N := 3.

(** types.StateAccount: Nonce, Balance, CodeHash (code id), Root (storage content) *)
Record account := mkAccount { ac_nonce : N; ac_balance : Z; ac_code : N; ac_storage : N -> N }.
Definition empty_account : account := mkAccount 0 0%Z 0 (fun _ => 0).

(** stateObject (address is the key it is stored under; [code] cache and [trie] handle are
    determined by ac_code / ac_storage) *)
Record obj := mkObj {
  o_data : account;
  o_origin : fmap N;      (* originStorage *)
  o_pending : fmap N;     (* pendingStorage *)
  o_dirty : fmap N;       (* dirtyStorage *)
  o_dirtycode : bool;
  o_suicided : bool;
  o_deleted : bool }.

Record logrec := mkLog { lg_payload : N; lg_txhash : N; lg_txindex : N; lg_index : N }.

(** journal.go: the 14 entry kinds (prevAccount/prevStorage of resetObjectChange belong to the
    snapshot-tree cache and are not modelled) *)
Inductive entry :=
| JCreateObject (a : N)
| JResetObject (a : N) (prev : obj) (prevdestruct : bool)
| JSuicide (a : N) (prev : bool) (prevbalance : Z)
| JBalance (a : N) (prev : Z)
| JNonce (a : N) (prev : N)
| JStorage (a k prevalue : N)
| JCode (a : N) (prevcode : N)
| JRefund (prev : N)
| JAddLog (txhash : N)
| JAddPreimage (h : N)
| JTouch (a : N)
| JALAddr (a : N)
| JALSlot (a k : N)
| JTransient (a k prevalue : N).

Record state := mkState {
  st_trie : fmap account;          (* s.trie (content) *)
  st_objs : fmap obj;              (* stateObjects *)
  st_pending : N -> bool;          (* stateObjectsPending *)
  st_dirtyset : N -> bool;         (* stateObjectsDirty *)
  st_destruct : N -> bool;         (* stateObjectsDestruct *)
  st_refund : N;
  st_thash : N;
  st_txindex : N;
  st_logs : N -> list logrec;      (* logs[thash] (absent = nil) *)
  st_logsize : N;
  st_preimages : fmap N;
  st_aladdrs : fmap (option nat);  (* accessList.addresses: Some None = -1, Some (Some i) = index i *)
  st_alslots : list (list N);      (* accessList.slots *)
  st_transient : N -> N -> N;      (* transientStorage (absent = zero hash) *)
  st_journal : list entry;         (* journal.entries, NEWEST FIRST *)
  st_dirties : N -> N;             (* journal.dirties (0 = absent) *)
  st_revs : list (N * nat);        (* validRevisions (id, journalIndex), oldest first *)
  st_nextrev : N;                  (* nextRevisionId *)
  st_crashed : bool                (* sticky: a nil dereference / index panic inside the package happened *)
}.

(** record updates *)
Definition setac_nonce (r : account) (v : N) : account :=
  mkAccount v (ac_balance r) (ac_code r) (ac_storage r).
Definition setac_balance (r : account) (v : Z) : account :=
  mkAccount (ac_nonce r) v (ac_code r) (ac_storage r).
Definition setac_code (r : account) (v : N) : account :=
  mkAccount (ac_nonce r) (ac_balance r) v (ac_storage r).
Definition setac_storage (r : account) (v : N -> N) : account :=
  mkAccount (ac_nonce r) (ac_balance r) (ac_code r) v.
Definition seto_data (r : obj) (v : account) : obj :=
  mkObj v (o_origin r) (o_pending r) (o_dirty r) (o_dirtycode r) (o_suicided r) (o_deleted r).
Definition seto_origin (r : obj) (v : fmap N) : obj :=
  mkObj (o_data r) v (o_pending r) (o_dirty r) (o_dirtycode r) (o_suicided r) (o_deleted r).
Definition seto_pending (r : obj) (v : fmap N) : obj :=
  mkObj (o_data r) (o_origin r) v (o_dirty r) (o_dirtycode r) (o_suicided r) (o_deleted r).
Definition seto_dirty (r : obj) (v : fmap N) : obj :=
  mkObj (o_data r) (o_origin r) (o_pending r) v (o_dirtycode r) (o_suicided r) (o_deleted r).
Definition seto_dirtycode (r : obj) (v : bool) : obj :=
  mkObj (o_data r) (o_origin r) (o_pending r) (o_dirty r) v (o_suicided r) (o_deleted r).
Definition seto_suicided (r : obj) (v : bool) : obj :=
  mkObj (o_data r) (o_origin r) (o_pending r) (o_dirty r) (o_dirtycode r) v (o_deleted r).
Definition seto_deleted (r : obj) (v : bool) : obj :=
  mkObj (o_data r) (o_origin r) (o_pending r) (o_dirty r) (o_dirtycode r) (o_suicided r) v.
Definition set_trie (r : state) (v : fmap account) : state :=
  mkState v (st_objs r) (st_pending r) (st_dirtyset r) (st_destruct r) (st_refund r) (st_thash r) (st_txindex r) (st_logs r) (st_logsize r) (st_preimages r) (st_aladdrs r) (st_alslots r) (st_transient r) (st_journal r) (st_dirties r) (st_revs r) (st_nextrev r) (st_crashed r).
Definition set_objs (r : state) (v : fmap obj) : state :=
  mkState (st_trie r) v (st_pending r) (st_dirtyset r) (st_destruct r) (st_refund r) (st_thash r) (st_txindex r) (st_logs r) (st_logsize r) (st_preimages r) (st_aladdrs r) (st_alslots r) (st_transient r) (st_journal r) (st_dirties r) (st_revs r) (st_nextrev r) (st_crashed r).
Definition set_pending (r : state) (v : N -> bool) : state :=
  mkState (st_trie r) (st_objs r) v (st_dirtyset r) (st_destruct r) (st_refund r) (st_thash r) (st_txindex r) (st_logs r) (st_logsize r) (st_preimages r) (st_aladdrs r) (st_alslots r) (st_transient r) (st_journal r) (st_dirties r) (st_revs r) (st_nextrev r) (st_crashed r).
Definition set_dirtyset (r : state) (v : N -> bool) : state :=
  mkState (st_trie r) (st_objs r) (st_pending r) v (st_destruct r) (st_refund r) (st_thash r) (st_txindex r) (st_logs r) (st_logsize r) (st_preimages r) (st_aladdrs r) (st_alslots r) (st_transient r) (st_journal r) (st_dirties r) (st_revs r) (st_nextrev r) (st_crashed r).
Definition set_destruct (r : state) (v : N -> bool) : state :=
  mkState (st_trie r) (st_objs r) (st_pending r) (st_dirtyset r) v (st_refund r) (st_thash r) (st_txindex r) (st_logs r) (st_logsize r) (st_preimages r) (st_aladdrs r) (st_alslots r) (st_transient r) (st_journal r) (st_dirties r) (st_revs r) (st_nextrev r) (st_crashed r).
Definition set_refund (r : state) (v : N) : state :=
  mkState (st_trie r) (st_objs r) (st_pending r) (st_dirtyset r) (st_destruct r) v (st_thash r) (st_txindex r) (st_logs r) (st_logsize r) (st_preimages r) (st_aladdrs r) (st_alslots r) (st_transient r) (st_journal r) (st_dirties r) (st_revs r) (st_nextrev r) (st_crashed r).
Definition set_thash (r : state) (v : N) : state :=
  mkState (st_trie r) (st_objs r) (st_pending r) (st_dirtyset r) (st_destruct r) (st_refund r) v (st_txindex r) (st_logs r) (st_logsize r) (st_preimages r) (st_aladdrs r) (st_alslots r) (st_transient r) (st_journal r) (st_dirties r) (st_revs r) (st_nextrev r) (st_crashed r).
Definition set_txindex (r : state) (v : N) : state :=
  mkState (st_trie r) (st_objs r) (st_pending r) (st_dirtyset r) (st_destruct r) (st_refund r) (st_thash r) v (st_logs r) (st_logsize r) (st_preimages r) (st_aladdrs r) (st_alslots r) (st_transient r) (st_journal r) (st_dirties r) (st_revs r) (st_nextrev r) (st_crashed r).
Definition set_logs (r : state) (v : N -> list logrec) : state :=
  mkState (st_trie r) (st_objs r) (st_pending r) (st_dirtyset r) (st_destruct r) (st_refund r) (st_thash r) (st_txindex r) v (st_logsize r) (st_preimages r) (st_aladdrs r) (st_alslots r) (st_transient r) (st_journal r) (st_dirties r) (st_revs r) (st_nextrev r) (st_crashed r).
Definition set_logsize (r : state) (v : N) : state :=
  mkState (st_trie r) (st_objs r) (st_pending r) (st_dirtyset r) (st_destruct r) (st_refund r) (st_thash r) (st_txindex r) (st_logs r) v (st_preimages r) (st_aladdrs r) (st_alslots r) (st_transient r) (st_journal r) (st_dirties r) (st_revs r) (st_nextrev r) (st_crashed r).
Definition set_preimages (r : state) (v : fmap N) : state :=
  mkState (st_trie r) (st_objs r) (st_pending r) (st_dirtyset r) (st_destruct r) (st_refund r) (st_thash r) (st_txindex r) (st_logs r) (st_logsize r) v (st_aladdrs r) (st_alslots r) (st_transient r) (st_journal r) (st_dirties r) (st_revs r) (st_nextrev r) (st_crashed r).
Definition set_aladdrs (r : state) (v : fmap (option nat)) : state :=
  mkState (st_trie r) (st_objs r) (st_pending r) (st_dirtyset r) (st_destruct r) (st_refund r) (st_thash r) (st_txindex r) (st_logs r) (st_logsize r) (st_preimages r) v (st_alslots r) (st_transient r) (st_journal r) (st_dirties r) (st_revs r) (st_nextrev r) (st_crashed r).
Definition set_alslots (r : state) (v : list (list N)) : state :=
  mkState (st_trie r) (st_objs r) (st_pending r) (st_dirtyset r) (st_destruct r) (st_refund r) (st_thash r) (st_txindex r) (st_logs r) (st_logsize r) (st_preimages r) (st_aladdrs r) v (st_transient r) (st_journal r) (st_dirties r) (st_revs r) (st_nextrev r) (st_crashed r).
Definition set_transient (r : state) (v : N -> N -> N) : state :=
  mkState (st_trie r) (st_objs r) (st_pending r) (st_dirtyset r) (st_destruct r) (st_refund r) (st_thash r) (st_txindex r) (st_logs r) (st_logsize r) (st_preimages r) (st_aladdrs r) (st_alslots r) v (st_journal r) (st_dirties r) (st_revs r) (st_nextrev r) (st_crashed r).
Definition set_journal (r : state) (v : list entry) : state :=
  mkState (st_trie r) (st_objs r) (st_pending r) (st_dirtyset r) (st_destruct r) (st_refund r) (st_thash r) (st_txindex r) (st_logs r) (st_logsize r) (st_preimages r) (st_aladdrs r) (st_alslots r) (st_transient r) v (st_dirties r) (st_revs r) (st_nextrev r) (st_crashed r).
Definition set_dirties (r : state) (v : N -> N) : state :=
  mkState (st_trie r) (st_objs r) (st_pending r) (st_dirtyset r) (st_destruct r) (st_refund r) (st_thash r) (st_txindex r) (st_logs r) (st_logsize r) (st_preimages r) (st_aladdrs r) (st_alslots r) (st_transient r) (st_journal r) v (st_revs r) (st_nextrev r) (st_crashed r).
Definition set_revs (r : state) (v : list (N * nat)) : state :=
  mkState (st_trie r) (st_objs r) (st_pending r) (st_dirtyset r) (st_destruct r) (st_refund r) (st_thash r) (st_txindex r) (st_logs r) (st_logsize r) (st_preimages r) (st_aladdrs r) (st_alslots r) (st_transient r) (st_journal r) (st_dirties r) v (st_nextrev r) (st_crashed r).
Definition set_nextrev (r : state) (v : N) : state :=
  mkState (st_trie r) (st_objs r) (st_pending r) (st_dirtyset r) (st_destruct r) (st_refund r) (st_thash r) (st_txindex r) (st_logs r) (st_logsize r) (st_preimages r) (st_aladdrs r) (st_alslots r) (st_transient r) (st_journal r) (st_dirties r) (st_revs r) v (st_crashed r).
Definition set_crashed (r : state) (v : bool) : state :=
  mkState (st_trie r) (st_objs r) (st_pending r) (st_dirtyset r) (st_destruct r) (st_refund r) (st_thash r) (st_txindex r) (st_logs r) (st_logsize r) (st_preimages r) (st_aladdrs r) (st_alslots r) (st_transient r) (st_journal r) (st_dirties r) (st_revs r) (st_nextrev r) v.
Definition set_transient_raw (s : state) (a k v : N) : state :=
  set_transient s (fun x => if N.eqb x a then tupd (st_transient s a) k v else st_transient s x).

Definition new_object (d : account) : obj := mkObj d fempty fempty fempty false false false.

(** stateObject.empty *)
Definition obj_empty (o : obj) : bool :=
  N.eqb (ac_nonce (o_data o)) 0 && Z.eqb (ac_balance (o_data o)) 0 && N.eqb (ac_code (o_data o)) 0.

(** state.New(root, db, nil) on a database whose content at [root] is [content] *)
Definition new_state (content : fmap account) : state :=
  mkState content fempty (fun _ => false) (fun _ => false) (fun _ => false)
          0 0 0 (fun _ => nil) 0 fempty fempty nil (fun _ _ => 0) nil (fun _ => 0) nil 0 false.

(** ---------------------------------------------------------------- journal *)

Definition dirtied (e : entry) : option N :=
  match e with
  | JCreateObject a | JResetObject a _ _ | JSuicide a _ _ | JBalance a _ | JNonce a _
  | JStorage a _ _ | JCode a _ | JTouch a => Some a
  | JRefund _ | JAddLog _ | JAddPreimage _ | JALAddr _ | JALSlot _ _ | JTransient _ _ _ => None
  end.

(** journal.append *)
Definition jappend (s : state) (e : entry) : state :=
  let s1 := set_journal s (e :: st_journal s) in
  match dirtied e with
  | Some a => set_dirties s1 (tupd (st_dirties s1) a (st_dirties s1 a + 1))
  | None => s1
  end.

(** ---------------------------------------------------------------- object lookup *)

Definition put_obj (s : state) (a : N) (o : obj) : state := set_objs s (fupd (st_objs s) a o).

(** getDeletedStateObject: live object, else load from the trie into the live set *)
Definition get_deleted (s : state) (a : N) : state * option obj :=
  match st_objs s a with
  | Some o => (s, Some o)
  | None =>
    match st_trie s a with
    | None => (s, None)
    | Some d => let o := new_object d in (put_obj s a o, Some o)
    end
  end.

(** getStateObject *)
Definition get_obj (s : state) (a : N) : state * option obj :=
  let (s1, r) := get_deleted s a in
  match r with
  | Some o => if o_deleted o then (s1, None) else (s1, Some o)
  | None => (s1, None)
  end.

(** createObject: returns (state, new object, prev if it was live) *)
Definition create_object (s : state) (a : N) : state * obj * option obj :=
  let (s1, prev) := get_deleted s a in
  let newobj := new_object empty_account in
  let s2 :=
    match prev with
    | None => jappend s1 (JCreateObject a)
    | Some p =>
      let pd := st_destruct s1 a in
      let s1' := if pd then s1 else set_destruct s1 (tupd (st_destruct s1) a true) in
      jappend s1' (JResetObject a p pd)
    end in
  let s3 := put_obj s2 a newobj in
  (s3, newobj, match prev with Some p => if o_deleted p then None else Some p | None => None end).

(** GetOrNewStateObject *)
Definition get_or_new (s : state) (a : N) : state * obj :=
  let (s1, r) := get_obj s a in
  match r with
  | Some o => (s1, o)
  | None => let '(s2, o, _) := create_object s1 a in (s2, o)
  end.

(** ---------------------------------------------------------------- storage tiers *)

(** stateObject.GetCommittedState; [destructed] = address in stateObjectsDestruct.
    Returns the object only when the origin cache was filled. *)
Definition obj_get_committed (destructed : bool) (o : obj) (k : N) : option obj * N :=
  match o_pending o k with
  | Some v => (None, v)
  | None =>
    match o_origin o k with
    | Some v => (None, v)
    | None =>
      if destructed then (None, 0)
      else let v := ac_storage (o_data o) k in (Some (seto_origin o (fupd (o_origin o) k v)), v)
    end
  end.

(** stateObject.GetState *)
Definition obj_get_state (destructed : bool) (o : obj) (k : N) : option obj * N :=
  match o_dirty o k with
  | Some v => (None, v)
  | None => obj_get_committed destructed o k
  end.

(** stateObject.finalise: dirty slots move to pending *)
Definition obj_finalise (o : obj) : obj :=
  seto_dirty (seto_pending o (fun k => match o_dirty o k with Some v => Some v | None => o_pending o k end)) fempty.

Definition originz (o : obj) (k : N) : N := match o_origin o k with Some v => v | None => 0 end.

(** stateObject.updateTrie (+ updateRoot / commitTrie: Root designates the new content) *)
Definition obj_update_trie (o : obj) : obj :=
  let o1 := obj_finalise o in
  let stor := fun k => match o_pending o1 k with
                       | Some v => if N.eqb v (originz o1 k) then ac_storage (o_data o1) k else v
                       | None => ac_storage (o_data o1) k end in
  let orig := fun k => match o_pending o1 k with
                       | Some v => if N.eqb v (originz o1 k) then o_origin o1 k else Some v
                       | None => o_origin o1 k end in
  seto_pending (seto_origin (seto_data o1 (setac_storage (o_data o1) stor)) orig) fempty.

(** ---------------------------------------------------------------- setters *)

Definition obj_set_balance (s : state) (a : N) (o : obj) (v : Z) : state :=
  let s1 := jappend s (JBalance a (ac_balance (o_data o))) in
  put_obj s1 a (seto_data o (setac_balance (o_data o) v)).

(** stateObject.touch, with the RIPEMD special case *)
Definition touch (s : state) (a : N) : state :=
  let s1 := jappend s (JTouch a) in
  if N.eqb a ripemd then set_dirties s1 (tupd (st_dirties s1) a (st_dirties s1 a + 1)) else s1.

Definition add_balance (s : state) (a : N) (amount : Z) : state :=
  let (s1, o) := get_or_new s a in
  if Z.eqb amount 0 then (if obj_empty o then touch s1 a else s1)
  else obj_set_balance s1 a o (ac_balance (o_data o) + amount)%Z.

Definition sub_balance (s : state) (a : N) (amount : Z) : state :=
  let (s1, o) := get_or_new s a in
  if Z.eqb amount 0 then s1
  else obj_set_balance s1 a o (ac_balance (o_data o) - amount)%Z.

Definition set_balance (s : state) (a : N) (amount : Z) : state :=
  let (s1, o) := get_or_new s a in obj_set_balance s1 a o amount.

Definition set_nonce (s : state) (a : N) (n : N) : state :=
  let (s1, o) := get_or_new s a in
  let s2 := jappend s1 (JNonce a (ac_nonce (o_data o))) in
  put_obj s2 a (seto_data o (setac_nonce (o_data o) n)).

Definition set_code (s : state) (a : N) (c : N) : state :=
  let (s1, o) := get_or_new s a in
  let s2 := jappend s1 (JCode a (ac_code (o_data o))) in
  put_obj s2 a (seto_dirtycode (seto_data o (setac_code (o_data o) c)) true).

Definition set_state (s : state) (a k v : N) : state :=
  let (s1, o) := get_or_new s a in
  let (oc, prev) := obj_get_state (st_destruct s1 a) o k in
  let o1 := match oc with Some o' => o' | None => o end in
  let s2 := match oc with Some o' => put_obj s1 a o' | None => s1 end in
  if N.eqb prev v then s2
  else let s3 := jappend s2 (JStorage a k prev) in
       put_obj s3 a (seto_dirty o1 (fupd (o_dirty o1) k v)).

(** CreateAccount: balance of a live predecessor is carried over *)
Definition create_account (s : state) (a : N) : state :=
  let '(s1, newobj, prev) := create_object s a in
  match prev with
  | Some p => put_obj s1 a (seto_data newobj (setac_balance (o_data newobj) (ac_balance (o_data p))))
  | None => s1
  end.

Definition suicide (s : state) (a : N) : state * bool :=
  let (s1, r) := get_obj s a in
  match r with
  | None => (s1, false)
  | Some o =>
    let s2 := jappend s1 (JSuicide a (o_suicided o) (ac_balance (o_data o))) in
    (put_obj s2 a (seto_suicided (seto_data o (setac_balance (o_data o) 0%Z)) true), true)
  end.

Definition set_transient_state (s : state) (a k v : N) : state :=
  let prev := st_transient s a k in
  if N.eqb prev v then s
  else let s1 := jappend s (JTransient a k prev) in
       set_transient_raw s1 a k v.

Definition add_log (s : state) (payload : N) : state :=
  let s1 := jappend s (JAddLog (st_thash s)) in
  let l := mkLog payload (st_thash s1) (st_txindex s1) (st_logsize s1) in
  set_logsize (set_logs s1 (tupd (st_logs s1) (st_thash s1) (st_logs s1 (st_thash s1) ++ [l])))
              ((st_logsize s1 + 1) mod two64).

Definition add_preimage (s : state) (h p : N) : state :=
  match st_preimages s h with
  | Some _ => s
  | None => let s1 := jappend s (JAddPreimage h) in set_preimages s1 (fupd (st_preimages s1) h p)
  end.

Definition add_refund (s : state) (gas : N) : state :=
  let s1 := jappend s (JRefund (st_refund s)) in
  set_refund s1 ((st_refund s1 + gas) mod two64).

(** SubRefund: the journal entry is appended before the documented panic *)
Definition sub_refund (s : state) (gas : N) : state * bool :=
  let s1 := jappend s (JRefund (st_refund s)) in
  if N.ltb (st_refund s1) gas then (s1, true)
  else (set_refund s1 (st_refund s1 - gas), false).

(** accessList.AddAddress / AddSlot / DeleteSlot / DeleteAddress / Contains *)
Definition add_address_al (s : state) (a : N) : state :=
  match st_aladdrs s a with
  | Some _ => s
  | None => jappend (set_aladdrs s (fupd (st_aladdrs s) a None)) (JALAddr a)
  end.

Fixpoint list_set {V : Type} (l : list V) (i : nat) (v : V) : list V :=
  match l, i with
  | nil, _ => nil
  | _ :: t, O => v :: t
  | x :: t, S j => x :: list_set t j v
  end.
Definition mem (k : N) (l : list N) : bool := existsb (N.eqb k) l.
Definition remove_n (k : N) (l : list N) : list N := filter (fun x => negb (N.eqb x k)) l.

Definition add_slot_al (s : state) (a k : N) : state :=
  let fresh := fun (addr_present : bool) =>
    let s1 := set_alslots (set_aladdrs s (fupd (st_aladdrs s) a (Some (length (st_alslots s)))))
                          (st_alslots s ++ [[k]]) in
    let s2 := if addr_present then s1 else jappend s1 (JALAddr a) in
    jappend s2 (JALSlot a k) in
  match st_aladdrs s a with
  | None => fresh false
  | Some None => fresh true
  | Some (Some idx) =>
    match nth_error (st_alslots s) idx with
    | None => set_crashed s true
    | Some sm =>
      if mem k sm then s
      else jappend (set_alslots s (list_set (st_alslots s) idx (sm ++ [k]))) (JALSlot a k)
    end
  end.

Definition delete_slot_al (s : state) (a k : N) : state :=
  match st_aladdrs s a with
  | None => set_crashed s true                      (* panic("reverting slot change, address not present in list") *)
  | Some None => set_crashed s true                 (* al.slots[-1] *)
  | Some (Some idx) =>
    match nth_error (st_alslots s) idx with
    | None => set_crashed s true
    | Some sm =>
      let sm' := remove_n k sm in
      match sm' with
      | nil => set_aladdrs (set_alslots s (firstn idx (st_alslots s))) (fupd (st_aladdrs s) a None)
      | _ => set_alslots s (list_set (st_alslots s) idx sm')
      end
    end
  end.

Definition al_contains (s : state) (a k : N) : bool * bool :=
  match st_aladdrs s a with
  | None => (false, false)
  | Some None => (true, false)
  | Some (Some idx) =>
    match nth_error (st_alslots s) idx with
    | None => (true, false)
    | Some sm => (true, mem k sm)
    end
  end.

(** ---------------------------------------------------------------- journal revert *)

Definition with_live (s : state) (a : N) (f : obj -> obj) (nil_panics : bool) : state :=
  let (s1, r) := get_obj s a in
  match r with
  | Some o => put_obj s1 a (f o)
  | None => if nil_panics then set_crashed s1 true else s1
  end.

(** <entry>.revert *)
Definition undo (e : entry) (s : state) : state :=
  match e with
  | JCreateObject a =>
    set_dirtyset (set_objs s (fdel (st_objs s) a)) (tupd (st_dirtyset s) a false)
  | JResetObject a prev pd =>
    let s1 := put_obj s a prev in
    if pd then s1 else set_destruct s1 (tupd (st_destruct s1) a false)
  | JSuicide a p b =>
    with_live s a (fun o => seto_data (seto_suicided o p) (setac_balance (o_data o) b)) false
  | JTouch _ => s
  | JBalance a p => with_live s a (fun o => seto_data o (setac_balance (o_data o) p)) true
  | JNonce a p => with_live s a (fun o => seto_data o (setac_nonce (o_data o) p)) true
  | JCode a p => with_live s a (fun o => seto_dirtycode (seto_data o (setac_code (o_data o) p)) true) true
  | JStorage a k p => with_live s a (fun o => seto_dirty o (fupd (o_dirty o) k p)) true
  | JTransient a k p => set_transient_raw s a k p
  | JRefund p => set_refund s p
  | JAddLog th =>
    let logs := st_logs s th in
    let s1 := match logs with
              | nil => set_crashed s true                 (* logs[:len(logs)-1] with len 0 *)
              | _ => set_logs s (tupd (st_logs s) th (removelast logs))
              end in
    set_logsize s1 ((st_logsize s1 + (two64 - 1)) mod two64)
  | JAddPreimage h => set_preimages s (fdel (st_preimages s) h)
  | JALAddr a => set_aladdrs s (fdel (st_aladdrs s) a)
  | JALSlot a k => delete_slot_al s a k
  end.

Definition undo_dirty (e : entry) (s : state) : state :=
  match dirtied e with
  | Some a => set_dirties s (tupd (st_dirties s) a (N.pred (st_dirties s a)))
  | None => s
  end.

(** journal.revert, entry by entry: [rewind n] undoes the newest n entries *)
Fixpoint rewind (n : nat) (s : state) : state :=
  match n with
  | O => s
  | S m =>
    match st_journal s with
    | nil => s
    | e :: j => rewind m (undo_dirty e (undo e (set_journal s j)))
    end
  end.

(** Snapshot *)
Definition snapshot (s : state) : state * N :=
  let id := st_nextrev s in
  (set_revs (set_nextrev s (id + 1)) (st_revs s ++ [(id, length (st_journal s))]), id).

(** sort.Search(len, func(i) { return revs[i].id >= revid }) on the (ascending) revision list *)
Fixpoint search_rev (revs : list (N * nat)) (revid : N) (i : nat) : nat :=
  match revs with
  | nil => i
  | (id, _) :: t => if N.leb revid id then i else search_rev t revid (S i)
  end.

(** RevertToSnapshot; true = panicked ("revision id cannot be reverted"), state untouched *)
Definition revert_to (s : state) (revid : N) : state * bool :=
  let idx := search_rev (st_revs s) revid O in
  match nth_error (st_revs s) idx with
  | None => (s, true)
  | Some (id, jidx) =>
    if negb (N.eqb id revid) then (s, true)
    else
      let s1 := rewind (length (st_journal s) - jidx) s in
      (set_revs s1 (firstn idx (st_revs s1)), false)
  end.

(** ---------------------------------------------------------------- Finalise / IntermediateRoot / Commit *)

Definition clear_journal_and_refund (s : state) : state :=
  let s1 := match st_journal s with
            | nil => s
            | _ => set_refund (set_dirties (set_journal s nil) (fun _ => 0)) 0
            end in
  set_revs s1 nil.

Definition finalise (de : bool) (s : state) : state :=
  let isd := fun a => N.ltb 0 (st_dirties s a) && is_some (st_objs s a) in
  let kill := fun (o : obj) => o_suicided o || (de && obj_empty o) in
  let objs := fun a =>
    if N.ltb 0 (st_dirties s a) then
      match st_objs s a with
      | Some o => if kill o then Some (seto_deleted o true) else Some (obj_finalise o)
      | None => None
      end
    else st_objs s a in
  let destr := fun a =>
    if N.ltb 0 (st_dirties s a) then
      match st_objs s a with
      | Some o => if kill o then true else st_destruct s a
      | None => st_destruct s a
      end
    else st_destruct s a in
  let s1 := set_destruct (set_objs s objs) destr in
  let s2 := set_dirtyset (set_pending s1 (fun a => isd a || st_pending s a)) (fun a => isd a || st_dirtyset s a) in
  clear_journal_and_refund s2.

(** IntermediateRoot: the returned root is a function of [st_trie] of the result (content) *)
Definition intermediate_root (de : bool) (s : state) : state :=
  let s1 := finalise de s in
  let objs := fun a =>
    if st_pending s1 a then
      match st_objs s1 a with
      | Some o => if o_deleted o then Some o else Some (obj_update_trie o)
      | None => None       (* nil dereference in Go; excluded by the invariant pending ⊆ live objects *)
      end
    else st_objs s1 a in
  let trie := fun a =>
    if st_pending s1 a then
      match objs a with
      | Some o => if o_deleted o then None else Some (o_data o)
      | None => st_trie s1 a
      end
    else st_trie s1 a in
  set_pending (set_trie (set_objs s1 objs) trie) (fun _ => false).

(** Commit: returns the committed content (what state.New(root) will read) *)
Definition commit (de : bool) (s : state) : state * fmap account :=
  let s1 := intermediate_root de s in
  let objs := fun a =>
    if st_dirtyset s1 a then
      match st_objs s1 a with
      | Some o => if o_deleted o then Some o else Some (obj_update_trie (seto_dirtycode o false))
      | None => None
      end
    else st_objs s1 a in
  let s2 := set_destruct (set_dirtyset (set_objs s1 objs) (fun _ => false)) (fun _ => false) in
  (s2, st_trie s2).

(** Copy (thash/bhash/txIndex, journal, revisions are NOT copied) *)
Definition copy (s : state) : state :=
  let ind := fun a => N.ltb 0 (st_dirties s a) && is_some (st_objs s a) in
  let keep := fun a => ind a || st_pending s a || st_dirtyset s a in
  mkState (st_trie s)
          (fun a => if keep a then st_objs s a else None)
          (fun a => ind a || st_pending s a)
          (fun a => ind a || st_dirtyset s a)
          (st_destruct s)
          (st_refund s) 0 0 (st_logs s) (st_logsize s) (st_preimages s)
          (st_aladdrs s) (st_alslots s) (st_transient s)
          nil (fun _ => 0) nil 0 false.

(** ---------------------------------------------------------------- getters *)

Inductive query :=
| QExist (a : N) | QEmpty (a : N) | QBalance (a : N) | QNonce (a : N) | QCodeHash (a : N) | QCode (a : N)
| QSuicided (a : N) | QState (a k : N) | QCommitted (a k : N)
| QRefund | QLogs (th : N) | QPreimage (h : N)
| QALAddr (a : N) | QALSlot (a k : N) | QTransient (a k : N).

Inductive answer :=
| AUnit | APanic | AB (b : bool) | ABB (b1 b2 : bool) | AN (n : N) | AZ (z : Z) | AON (o : option N)
| ALogs (l : list logrec).

Definition read_slot (committed : bool) (s : state) (a k : N) : state * answer :=
  let (s1, r) := get_obj s a in
  match r with
  | None => (s1, AN 0)
  | Some o =>
    let (oc, v) := (if committed then obj_get_committed else obj_get_state) (st_destruct s1 a) o k in
    (match oc with Some o' => put_obj s1 a o' | None => s1 end, AN v)
  end.

(** every getter loads the object into the live set exactly as the Go getter does *)
Definition read (s : state) (q : query) : state * answer :=
  match q with
  | QExist a => let (s1, r) := get_obj s a in (s1, AB (is_some r))
  | QEmpty a => let (s1, r) := get_obj s a in (s1, AB (match r with Some o => obj_empty o | None => true end))
  | QBalance a => let (s1, r) := get_obj s a in (s1, AZ (match r with Some o => ac_balance (o_data o) | None => 0%Z end))
  | QNonce a => let (s1, r) := get_obj s a in (s1, AN (match r with Some o => ac_nonce (o_data o) | None => 0 end))
  | QCodeHash a => let (s1, r) := get_obj s a in (s1, AON (match r with Some o => Some (ac_code (o_data o)) | None => None end))
  | QCode a => let (s1, r) := get_obj s a in (s1, AN (match r with Some o => ac_code (o_data o) | None => 0 end))
  | QSuicided a => let (s1, r) := get_obj s a in (s1, AB (match r with Some o => o_suicided o | None => false end))
  | QState a k => read_slot false s a k
  | QCommitted a k => read_slot true s a k
  | QRefund => (s, AN (st_refund s))
  | QLogs th => (s, ALogs (st_logs s th))
  | QPreimage h => (s, AON (st_preimages s h))
  | QALAddr a => (s, AB (is_some (st_aladdrs s a)))
  | QALSlot a k => (s, let (x, y) := al_contains s a k in ABB x y)
  | QTransient a k => (s, AN (st_transient s a k))
  end.

(** the pure observation of a state *)
Definition ask (s : state) (q : query) : answer := snd (read s q).

(** ---------------------------------------------------------------- operations *)

Inductive op :=
| OCreateAccount (a : N) | OAddBalance (a : N) (v : Z) | OSubBalance (a : N) (v : Z) | OSetBalance (a : N) (v : Z)
| OSetNonce (a n : N) | OSetCode (a c : N) | OSetState (a k v : N) | OSuicide (a : N)
| OAddRefund (g : N) | OSubRefund (g : N) | OAddLog (p : N) | OAddPreimage (h p : N)
| OAddAddressAL (a : N) | OAddSlotAL (a k : N) | OSetTransient (a k v : N) | OSetTxContext (th ti : N)
| OSnapshot | ORevert (id : N) | OFinalise (de : bool) | OIntermediateRoot (de : bool) | OCommit (de : bool)
| ORead (q : query).

Definition step (s : state) (o : op) : state * answer :=
  match o with
  | OCreateAccount a => (create_account s a, AUnit)
  | OAddBalance a v => (add_balance s a v, AUnit)
  | OSubBalance a v => (sub_balance s a v, AUnit)
  | OSetBalance a v => (set_balance s a v, AUnit)
  | OSetNonce a n => (set_nonce s a n, AUnit)
  | OSetCode a c => (set_code s a c, AUnit)
  | OSetState a k v => (set_state s a k v, AUnit)
  | OSuicide a => let (s1, b) := suicide s a in (s1, AB b)
  | OAddRefund g => (add_refund s g, AUnit)
  | OSubRefund g => let (s1, p) := sub_refund s g in (s1, if p then APanic else AUnit)
  | OAddLog p => (add_log s p, AUnit)
  | OAddPreimage h p => (add_preimage s h p, AUnit)
  | OAddAddressAL a => (add_address_al s a, AUnit)
  | OAddSlotAL a k => (add_slot_al s a k, AUnit)
  | OSetTransient a k v => (set_transient_state s a k v, AUnit)
  | OSetTxContext th ti => (set_txindex (set_thash s th) ti, AUnit)
  | OSnapshot => let (s1, id) := snapshot s in (s1, AN id)
  | ORevert id => let (s1, p) := revert_to s id in (s1, if p then APanic else AUnit)
  | OFinalise de => (finalise de s, AUnit)
  | OIntermediateRoot de => (intermediate_root de s, AUnit)
  | OCommit de => let (s1, _) := commit de s in (s1, AUnit)
  | ORead q => read s q
  end.

Fixpoint run (ops : list op) (s : state) : state :=
  match ops with
  | nil => s
  | o :: t => run t (fst (step s o))
  end.
