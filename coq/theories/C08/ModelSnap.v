(** C08 — the snapshot layers through which committed state is read back, and the StateDB's
    bookkeeping that feeds them: executable model of
      kai/state/snapshot/difflayer.go  (AccountRLP/accountRLP, Storage/storage, the cumulative bloom
                                        filter, Update/newDiffLayer, flatten),
      kai/state/snapshot/disklayer.go  (AccountRLP, Storage: clean cache in front of the database),
      kai/state/snapshot/snapshot.go   (Tree.Update, Tree.Cap/cap on one chain of layers, diffToDisk),
      kai/state/{statedb,state_object,journal}.go  (snapAccounts / snapStorage: updateStateObject,
                                        updateTrie, Finalise, createObject, resetObjectChange.revert,
                                        Copy, Commit's hand-over to Tree.Update).

    Conventions (as in Model.v).  Account hashes / slot hashes are the small numbers of the harness.
    An account blob in a layer is the [account] record ([ac_storage] stands for its Root: the content
    of the storage TRIE it designates — the flat storage of the snapshot is separate data).  A flat
    storage value is an [N]; 0 = nil blob = no entry.  A two-level Go map
    [map[hash]map[hash][]byte] is a function [N -> fmap N]: an absent inner map and an empty inner map
    are the same function (no reader distinguishes them: every access is a lookup of one slot, and
    flatten's "parent has no storage for the account -> adopt the child's map" equals the slot-wise
    merge into an empty map).
    A chain of layers is a VALUE: the list of diff layers (newest first) over the disk layer.  Go
    shares and mutates layer objects in place and marks them stale; a reader holding a stale layer gets
    ErrSnapshotStale and the StateDB then reads the tries.  Staleness and object identity are outside
    this file (the harness runs StateDBs on flattened layers and requires the trie-backed answers);
    see ModelSnapHeap.v for the one place where the sharing is observable (known finding).
    Not modelled: a running generator (genMarker <> nil: the harness waits for generation to finish),
    the aggregator memory limit (4 MB, never reached), locks, metrics, the sorted iteration lists.
    No proofs in this file. *)
From Coq Require Import List ZArith NArith Bool.
From Kardia Require Import C08.Model.
Import ListNotations.
Local Open Scope N_scope.

(** ---------------------------------------------------------------- layers *)

(** diffLayer: root (label), destructSet, accountData (blobs are never nil), storageData (Some 0 = nil) *)
Record dlayer := mkDL {
  dl_root : N;
  dl_destruct : N -> bool;
  dl_acc : fmap account;
  dl_sto : N -> fmap N }.

(** diskLayer: the key-value store (rawdb account / storage snapshot entries), the clean cache in
    front of it (fastcache: [Some None] / [Some 0] = a cached empty blob), genAbort <> nil *)
Record disk := mkDisk {
  dk_root : N;
  dk_acc : fmap account;
  dk_sto : N -> N -> N;
  dk_cacc : fmap (option account);
  dk_csto : N -> fmap N;
  dk_gen : bool }.

Record snap := mkSnap { sn_diffs : list dlayer; sn_disk : disk }.

Definition empty_disk (root : N) : disk :=
  mkDisk root fempty (fun _ _ => 0) fempty (fun _ => fempty) true.

Definition set_dk_cacc (d : disk) (v : fmap (option account)) : disk :=
  mkDisk (dk_root d) (dk_acc d) (dk_sto d) v (dk_csto d) (dk_gen d).
Definition set_dk_csto (d : disk) (v : N -> fmap N) : disk :=
  mkDisk (dk_root d) (dk_acc d) (dk_sto d) (dk_cacc d) v (dk_gen d).

(** diskLayer.AccountRLP: cache.HasGet, else rawdb.ReadAccountSnapshot + cache.Set *)
Definition disk_account (d : disk) (a : N) : disk * option account :=
  match dk_cacc d a with
  | Some r => (d, r)
  | None => let r := dk_acc d a in (set_dk_cacc d (fupd (dk_cacc d) a r), r)
  end.

(** diskLayer.Storage *)
Definition disk_storage (d : disk) (a k : N) : disk * N :=
  match dk_csto d a k with
  | Some v => (d, v)
  | None =>
    let v := dk_sto d a k in
    (set_dk_csto d (fun x => if N.eqb x a then fupd (dk_csto d a) k v else dk_csto d x), v)
  end.

(** the cumulative bloom filter [dl.diffed]: every destruct marker, account and slot of every diff
    layer down to the disk layer was added (rebloom); anything else may hit as well ([fp]) *)
Inductive bkey := BDestruct (a : N) | BAccount (a : N) | BStorage (a k : N).

Definition layer_has (l : dlayer) (b : bkey) : bool :=
  match b with
  | BDestruct a => dl_destruct l a
  | BAccount a => is_some (dl_acc l a)
  | BStorage a k => is_some (dl_sto l a k)
  end.

Definition bloom (fp : bkey -> bool) (ds : list dlayer) (b : bkey) : bool :=
  fp b || existsb (fun l => layer_has l b) ds.

(** diffLayer.accountRLP: the walk through the layers' maps *)
Fixpoint walk_account (ds : list dlayer) (d : disk) (a : N) : disk * option account :=
  match ds with
  | nil => disk_account d a
  | l :: t =>
    match dl_acc l a with
    | Some x => (d, Some x)
    | None => if dl_destruct l a then (d, None) else walk_account t d a
    end
  end.

(** diffLayer.storage *)
Fixpoint walk_storage (ds : list dlayer) (d : disk) (a k : N) : disk * N :=
  match ds with
  | nil => disk_storage d a k
  | l :: t =>
    match dl_sto l a k with
    | Some v => (d, v)
    | None => if dl_destruct l a then (d, 0) else walk_storage t d a k
    end
  end.

Definition with_disk (s : snap) (r : disk) : snap := mkSnap (sn_diffs s) r.

(** Snapshot.Account on the layer kept for a root: diffLayer.AccountRLP (bloom probe for the account
    and for its destruct marker; on a miss straight to [origin]) or diskLayer.AccountRLP *)
Definition snap_account (fp : bkey -> bool) (s : snap) (a : N) : snap * option account :=
  match sn_diffs s with
  | nil => let (d, r) := disk_account (sn_disk s) a in (with_disk s d, r)
  | ds =>
    let hit := bloom fp ds (BAccount a) || bloom fp ds (BDestruct a) in
    let (d, r) := if hit then walk_account ds (sn_disk s) a else disk_account (sn_disk s) a in
    (with_disk s d, r)
  end.

(** Snapshot.Storage: diffLayer.Storage (bloom probe for the slot and for the account's destruct marker) *)
Definition snap_storage (fp : bkey -> bool) (s : snap) (a k : N) : snap * N :=
  match sn_diffs s with
  | nil => let (d, r) := disk_storage (sn_disk s) a k in (with_disk s d, r)
  | ds =>
    let hit := bloom fp ds (BStorage a k) || bloom fp ds (BDestruct a) in
    let (d, r) := if hit then walk_storage ds (sn_disk s) a k else disk_storage (sn_disk s) a k in
    (with_disk s d, r)
  end.

(** the variant WITHOUT the destruct probe (what a seeded change did to diffLayer.Storage); only
    used to state that the probe is necessary *)
Definition snap_storage_noprobe (fp : bkey -> bool) (s : snap) (a k : N) : snap * N :=
  match sn_diffs s with
  | nil => let (d, r) := disk_storage (sn_disk s) a k in (with_disk s d, r)
  | ds =>
    let hit := bloom fp ds (BStorage a k) in
    let (d, r) := if hit then walk_storage ds (sn_disk s) a k else disk_storage (sn_disk s) a k in
    (with_disk s d, r)
  end.

(** Tree.Update / diffLayer.Update / newDiffLayer: a new layer on top (its bloom = the parent's plus its own items) *)
Definition snap_update (s : snap) (root : N) (destructs : N -> bool) (accs : fmap account) (stos : N -> fmap N) : snap :=
  mkSnap (mkDL root destructs accs stos :: sn_diffs s) (sn_disk s).

(** diffLayer.flatten, one step: the child's data written over the parent's maps; the result
    carries the child's root *)
Definition merge (child parent : dlayer) : dlayer :=
  mkDL (dl_root child)
       (fun a => dl_destruct child a || dl_destruct parent a)
       (fun a => match dl_acc child a with
                 | Some x => Some x
                 | None => if dl_destruct child a then None else dl_acc parent a
                 end)
       (fun a k => match dl_sto child a k with
                   | Some v => Some v
                   | None => if dl_destruct child a then None else dl_sto parent a k
                   end).

(** diffLayer.flatten on a chain: the parent chain is flattened first, then this layer merged into it *)
Fixpoint flatten (ds : list dlayer) : option dlayer :=
  match ds with
  | nil => None
  | l :: t => match flatten t with
              | None => Some l
              | Some p => Some (merge l p)
              end
  end.

(** diffToDisk: destructed accounts wiped (account entry, every storage entry present in the database,
    their cache entries), accounts written, slots written or deleted; cache kept in step *)
Definition diff_to_disk (b : dlayer) (d : disk) : disk :=
  let acc1 := fun a => if dl_destruct b a then None else dk_acc d a in
  let cacc1 := fun a => if dl_destruct b a then Some None else dk_cacc d a in
  let sto1 := fun a k => if dl_destruct b a then 0 else dk_sto d a k in
  let csto1 := fun a k => if dl_destruct b a
                          then (if N.eqb (dk_sto d a k) 0 then dk_csto d a k else None)
                          else dk_csto d a k in
  let acc2 := fun a => match dl_acc b a with Some x => Some x | None => acc1 a end in
  let cacc2 := fun a => match dl_acc b a with Some x => Some (Some x) | None => cacc1 a end in
  let sto2 := fun a k => match dl_sto b a k with Some v => v | None => sto1 a k end in
  let csto2 := fun a k => match dl_sto b a k with Some v => Some v | None => csto1 a k end in
  mkDisk (dl_root b) acc2 sto2 cacc2 csto2 false.

(** Tree.Cap(root, layers) on the chain that ends in root's layer.  layers = 0: flatten everything and
    merge onto disk.  Otherwise Tree.cap: dive layers-1 parents; the layers below that one are flattened
    into one accumulator, which goes to disk only if the generator's abort channel is still there
    (its memory is far below the 4 MB limit). *)
Definition snap_cap (s : snap) (layers : nat) : snap :=
  match layers with
  | O =>
    match flatten (sn_diffs s) with
    | None => s
    | Some b => mkSnap nil (diff_to_disk b (sn_disk s))
    end
  | S _ =>
    let kept := firstn layers (sn_diffs s) in
    match flatten (skipn layers (sn_diffs s)) with
    | None => s
    | Some f =>
      if dk_gen (sn_disk s) then mkSnap kept (diff_to_disk f (sn_disk s))
      else mkSnap (kept ++ [f]) (sn_disk s)
    end
  end.

(** what Cap additionally writes into t.layers (besides the capped root's own, re-linked chain):
    [t.layers[flattened.root] = flattened] resp. [t.layers[base.root] = base].  For layers = 0 the whole
    map is REPLACED by the single entry (nothing at all when the root's layer is the disk layer: Cap
    returns an error). *)
Definition snap_cap_regs (s : snap) (layers : nat) : list (N * snap) :=
  match layers with
  | O =>
    match flatten (sn_diffs s) with
    | None => nil
    | Some b => let d := diff_to_disk b (sn_disk s) in [(dk_root d, mkSnap nil d)]
    end
  | S _ =>
    match flatten (skipn layers (sn_diffs s)) with
    | None => nil
    | Some f =>
      if dk_gen (sn_disk s) then let d := diff_to_disk f (sn_disk s) in [(dk_root d, mkSnap nil d)]
      else [(dl_root f, mkSnap [f] (sn_disk s))]
    end
  end.

(** ---------------------------------------------------------------- the StateDB side *)

(** StateDB with its snapshot fields: s.snap (root label of the layer it is attached to),
    snapAccounts, snapStorage, and prevAccount/prevStorage of the resetObjectChange entries that are
    in the journal (newest first; Model.v's journal entries do not carry them) *)
Record sstate := mkSS {
  ss_st : state;
  ss_snap : option N;
  ss_acc : fmap account;
  ss_sto : N -> fmap N;
  ss_saved : list (option account * fmap N) }.

Definition sto_empty : N -> fmap N := fun _ => fempty.
Definition with_st (ss : sstate) (s : state) : sstate :=
  mkSS s (ss_snap ss) (ss_acc ss) (ss_sto ss) (ss_saved ss).

(** state.New(root, db, snaps): attached iff the tree has a layer for the root *)
Definition snew_state (content : fmap account) (layer : option N) : sstate :=
  mkSS (new_state content) layer fempty sto_empty nil.

(** the journal entries an operation appended (the journal is newest first) *)
Definition new_entries (before after : list entry) : list entry :=
  firstn (length after - length before) after.

(** createObject over an existing object: account = snapAccounts[h]; storage = snapStorage[h];
    both deleted; kept in the resetObjectChange *)
Definition snap_reset (a : N) (ss : sstate) : sstate :=
  mkSS (ss_st ss) (ss_snap ss) (fdel (ss_acc ss) a)
       (fun x => if N.eqb x a then fempty else ss_sto ss x)
       ((ss_acc ss a, ss_sto ss a) :: ss_saved ss).

(** resetObjectChange.revert: if prevAccount != nil, snapAccounts[h] = prevAccount; same for storage
    (a nil prevStorage is the empty function here, and snapStorage[h] is empty at that point) *)
Definition snap_unreset (a : N) (ss : sstate) : sstate :=
  match ss_saved ss with
  | nil => ss
  | (pa, ps) :: rest =>
    mkSS (ss_st ss) (ss_snap ss)
         (match pa with Some x => fupd (ss_acc ss) a x | None => ss_acc ss end)
         (fun x => if N.eqb x a then ps else ss_sto ss x)
         rest
  end.

(** a setter: what it appended to the journal tells whether createObject replaced an object *)
Definition snap_after_plain (before : list entry) (ss : sstate) : sstate :=
  fold_right (fun e acc => match e with JResetObject a _ _ => snap_reset a acc | _ => acc end)
             ss (new_entries before (st_journal (ss_st ss))).

(** RevertToSnapshot: the entries it undid, newest first *)
Definition snap_after_revert (before : list entry) (ss : sstate) : sstate :=
  fold_left (fun acc e => match e with JResetObject a _ _ => snap_unreset a acc | _ => acc end)
            (new_entries (st_journal (ss_st ss)) before) ss.

(** Finalise on pre-state [s]: for every dirty object that is deleted, delete(snapAccounts, h),
    delete(snapStorage, h); the journal (and with it the saved blobs) is dropped *)
Definition snap_kills (de : bool) (s : state) (a : N) : bool :=
  N.ltb 0 (st_dirties s a) &&
  match st_objs s a with Some o => o_suicided o || (de && obj_empty o) | None => false end.

Definition snap_after_finalise (de : bool) (s : state) (ss : sstate) : sstate :=
  mkSS (ss_st ss) (ss_snap ss)
       (fun a => if snap_kills de s a then None else ss_acc ss a)
       (fun a => if snap_kills de s a then fempty else ss_sto ss a)
       nil.

(** stateObject.updateTrie: every pending slot whose value differs from originStorage goes to
    snapStorage[h] (nil when it is the zero hash) *)
Definition snap_update_trie (o : obj) (m : fmap N) : fmap N :=
  let o1 := obj_finalise o in
  fun k => match o_pending o1 k with
           | Some v => if N.eqb v (originz o1 k) then m k else Some v
           | None => m k
           end.

(** IntermediateRoot on pre-state [s] (after its Finalise): for the pending objects that are not
    deleted, updateRoot (-> updateTrie) and updateStateObject (snapAccounts[h] = slim RLP of data) *)
Definition snap_after_ir (de : bool) (s : state) (ss : sstate) : sstate :=
  let ss1 := snap_after_finalise de s ss in
  let s1 := finalise de s in
  let upd := fun a => st_pending s1 a &&
                      match st_objs s1 a with Some o => negb (o_deleted o) | None => false end in
  mkSS (ss_st ss) (ss_snap ss)
       (fun a => if upd a
                 then match st_objs s1 a with Some o => Some (o_data (obj_update_trie o)) | None => ss_acc ss1 a end
                 else ss_acc ss1 a)
       (fun a => if upd a
                 then match st_objs s1 a with Some o => snap_update_trie o (ss_sto ss1 a) | None => ss_sto ss1 a end
                 else ss_sto ss1 a)
       nil.

(** Commit after its IntermediateRoot: commitTrie (-> updateTrie) for the dirty objects *)
Definition snap_after_commit (de : bool) (s : state) (ss : sstate) : sstate :=
  let ss1 := snap_after_ir de s ss in
  let s1 := intermediate_root de s in
  let upd := fun a => st_dirtyset s1 a &&
                      match st_objs s1 a with Some o => negb (o_deleted o) | None => false end in
  mkSS (ss_st ss) (ss_snap ss) (ss_acc ss1)
       (fun a => if upd a
                 then match st_objs s1 a with Some o => snap_update_trie (seto_dirtycode o false) (ss_sto ss1 a) | None => ss_sto ss1 a end
                 else ss_sto ss1 a)
       nil.

(** what Commit hands to Tree.Update: parent root, destructs (stateObjectsDestruct), snapAccounts, snapStorage *)
Record handover := mkHO {
  ho_parent : N;
  ho_destructs : N -> bool;
  ho_accs : fmap account;
  ho_stos : N -> fmap N }.

(** Commit: committed content, the hand-over if the StateDB was attached, and the StateDB afterwards
    (s.snap, s.snapAccounts, s.snapStorage = nil) *)
Definition scommit (de : bool) (ss : sstate) : sstate * fmap account * option handover :=
  let s := ss_st ss in
  let (s', c) := commit de s in
  let after := mkSS s' None fempty sto_empty nil in
  match ss_snap ss with
  | None => (after, c, None)
  | Some parent =>
    let ss1 := snap_after_commit de s (with_st ss s') in
    (after, c, Some (mkHO parent (st_destruct (intermediate_root de s)) (ss_acc ss1) (ss_sto ss1)))
  end.

(** every operation; a StateDB without snapshot layer (s.snap == nil) keeps no snapshot data *)
Definition sstep (ss : sstate) (o : op) : sstate * answer :=
  let s := ss_st ss in
  let (s', ans) := step s o in
  let ss' := with_st ss s' in
  match o with
  | OCommit de => (fst (fst (scommit de ss)), ans)
  | _ =>
    match ss_snap ss with
    | None => (ss', ans)
    | Some _ =>
      (match o with
       | OFinalise de => snap_after_finalise de s ss'
       | OIntermediateRoot de => snap_after_ir de s ss'
       | ORevert _ => snap_after_revert (st_journal s) ss'
       | _ => snap_after_plain (st_journal s) ss'
       end, ans)
    end
  end.


(** Copy: state.snaps, state.snap = s.snaps, s.snap; snapAccounts and snapStorage deep-copied; no journal *)
Definition scopy (ss : sstate) : sstate :=
  mkSS (copy (ss_st ss)) (ss_snap ss) (ss_acc ss) (ss_sto ss) nil.

(** Tree.Update(root, parent, ...) followed by Commit's own Cap(root, 128), on the parent's chain *)
Definition tree_update (parent : snap) (root : N) (h : handover) : snap :=
  snap_cap (snap_update parent root (ho_destructs h) (ho_accs h) (ho_stos h)) 128.

(** ---------------------------------------------------------------- the invariant [Sync], executable over a finite universe
    (ProofsSnapBridge.v proves: Sync at Commit => the hand-over laid over the parent's content is the
    committed content; that Sync holds in every reachable state is open — the model driver evaluates
    this boolean form after every operation of every generated case) *)
Definition acc_eqb (uk : list N) (x y : option account) : bool :=
  match x, y with
  | Some d1, Some d2 =>
    N.eqb (ac_nonce d1) (ac_nonce d2) && Z.eqb (ac_balance d1) (ac_balance d2) && N.eqb (ac_code d1) (ac_code d2) &&
    forallb (fun k => N.eqb (ac_storage d1 k) (ac_storage d2 k)) uk
  | None, None => true
  | _, _ => false
  end.

Definition sync_ok (ua uk : list N) (base : fmap account) (ss : sstate) : bool :=
  let s := ss_st ss in
  let flatb := fun (c : fmap account) a k => match c a with Some d => ac_storage d k | None => 0 end in
  let dvb := fun a => match ss_acc ss a with Some d => Some d | None => if st_destruct s a then None else base a end in
  let fvb := fun a k => match ss_sto ss a k with Some v => v | None => if st_destruct s a then 0 else flatb base a k end in
  let agree := fun a => acc_eqb uk (st_trie s a) (dvb a) && forallb (fun k => N.eqb (flatb (st_trie s) a k) (fvb a k)) uk in
  let cleared := fun a => negb (is_some (ss_acc ss a)) && forallb (fun k => negb (is_some (ss_sto ss a k))) uk && st_destruct s a in
  let due := fun a => (st_pending s a || N.ltb 0 (st_dirties s a)) && is_some (st_objs s a) in
  forallb (fun a =>
    (agree a || (cleared a && due a)) &&
    (match st_objs s a with
     | Some o =>
       (if o_deleted o then cleared a else forallb (fun k => N.eqb (ac_storage (o_data o) k) (fvb a k)) uk) &&
       (if negb (o_deleted o) && negb (st_pending s a) && negb (N.ltb 0 (st_dirties s a))
        then forallb (fun k => negb (is_some (o_pending o k)) &&
                               match o_dirty o k with Some v => N.eqb v (originz o k) | None => true end) uk
        else true)
     | None => negb (st_pending s a)
     end)) ua.
