(** C08 proofs, part 7: the snapshot layers (ModelSnap.v).  Reading an account or a slot through a
    chain of diff layers over the disk layer — with ANY bloom filter that contains at least what was
    added — returns the overlay of the layers' data in order; flatten, diffToDisk and Cap do not
    change what a chain stands for; the clean cache stays in step with the database. *)
From Coq Require Import List ZArith NArith Bool Lia.
From Kardia Require Import C08.Model C08.ModelSnap C08.ModelSnapHeap.
Import ListNotations.
Local Open Scope N_scope.

(** ---------------------------------------------------------------- what a chain stands for *)

Definition over_acc1 (l : dlayer) (base : N -> option account) (a : N) : option account :=
  match dl_acc l a with
  | Some x => Some x
  | None => if dl_destruct l a then None else base a
  end.
Definition over_sto1 (l : dlayer) (base : N -> N -> N) (a k : N) : N :=
  match dl_sto l a k with
  | Some v => v
  | None => if dl_destruct l a then 0 else base a k
  end.

Fixpoint over_acc (ds : list dlayer) (base : N -> option account) (a : N) : option account :=
  match ds with
  | nil => base a
  | l :: t => over_acc1 l (over_acc t base) a
  end.
Fixpoint over_sto (ds : list dlayer) (base : N -> N -> N) (a k : N) : N :=
  match ds with
  | nil => base a k
  | l :: t => over_sto1 l (over_sto t base) a k
  end.

Definition view_acc (s : snap) (a : N) : option account := over_acc (sn_diffs s) (dk_acc (sn_disk s)) a.
Definition view_sto (s : snap) (a k : N) : N := over_sto (sn_diffs s) (dk_sto (sn_disk s)) a k.

(** the clean cache never disagrees with the database *)
Definition coherent (d : disk) : Prop :=
  (forall a r, dk_cacc d a = Some r -> r = dk_acc d a) /\
  (forall a k v, dk_csto d a k = Some v -> v = dk_sto d a k).

(** same database content (a read may only fill the cache) *)
Definition same_data (d d' : disk) : Prop :=
  dk_acc d' = dk_acc d /\ dk_sto d' = dk_sto d /\ dk_root d' = dk_root d /\ dk_gen d' = dk_gen d.

Lemma same_data_refl : forall d, same_data d d.
Proof. intro d; repeat split. Qed.

Lemma over_acc_ext : forall ds b1 b2, (forall a, b1 a = b2 a) -> forall a, over_acc ds b1 a = over_acc ds b2 a.
Proof.
  induction ds as [|l t IH]; intros b1 b2 H a; cbn [over_acc]; auto.
  unfold over_acc1. destruct (dl_acc l a); auto. destruct (dl_destruct l a); auto.
Qed.
Lemma over_sto_ext : forall ds b1 b2, (forall a k, b1 a k = b2 a k) -> forall a k, over_sto ds b1 a k = over_sto ds b2 a k.
Proof.
  induction ds as [|l t IH]; intros b1 b2 H a k; cbn [over_sto]; auto.
  unfold over_sto1. destruct (dl_sto l a k); auto. destruct (dl_destruct l a); auto.
Qed.

Lemma over_acc_app : forall k t b a, over_acc (k ++ t) b a = over_acc k (over_acc t b) a.
Proof.
  induction k as [|l k IH]; intros t b a; cbn [app over_acc]; auto.
  unfold over_acc1. destruct (dl_acc l a); auto. destruct (dl_destruct l a); auto.
Qed.
Lemma over_sto_app : forall k t b a x, over_sto (k ++ t) b a x = over_sto k (over_sto t b) a x.
Proof.
  induction k as [|l k IH]; intros t b a x; cbn [app over_sto]; auto.
  unfold over_sto1. destruct (dl_sto l a x); auto. destruct (dl_destruct l a); auto.
Qed.

(** ---------------------------------------------------------------- the disk layer *)

Lemma disk_account_spec : forall d a, coherent d ->
  snd (disk_account d a) = dk_acc d a /\ coherent (fst (disk_account d a)) /\ same_data d (fst (disk_account d a)).
Proof.
  intros d a [Ha Hs]. unfold disk_account. destruct (dk_cacc d a) as [r|] eqn:E; cbn [fst snd].
  - split; [exact (Ha a r E)|]. split; [split; auto|apply same_data_refl].
  - split; [reflexivity|]. split; [|repeat split].
    split; cbn; auto. intros x r. unfold fupd. destruct (N.eqb x a) eqn:Ex.
    + apply N.eqb_eq in Ex; subst x. intro H; inversion H; reflexivity.
    + apply Ha.
Qed.

Lemma disk_storage_spec : forall d a k, coherent d ->
  snd (disk_storage d a k) = dk_sto d a k /\ coherent (fst (disk_storage d a k)) /\ same_data d (fst (disk_storage d a k)).
Proof.
  intros d a k [Ha Hs]. unfold disk_storage. destruct (dk_csto d a k) as [v|] eqn:E; cbn [fst snd].
  - split; [exact (Hs a k v E)|]. split; [split; auto|apply same_data_refl].
  - split; [reflexivity|]. split; [|repeat split].
    split; cbn; auto. intros x y v. destruct (N.eqb x a) eqn:Ex.
    + apply N.eqb_eq in Ex; subst x. unfold fupd. destruct (N.eqb y k) eqn:Ey.
      * apply N.eqb_eq in Ey; subst y. intro H; inversion H; reflexivity.
      * apply Hs.
    + apply Hs.
Qed.

(** ---------------------------------------------------------------- the walk *)

Lemma walk_account_spec : forall ds d a, coherent d ->
  snd (walk_account ds d a) = over_acc ds (dk_acc d) a /\
  coherent (fst (walk_account ds d a)) /\ same_data d (fst (walk_account ds d a)).
Proof.
  induction ds as [|l t IH]; intros d a Hc; cbn [walk_account over_acc].
  - apply disk_account_spec; auto.
  - unfold over_acc1. destruct (dl_acc l a); [cbn; split; auto; split; auto; apply same_data_refl|].
    destruct (dl_destruct l a); [cbn; split; auto; split; auto; apply same_data_refl|]. apply IH; auto.
Qed.

Lemma walk_storage_spec : forall ds d a k, coherent d ->
  snd (walk_storage ds d a k) = over_sto ds (dk_sto d) a k /\
  coherent (fst (walk_storage ds d a k)) /\ same_data d (fst (walk_storage ds d a k)).
Proof.
  induction ds as [|l t IH]; intros d a k Hc; cbn [walk_storage over_sto].
  - apply disk_storage_spec; auto.
  - unfold over_sto1. destruct (dl_sto l a k); [cbn; split; auto; split; auto; apply same_data_refl|].
    destruct (dl_destruct l a); [cbn; split; auto; split; auto; apply same_data_refl|]. apply IH; auto.
Qed.

(** a bloom miss on both probes means that no layer knows the item: the walk would end in the disk
    layer anyway — for every filter that contains what was added *)
Lemma bloom_false : forall fp ds b, bloom fp ds b = false -> forall l, In l ds -> layer_has l b = false.
Proof.
  intros fp ds b H l Hin. unfold bloom in H. apply orb_false_iff in H. destruct H as [_ H].
  destruct (layer_has l b) eqn:E; auto.
  assert (existsb (fun l0 => layer_has l0 b) ds = true) by (apply existsb_exists; exists l; auto). congruence.
Qed.

Lemma walk_account_miss : forall fp ds d a,
  bloom fp ds (BAccount a) = false -> bloom fp ds (BDestruct a) = false ->
  walk_account ds d a = disk_account d a.
Proof.
  intros fp ds d a HA HD. pose proof (bloom_false _ _ _ HA) as A. pose proof (bloom_false _ _ _ HD) as D. clear HA HD.
  induction ds as [|l t IH]; cbn [walk_account]; auto.
  pose proof (A l (or_introl eq_refl)) as A1. pose proof (D l (or_introl eq_refl)) as D1. cbn [layer_has] in A1, D1.
  destruct (dl_acc l a); [discriminate|]. rewrite D1. apply IH; intros; [apply A|apply D]; right; auto.
Qed.

Lemma walk_storage_miss : forall fp ds d a k,
  bloom fp ds (BStorage a k) = false -> bloom fp ds (BDestruct a) = false ->
  walk_storage ds d a k = disk_storage d a k.
Proof.
  intros fp ds d a k HA HD. pose proof (bloom_false _ _ _ HA) as A. pose proof (bloom_false _ _ _ HD) as D. clear HA HD.
  induction ds as [|l t IH]; cbn [walk_storage]; auto.
  pose proof (A l (or_introl eq_refl)) as A1. pose proof (D l (or_introl eq_refl)) as D1. cbn [layer_has] in A1, D1.
  destruct (dl_sto l a k); [discriminate|]. rewrite D1. apply IH; intros; [apply A|apply D]; right; auto.
Qed.

(** Snapshot.Account / Snapshot.Storage are the walk, whatever else the bloom filter contains *)
Lemma snap_account_walk : forall fp s a,
  snap_account fp s a = (with_disk s (fst (walk_account (sn_diffs s) (sn_disk s) a)),
                         snd (walk_account (sn_diffs s) (sn_disk s) a)).
Proof.
  intros fp s a. unfold snap_account. destruct (sn_diffs s) as [|l t] eqn:E.
  - cbn [walk_account]. destruct (disk_account (sn_disk s) a); reflexivity.
  - destruct (bloom fp (l :: t) (BAccount a) || bloom fp (l :: t) (BDestruct a)) eqn:H.
    + destruct (walk_account (l :: t) (sn_disk s) a); reflexivity.
    + apply orb_false_iff in H. destruct H as [H1 H2].
      rewrite (walk_account_miss fp (l :: t) (sn_disk s) a H1 H2).
      destruct (disk_account (sn_disk s) a); reflexivity.
Qed.

Lemma snap_storage_walk : forall fp s a k,
  snap_storage fp s a k = (with_disk s (fst (walk_storage (sn_diffs s) (sn_disk s) a k)),
                           snd (walk_storage (sn_diffs s) (sn_disk s) a k)).
Proof.
  intros fp s a k. unfold snap_storage. destruct (sn_diffs s) as [|l t] eqn:E.
  - cbn [walk_storage]. destruct (disk_storage (sn_disk s) a k); reflexivity.
  - destruct (bloom fp (l :: t) (BStorage a k) || bloom fp (l :: t) (BDestruct a)) eqn:H.
    + destruct (walk_storage (l :: t) (sn_disk s) a k); reflexivity.
    + apply orb_false_iff in H. destruct H as [H1 H2].
      rewrite (walk_storage_miss fp (l :: t) (sn_disk s) a k H1 H2).
      destruct (disk_storage (sn_disk s) a k); reflexivity.
Qed.

Lemma bloom_irrelevant : forall fp1 fp2 s a k,
  snap_account fp1 s a = snap_account fp2 s a /\ snap_storage fp1 s a k = snap_storage fp2 s a k.
Proof. intros; rewrite !snap_account_walk, !snap_storage_walk; auto. Qed.

(** reading returns what the chain stands for, and leaves that unchanged *)
Definition same_snap (s s' : snap) : Prop := sn_diffs s' = sn_diffs s /\ same_data (sn_disk s) (sn_disk s').

Lemma same_snap_view : forall s s', same_snap s s' ->
  (forall a, view_acc s' a = view_acc s a) /\ (forall a k, view_sto s' a k = view_sto s a k).
Proof.
  intros s s' (D & A & S & _). unfold view_acc, view_sto. rewrite D, A, S. auto.
Qed.

Lemma snap_account_spec : forall fp s a, coherent (sn_disk s) ->
  snd (snap_account fp s a) = view_acc s a /\
  coherent (sn_disk (fst (snap_account fp s a))) /\ same_snap s (fst (snap_account fp s a)).
Proof.
  intros fp s a Hc. rewrite snap_account_walk. cbn [fst snd with_disk sn_disk sn_diffs].
  destruct (walk_account_spec (sn_diffs s) (sn_disk s) a Hc) as (V & C & S).
  split; [exact V|]. split; [exact C|]. split; [reflexivity|exact S].
Qed.

Lemma snap_storage_spec : forall fp s a k, coherent (sn_disk s) ->
  snd (snap_storage fp s a k) = view_sto s a k /\
  coherent (sn_disk (fst (snap_storage fp s a k))) /\ same_snap s (fst (snap_storage fp s a k)).
Proof.
  intros fp s a k Hc. rewrite snap_storage_walk. cbn [fst snd with_disk sn_disk sn_diffs].
  destruct (walk_storage_spec (sn_diffs s) (sn_disk s) a k Hc) as (V & C & S).
  split; [exact V|]. split; [exact C|]. split; [reflexivity|exact S].
Qed.

(** ---------------------------------------------------------------- flatten *)

Lemma merge_acc : forall l p b a, over_acc1 (merge l p) b a = over_acc1 l (over_acc1 p b) a.
Proof.
  intros l p b a. unfold over_acc1, merge; cbn.
  destruct (dl_acc l a); auto. destruct (dl_destruct l a); cbn; auto.
Qed.
Lemma merge_sto : forall l p b a k, over_sto1 (merge l p) b a k = over_sto1 l (over_sto1 p b) a k.
Proof.
  intros l p b a k. unfold over_sto1, merge; cbn.
  destruct (dl_sto l a k); auto. destruct (dl_destruct l a); cbn; auto.
Qed.

Lemma flatten_none : forall ds, flatten ds = None -> ds = nil.
Proof. destruct ds as [|l t]; auto. cbn. destruct (flatten t); discriminate. Qed.

Lemma flatten_acc : forall ds f b, flatten ds = Some f -> forall a, over_acc1 f b a = over_acc ds b a.
Proof.
  induction ds as [|l t IH]; intros f b H a; [discriminate|]. cbn [flatten] in H. cbn [over_acc].
  destruct (flatten t) as [p|] eqn:E.
  - inversion H; subst f. rewrite merge_acc. unfold over_acc1 at 1 3.
    destruct (dl_acc l a); auto. destruct (dl_destruct l a); auto.
  - inversion H; subst f. apply flatten_none in E; subst t. reflexivity.
Qed.
Lemma flatten_sto : forall ds f b, flatten ds = Some f -> forall a k, over_sto1 f b a k = over_sto ds b a k.
Proof.
  induction ds as [|l t IH]; intros f b H a k; [discriminate|]. cbn [flatten] in H. cbn [over_sto].
  destruct (flatten t) as [p|] eqn:E.
  - inversion H; subst f. rewrite merge_sto. unfold over_sto1 at 1 3.
    destruct (dl_sto l a k); auto. destruct (dl_destruct l a); auto.
  - inversion H; subst f. apply flatten_none in E; subst t. reflexivity.
Qed.

Lemma flatten_root : forall ds f, flatten ds = Some f -> exists l t, ds = l :: t /\ dl_root f = dl_root l.
Proof.
  intros [|l t] f H; [discriminate|]. exists l, t; split; auto. cbn in H.
  destruct (flatten t); inversion H; reflexivity.
Qed.

(** ---------------------------------------------------------------- diffToDisk *)

Lemma diff_to_disk_spec : forall b d, coherent d ->
  coherent (diff_to_disk b d) /\
  (forall a, dk_acc (diff_to_disk b d) a = over_acc1 b (dk_acc d) a) /\
  (forall a k, dk_sto (diff_to_disk b d) a k = over_sto1 b (dk_sto d) a k).
Proof.
  intros b d [Ha Hs]. split; [|split].
  - split; cbn.
    + intros a r. destruct (dl_acc b a) as [x|]; [intro H; inversion H; reflexivity|].
      destruct (dl_destruct b a); [intro H; inversion H; reflexivity|apply Ha].
    + intros a k v. destruct (dl_sto b a k) as [x|]; [intro H; inversion H; reflexivity|].
      destruct (dl_destruct b a); [|apply Hs].
      destruct (N.eqb (dk_sto d a k) 0) eqn:E; [|discriminate].
      intro H. apply Hs in H. apply N.eqb_eq in E. congruence.
  - intro a; cbn. unfold over_acc1. destruct (dl_acc b a); auto.
  - intros a k; cbn. unfold over_sto1. destruct (dl_sto b a k); auto.
Qed.

(** ---------------------------------------------------------------- Cap *)

Lemma snap_cap_spec : forall s layers, coherent (sn_disk s) ->
  coherent (sn_disk (snap_cap s layers)) /\
  (forall a, view_acc (snap_cap s layers) a = view_acc s a) /\
  (forall a k, view_sto (snap_cap s layers) a k = view_sto s a k).
Proof.
  intros s layers Hc. unfold snap_cap. destruct layers as [|m].
  - destruct (flatten (sn_diffs s)) as [b|] eqn:F; [|auto].
    destruct (diff_to_disk_spec b (sn_disk s) Hc) as (C & A & S).
    split; [exact C|]. unfold view_acc, view_sto; cbn [sn_diffs sn_disk over_acc over_sto]. split.
    + intro a. rewrite A. apply flatten_acc; auto.
    + intros a k. rewrite S. apply flatten_sto; auto.
  - set (n := S m). destruct (flatten (skipn n (sn_diffs s))) as [f|] eqn:F; [|auto].
    assert (Hsplit : sn_diffs s = firstn n (sn_diffs s) ++ skipn n (sn_diffs s)) by (symmetry; apply firstn_skipn).
    destruct (dk_gen (sn_disk s)).
    + destruct (diff_to_disk_spec f (sn_disk s) Hc) as (C & A & S).
      split; [exact C|]. unfold view_acc, view_sto; cbn [sn_diffs sn_disk]. split.
      * intro a. rewrite Hsplit at 2. rewrite over_acc_app. apply over_acc_ext. intro x. rewrite A. apply flatten_acc; auto.
      * intros a k. rewrite Hsplit at 2. rewrite over_sto_app. apply over_sto_ext. intros x y. rewrite S. apply flatten_sto; auto.
    + split; [exact Hc|]. unfold view_acc, view_sto; cbn [sn_diffs sn_disk]. split.
      * intro a. rewrite Hsplit at 2. rewrite !over_acc_app. apply over_acc_ext. intro x. cbn [over_acc]. apply flatten_acc; auto.
      * intros a k. rewrite Hsplit at 2. rewrite !over_sto_app. apply over_sto_ext. intros x y. cbn [over_sto]. apply flatten_sto; auto.
Qed.

(** the entry Cap additionally writes into the tree's map (flattened accumulator / new disk layer)
    stands for exactly what the layers it replaces stood for *)
Definition below (s : snap) (layers : nat) : list dlayer :=
  match layers with O => sn_diffs s | S _ => skipn layers (sn_diffs s) end.

Lemma snap_cap_regs_spec : forall s layers r t, coherent (sn_disk s) -> In (r, t) (snap_cap_regs s layers) ->
  coherent (sn_disk t) /\
  (forall a, view_acc t a = over_acc (below s layers) (dk_acc (sn_disk s)) a) /\
  (forall a k, view_sto t a k = over_sto (below s layers) (dk_sto (sn_disk s)) a k).
Proof.
  intros s layers r t Hc Hin. unfold snap_cap_regs in Hin. unfold below.
  assert (G : forall ds f, flatten ds = Some f ->
             (r, t) = (dk_root (diff_to_disk f (sn_disk s)), mkSnap nil (diff_to_disk f (sn_disk s))) ->
             coherent (sn_disk t) /\
             (forall a, view_acc t a = over_acc ds (dk_acc (sn_disk s)) a) /\
             (forall a k, view_sto t a k = over_sto ds (dk_sto (sn_disk s)) a k)).
  { intros ds f F E. inversion E; subst r t.
    destruct (diff_to_disk_spec f (sn_disk s) Hc) as (C & A & S). split; [exact C|].
    unfold view_acc, view_sto; cbn [sn_diffs sn_disk over_acc over_sto]. split.
    - intro a. rewrite A. apply flatten_acc; auto.
    - intros a k. rewrite S. apply flatten_sto; auto. }
  destruct layers as [|m].
  - destruct (flatten (sn_diffs s)) as [b|] eqn:F; [|destruct Hin].
    destruct Hin as [H|[]]. apply (G _ b F). auto.
  - set (n := S m) in *. destruct (flatten (skipn n (sn_diffs s))) as [f|] eqn:F; [|destruct Hin].
    destruct (dk_gen (sn_disk s)).
    + destruct Hin as [H|[]]. apply (G _ f F). auto.
    + destruct Hin as [H|[]]. inversion H; subst r t. split; [exact Hc|].
      unfold view_acc, view_sto; cbn [sn_diffs sn_disk over_acc over_sto]. split.
      * intro a. apply flatten_acc; auto.
      * intros a k. apply flatten_sto; auto.
Qed.

(** ---------------------------------------------------------------- every chain that Update / Cap / reads can build *)

(** [built s va vs]: [s] was made from an empty disk layer by Tree.Update, Tree.Cap and reads;
    [va]/[vs] is the overlay of the updates' data, in order (the destruct markers wipe an account
    and all its storage, then the block's accounts and slots are written) *)
Inductive built : snap -> (N -> option account) -> (N -> N -> N) -> Prop :=
| built_empty : forall r, built (mkSnap nil (empty_disk r)) (fun _ => None) (fun _ _ => 0)
| built_update : forall s va vs r de ac st, built s va vs ->
    built (snap_update s r de ac st) (over_acc1 (mkDL r de ac st) va) (over_sto1 (mkDL r de ac st) vs)
| built_cap : forall s va vs layers, built s va vs -> built (snap_cap s layers) va vs
| built_read_account : forall s va vs fp a, built s va vs -> built (fst (snap_account fp s a)) va vs
| built_read_storage : forall s va vs fp a k, built s va vs -> built (fst (snap_storage fp s a k)) va vs.

Lemma built_inv : forall s va vs, built s va vs ->
  coherent (sn_disk s) /\ (forall a, view_acc s a = va a) /\ (forall a k, view_sto s a k = vs a k).
Proof.
  induction 1 as [r|s va vs r de ac st B (C & A & S)|s va vs layers B (C & A & S)
                 |s va vs fp a B (C & A & S)|s va vs fp a k B (C & A & S)].
  - split; [split; cbn; intros; discriminate|]. split; reflexivity.
  - split; [exact C|]. unfold view_acc, view_sto; cbn [snap_update sn_diffs sn_disk over_acc over_sto]. split.
    + intro a. unfold over_acc1. cbn. destruct (ac a); auto. destruct (de a); auto. apply A.
    + intros a k. unfold over_sto1. cbn. destruct (st a k); auto. destruct (de a); auto. apply S.
  - destruct (snap_cap_spec s layers C) as (C' & A' & S'). split; [exact C'|]. split.
    + intro a. rewrite A'. apply A.
    + intros a k. rewrite S'. apply S.
  - destruct (snap_account_spec fp s a C) as (_ & C' & SS). destruct (same_snap_view _ _ SS) as (A' & S').
    split; [exact C'|]. split; intros; [rewrite A'; apply A|rewrite S'; apply S].
  - destruct (snap_storage_spec fp s a k C) as (_ & C' & SS). destruct (same_snap_view _ _ SS) as (A' & S').
    split; [exact C'|]. split; intros; [rewrite A'; apply A|rewrite S'; apply S].
Qed.

Lemma built_read : forall s va vs, built s va vs -> forall fp a k,
  snd (snap_account fp s a) = va a /\ snd (snap_storage fp s a k) = vs a k.
Proof.
  intros s va vs B fp a k. destruct (built_inv s va vs B) as (C & A & S).
  destruct (snap_account_spec fp s a C) as (V1 & _). destruct (snap_storage_spec fp s a k C) as (V2 & _).
  rewrite V1, V2. auto.
Qed.

(** ---------------------------------------------------------------- the destruct probe is necessary *)

(** disk layer: contract 1 with slot 0 = 42; on top a block that destructed the contract and re-created
    it without writing slot 0 *)
Definition probe_disk : disk :=
  mkDisk 1 (fupd fempty 1 (mkAccount 1 0%Z 0 (fun k => if N.eqb k 0 then 42 else 0)))
         (fun a k => if N.eqb a 1 && N.eqb k 0 then 42 else 0) fempty (fun _ => fempty) false.
Definition probe_layer : dlayer :=
  mkDL 2 (fun a => N.eqb a 1) (fupd fempty 1 (mkAccount 1 0%Z 0 (fun _ => 0))) (fun _ => fempty).
Definition probe_snap : snap := mkSnap [probe_layer] probe_disk.

Lemma probe_needed :
  coherent (sn_disk probe_snap) /\
  view_sto probe_snap 1 0 = 0 /\
  snd (snap_storage (fun _ => false) probe_snap 1 0) = 0 /\
  snd (snap_storage_noprobe (fun _ => false) probe_snap 1 0) = 42.
Proof.
  split; [split; cbn; intros; discriminate|]. repeat split; reflexivity.
Qed.

(** ---------------------------------------------------------------- flatten shares inner maps (known finding) *)


(** with Go's sharing (ModelSnapHeap.v): the layer object of block b3 answers 0 for slot 0 of contract 1
    (as its root's content says); after Cap flattened b2..b4 the SAME object — never marked stale —
    answers 1, block b4's value.  On values (this file) flatten cannot do that: [snap_cap_spec]. *)
Lemma flatten_aliasing :
  h_storage 10 alias_heap 1 1 0 = Some 0 /\
  let h' := fst (h_flatten 10 alias_heap 2) in
  option_map hl_stale (nth_error (hh_layers h') 1) = Some false /\
  h_storage 10 h' 1 1 0 = Some 1.
Proof. vm_compute. repeat split. Qed.
