(** C08 — tie of the model's decisions to the Go SOURCE.
    [Generated/C08Source.v] is produced on every check by /verif/go2coq from /repo's working tree: every
    guard, counter update and flag store of
      kai/state/statedb.go      Snapshot, RevertToSnapshot, Finalise, IntermediateRoot, Commit, CreateAccount /
                                createObject, Suicide, AddRefund / SubRefund, Empty, getStateObject,
                                GetOrNewStateObject, clearJournalAndRefund, AddLog
      kai/state/state_object.go empty, AddBalance / SubBalance, SetState, GetState, GetCommittedState, touch, updateTrie
      kai/state/journal.go      journal.revert / append / dirty, resetObjectChange / suicideChange / addLogChange revert
      kai/state/snapshot        diffLayer.AccountRLP / accountRLP / Storage / storage / flatten, Tree.Cap / cap, diffToDisk
    as functions of their atoms.  The lemmas below say that the decisions of C08/Model.v and C08/ModelSnap.v
    ARE these expressions on these operands: each lemma rewrites a model definition into a form in which
    every branch is taken by the generated guard applied to the model's own data; the [_atoms] lists pin
    what the Go code compares.  Dropping or editing a guard in the Go source renames or changes the
    generated definition and this file no longer compiles. *)
From Coq Require Import List ZArith NArith Bool Lia String.
From Kardia Require Import Base.Int64 Base.GoSem.
From Kardia Require Import Generated.C08Source.
From Kardia Require Import C08.Model C08.ModelSnap C08.ProofsEqv C08.ProofsCoh.
Import ListNotations.
Local Open Scope Z_scope.

(** big.Int.Sign as the Go int it returns *)
Definition sign_int (a : Z) : Z := match a ?= 0 with Lt => -1 | Eq => 0 | Gt => 1 end.

Lemma sign_int_zero a : Z.eqb (sign_int a) 0 = Z.eqb a 0.
Proof. unfold sign_int. destruct (Z.compare_spec a 0) as [H|H|H]; subst; cbn; auto; symmetry; apply Z.eqb_neq; lia. Qed.

Lemma zofn_eqb a b : Z.eqb (Z.of_N a) (Z.of_N b) = N.eqb a b.
Proof.
  destruct (N.eqb a b) eqn:E.
  - apply N.eqb_eq in E; subst. apply Z.eqb_refl.
  - apply N.eqb_neq in E. apply Z.eqb_neq. lia.
Qed.

(** ---------------------------------------------------------------- state_object.go *)

(** stateObject.empty: nonce == 0 && balance.Sign() == 0 && codehash == emptyCodeHash *)
Lemma tie_empty o :
  obj_empty o =
  kai_state__stateObject_empty__ret_s_data_Nonce_eq_0_and_s_data_Balance_Sign_eq_0_and_bytes_Equ_d1151db1
    (Z.of_N (ac_nonce (o_data o))) (sign_int (ac_balance (o_data o))) (N.eqb (ac_code (o_data o)) 0).
Proof.
  unfold obj_empty, kai_state__stateObject_empty__ret_s_data_Nonce_eq_0_and_s_data_Balance_Sign_eq_0_and_bytes_Equ_d1151db1.
  rewrite sign_int_zero. rewrite <- (zofn_eqb (ac_nonce (o_data o)) 0). reflexivity.
Qed.
Lemma tie_empty_atoms :
  kai_state__stateObject_empty__ret_s_data_Nonce_eq_0_and_s_data_Balance_Sign_eq_0_and_bytes_Equ_d1151db1_atoms =
  ["s.data.Nonce : uint64"; "s.data.Balance.Sign() : int"; "bytes.Equal(s.data.CodeHash, types.EmptyCodeHash.Bytes()) : bool"]%string.
Proof. reflexivity. Qed.

(** stateObject.touch: the RIPEMD special case *)
Lemma tie_touch s a :
  touch s a =
  let s1 := jappend s (JTouch a) in
  if kai_state__stateObject_touch__if_s_address_eq_ripemd (N.eqb a ripemd)
  then set_dirties s1 (tupd (st_dirties s1) a (st_dirties s1 a + 1)%N) else s1.
Proof. reflexivity. Qed.
Lemma tie_touch_atoms : kai_state__stateObject_touch__if_s_address_eq_ripemd_atoms = ["s.address == ripemd : untyped bool"]%string.
Proof. reflexivity. Qed.

(** AddBalance / SubBalance: the zero-amount early exits; the touch only for an empty object *)
Lemma tie_add_balance s a amount :
  add_balance s a amount =
  let (s1, o) := get_or_new s a in
  if kai_state__stateObject_AddBalance__if_amount_Sign_eq_0 (sign_int amount)
  then (if kai_state__stateObject_AddBalance__if_s_empty (obj_empty o) then touch s1 a else s1)
  else obj_set_balance s1 a o (ac_balance (o_data o) + amount).
Proof.
  unfold add_balance, kai_state__stateObject_AddBalance__if_amount_Sign_eq_0, kai_state__stateObject_AddBalance__if_s_empty.
  rewrite sign_int_zero. reflexivity.
Qed.
Lemma tie_sub_balance s a amount :
  sub_balance s a amount =
  let (s1, o) := get_or_new s a in
  if kai_state__stateObject_SubBalance__if_amount_Sign_eq_0 (sign_int amount) then s1
  else obj_set_balance s1 a o (ac_balance (o_data o) - amount).
Proof.
  unfold sub_balance, kai_state__stateObject_SubBalance__if_amount_Sign_eq_0. rewrite sign_int_zero. reflexivity.
Qed.
Lemma tie_balance_atoms :
  kai_state__stateObject_AddBalance__if_amount_Sign_eq_0_atoms = ["amount.Sign() : int"]%string /\
  kai_state__stateObject_AddBalance__if_s_empty_atoms = ["s.empty() : bool"]%string /\
  kai_state__stateObject_SubBalance__if_amount_Sign_eq_0_atoms = ["amount.Sign() : int"]%string.
Proof. repeat split; reflexivity. Qed.

(** SetState: no journal entry and no write when the value is unchanged *)
Lemma tie_set_state s a k v :
  set_state s a k v =
  let (s1, o) := get_or_new s a in
  let (oc, prev) := obj_get_state (st_destruct s1 a) o k in
  let o1 := match oc with Some o' => o' | None => o end in
  let s2 := match oc with Some o' => put_obj s1 a o' | None => s1 end in
  if kai_state__stateObject_SetState__if_prev_eq_value (N.eqb prev v) then s2
  else put_obj (jappend s2 (JStorage a k prev)) a (seto_dirty o1 (fupd (o_dirty o1) k v)).
Proof. reflexivity. Qed.
Lemma tie_set_state_atoms : kai_state__stateObject_SetState__if_prev_eq_value_atoms = ["prev == value : untyped bool"]%string.
Proof. reflexivity. Qed.

(** GetState / GetCommittedState: dirty, pending, cached, then the destruct short-circuit, then the load *)
Lemma tie_get_state d o k :
  obj_get_state d o k =
  if kai_state__stateObject_GetState__if_dirty (is_some (o_dirty o k))
  then (None, match o_dirty o k with Some v => v | None => 0%N end)
  else obj_get_committed d o k.
Proof. unfold obj_get_state, kai_state__stateObject_GetState__if_dirty. destruct (o_dirty o k); reflexivity. Qed.

Lemma tie_get_committed d o k :
  obj_get_committed d o k =
  if kai_state__stateObject_GetCommittedState__if_pending (is_some (o_pending o k))
  then (None, match o_pending o k with Some v => v | None => 0%N end)
  else if kai_state__stateObject_GetCommittedState__if_cached (is_some (o_origin o k))
  then (None, match o_origin o k with Some v => v | None => 0%N end)
  else if kai_state__stateObject_GetCommittedState__if_destructed d then (None, 0%N)
  else let v := ac_storage (o_data o) k in (Some (seto_origin o (fupd (o_origin o) k v)), v).
Proof.
  unfold obj_get_committed, kai_state__stateObject_GetCommittedState__if_pending,
    kai_state__stateObject_GetCommittedState__if_cached, kai_state__stateObject_GetCommittedState__if_destructed.
  destruct (o_pending o k); [reflexivity|]. destruct (o_origin o k); [reflexivity|]. destruct d; reflexivity.
Qed.
Lemma tie_get_committed_atoms :
  kai_state__stateObject_GetState__if_dirty_atoms = ["dirty : bool"]%string /\
  kai_state__stateObject_GetCommittedState__if_pending_atoms = ["pending : bool"]%string /\
  kai_state__stateObject_GetCommittedState__if_cached_atoms = ["cached : bool"]%string /\
  kai_state__stateObject_GetCommittedState__if_destructed_atoms = ["destructed : bool"]%string /\
  kai_state__stateObject_GetCommittedState__if_s_db_snap_eq_nil_or_err_ne_nil_atoms = ["s.db.snap == nil : untyped bool"; "err != nil : untyped bool"]%string.
Proof. repeat split; reflexivity. Qed.

(** updateTrie: a pending value equal to the origin value is skipped (trie and snapshot data alike) *)
Lemma tie_update_trie_skip o m k :
  snap_update_trie o m k =
  match o_pending (obj_finalise o) k with
  | Some v => if kai_state__stateObject_updateTrie__if_value_eq_s_originStorage_at_key (N.eqb v (originz (obj_finalise o) k))
              then m k else Some v
  | None => m k
  end.
Proof. reflexivity. Qed.
Lemma tie_update_trie_atoms :
  kai_state__stateObject_updateTrie__if_value_eq_s_originStorage_at_key_atoms = ["value == s.originStorage[key] : untyped bool"]%string /\
  kai_state__stateObject_updateTrie__if_len_s_pendingStorage_eq_0_atoms = ["len(s.pendingStorage) : int"]%string /\
  kai_state__stateObject_updateTrie__if_s_db_snap_ne_nil_atoms = ["s.db.snap != nil : untyped bool"]%string.
Proof. repeat split; reflexivity. Qed.

(** ---------------------------------------------------------------- statedb.go *)

(** getStateObject: obj != nil && !obj.deleted *)
Lemma tie_get_obj s a :
  get_obj s a =
  let (s1, r) := get_deleted s a in
  if kai_state__StateDB_getStateObject__if_obj_ne_nil_and_not_obj_deleted (is_some r)
       (match r with Some o => o_deleted o | None => false end)
  then (s1, r) else (s1, None).
Proof.
  unfold get_obj, kai_state__StateDB_getStateObject__if_obj_ne_nil_and_not_obj_deleted.
  destruct (get_deleted s a) as [s1 [o|]]; cbn; [destruct (o_deleted o)|]; reflexivity.
Qed.

(** GetOrNewStateObject *)
Lemma tie_get_or_new s a :
  get_or_new s a =
  let (s1, r) := get_obj s a in
  if kai_state__StateDB_GetOrNewStateObject__if_stateObject_eq_nil (negb (is_some r))
  then (let '(s2, o, _) := create_object s1 a in (s2, o))
  else (s1, match r with Some o => o | None => new_object empty_account end).
Proof.
  unfold get_or_new, kai_state__StateDB_GetOrNewStateObject__if_stateObject_eq_nil.
  destruct (get_obj s a) as [s1 [o|]]; reflexivity.
Qed.

(** createObject: prev == nil -> createObjectChange; else mark destructed (unless it already is) and
    journal a resetObjectChange; the previous object is returned only if it was not deleted *)
Lemma tie_create_object s a :
  create_object s a =
  let (s1, prev) := get_deleted s a in
  let newobj := new_object empty_account in
  let s2 :=
    if kai_state__StateDB_createObject__if_prev_eq_nil (negb (is_some prev))
    then jappend s1 (JCreateObject a)
    else match prev with
         | Some p =>
           let pd := st_destruct s1 a in
           let s1' := if kai_state__StateDB_createObject__if_not_prevdestruct pd
                      then set_destruct s1 (tupd (st_destruct s1) a true) else s1 in
           jappend s1' (JResetObject a p pd)
         | None => s1
         end in
  (put_obj s2 a newobj,
   newobj,
   if kai_state__StateDB_createObject__if_prev_ne_nil_and_not_prev_deleted (is_some prev)
        (match prev with Some p => o_deleted p | None => false end)
   then prev else None).
Proof.
  unfold create_object, kai_state__StateDB_createObject__if_prev_eq_nil, kai_state__StateDB_createObject__if_not_prevdestruct,
    kai_state__StateDB_createObject__if_prev_ne_nil_and_not_prev_deleted.
  destruct (get_deleted s a) as [s1 [p|]]; cbn [is_some negb andb].
  - destruct (st_destruct s1 a); destruct (o_deleted p); reflexivity.
  - reflexivity.
Qed.
Lemma tie_create_object_atoms :
  kai_state__StateDB_createObject__if_prev_eq_nil_atoms = ["prev == nil : untyped bool"]%string /\
  kai_state__StateDB_createObject__if_not_prevdestruct_atoms = ["prevdestruct : bool"]%string /\
  kai_state__StateDB_createObject__if_prev_ne_nil_and_not_prev_deleted_atoms = ["prev != nil : bool"; "prev.deleted : bool"]%string /\
  kai_state__StateDB_getStateObject__if_obj_ne_nil_and_not_obj_deleted_atoms = ["obj != nil : bool"; "obj.deleted : bool"]%string.
Proof. repeat split; reflexivity. Qed.

(** CreateAccount: the balance is carried over iff createObject returned a predecessor *)
Lemma tie_create_account s a :
  create_account s a =
  let '(s1, newobj, prev) := create_object s a in
  if kai_state__StateDB_CreateAccount__if_prev_ne_nil (is_some prev)
  then put_obj s1 a (seto_data newobj (setac_balance (o_data newobj)
                      (match prev with Some p => ac_balance (o_data p) | None => 0 end)))
  else s1.
Proof.
  unfold create_account, kai_state__StateDB_CreateAccount__if_prev_ne_nil.
  destruct (create_object s a) as [[s1 newobj] [p|]]; reflexivity.
Qed.

(** Suicide: nothing happens (and false is returned) for a missing object *)
Lemma tie_suicide s a :
  suicide s a =
  let (s1, r) := get_obj s a in
  if kai_state__StateDB_Suicide__if_stateObject_eq_nil (negb (is_some r)) then (s1, false)
  else match r with
       | Some o => (put_obj (jappend s1 (JSuicide a (o_suicided o) (ac_balance (o_data o)))) a
                            (seto_suicided (seto_data o (setac_balance (o_data o) 0)) true), true)
       | None => (s1, false)
       end.
Proof.
  unfold suicide, kai_state__StateDB_Suicide__if_stateObject_eq_nil. destruct (get_obj s a) as [s1 [o|]]; reflexivity.
Qed.

(** Empty: so == nil || so.empty() *)
Lemma tie_empty_getter s a :
  snd (read s (QEmpty a)) =
  AB (kai_state__StateDB_Empty__ret_so_eq_nil_or_so_empty
        (negb (is_some (snd (get_obj s a)))) (match snd (get_obj s a) with Some o => obj_empty o | None => false end)).
Proof.
  unfold read, kai_state__StateDB_Empty__ret_so_eq_nil_or_so_empty. destruct (get_obj s a) as [s1 [o|]]; reflexivity.
Qed.

(** AddRefund / SubRefund: uint64 arithmetic and the panic test [gas > s.refund] *)
Lemma tie_add_refund s g :
  Z.of_N (st_refund (add_refund s g)) = kai_state__StateDB_AddRefund__set_refund_op (Z.of_N (st_refund s)) (Z.of_N g).
Proof.
  unfold add_refund, kai_state__StateDB_AddRefund__set_refund_op, go_add, wrap, jappend; cbn [dirtied]; ss.
  rewrite N2Z.inj_mod, N2Z.inj_add. reflexivity.
Qed.
Lemma tie_sub_refund_guard s g :
  snd (sub_refund s g) = kai_state__StateDB_SubRefund__if_gas_gt_s_refund (Z.of_N g) (Z.of_N (st_refund s)).
Proof.
  unfold sub_refund, kai_state__StateDB_SubRefund__if_gas_gt_s_refund, jappend; cbn [dirtied]; ss.
  rewrite Z.gtb_ltb. destruct (N.ltb (st_refund s) g) eqn:E; cbn [snd].
  - apply N.ltb_lt in E. symmetry. apply Z.ltb_lt. lia.
  - apply N.ltb_ge in E. symmetry. apply Z.ltb_ge. lia.
Qed.
Lemma tie_sub_refund s g : snd (sub_refund s g) = false -> (Z.of_N (st_refund s) < 18446744073709551616) ->
  Z.of_N (st_refund (fst (sub_refund s g))) = kai_state__StateDB_SubRefund__set_refund_op (Z.of_N (st_refund s)) (Z.of_N g).
Proof.
  unfold sub_refund, kai_state__StateDB_SubRefund__set_refund_op, go_sub, jappend; cbn [dirtied]; ss.
  destruct (N.ltb (st_refund s) g) eqn:E; cbn [fst snd]; [discriminate|]. intros _ Hb. ss.
  apply N.ltb_ge in E. rewrite wrap_id by (unfold in_range; lia). lia.
Qed.
Lemma tie_refund_atoms :
  kai_state__StateDB_SubRefund__if_gas_gt_s_refund_atoms = ["gas : uint64"; "s.refund : uint64"]%string /\
  kai_state__StateDB_SubRefund__set_refund_op_atoms = ["s.refund : uint64"; "gas : uint64"]%string /\
  kai_state__StateDB_AddRefund__set_refund_op_atoms = ["s.refund : uint64"; "gas : uint64"]%string.
Proof. repeat split; reflexivity. Qed.

(** Snapshot: the id is nextRevisionId, then nextRevisionId + 1 (Go int; no wrap below 2^63) *)
Lemma tie_snapshot s : (Z.of_N (st_nextrev s) < 9223372036854775807) ->
  snd (snapshot s) = st_nextrev s /\
  Z.of_N (st_nextrev (fst (snapshot s))) = kai_state__StateDB_Snapshot__set_nextRevisionId_op (Z.of_N (st_nextrev s)).
Proof.
  intro H. split; [reflexivity|]. unfold snapshot, kai_state__StateDB_Snapshot__set_nextRevisionId_op, go_add; ss.
  rewrite wrap_id by (unfold in_range; lia). lia.
Qed.

(** RevertToSnapshot: the sort.Search predicate and the validity test *)
Lemma tie_search_pred id revid :
  N.leb revid id = kai_state__StateDB_RevertToSnapshot__ret_s_validRevisions_at_i__id_ge_revid (Z.of_N id) (Z.of_N revid).
Proof.
  unfold kai_state__StateDB_RevertToSnapshot__ret_s_validRevisions_at_i__id_ge_revid. rewrite Z.geb_leb.
  destruct (N.leb revid id) eqn:E.
  - apply N.leb_le in E. symmetry. apply Z.leb_le. lia.
  - apply N.leb_gt in E. symmetry. apply Z.leb_gt. lia.
Qed.

Lemma search_rev_le revs revid : forall i, (search_rev revs revid i <= i + List.length revs)%nat.
Proof.
  induction revs as [|[id j] t IH]; intro i; simpl; [lia|].
  destruct (N.leb revid id); [lia|]. specialize (IH (S i)). lia.
Qed.

(** the panic test: idx == len(validRevisions) || validRevisions[idx].id != revid *)
Lemma tie_revert_guard s revid :
  let idx := search_rev (st_revs s) revid O in
  snd (revert_to s revid) =
  kai_state__StateDB_RevertToSnapshot__if_idx_eq_len_s_validRevisions_or_s_validRevisions_at_idx__id_ne_revid
    (Z.of_nat idx) (Z.of_nat (List.length (st_revs s)))
    (Z.of_N (fst (nth idx (st_revs s) (0%N, O)))) (Z.of_N revid).
Proof.
  intro idx. unfold revert_to. fold idx.
  unfold kai_state__StateDB_RevertToSnapshot__if_idx_eq_len_s_validRevisions_or_s_validRevisions_at_idx__id_ne_revid, go_neqb.
  pose proof (search_rev_le (st_revs s) revid O) as Hle. fold idx in Hle. cbn [plus] in Hle.
  destruct (nth_error (st_revs s) idx) as [[id jidx]|] eqn:E.
  - assert (Hlt : (idx < List.length (st_revs s))%nat) by (apply nth_error_Some; congruence).
    rewrite (nth_error_nth _ _ _ E). cbn [fst].
    replace (Z.of_nat idx =? Z.of_nat (List.length (st_revs s))) with false by (symmetry; apply Z.eqb_neq; lia).
    cbn [orb]. rewrite zofn_eqb. destruct (N.eqb id revid); reflexivity.
  - apply nth_error_None in E. assert (idx = List.length (st_revs s)) by lia.
    replace (Z.of_nat idx =? Z.of_nat (List.length (st_revs s))) with true by (symmetry; apply Z.eqb_eq; lia). reflexivity.
Qed.
Lemma tie_revert_atoms :
  kai_state__StateDB_RevertToSnapshot__ret_s_validRevisions_at_i__id_ge_revid_atoms = ["s.validRevisions[i].id : int"; "revid : int"]%string /\
  kai_state__StateDB_RevertToSnapshot__if_idx_eq_len_s_validRevisions_or_s_validRevisions_at_idx__id_ne_revid_atoms =
    ["idx : int"; "len(s.validRevisions) : int"; "s.validRevisions[idx].id : int"; "revid : int"]%string.
Proof. split; reflexivity. Qed.

(** Finalise: an object in journal.dirties is deleted iff obj.suicided || (deleteEmptyObjects && obj.empty());
    the flag written is [true]; objects not in stateObjects are skipped *)
Lemma tie_finalise de s a :
  st_objs (finalise de s) a =
  if N.ltb 0 (st_dirties s a) then
    if kai_state__StateDB_Finalise__if_not_exist (is_some (st_objs s a)) then None
    else match st_objs s a with
         | Some o =>
           if kai_state__StateDB_Finalise__if_obj_suicided_or_deleteEmptyObjects_and_obj_empty (o_suicided o) de (obj_empty o)
           then Some (seto_deleted o kai_state__StateDB_Finalise__put_obj_deleted) else Some (obj_finalise o)
         | None => None
         end
  else st_objs s a.
Proof.
  rewrite finalise_objs. unfold kai_state__StateDB_Finalise__if_not_exist,
    kai_state__StateDB_Finalise__if_obj_suicided_or_deleteEmptyObjects_and_obj_empty, kai_state__StateDB_Finalise__put_obj_deleted.
  destruct (N.ltb 0 (st_dirties s a)); [|reflexivity]. destruct (st_objs s a); reflexivity.
Qed.
Lemma tie_finalise_atoms :
  kai_state__StateDB_Finalise__if_obj_suicided_or_deleteEmptyObjects_and_obj_empty_atoms =
    ["obj.suicided : bool"; "deleteEmptyObjects : bool"; "obj.empty() : bool"]%string /\
  kai_state__StateDB_Finalise__if_not_exist_atoms = ["exist : bool"]%string /\
  kai_state__StateDB_Finalise__if_s_snap_ne_nil_atoms = ["s.snap != nil : untyped bool"]%string.
Proof. repeat split; reflexivity. Qed.

(** clearJournalAndRefund: only when the journal has entries; the refund is then 0 *)
Lemma tie_clear_journal s :
  clear_journal_and_refund s =
  set_revs (if kai_state__StateDB_clearJournalAndRefund__if_len_s_journal_entries_gt_0 (Z.of_nat (List.length (st_journal s)))
            then set_refund (set_dirties (set_journal s nil) (fun _ => 0%N)) (Z.to_N kai_state__StateDB_clearJournalAndRefund__put_s_refund)
            else s) nil.
Proof.
  unfold clear_journal_and_refund, kai_state__StateDB_clearJournalAndRefund__if_len_s_journal_entries_gt_0,
    kai_state__StateDB_clearJournalAndRefund__put_s_refund.
  destruct (st_journal s); reflexivity.
Qed.

(** IntermediateRoot / Commit: deleted objects are removed from the trie, the others updated *)
Lemma tie_intermediate_root_objs de s a :
  st_objs (intermediate_root de s) a =
  if st_pending (finalise de s) a then
    match st_objs (finalise de s) a with
    | Some o => if kai_state__StateDB_IntermediateRoot__if_not_obj_deleted (o_deleted o) then Some (obj_update_trie o) else Some o
    | None => None
    end
  else st_objs (finalise de s) a.
Proof.
  rewrite intermediate_root_objs. unfold kai_state__StateDB_IntermediateRoot__if_not_obj_deleted.
  destruct (st_pending (finalise de s) a); [|reflexivity].
  destruct (st_objs (finalise de s) a) as [o|]; [destruct (o_deleted o)|]; reflexivity.
Qed.
Lemma tie_commit_objs de s a :
  st_objs (fst (commit de s)) a =
  if st_dirtyset (intermediate_root de s) a then
    match st_objs (intermediate_root de s) a with
    | Some o => if kai_state__StateDB_Commit__if_not_obj_deleted (o_deleted o)
                then Some (obj_update_trie (seto_dirtycode o kai_state__StateDB_Commit__put_obj_dirtyCode)) else Some o
    | None => None
    end
  else st_objs (intermediate_root de s) a.
Proof.
  rewrite commit_objs. unfold kai_state__StateDB_Commit__if_not_obj_deleted, kai_state__StateDB_Commit__put_obj_dirtyCode.
  destruct (st_dirtyset (intermediate_root de s) a); [|reflexivity].
  destruct (st_objs (intermediate_root de s) a) as [o|]; [destruct (o_deleted o)|]; reflexivity.
Qed.
(** Commit hands its data to the snapshot tree iff it is attached (s.snap != nil) *)
Lemma tie_commit_handover de ss :
  is_some (snd (scommit de ss)) = kai_state__StateDB_Commit__if_s_snap_ne_nil (is_some (ss_snap ss)).
Proof.
  unfold scommit, kai_state__StateDB_Commit__if_s_snap_ne_nil. destruct (commit de (ss_st ss)). destruct (ss_snap ss); reflexivity.
Qed.

(** AddLog: Index = logSize, then logSize + 1 (uint) *)
Lemma tie_add_log s p :
  Z.of_N (st_logsize (add_log s p)) = kai_state__StateDB_AddLog__set_logSize_op (Z.of_N (st_logsize s)).
Proof.
  unfold add_log, kai_state__StateDB_AddLog__set_logSize_op, go_add, wrap, jappend; cbn [dirtied]; ss.
  rewrite N2Z.inj_mod, N2Z.inj_add. reflexivity.
Qed.

(** ---------------------------------------------------------------- journal.go *)

(** journal.append / journal.dirty: dirties[addr]++ *)
Lemma tie_jappend_dirties s e a : dirtied e = Some a -> (Z.of_N (st_dirties s a) < 9223372036854775807) ->
  Z.of_N (st_dirties (jappend s e) a) = kai_state__journal_append__set_x_op (Z.of_N (st_dirties s a)).
Proof.
  intros H Hb. unfold jappend, kai_state__journal_append__set_x_op, go_add. rewrite H. ss. unfold tupd. rewrite N.eqb_refl.
  rewrite wrap_id by (unfold in_range; lia). lia.
Qed.
Lemma tie_jappend_guard s e :
  jappend s e =
  let s1 := set_journal s (e :: st_journal s) in
  if kai_state__journal_append__if_addr_ne_nil (is_some (dirtied e))
  then match dirtied e with Some a => set_dirties s1 (tupd (st_dirties s1) a (st_dirties s1 a + 1)%N) | None => s1 end
  else s1.
Proof. unfold jappend, kai_state__journal_append__if_addr_ne_nil. destruct (dirtied e); reflexivity. Qed.
Lemma tie_ripemd_dirty d : (Z.of_N d < 9223372036854775807) -> Z.of_N (d + 1) = kai_state__journal_dirty__set_x_op (Z.of_N d).
Proof. intro H. unfold kai_state__journal_dirty__set_x_op, go_add. rewrite wrap_id by (unfold in_range; lia). lia. Qed.

(** journal.revert: dirties[addr]--, and the entry is deleted when it reaches 0 (0 = absent in the model) *)
Lemma tie_undo_dirty s e a : dirtied e = Some a -> (0 < st_dirties s a)%N -> Z.of_N (st_dirties s a) < 9223372036854775807 ->
  Z.of_N (st_dirties (undo_dirty e s) a) = kai_state__journal_revert__set_x_op (Z.of_N (st_dirties s a)) /\
  kai_state__journal_revert__if_j_dirties_at_mul_addr_eq_0 (Z.of_N (st_dirties (undo_dirty e s) a)) = N.eqb (st_dirties (undo_dirty e s) a) 0.
Proof.
  intros H Hp Hb. unfold undo_dirty, kai_state__journal_revert__set_x_op, kai_state__journal_revert__if_j_dirties_at_mul_addr_eq_0, go_sub.
  rewrite H. ss. unfold tupd. rewrite N.eqb_refl. split.
  - rewrite wrap_id by (unfold in_range; lia). rewrite N2Z.inj_pred by lia. lia.
  - change 0 with (Z.of_N 0). apply zofn_eqb.
Qed.

(** the loop [for i := len(j.entries) - 1; i >= snapshot; i--] runs len - snapshot times: the model's
    [rewind (List.length journal - jidx)] *)
Fixpoint src_revert_iters (fuel : nat) (i snapshot : Z) : nat :=
  match fuel with
  | O => O
  | S f => if kai_state__journal_revert__for_i_ge_snapshot i snapshot
           then S (src_revert_iters f (kai_state__journal_revert__set_i_op i) snapshot) else O
  end.

Lemma src_revert_iters_spec : forall fuel i snapshot,
  0 <= snapshot -> -1 <= i < 9223372036854775807 -> (Z.to_nat (i + 1 - snapshot) <= fuel)%nat ->
  src_revert_iters fuel i snapshot = Z.to_nat (i + 1 - snapshot).
Proof.
  induction fuel as [|f IH]; intros i sn Hs Hi Hf.
  - cbn. lia.
  - cbn [src_revert_iters]. unfold kai_state__journal_revert__for_i_ge_snapshot, kai_state__journal_revert__set_i_op, go_sub.
    rewrite Z.geb_leb. destruct (Z.leb sn i) eqn:E.
    + apply Z.leb_le in E. rewrite wrap_id by (unfold in_range; lia). rewrite IH by lia.
      replace (i + 1 - sn) with (Z.succ (i - 1 + 1 - sn)) by lia. rewrite Z2Nat.inj_succ by lia. reflexivity.
    + apply Z.leb_gt in E. replace (Z.to_nat (i + 1 - sn)) with O by lia. reflexivity.
Qed.

Lemma tie_revert_loop (len jidx : nat) : (jidx <= len)%nat -> Z.of_nat len < 9223372036854775807 ->
  src_revert_iters len (kai_state__journal_revert__set_i (Z.of_nat len)) (Z.of_nat jidx) = (len - jidx)%nat.
Proof.
  intros Hle Hb. unfold kai_state__journal_revert__set_i, go_sub. rewrite wrap_id by (unfold in_range; lia).
  rewrite src_revert_iters_spec by lia. lia.
Qed.
Lemma tie_revert_loop_atoms :
  kai_state__journal_revert__for_i_ge_snapshot_atoms = ["i : int"; "snapshot : int"]%string /\
  kai_state__journal_revert__set_i_atoms = ["len(j.entries) : int"]%string /\
  kai_state__journal_revert__set_i_op_atoms = ["i : int"]%string /\
  kai_state__journal_revert__set_x_op_atoms = ["j.dirties[*addr] : int"]%string /\
  kai_state__journal_revert__if_j_dirties_at_mul_addr_eq_0_atoms = ["j.dirties[*addr] : int"]%string.
Proof. repeat split; reflexivity. Qed.

(** resetObjectChange.revert: the destruct mark is removed iff it was not there before;
    the snapshot blobs come back iff they were there *)
Lemma tie_undo_reset a prev pd s :
  undo (JResetObject a prev pd) s =
  let s1 := put_obj s a prev in
  if kai_state__resetObjectChange_revert__if_not_ch_prevdestruct pd
  then set_destruct s1 (tupd (st_destruct s1) a false) else s1.
Proof. unfold undo, kai_state__resetObjectChange_revert__if_not_ch_prevdestruct. destruct pd; reflexivity. Qed.
Lemma tie_unreset a ss pa ps rest : ss_saved ss = (pa, ps) :: rest ->
  ss_acc (snap_unreset a ss) =
  (if kai_state__resetObjectChange_revert__if_ch_prevAccount_ne_nil (is_some pa)
   then match pa with Some x => fupd (ss_acc ss) a x | None => ss_acc ss end else ss_acc ss).
Proof.
  intro H. unfold snap_unreset, kai_state__resetObjectChange_revert__if_ch_prevAccount_ne_nil. rewrite H. destruct pa; reflexivity.
Qed.
Lemma tie_undo_reset_atoms :
  kai_state__resetObjectChange_revert__if_not_ch_prevdestruct_atoms = ["ch.prevdestruct : bool"]%string /\
  kai_state__resetObjectChange_revert__if_ch_prevAccount_ne_nil_atoms = ["ch.prevAccount != nil : untyped bool"]%string /\
  kai_state__resetObjectChange_revert__if_ch_prevStorage_ne_nil_atoms = ["ch.prevStorage != nil : untyped bool"]%string.
Proof. repeat split; reflexivity. Qed.

(** suicideChange.revert: only if the object is still there; the flag restored is ch.prev *)
Lemma tie_undo_suicide a p b s :
  undo (JSuicide a p b) s =
  let (s1, r) := get_obj s a in
  if kai_state__suicideChange_revert__if_obj_ne_nil (is_some r)
  then match r with
       | Some o => put_obj s1 a (seto_data (seto_suicided o (kai_state__suicideChange_revert__put_obj_suicided p)) (setac_balance (o_data o) b))
       | None => s1 end
  else s1.
Proof.
  unfold undo, with_live, kai_state__suicideChange_revert__if_obj_ne_nil, kai_state__suicideChange_revert__put_obj_suicided.
  destruct (get_obj s a) as [s1 [o|]]; reflexivity.
Qed.

(** addLogChange.revert: logSize-- *)
Lemma tie_undo_log th s : st_logs s th <> nil ->
  Z.of_N (st_logsize (undo (JAddLog th) s)) = wrap U64 (kai_state__addLogChange_revert__set_logSize_op (Z.of_N (st_logsize s)) ) .
Proof.
  intro H. unfold undo, kai_state__addLogChange_revert__set_logSize_op, go_sub.
  destruct (st_logs s th) eqn:E; [congruence|]. ss.
  rewrite N2Z.inj_mod, N2Z.inj_add. unfold wrap.
  rewrite Zmod_mod. change (Z.of_N two64) with 18446744073709551616. change (Z.of_N (two64 - 1)) with 18446744073709551615.
  replace (Z.of_N (st_logsize s) + 18446744073709551615) with (Z.of_N (st_logsize s) - 1 + 1 * 18446744073709551616) by lia.
  rewrite Z_mod_plus_full. reflexivity.
Qed.

(** ---------------------------------------------------------------- kai/state/snapshot *)

Local Open Scope N_scope.

(** diffLayer.AccountRLP: hit = bloom(account); if !hit { hit = bloom(destruct) }; if !hit -> origin (the disk layer) *)
Lemma tie_snap_account fp s a l t : sn_diffs s = l :: t ->
  snap_account fp s a =
  let h1 := kai_state_snapshot__diffLayer_AccountRLP__let_hit (bloom fp (l :: t) (BAccount a)) in
  let h2 := if kai_state_snapshot__diffLayer_AccountRLP__if_not_hit h1
            then kai_state_snapshot__diffLayer_AccountRLP__let_hit_2 (bloom fp (l :: t) (BDestruct a)) else h1 in
  let use_origin := kai_state_snapshot__diffLayer_AccountRLP__if_not_hit_2 h2 in
  let (d, r) := if kai_state_snapshot__diffLayer_AccountRLP__if_origin_ne_nil use_origin
                then disk_account (sn_disk s) a else walk_account (l :: t) (sn_disk s) a in
  (with_disk s d, r).
Proof.
  intro H. unfold snap_account. rewrite H.
  unfold kai_state_snapshot__diffLayer_AccountRLP__let_hit, kai_state_snapshot__diffLayer_AccountRLP__if_not_hit,
    kai_state_snapshot__diffLayer_AccountRLP__let_hit_2, kai_state_snapshot__diffLayer_AccountRLP__if_not_hit_2,
    kai_state_snapshot__diffLayer_AccountRLP__if_origin_ne_nil.
  destruct (bloom fp (l :: t) (BAccount a)); destruct (bloom fp (l :: t) (BDestruct a)); reflexivity.
Qed.

(** diffLayer.Storage: the same with the slot's bloom key — BOTH probes *)
Lemma tie_snap_storage fp s a k l t : sn_diffs s = l :: t ->
  snap_storage fp s a k =
  let h1 := kai_state_snapshot__diffLayer_Storage__let_hit (bloom fp (l :: t) (BStorage a k)) in
  let h2 := if kai_state_snapshot__diffLayer_Storage__if_not_hit h1
            then kai_state_snapshot__diffLayer_Storage__let_hit_2 (bloom fp (l :: t) (BDestruct a)) else h1 in
  let use_origin := kai_state_snapshot__diffLayer_Storage__if_not_hit_2 h2 in
  let (d, r) := if kai_state_snapshot__diffLayer_Storage__if_origin_ne_nil use_origin
                then disk_storage (sn_disk s) a k else walk_storage (l :: t) (sn_disk s) a k in
  (with_disk s d, r).
Proof.
  intro H. unfold snap_storage. rewrite H.
  unfold kai_state_snapshot__diffLayer_Storage__let_hit, kai_state_snapshot__diffLayer_Storage__if_not_hit,
    kai_state_snapshot__diffLayer_Storage__let_hit_2, kai_state_snapshot__diffLayer_Storage__if_not_hit_2,
    kai_state_snapshot__diffLayer_Storage__if_origin_ne_nil.
  destruct (bloom fp (l :: t) (BStorage a k)); destruct (bloom fp (l :: t) (BDestruct a)); reflexivity.
Qed.
Lemma tie_bloom_atoms :
  kai_state_snapshot__diffLayer_AccountRLP__let_hit_atoms = ["dl.diffed.Contains(accountBloomHasher(hash)) : bool"]%string /\
  kai_state_snapshot__diffLayer_AccountRLP__let_hit_2_atoms = ["dl.diffed.Contains(destructBloomHasher(hash)) : bool"]%string /\
  kai_state_snapshot__diffLayer_Storage__let_hit_atoms = ["dl.diffed.Contains(storageBloomHasher{accountHash, storageHash}) : bool"]%string /\
  kai_state_snapshot__diffLayer_Storage__let_hit_2_atoms = ["dl.diffed.Contains(destructBloomHasher(accountHash)) : bool"]%string /\
  kai_state_snapshot__diffLayer_Storage__if_not_hit_atoms = ["hit : bool"]%string /\
  kai_state_snapshot__diffLayer_Storage__if_not_hit_2_atoms = ["hit : bool"]%string /\
  kai_state_snapshot__diffLayer_AccountRLP__if_not_hit_atoms = ["hit : bool"]%string /\
  kai_state_snapshot__diffLayer_AccountRLP__if_not_hit_2_atoms = ["hit : bool"]%string.
Proof. repeat split; reflexivity. Qed.

(** diffLayer.accountRLP / storage: own data, then own destruct marker, then the parent (diff layer or disk) *)
Lemma tie_walk_account l t d a :
  walk_account (l :: t) d a =
  if kai_state_snapshot__diffLayer_accountRLP__if_ok (is_some (dl_acc l a)) then (d, dl_acc l a)
  else if kai_state_snapshot__diffLayer_accountRLP__if_ok_2 (dl_destruct l a) then (d, None)
  else walk_account t d a.
Proof.
  cbn [walk_account]. unfold kai_state_snapshot__diffLayer_accountRLP__if_ok, kai_state_snapshot__diffLayer_accountRLP__if_ok_2.
  destruct (dl_acc l a); reflexivity.
Qed.
Lemma tie_walk_storage l t d a k :
  walk_storage (l :: t) d a k =
  if kai_state_snapshot__diffLayer_storage__if_ok (is_some (dl_sto l a k)) && kai_state_snapshot__diffLayer_storage__if_ok_2 (is_some (dl_sto l a k))
  then (d, match dl_sto l a k with Some v => v | None => 0 end)
  else if kai_state_snapshot__diffLayer_storage__if_ok_3 (dl_destruct l a) then (d, 0)
  else walk_storage t d a k.
Proof.
  cbn [walk_storage]. unfold kai_state_snapshot__diffLayer_storage__if_ok, kai_state_snapshot__diffLayer_storage__if_ok_2,
    kai_state_snapshot__diffLayer_storage__if_ok_3.
  destruct (dl_sto l a k); reflexivity.
Qed.

(** diffLayer.flatten: a parent that is not a diff layer ends the recursion; the storage of an account
    the parent does not have is adopted, otherwise merged slot by slot — the same function either way *)
Lemma tie_flatten l t :
  flatten (l :: t) =
  if kai_state_snapshot__diffLayer_flatten__if_not_ok (is_some (flatten t))
  then Some l else match flatten t with Some p => Some (merge l p) | None => Some l end.
Proof.
  cbn [flatten]. unfold kai_state_snapshot__diffLayer_flatten__if_not_ok. destruct (flatten t); reflexivity.
Qed.
(** [if _, ok := parent.storageData[accountHash]; !ok { adopt } else { merge }] *)
Lemma tie_merge_storage c p a k (parent_has : bool) :
  (parent_has = false -> forall x, (if dl_destruct c a then None else dl_sto p a x) = None) ->
  dl_sto (merge c p) a k =
  if kai_state_snapshot__diffLayer_flatten__if_not_ok_2 parent_has
  then dl_sto c a k
  else match dl_sto c a k with Some v => Some v | None => if dl_destruct c a then None else dl_sto p a k end.
Proof.
  intro H. unfold kai_state_snapshot__diffLayer_flatten__if_not_ok_2. destruct parent_has; cbn [negb]; [reflexivity|].
  cbn. destruct (dl_sto c a k); auto; try (apply H; reflexivity).
Qed.
Lemma tie_merge_adopt c p a : (forall k, (if dl_destruct c a then None else dl_sto p a k) = None) ->
  forall k, dl_sto (merge c p) a k = dl_sto c a k.
Proof. intros H k. cbn. destruct (dl_sto c a k); auto. Qed.
Lemma tie_flatten_atoms :
  kai_state_snapshot__diffLayer_flatten__if_not_ok_atoms = ["ok : bool"]%string /\
  kai_state_snapshot__diffLayer_flatten__if_parent_stale_Swap_true_atoms = ["parent.stale.Swap(true) : bool"]%string /\
  kai_state_snapshot__diffLayer_flatten__if_not_ok_2_atoms = ["ok : bool"]%string.
Proof. repeat split; reflexivity. Qed.

(** Tree.Cap / cap: layers == 0 flattens everything onto disk; otherwise the loop
    [for i := 0; i < layers-1; i++] dives layers-1 parents; the accumulator stays in memory iff it is
    below the limit AND the disk layer has no generator abort channel *)
Local Open Scope Z_scope.
Lemma tie_cap_zero s layers :
  snap_cap s layers =
  if kai_state_snapshot__Tree_Cap__if_layers_eq_0 (Z.of_nat layers)
  then match flatten (sn_diffs s) with None => s | Some b => mkSnap nil (diff_to_disk b (sn_disk s)) end
  else match flatten (skipn layers (sn_diffs s)) with
       | None => s
       | Some f =>
         if kai_state_snapshot__Tree_cap__if_flattened_parent__mul_diskLayer__genAbort_eq_nil (negb (dk_gen (sn_disk s)))
         then mkSnap (firstn layers (sn_diffs s) ++ [f]) (sn_disk s)
         else mkSnap (firstn layers (sn_diffs s)) (diff_to_disk f (sn_disk s))
       end.
Proof.
  unfold snap_cap, kai_state_snapshot__Tree_Cap__if_layers_eq_0, kai_state_snapshot__Tree_cap__if_flattened_parent__mul_diskLayer__genAbort_eq_nil.
  destruct layers as [|m]; [reflexivity|]. cbn [Z.of_nat Z.eqb].
  destruct (flatten (skipn (S m) (sn_diffs s))); [|reflexivity]. destruct (dk_gen (sn_disk s)); reflexivity.
Qed.

Fixpoint src_cap_dives (fuel : nat) (i layers : Z) : nat :=
  match fuel with
  | O => O
  | S f => if kai_state_snapshot__Tree_cap__for_i_lt_layers_minus_1 i layers
           then S (src_cap_dives f (kai_state_snapshot__Tree_cap__set_i_op i) layers) else O
  end.

Lemma src_cap_dives_spec : forall fuel i layers,
  0 <= i -> 1 <= layers < 9223372036854775807 -> (Z.to_nat (layers - 1 - i) <= fuel)%nat ->
  src_cap_dives fuel i layers = Z.to_nat (layers - 1 - i).
Proof.
  induction fuel as [|f IH]; intros i L Hi HL Hf.
  - cbn. lia.
  - cbn [src_cap_dives]. unfold kai_state_snapshot__Tree_cap__for_i_lt_layers_minus_1, kai_state_snapshot__Tree_cap__set_i_op, go_sub, go_add.
    rewrite (wrap_id I64 (L - 1)) by (unfold in_range; lia).
    destruct (Z.ltb i (L - 1)) eqn:E.
    + apply Z.ltb_lt in E. rewrite wrap_id by (unfold in_range; lia). rewrite IH by lia.
      replace (L - 1 - i) with (Z.succ (L - 1 - (i + 1))) by lia. rewrite Z2Nat.inj_succ by lia. reflexivity.
    + apply Z.ltb_ge in E. replace (Z.to_nat (L - 1 - i)) with O by lia. reflexivity.
Qed.

(** the number of parents the loop walks down is layers - 1: the kept prefix [firstn layers] has the
    capped layer plus those *)
Lemma tie_cap_loop (layers : nat) : (1 <= layers)%nat -> Z.of_nat layers < 9223372036854775807 ->
  S (src_cap_dives layers kai_state_snapshot__Tree_cap__forinit_i (Z.of_nat layers)) = layers.
Proof.
  intros H1 Hb. unfold kai_state_snapshot__Tree_cap__forinit_i. rewrite src_cap_dives_spec by lia. lia.
Qed.
Lemma tie_cap_atoms :
  kai_state_snapshot__Tree_Cap__if_layers_eq_0_atoms = ["layers : int"]%string /\
  kai_state_snapshot__Tree_cap__for_i_lt_layers_minus_1_atoms = ["i : int"; "layers : int"]%string /\
  kai_state_snapshot__Tree_cap__if_flattened_memory_lt_aggregatorMemoryLimit_atoms = ["flattened.memory : uint64"; "aggregatorMemoryLimit : uint64"]%string /\
  kai_state_snapshot__Tree_cap__if_flattened_parent__mul_diskLayer__genAbort_eq_nil_atoms = ["flattened.parent.(*diskLayer).genAbort == nil : untyped bool"]%string.
Proof. repeat split; reflexivity. Qed.

(** diffToDisk: a slot with data is written, an empty one deleted (0 = no entry in the model) *)
Lemma tie_diff_to_disk_slot b d a k v : dl_sto b a k = Some v ->
  dk_sto (diff_to_disk b d) a k =
  (if kai_state_snapshot__diffToDisk__if_len_data_gt_0 (Z.of_N v) then v else 0%N).
Proof.
  intro H. cbn. rewrite H. unfold kai_state_snapshot__diffToDisk__if_len_data_gt_0. rewrite Z.gtb_ltb.
  destruct v; reflexivity.
Qed.

(** ---------------------------------------------------------------- the statement quoted in Properties.v
    (the conjunction of the statements of the lemmas above, each taken verbatim) *)
Local Notation "'stmt' x" := ltac:(let t := type of x in exact t) (at level 0, x at level 0, only parsing).

Definition C08_source_tie_statement : Prop :=
  (* state_object.go *)
  stmt tie_empty /\ stmt tie_empty_atoms /\ stmt tie_touch /\ stmt tie_touch_atoms /\
  stmt tie_add_balance /\ stmt tie_sub_balance /\ stmt tie_balance_atoms /\
  stmt tie_set_state /\ stmt tie_set_state_atoms /\ stmt tie_get_state /\ stmt tie_get_committed /\ stmt tie_get_committed_atoms /\
  stmt tie_update_trie_skip /\ stmt tie_update_trie_atoms /\
  (* statedb.go *)
  stmt tie_get_obj /\ stmt tie_get_or_new /\ stmt tie_create_object /\ stmt tie_create_object_atoms /\ stmt tie_create_account /\
  stmt tie_suicide /\ stmt tie_empty_getter /\
  stmt tie_add_refund /\ stmt tie_sub_refund_guard /\ stmt tie_sub_refund /\ stmt tie_refund_atoms /\
  stmt tie_snapshot /\ stmt tie_search_pred /\ stmt tie_revert_guard /\ stmt tie_revert_atoms /\
  stmt tie_finalise /\ stmt tie_finalise_atoms /\ stmt tie_clear_journal /\
  stmt tie_intermediate_root_objs /\ stmt tie_commit_objs /\ stmt tie_commit_handover /\ stmt tie_add_log /\
  (* journal.go *)
  stmt tie_jappend_dirties /\ stmt tie_jappend_guard /\ stmt tie_ripemd_dirty /\ stmt tie_undo_dirty /\
  stmt tie_revert_loop /\ stmt tie_revert_loop_atoms /\
  stmt tie_undo_reset /\ stmt tie_unreset /\ stmt tie_undo_reset_atoms /\ stmt tie_undo_suicide /\ stmt tie_undo_log /\
  (* kai/state/snapshot *)
  stmt tie_snap_account /\ stmt tie_snap_storage /\ stmt tie_bloom_atoms /\
  stmt tie_walk_account /\ stmt tie_walk_storage /\
  stmt tie_flatten /\ stmt tie_merge_storage /\ stmt tie_merge_adopt /\ stmt tie_flatten_atoms /\
  stmt tie_cap_zero /\ stmt tie_cap_loop /\ stmt tie_cap_atoms /\ stmt tie_diff_to_disk_slot.

Lemma C08_source_tie_proof : C08_source_tie_statement.
Proof.
  unfold C08_source_tie_statement.
  split; [exact tie_empty|].
  split; [exact tie_empty_atoms|].
  split; [exact tie_touch|].
  split; [exact tie_touch_atoms|].
  split; [exact tie_add_balance|].
  split; [exact tie_sub_balance|].
  split; [exact tie_balance_atoms|].
  split; [exact tie_set_state|].
  split; [exact tie_set_state_atoms|].
  split; [exact tie_get_state|].
  split; [exact tie_get_committed|].
  split; [exact tie_get_committed_atoms|].
  split; [exact tie_update_trie_skip|].
  split; [exact tie_update_trie_atoms|].
  split; [exact tie_get_obj|].
  split; [exact tie_get_or_new|].
  split; [exact tie_create_object|].
  split; [exact tie_create_object_atoms|].
  split; [exact tie_create_account|].
  split; [exact tie_suicide|].
  split; [exact tie_empty_getter|].
  split; [exact tie_add_refund|].
  split; [exact tie_sub_refund_guard|].
  split; [exact tie_sub_refund|].
  split; [exact tie_refund_atoms|].
  split; [exact tie_snapshot|].
  split; [exact tie_search_pred|].
  split; [exact tie_revert_guard|].
  split; [exact tie_revert_atoms|].
  split; [exact tie_finalise|].
  split; [exact tie_finalise_atoms|].
  split; [exact tie_clear_journal|].
  split; [exact tie_intermediate_root_objs|].
  split; [exact tie_commit_objs|].
  split; [exact tie_commit_handover|].
  split; [exact tie_add_log|].
  split; [exact tie_jappend_dirties|].
  split; [exact tie_jappend_guard|].
  split; [exact tie_ripemd_dirty|].
  split; [exact tie_undo_dirty|].
  split; [exact tie_revert_loop|].
  split; [exact tie_revert_loop_atoms|].
  split; [exact tie_undo_reset|].
  split; [exact tie_unreset|].
  split; [exact tie_undo_reset_atoms|].
  split; [exact tie_undo_suicide|].
  split; [exact tie_undo_log|].
  split; [exact tie_snap_account|].
  split; [exact tie_snap_storage|].
  split; [exact tie_bloom_atoms|].
  split; [exact tie_walk_account|].
  split; [exact tie_walk_storage|].
  split; [exact tie_flatten|].
  split; [exact tie_merge_storage|].
  split; [exact tie_merge_adopt|].
  split; [exact tie_flatten_atoms|].
  split; [exact tie_cap_zero|].
  split; [exact tie_cap_loop|].
  split; [exact tie_cap_atoms|].
  exact tie_diff_to_disk_slot.
Qed.
