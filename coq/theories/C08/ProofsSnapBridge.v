(** C08 proofs, part 9: from the StateDB to the snapshot tree.  What Commit hands to Tree.Update
    (stateObjectsDestruct, snapAccounts, snapStorage), laid over the content of the layer the StateDB
    is attached to, IS the committed content — accounts and flat storage — provided the StateDB's
    snapshot data is in step with its account trie and objects ([Sync], below).  [Sync] holds for a
    freshly opened StateDB; that every operation preserves it is the open part (Open.v), exercised
    by the harness on every Commit (oracle snap-layer-read). *)
From Coq Require Import List ZArith NArith Bool Lia.
From Kardia Require Import C08.Model C08.ModelSnap C08.ProofsEqv C08.ProofsCoh C08.ProofsSnap C08.ProofsSnapDB.
Import ListNotations.
Local Open Scope N_scope.

(** flat storage of a content: the storage-trie content of existing accounts, nothing elsewhere *)
Definition flat (c : fmap account) (a k : N) : N := match c a with Some d => ac_storage d k | None => 0 end.

Section Bridge.
  Variable base : fmap account.   (* content of the layer the StateDB is attached to *)

  (** the account / the slot as the snapshot data says it will be *)
  Definition dv (ss : sstate) (a : N) : option account :=
    match ss_acc ss a with
    | Some d => Some d
    | None => if st_destruct (ss_st ss) a then None else base a
    end.
  Definition fv (ss : sstate) (a k : N) : N :=
    match ss_sto ss a k with
    | Some v => v
    | None => if st_destruct (ss_st ss) a then 0 else flat base a k
    end.

  Definition Agree (ss : sstate) (a : N) : Prop :=
    st_trie (ss_st ss) a = dv ss a /\ forall k, flat (st_trie (ss_st ss)) a k = fv ss a k.
  Definition Cleared (ss : sstate) (a : N) : Prop :=
    ss_acc ss a = None /\ (forall k, ss_sto ss a k = None) /\ st_destruct (ss_st ss) a = true.
  (** the next Finalise / IntermediateRoot will write the account *)
  Definition Due (s : state) (a : N) : Prop :=
    (st_pending s a = true \/ N.ltb 0 (st_dirties s a) = true) /\ st_objs s a <> None.

  Record Sync (ss : sstate) : Prop := {
    sy_agree : forall a, Agree ss a \/ (Cleared ss a /\ Due (ss_st ss) a);
    sy_live : forall a o, st_objs (ss_st ss) a = Some o -> o_deleted o = false ->
                forall k, ac_storage (o_data o) k = fv ss a k;
    sy_dead : forall a o, st_objs (ss_st ss) a = Some o -> o_deleted o = true -> Cleared ss a;
    sy_pending : forall a, st_pending (ss_st ss) a = true -> st_objs (ss_st ss) a <> None;
    sy_flushed : forall a o, st_objs (ss_st ss) a = Some o -> o_deleted o = false -> st_pending (ss_st ss) a = false ->
                   N.ltb 0 (st_dirties (ss_st ss) a) = false ->
                   forall k, o_pending o k = None /\ (forall v, o_dirty o k = Some v -> v = originz o k) }.

  (** a StateDB just opened on the layer's root *)
  Lemma sync_new : forall l, Sync (snew_state base l).
  Proof.
    intro l. constructor; cbn; try discriminate.
    intro a. left. split; [reflexivity|]. intro k. reflexivity.
  Qed.

  (** ------------------------------------------------------------ the fields after Finalise / IntermediateRoot / Commit *)

  Lemma finalise_destruct : forall de s a,
    st_destruct (finalise de s) a =
    if N.ltb 0 (st_dirties s a) then
      match st_objs s a with
      | Some o => if o_suicided o || (de && obj_empty o) then true else st_destruct s a
      | None => st_destruct s a
      end
    else st_destruct s a.
  Proof.
    intros de s a. destruct s as [x0 x1 x2 x3 x4 x5 x6 x7 x8 x9 x10 x11 x12 x13 j x15 x16 x17 x18]; destruct j; reflexivity.
  Qed.

  Lemma finalise_pending : forall de s a,
    st_pending (finalise de s) a = (N.ltb 0 (st_dirties s a) && is_some (st_objs s a)) || st_pending s a.
  Proof.
    intros de s a. destruct s as [x0 x1 x2 x3 x4 x5 x6 x7 x8 x9 x10 x11 x12 x13 j x15 x16 x17 x18]; destruct j; reflexivity.
  Qed.

  Lemma finalise_dirtyset : forall de s a,
    st_dirtyset (finalise de s) a = (N.ltb 0 (st_dirties s a) && is_some (st_objs s a)) || st_dirtyset s a.
  Proof.
    intros de s a. destruct s as [x0 x1 x2 x3 x4 x5 x6 x7 x8 x9 x10 x11 x12 x13 j x15 x16 x17 x18]; destruct j; reflexivity.
  Qed.

  Lemma finalise_trie : forall de s, st_trie (finalise de s) = st_trie s.
  Proof.
    intros de s. destruct s as [x0 x1 x2 x3 x4 x5 x6 x7 x8 x9 x10 x11 x12 x13 j x15 x16 x17 x18]; destruct j; reflexivity.
  Qed.

  Lemma ir_trie : forall de s a,
    st_trie (intermediate_root de s) a =
    if st_pending (finalise de s) a then
      match st_objs (intermediate_root de s) a with
      | Some o => if o_deleted o then None else Some (o_data o)
      | None => st_trie s a
      end
    else st_trie s a.
  Proof.
    intros de s a. unfold intermediate_root. ss. rewrite finalise_trie.
    destruct (st_pending (finalise de s) a); reflexivity.
  Qed.

  Lemma ir_destruct : forall de s a, st_destruct (intermediate_root de s) a = st_destruct (finalise de s) a.
  Proof. reflexivity. Qed.
  Lemma ir_dirtyset : forall de s a, st_dirtyset (intermediate_root de s) a = st_dirtyset (finalise de s) a.
  Proof. reflexivity. Qed.
  Lemma commit_trie : forall de s, snd (commit de s) = st_trie (intermediate_root de s).
  Proof. reflexivity. Qed.

  (** updateTrie on an object whose pending storage is empty records nothing *)
  Lemma snap_update_trie_flushed : forall o m,
    (forall k, o_pending o k = None /\ (forall v, o_dirty o k = Some v -> v = originz o k)) ->
    forall k, snap_update_trie o m k = m k.
  Proof.
    intros o m H k. destruct (H k) as (Hp & Hd). unfold snap_update_trie, obj_finalise, originz in *. ss.
    destruct (o_dirty o k) as [v|] eqn:E; [|rewrite Hp; reflexivity].
    rewrite (Hd v eq_refl). destruct (o_origin o k); rewrite N.eqb_refl; reflexivity.
  Qed.

  Lemma update_trie_pending : forall o k, o_pending (obj_update_trie o) k = None.
  Proof. reflexivity. Qed.
  Lemma update_trie_dirty : forall o k, o_dirty (obj_update_trie o) k = None.
  Proof. reflexivity. Qed.
  Lemma finalise_obj_dirty : forall o k, o_dirty (obj_finalise o) k = None.
  Proof. reflexivity. Qed.

  (** the storage content updateTrie writes and the slots it records for the snapshot move together *)
  Lemma update_trie_storage : forall o m base_v k,
    ac_storage (o_data o) k = (match m k with Some v => v | None => base_v end) ->
    ac_storage (o_data (obj_update_trie o)) k =
    (match snap_update_trie o m k with Some v => v | None => base_v end).
  Proof.
    intros o m bv k H. unfold obj_update_trie, snap_update_trie. ss.
    destruct (o_pending (obj_finalise o) k) as [v|]; auto.
    destruct (N.eqb v (originz (obj_finalise o) k)); auto.
  Qed.

  (** ------------------------------------------------------------ the theorem *)

  Definition handover_layer (h : handover) : dlayer := mkDL 0 (ho_destructs h) (ho_accs h) (ho_stos h).

  Lemma handover_content : forall ss de p, Sync ss -> ss_snap ss = Some p ->
    exists ss' h, scommit de ss = (ss', snd (commit de (ss_st ss)), Some h) /\ ho_parent h = p /\
      forall a, over_acc1 (handover_layer h) base a = snd (commit de (ss_st ss)) a /\
                forall k, over_sto1 (handover_layer h) (flat base) a k = flat (snd (commit de (ss_st ss))) a k.
  Proof.
    intros ss de p SY At. unfold scommit. rewrite At.
    destruct (commit de (ss_st ss)) as [s' c] eqn:EC.
    eexists; eexists; split; [reflexivity|]. split; [reflexivity|].
    assert (Ec : c = st_trie (intermediate_root de (ss_st ss))) by (pose proof (commit_trie de (ss_st ss)) as X; rewrite EC in X; exact X).
    cbn [snd]. subst c. clear EC.
    remember (ss_st ss) as s eqn:Es.
    intro a. unfold handover_layer, over_acc1, over_sto1. cbn [dl_acc dl_sto dl_destruct ho_destructs ho_accs ho_stos].
    unfold snap_after_commit, snap_after_ir, snap_after_finalise. cbn [ss_acc ss_sto ss_st ss_snap with_st].
    rewrite ir_destruct, finalise_destruct. unfold flat. rewrite (ir_trie de s a).
    rewrite (intermediate_root_objs de s a), ir_dirtyset, (finalise_pending de s a), (finalise_objs de s a).
    unfold snap_kills.
    destruct SY as [Sag Slive Sdead Spend Sflush]. unfold Agree, Cleared, Due, dv, fv, flat in *. rewrite <- Es in *.
    destruct (N.ltb 0 (st_dirties s a)) eqn:Ed; destruct (st_objs s a) as [o|] eqn:Eo; cbn [andb orb is_some].
    - (* journal-dirty object: Finalise processes it *)
      destruct (o_suicided o || (de && obj_empty o)) eqn:Ek; cbn [o_deleted seto_deleted negb andb].
      + (* deleted now *)
        split; [reflexivity|]. intro k. destruct (st_dirtyset (finalise de s) a); reflexivity.
      + assert (Hd : o_deleted (obj_finalise o) = o_deleted o) by reflexivity.
        assert (Hu : o_deleted (obj_update_trie (obj_finalise o)) = o_deleted o) by reflexivity.
        destruct (o_deleted o) eqn:Edel.
        * (* was deleted before (and stays so) *)
          destruct (Sdead a o Eo Edel) as (C1 & C2 & C3).
          repeat (progress (rewrite ?Hd; cbn [negb andb])).
          rewrite C1, C3. split; [reflexivity|]. intro k. rewrite andb_false_r, C2. reflexivity.
        * repeat (progress (rewrite ?Hd, ?Hu; cbn [negb andb])).
          split; [reflexivity|]. intro k.
          assert (Hs : forall m, (if st_dirtyset (finalise de s) a && true
                                  then snap_update_trie (seto_dirtycode (obj_update_trie (obj_finalise o)) false) m
                                  else m) k = m k).
          { intro m. destruct (st_dirtyset (finalise de s) a); cbn [andb]; reflexivity. }
          rewrite Hs.
          symmetry. apply (update_trie_storage (obj_finalise o) (ss_sto ss a) (if st_destruct s a then 0 else match base a with Some d => ac_storage d k | None => 0 end) k).
          exact (Slive a o Eo Edel k).
    - (* in journal.dirties without object (RIPEMD leftover): skipped; pending needs an object *)
      destruct (st_pending s a) eqn:Ep; [exfalso; exact (Spend a Ep Eo)|].
      destruct (Sag a) as [(A1 & A2)|(_ & (_ & D2))]; [|congruence].
      split; [symmetry; exact A1|].
      intro k. rewrite ?andb_false_r. cbn [andb]. symmetry. apply A2.
    - (* object not touched in this transaction *)
      destruct (st_pending s a) eqn:Ep; cbn [orb].
      + assert (Hu : o_deleted (obj_update_trie o) = o_deleted o) by reflexivity.
        destruct (o_deleted o) eqn:Edel.
        * destruct (Sdead a o Eo Edel) as (C1 & C2 & C3).
          repeat (progress (rewrite ?Edel; cbn [negb andb])).
          rewrite C1, C3. split; [reflexivity|].
          intro k. rewrite andb_false_r, C2. reflexivity.
        * repeat (progress (rewrite ?Edel, ?Hu; cbn [negb andb])).
          split; [reflexivity|]. intro k.
          assert (Hs : forall m, (if st_dirtyset (finalise de s) a && true
                                  then snap_update_trie (seto_dirtycode (obj_update_trie o) false) m
                                  else m) k = m k).
          { intro m. destruct (st_dirtyset (finalise de s) a); cbn [andb]; reflexivity. }
          rewrite Hs.
          symmetry. apply (update_trie_storage o (ss_sto ss a) (if st_destruct s a then 0 else match base a with Some d => ac_storage d k | None => 0 end) k).
          exact (Slive a o Eo Edel k).
      + (* neither dirty nor pending: nothing is written; the snapshot data agrees already *)
        assert (Hs : forall k, (if st_dirtyset (finalise de s) a && negb (o_deleted o)
                                then snap_update_trie (seto_dirtycode o false) (ss_sto ss a)
                                else ss_sto ss a) k = ss_sto ss a k).
        { intro k. destruct (st_dirtyset (finalise de s) a && negb (o_deleted o)) eqn:Eu; auto.
          apply andb_true_iff in Eu. destruct Eu as (_ & Eu). apply negb_true_iff in Eu.
          apply snap_update_trie_flushed. exact (Sflush a o Eo Eu Ep Ed). }
        destruct (Sag a) as [(A1 & A2)|(_ & ([D1|D1] & _))]; [|congruence|congruence].
        split; [symmetry; exact A1|].
        intro k. rewrite Hs, <- A2. reflexivity.
    - destruct (st_pending s a) eqn:Ep; [exfalso; exact (Spend a Ep Eo)|]. cbn [orb].
      destruct (Sag a) as [(A1 & A2)|(_ & (_ & D2))]; [|congruence].
      split; [symmetry; exact A1|].
      intro k. rewrite ?andb_false_r. cbn [andb]. symmetry. apply A2.
  Qed.

  (** ------------------------------------------------------------ [Sync] is kept by Snapshot, Finalise and IntermediateRoot
      (the operations that change the snapshot data wholesale); setters, getters, RevertToSnapshot and
      Copy are the open part *)

  Lemma finalise_dirties : forall de s a,
    st_dirties (finalise de s) a = match st_journal s with nil => st_dirties s a | _ => 0 end.
  Proof.
    intros de s a. destruct s as [x0 x1 x2 x3 x4 x5 x6 x7 x8 x9 x10 x11 x12 x13 j x15 x16 x17 x18]; destruct j; reflexivity.
  Qed.

  (** what IntermediateRoot leaves at one address *)
  Inductive ir_at (ss ss2 : sstate) (a : N) : Prop :=
  | ir_deleted : forall o',
      st_objs (ss_st ss2) a = Some o' -> o_deleted o' = true -> st_trie (ss_st ss2) a = None ->
      ss_acc ss2 a = None -> (forall k, ss_sto ss2 a k = None) -> st_destruct (ss_st ss2) a = true -> ir_at ss ss2 a
  | ir_written : forall o1,
      st_objs (ss_st ss2) a = Some (obj_update_trie o1) -> o_deleted o1 = false ->
      st_trie (ss_st ss2) a = Some (o_data (obj_update_trie o1)) ->
      ss_acc ss2 a = Some (o_data (obj_update_trie o1)) ->
      (forall k, ss_sto ss2 a k = snap_update_trie o1 (ss_sto ss a) k) ->
      st_destruct (ss_st ss2) a = st_destruct (ss_st ss) a ->
      (forall k, ac_storage (o_data o1) k = fv ss a k) -> ir_at ss ss2 a
  | ir_untouched :
      st_objs (ss_st ss2) a = st_objs (ss_st ss) a -> st_trie (ss_st ss2) a = st_trie (ss_st ss) a ->
      ss_acc ss2 a = ss_acc ss a -> (forall k, ss_sto ss2 a k = ss_sto ss a k) ->
      st_destruct (ss_st ss2) a = st_destruct (ss_st ss) a ->
      st_pending (ss_st ss) a = false ->
      (N.ltb 0 (st_dirties (ss_st ss) a) = false \/ st_objs (ss_st ss) a = None) -> ir_at ss ss2 a.

  Lemma ir_cases : forall ss de, Sync ss ->
    let ss2 := snap_after_ir de (ss_st ss) (with_st ss (intermediate_root de (ss_st ss))) in
    forall a, ir_at ss ss2 a.
  Proof.
    intros ss de SY ss2 a. subst ss2.
    destruct SY as [Sag Slive Sdead Spend Sflush]. unfold Cleared in *.
    remember (ss_st ss) as s eqn:Es.
    set (ss2 := snap_after_ir de s (with_st ss (intermediate_root de s))).
    assert (Hst : ss_st ss2 = intermediate_root de s) by reflexivity.
    assert (Hacc : ss_acc ss2 a =
                   if st_pending (finalise de s) a && match st_objs (finalise de s) a with Some o => negb (o_deleted o) | None => false end
                   then match st_objs (finalise de s) a with
                        | Some o => Some (o_data (obj_update_trie o))
                        | None => if snap_kills de s a then None else ss_acc ss a end
                   else if snap_kills de s a then None else ss_acc ss a) by reflexivity.
    assert (Hsto : forall k, ss_sto ss2 a k =
                   (if st_pending (finalise de s) a && match st_objs (finalise de s) a with Some o => negb (o_deleted o) | None => false end
                    then match st_objs (finalise de s) a with
                         | Some o => snap_update_trie o (if snap_kills de s a then fempty else ss_sto ss a)
                         | None => if snap_kills de s a then fempty else ss_sto ss a end
                    else if snap_kills de s a then fempty else ss_sto ss a) k) by reflexivity.
    clearbody ss2.
    pose proof (ir_trie de s a) as Ht. pose proof (intermediate_root_objs de s a) as Ho.
    assert (Hd : st_destruct (intermediate_root de s) a = st_destruct (finalise de s) a) by reflexivity.
    rewrite (finalise_destruct de s a) in Hd.
    rewrite (finalise_pending de s a) in *. rewrite (finalise_objs de s a) in *. unfold snap_kills in *.
    destruct (N.ltb 0 (st_dirties s a)) eqn:Ed; destruct (st_objs s a) as [o|] eqn:Eo; cbn [andb orb is_some] in *.
    - destruct (o_suicided o || (de && obj_empty o)) eqn:Ek; cbn [o_deleted seto_deleted negb andb] in *.
      + apply (ir_deleted ss ss2 a (seto_deleted o true)); rewrite ?Hst; rewrite <- ?Es; auto; try congruence;
          try (rewrite Ht, Ho; cbn; rewrite ?Edel; reflexivity);
          try (rewrite Hacc; first [assumption | reflexivity]);
          try (rewrite Hd; first [assumption | reflexivity]);
          try (intro k; rewrite Hsto; first [reflexivity | apply C2]);
          try (intro k; try change (o_data (obj_finalise o)) with (o_data o); eapply Slive; eauto).
      + assert (Hdl : o_deleted (obj_finalise o) = o_deleted o) by reflexivity.
        rewrite Hdl in *. destruct (o_deleted o) eqn:Edel; cbn [negb andb] in *.
        * destruct (Sdead a o Eo Edel) as (C1 & C2 & C3).
          apply (ir_deleted ss ss2 a (obj_finalise o)); rewrite ?Hst; rewrite <- ?Es; auto; try congruence;
          try (rewrite Ht, Ho; cbn; rewrite ?Edel; reflexivity);
          try (rewrite Hacc; first [assumption | reflexivity]);
          try (rewrite Hd; first [assumption | reflexivity]);
          try (intro k; rewrite Hsto; first [reflexivity | apply C2]);
          try (intro k; try change (o_data (obj_finalise o)) with (o_data o); eapply Slive; eauto).
        * apply (ir_written ss ss2 a (obj_finalise o)); rewrite ?Hst; rewrite <- ?Es; auto; try congruence;
          try (rewrite Ht, Ho; cbn; rewrite ?Edel; reflexivity);
          try (rewrite Hacc; first [assumption | reflexivity]);
          try (rewrite Hd; first [assumption | reflexivity]);
          try (intro k; rewrite Hsto; first [reflexivity | apply C2]);
          try (intro k; try change (o_data (obj_finalise o)) with (o_data o); eapply Slive; eauto).
    - destruct (st_pending s a) eqn:Ep; [exfalso; exact (Spend a Ep Eo)|].
      apply ir_untouched; rewrite ?Hst; rewrite <- ?Es; auto; try congruence;
          try (rewrite Ht, Ho; cbn; rewrite ?Edel; reflexivity);
          try (rewrite Hacc; first [assumption | reflexivity]);
          try (rewrite Hd; first [assumption | reflexivity]);
          try (intro k; rewrite Hsto; first [reflexivity | apply C2]);
          try (intro k; try change (o_data (obj_finalise o)) with (o_data o); eapply Slive; eauto).
    - destruct (st_pending s a) eqn:Ep; cbn [orb] in *.
      + destruct (o_deleted o) eqn:Edel; cbn [negb andb] in *.
        * destruct (Sdead a o Eo Edel) as (C1 & C2 & C3).
          apply (ir_deleted ss ss2 a o); rewrite ?Hst; rewrite <- ?Es; auto; try congruence;
          try (rewrite Ht, Ho; cbn; rewrite ?Edel; reflexivity);
          try (rewrite Hacc; first [assumption | reflexivity]);
          try (rewrite Hd; first [assumption | reflexivity]);
          try (intro k; rewrite Hsto; first [reflexivity | apply C2]);
          try (intro k; try change (o_data (obj_finalise o)) with (o_data o); eapply Slive; eauto).
        * apply (ir_written ss ss2 a o); rewrite ?Hst; rewrite <- ?Es; auto; try congruence;
          try (rewrite Ht, Ho; cbn; rewrite ?Edel; reflexivity);
          try (rewrite Hacc; first [assumption | reflexivity]);
          try (rewrite Hd; first [assumption | reflexivity]);
          try (intro k; rewrite Hsto; first [reflexivity | apply C2]);
          try (intro k; try change (o_data (obj_finalise o)) with (o_data o); eapply Slive; eauto).
      + apply ir_untouched; rewrite ?Hst; rewrite <- ?Es; auto; try congruence;
          try (rewrite Ht, Ho; cbn; rewrite ?Edel; reflexivity);
          try (rewrite Hacc; first [assumption | reflexivity]);
          try (rewrite Hd; first [assumption | reflexivity]);
          try (intro k; rewrite Hsto; first [reflexivity | apply C2]);
          try (intro k; try change (o_data (obj_finalise o)) with (o_data o); eapply Slive; eauto).
    - destruct (st_pending s a) eqn:Ep; [exfalso; exact (Spend a Ep Eo)|]. cbn [orb] in *.
      apply ir_untouched; rewrite ?Hst; rewrite <- ?Es; auto; try congruence;
          try (rewrite Ht, Ho; cbn; rewrite ?Edel; reflexivity);
          try (rewrite Hacc; first [assumption | reflexivity]);
          try (rewrite Hd; first [assumption | reflexivity]);
          try (intro k; rewrite Hsto; first [reflexivity | apply C2]);
          try (intro k; try change (o_data (obj_finalise o)) with (o_data o); eapply Slive; eauto).
  Qed.

  Lemma ir_pending : forall de s a, st_pending (intermediate_root de s) a = false.
  Proof. reflexivity. Qed.

  Lemma sync_ir : forall ss de, Sync ss ->
    Sync (snap_after_ir de (ss_st ss) (with_st ss (intermediate_root de (ss_st ss)))).
  Proof.
    intros ss de SY. pose proof (ir_cases ss de SY) as IC. cbn zeta in IC.
    set (ss2 := snap_after_ir de (ss_st ss) (with_st ss (intermediate_root de (ss_st ss)))) in *.
    assert (Hst : ss_st ss2 = intermediate_root de (ss_st ss)) by reflexivity.
    destruct SY as [Sag Slive Sdead Spend Sflush].
    constructor.
    - intro a. left. destruct (IC a) as [o' Ho Hdel Ht Ha Hs Hd | o1 Ho Hdel Ht Ha Hs Hd Hl | Ho Ht Ha Hs Hd Hp Hn].
      + split.
        * unfold dv. rewrite Ht, Ha, Hd. reflexivity.
        * intro k. unfold flat, fv. rewrite Ht, Hs, Hd. reflexivity.
      + split.
        * unfold dv. rewrite Ht, Ha. reflexivity.
        * intro k. unfold flat, fv. rewrite Ht, Hs, Hd.
          apply (update_trie_storage o1 (ss_sto ss a) (if st_destruct (ss_st ss) a then 0 else flat base a k) k).
          exact (Hl k).
      + destruct (Sag a) as [(A1 & A2)|(_ & ([D1|D1] & D2))].
        * split.
          -- unfold dv in *. rewrite Ht, Ha, Hd. exact A1.
          -- intro k. unfold flat, fv in *. rewrite Ht, Hs, Hd. exact (A2 k).
        * congruence.
        * destruct Hn as [Hn|Hn]; congruence.
    - intros a o Ho' Hdel' k. destruct (IC a) as [o' Ho Hdel Ht Ha Hs Hd | o1 Ho Hdel Ht Ha Hs Hd Hl | Ho Ht Ha Hs Hd Hp Hn].
      + rewrite Ho in Ho'. inversion Ho'; subst. congruence.
      + rewrite Ho in Ho'. inversion Ho'; subst. unfold fv. rewrite Hs, Hd.
        apply (update_trie_storage o1 (ss_sto ss a) (if st_destruct (ss_st ss) a then 0 else flat base a k) k).
        exact (Hl k).
      + rewrite Ho in Ho'. unfold fv. rewrite Hs, Hd. exact (Slive a o Ho' Hdel' k).
    - intros a o Ho' Hdel'. destruct (IC a) as [o' Ho Hdel Ht Ha Hs Hd | o1 Ho Hdel Ht Ha Hs Hd Hl | Ho Ht Ha Hs Hd Hp Hn].
      + split; [exact Ha|]. split; [exact Hs|exact Hd].
      + rewrite Ho in Ho'. inversion Ho'; subst. cbn in Hdel'. congruence.
      + rewrite Ho in Ho'. destruct (Sdead a o Ho' Hdel') as (C1 & C2 & C3).
        split; [rewrite Ha; exact C1|]. split; [intro k; rewrite Hs; apply C2|rewrite Hd; exact C3].
    - intros a Hp. rewrite Hst, ir_pending in Hp. discriminate.
    - intros a o Ho' Hdel' _ Hdirt k. destruct (IC a) as [o' Ho Hdel Ht Ha Hs Hd | o1 Ho Hdel Ht Ha Hs Hd Hl | Ho Ht Ha Hs Hd Hp Hn].
      + rewrite Ho in Ho'. inversion Ho'; subst. congruence.
      + rewrite Ho in Ho'. inversion Ho'; subst. split; [reflexivity|]. intros v Hv. discriminate Hv.
      + rewrite Ho in Ho'. destruct Hn as [Hn|Hn]; [|congruence].
        exact (Sflush a o Ho' Hdel' Hp Hn k).
  Qed.

  (** what Finalise leaves at one address *)
  Inductive fin_at (ss ss1 : sstate) (a : N) : Prop :=
  | fin_killed : forall o,
      st_objs (ss_st ss) a = Some o ->
      st_objs (ss_st ss1) a = Some (seto_deleted o true) -> st_pending (ss_st ss1) a = true ->
      ss_acc ss1 a = None -> (forall k, ss_sto ss1 a k = None) -> st_destruct (ss_st ss1) a = true -> fin_at ss ss1 a
  | fin_moved : forall o,
      st_objs (ss_st ss) a = Some o ->
      st_objs (ss_st ss1) a = Some (obj_finalise o) -> st_pending (ss_st ss1) a = true ->
      ss_acc ss1 a = ss_acc ss a -> (forall k, ss_sto ss1 a k = ss_sto ss a k) ->
      st_destruct (ss_st ss1) a = st_destruct (ss_st ss) a -> fin_at ss ss1 a
  | fin_untouched :
      st_objs (ss_st ss1) a = st_objs (ss_st ss) a -> st_pending (ss_st ss1) a = st_pending (ss_st ss) a ->
      ss_acc ss1 a = ss_acc ss a -> (forall k, ss_sto ss1 a k = ss_sto ss a k) ->
      st_destruct (ss_st ss1) a = st_destruct (ss_st ss) a ->
      (N.ltb 0 (st_dirties (ss_st ss) a) = false \/ st_objs (ss_st ss) a = None) -> fin_at ss ss1 a.

  Lemma fin_cases : forall ss de,
    let ss1 := snap_after_finalise de (ss_st ss) (with_st ss (finalise de (ss_st ss))) in
    forall a, fin_at ss ss1 a.
  Proof.
    intros ss de ss1 a. subst ss1.
    remember (ss_st ss) as s eqn:Es.
    set (ss1 := snap_after_finalise de s (with_st ss (finalise de s))).
    assert (Hst : ss_st ss1 = finalise de s) by reflexivity.
    assert (Hacc : ss_acc ss1 a = if snap_kills de s a then None else ss_acc ss a) by reflexivity.
    assert (Hsto : forall k, ss_sto ss1 a k = (if snap_kills de s a then fempty else ss_sto ss a) k) by reflexivity.
    clearbody ss1.
    pose proof (finalise_objs de s a) as Ho. pose proof (finalise_pending de s a) as Hp.
    pose proof (finalise_destruct de s a) as Hd. unfold snap_kills in *.
    destruct (N.ltb 0 (st_dirties s a)) eqn:Ed; destruct (st_objs s a) as [o|] eqn:Eo; cbn [andb orb is_some] in *.
    - destruct (o_suicided o || (de && obj_empty o)) eqn:Ek.
      + apply (fin_killed ss ss1 a o); rewrite ?Hst; rewrite <- ?Es; auto;
          try (intro k; rewrite Hsto; reflexivity).
      + apply (fin_moved ss ss1 a o); rewrite ?Hst; rewrite <- ?Es; auto;
          try (intro k; rewrite Hsto; reflexivity).
    - apply fin_untouched; rewrite ?Hst; rewrite <- ?Es; auto; try congruence; try (intro k; rewrite Hsto; reflexivity).
    - apply fin_untouched; rewrite ?Hst; rewrite <- ?Es; auto; try congruence; try (intro k; rewrite Hsto; reflexivity).
    - apply fin_untouched; rewrite ?Hst; rewrite <- ?Es; auto; try congruence; try (intro k; rewrite Hsto; reflexivity).
  Qed.

  Lemma sync_finalise : forall ss de, Sync ss ->
    Sync (snap_after_finalise de (ss_st ss) (with_st ss (finalise de (ss_st ss)))).
  Proof.
    intros ss de SY. pose proof (fin_cases ss de) as FC. cbn zeta in FC.
    set (ss1 := snap_after_finalise de (ss_st ss) (with_st ss (finalise de (ss_st ss)))) in *.
    assert (Hst : ss_st ss1 = finalise de (ss_st ss)) by reflexivity.
    assert (Htr : forall a, st_trie (ss_st ss1) a = st_trie (ss_st ss) a) by (intro a; rewrite Hst, finalise_trie; reflexivity).
    destruct SY as [Sag Slive Sdead Spend Sflush].
    constructor.
    - intro a. destruct (FC a) as [o Eo Ho Hp Ha Hs Hd | o Eo Ho Hp Ha Hs Hd | Ho Hp Ha Hs Hd Hn].
      + right. split; [split; [exact Ha|split; [exact Hs|exact Hd]]|]. split; [left; exact Hp|rewrite Ho; discriminate].
      + destruct (Sag a) as [(A1 & A2)|((C1 & C2 & C3) & _)].
        * left. split.
          -- unfold dv in *. rewrite Htr, Ha, Hd. exact A1.
          -- intro k. unfold flat, fv in *. rewrite Htr, Hs, Hd. exact (A2 k).
        * right. split; [split; [rewrite Ha; exact C1|split; [intro k; rewrite Hs; apply C2|rewrite Hd; exact C3]]|].
          split; [left; exact Hp|rewrite Ho; discriminate].
      + destruct (Sag a) as [(A1 & A2)|((C1 & C2 & C3) & ([D1|D1] & D2))].
        * left. split.
          -- unfold dv in *. rewrite Htr, Ha, Hd. exact A1.
          -- intro k. unfold flat, fv in *. rewrite Htr, Hs, Hd. exact (A2 k).
        * right. split; [split; [rewrite Ha; exact C1|split; [intro k; rewrite Hs; apply C2|rewrite Hd; exact C3]]|].
          split; [left; rewrite Hp; exact D1|rewrite Ho; exact D2].
        * destruct Hn as [Hn|Hn]; congruence.
    - intros a o' Ho' Hdel' k. destruct (FC a) as [o Eo Ho Hp Ha Hs Hd | o Eo Ho Hp Ha Hs Hd | Ho Hp Ha Hs Hd Hn].
      + rewrite Ho in Ho'. inversion Ho'; subst. discriminate Hdel'.
      + rewrite Ho in Ho'. inversion Ho'; subst. unfold fv. rewrite Hs, Hd. exact (Slive a o Eo Hdel' k).
      + rewrite Ho in Ho'. unfold fv. rewrite Hs, Hd. exact (Slive a o' Ho' Hdel' k).
    - intros a o' Ho' Hdel'. destruct (FC a) as [o Eo Ho Hp Ha Hs Hd | o Eo Ho Hp Ha Hs Hd | Ho Hp Ha Hs Hd Hn].
      + split; [exact Ha|split; [exact Hs|exact Hd]].
      + rewrite Ho in Ho'. inversion Ho'; subst. destruct (Sdead a o Eo Hdel') as (C1 & C2 & C3).
        split; [rewrite Ha; exact C1|split; [intro k; rewrite Hs; apply C2|rewrite Hd; exact C3]].
      + rewrite Ho in Ho'. destruct (Sdead a o' Ho' Hdel') as (C1 & C2 & C3).
        split; [rewrite Ha; exact C1|split; [intro k; rewrite Hs; apply C2|rewrite Hd; exact C3]].
    - intros a Hp'. destruct (FC a) as [o Eo Ho Hp Ha Hs Hd | o Eo Ho Hp Ha Hs Hd | Ho Hp Ha Hs Hd Hn].
      + rewrite Ho; discriminate.
      + rewrite Ho; discriminate.
      + rewrite Ho. apply Spend. rewrite <- Hp. exact Hp'.
    - intros a o' Ho' Hdel' Hp' Hdirt k. destruct (FC a) as [o Eo Ho Hp Ha Hs Hd | o Eo Ho Hp Ha Hs Hd | Ho Hp Ha Hs Hd Hn].
      + congruence.
      + congruence.
      + rewrite Ho in Ho'. destruct Hn as [Hn|Hn]; [|congruence].
        rewrite Hp in Hp'. exact (Sflush a o' Ho' Hdel' Hp' Hn k).
  Qed.

  (** Snapshot() touches the revision stack only *)
  Lemma sync_frame : forall ss ss', 
    st_trie (ss_st ss') = st_trie (ss_st ss) -> st_objs (ss_st ss') = st_objs (ss_st ss) ->
    st_pending (ss_st ss') = st_pending (ss_st ss) -> st_destruct (ss_st ss') = st_destruct (ss_st ss) ->
    st_dirties (ss_st ss') = st_dirties (ss_st ss) -> ss_acc ss' = ss_acc ss -> ss_sto ss' = ss_sto ss ->
    Sync ss -> Sync ss'.
  Proof.
    intros ss ss' Ht Ho Hp Hd Hdi Ha Hs [Sag Slive Sdead Spend Sflush].
    constructor; unfold Agree, Cleared, Due, dv, fv, flat in *; rewrite ?Ht, ?Ho, ?Hp, ?Hd, ?Hdi, ?Ha, ?Hs; auto.
  Qed.

  (** on [sstep], for a StateDB attached to a layer: Snapshot, Finalise and IntermediateRoot keep [Sync] *)
  Lemma sync_sstep_block_ops : forall ss o p, Sync ss -> ss_snap ss = Some p ->
    match o with OSnapshot | OFinalise _ | OIntermediateRoot _ => True | _ => False end ->
    Sync (fst (sstep ss o)) /\ ss_snap (fst (sstep ss o)) = Some p.
  Proof.
    intros ss o p SY At Ho. unfold sstep. destruct o; try contradiction.
    - (* Snapshot *)
      unfold step. destruct (snapshot (ss_st ss)) as [s1 id] eqn:E. cbn [fst]. rewrite At. cbn [fst].
      assert (F : st_trie s1 = st_trie (ss_st ss) /\ st_objs s1 = st_objs (ss_st ss) /\ st_pending s1 = st_pending (ss_st ss) /\
                  st_destruct s1 = st_destruct (ss_st ss) /\ st_dirties s1 = st_dirties (ss_st ss) /\ st_journal s1 = st_journal (ss_st ss)).
      { unfold snapshot in E. inversion E. repeat split. }
      destruct F as (F1 & F2 & F3 & F4 & F5 & F6).
      rewrite snap_after_plain_cfwd. cbn [with_st ss_st]. rewrite F6, new_entries_same. cbn [cfwd fold_right].
      split; [apply (sync_frame ss); auto|exact At].
    - unfold step. cbn [fst]. rewrite At. cbn [fst]. split; [apply sync_finalise; auto|exact At].
    - unfold step. cbn [fst]. rewrite At. cbn [fst]. split; [apply sync_ir; auto|exact At].
  Qed.
End Bridge.
