(** C08 — diffLayer.flatten with the sharing Go actually has (kai/state/snapshot/difflayer.go).
    ModelSnap.v treats layers as values.  In Go a diffLayer is an object; [storageData] maps an account
    hash to an inner map, and Go maps are references.  flatten
      - first flattens the parent chain, marks the (flattened) parent stale,
      - for every destructed account deletes the parent's entries,
      - "If storage didn't exist (or was deleted) in the parent, overwrite blindly":
            parent.storageData[accountHash] = storage        (the CHILD's inner map, by reference)
        otherwise merges slot by slot into the parent's inner map (in place),
      - returns a NEW layer object that owns the parent's maps.
    The child object itself is not marked stale.  This file transcribes exactly that, with layer
    objects and inner maps in a heap, to exhibit the one consequence that is observable (known
    finding): a later merge into the accumulator writes into the inner map the original child still
    owns, so a reader holding that (non-stale) child sees the next block's slot.
    Only storage is modelled (accounts blobs are overwritten key by key in the parent's own map and
    the child's account map is never handed over).  No proofs in this file. *)
From Coq Require Import List ZArith NArith Bool.
From Kardia Require Import C08.Model.
Import ListNotations.
Local Open Scope N_scope.

(** association lists with the account hash as key: storageData (account -> reference to an inner map) *)
Fixpoint alookup (l : list (N * nat)) (a : N) : option nat :=
  match l with
  | nil => None
  | (x, m) :: t => if N.eqb x a then Some m else alookup t a
  end.
Definition adelete (l : list (N * nat)) (a : N) : list (N * nat) :=
  filter (fun p => negb (N.eqb (fst p) a)) l.

Record hlayer := mkHL {
  hl_root : N;
  hl_stale : bool;
  hl_parent : option nat;            (* reference to the parent layer object; None = the disk layer *)
  hl_destruct : list N;              (* destructSet *)
  hl_sto : list (N * nat) }.         (* storageData: account -> reference to its inner map *)

(** inner maps: slot -> value (Some 0 = nil blob) as association lists *)
Definition imap := list (N * N).
Fixpoint ilookup (m : imap) (k : N) : option N :=
  match m with
  | nil => None
  | (x, v) :: t => if N.eqb x k then Some v else ilookup t k
  end.

Record hheap := mkHeap {
  hh_layers : list hlayer;           (* objects, by reference number *)
  hh_maps : list imap;               (* inner maps, by reference number *)
  hh_disk : N -> N -> N }.           (* flat storage of the disk layer *)

Definition set_nth {A : Type} (l : list A) (i : nat) (v : A) : list A :=
  firstn i l ++ match skipn i l with nil => nil | _ :: t => v :: t end.

Definition mem_n (a : N) (l : list N) : bool := existsb (N.eqb a) l.

(** diffLayer.storage (the walk after a bloom hit): None = ErrSnapshotStale *)
Fixpoint h_storage (fuel : nat) (h : hheap) (id : nat) (a k : N) : option N :=
  match fuel with
  | O => None
  | S f =>
    match nth_error (hh_layers h) id with
    | None => None
    | Some l =>
      if hl_stale l then None
      else
        let local := match alookup (hl_sto l) a with
                     | Some m => match nth_error (hh_maps h) m with Some im => ilookup im k | None => None end
                     | None => None
                     end in
        match local with
        | Some v => Some v
        | None =>
          if mem_n a (hl_destruct l) then Some 0
          else match hl_parent l with
               | Some p => h_storage f h p a k
               | None => Some (hh_disk h a k)
               end
        end
    end
  end.

(** the merge loop of flatten for the storage of one account of the child *)
Definition merge_account (h : hheap) (parent_sto : list (N * nat)) (a : N) (m : nat) : hheap * list (N * nat) :=
  match alookup parent_sto a with
  | None => (h, (a, m) :: parent_sto)                         (* parent.storageData[a] = storage: the reference *)
  | Some pm =>                                                 (* comboData[storageHash] = data, in place *)
    let child := match nth_error (hh_maps h) m with Some im => im | None => nil end in
    let combo := match nth_error (hh_maps h) pm with Some im => im | None => nil end in
    (mkHeap (hh_layers h) (set_nth (hh_maps h) pm (child ++ combo)) (hh_disk h), parent_sto)
  end.

(** diffLayer.flatten: returns the heap and the reference of the resulting layer object *)
Fixpoint h_flatten (fuel : nat) (h : hheap) (id : nat) : hheap * nat :=
  match fuel with
  | O => (h, id)
  | S f =>
    match nth_error (hh_layers h) id with
    | None => (h, id)
    | Some dl =>
      match hl_parent dl with
      | None => (h, id)                                        (* the parent is the disk layer: return dl *)
      | Some p0 =>
        let (h1, p) := h_flatten f h p0 in                     (* parent = parent.flatten() *)
        match nth_error (hh_layers h1) p with
        | None => (h1, id)
        | Some par =>
          (* parent.stale = true; destructs: delete(parent.storageData, hash) *)
          let sto1 := fold_left adelete (hl_destruct dl) (hl_sto par) in
          let '(h2, sto2) := fold_left (fun acc am => merge_account (fst acc) (snd acc) (fst am) (snd am))
                                       (hl_sto dl) (h1, sto1) in
          let par' := mkHL (hl_root par) true (hl_parent par) (hl_destruct dl ++ hl_destruct par) sto2 in
          let combo := mkHL (hl_root dl) false (hl_parent par) (hl_destruct dl ++ hl_destruct par) sto2 in
          let layers := set_nth (hh_layers h2) p par' ++ [combo] in
          (mkHeap layers (hh_maps h2) (hh_disk h2), length (hh_layers h2))
        end
      end
    end
  end.

(** the scenario of the known finding: disk layer (b1); b2 destructs contract 1; b3 re-creates it and
    writes slot 2 := 3; b4 writes slot 0 := 1.  Layer objects 0,1,2 = b2,b3,b4; inner maps 0 (b3) and 1 (b4). *)
Definition alias_heap : hheap :=
  mkHeap [ mkHL 2 false None [1] nil;
           mkHL 3 false (Some 0%nat) nil [(1, 0%nat)];
           mkHL 4 false (Some 1%nat) nil [(1, 1%nat)] ]
         [ [(2, 3)]; [(0, 1)] ]
         (fun _ _ => 0).
