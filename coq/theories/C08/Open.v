(** C08 — statements that are NOT proved (kept as definitions, never used as hypotheses
    elsewhere).  They are exercised by the harness: fresh-replay root oracle, copy dumps,
    read-back after re-open. *)
From Coq Require Import List ZArith NArith Bool.
From Kardia Require Import C08.Model C08.ProofsEqv C08.ProofsUndo C08.ProofsRevert C08.Proofs.
From Kardia Require Import C08.ModelSnap C08.ProofsSnap C08.ProofsSnapDB C08.ProofsSnapBridge.
Import ListNotations.
Local Open Scope N_scope.

(** structured histories: an atomic block is Snapshot; body; optionally RevertToSnapshot *)
Inductive hist :=
| HOp (o : op)                       (* a plain operation or Finalise/IntermediateRoot/Commit *)
| HBlock (body : list hist) (reverted : bool).

Fixpoint run_hist (fuel : nat) (h : list hist) (s : state) : state :=
  match fuel with
  | O => s
  | S f =>
    match h with
    | nil => s
    | HOp o :: t => run_hist f t (fst (step s o))
    | HBlock body rv :: t =>
      let (s1, id) := snapshot s in
      let s2 := run_hist f body s1 in
      run_hist f t (if rv then fst (revert_to s2 id) else s2)
    end
  end.

Fixpoint erase (fuel : nat) (h : list hist) : list hist :=
  match fuel with
  | O => nil
  | S f =>
    match h with
    | nil => nil
    | HOp o :: t => HOp o :: erase f t
    | HBlock body rv :: t => if rv then erase f t else erase f body ++ erase f t
    end
  end.

Fixpoint touches_ripemd (fuel : nat) (h : list hist) : bool :=
  match fuel with
  | O => false
  | S f =>
    match h with
    | nil => false
    | HOp (OAddBalance a v) :: t => (N.eqb a ripemd && Z.eqb v 0) || touches_ripemd f t
    | HOp _ :: t => touches_ripemd f t
    | HBlock body _ :: t => touches_ripemd f body || touches_ripemd f t
    end
  end.

Fixpoint reverted_touch (fuel : nat) (h : list hist) : bool :=
  match fuel with
  | O => false
  | S f =>
    match h with
    | nil => false
    | HOp _ :: t => reverted_touch f t
    | HBlock body rv :: t => (if rv then touches_ripemd f body else reverted_touch f body) || reverted_touch f t
    end
  end.

Definition content_eq (c1 c2 : fmap account) : Prop :=
  forall a, match c1 a, c2 a with
            | Some d1, Some d2 => ac_nonce d1 = ac_nonce d2 /\ ac_balance d1 = ac_balance d2 /\
                                  ac_code d1 = ac_code d2 /\ forall k, ac_storage d1 k = ac_storage d2 k
            | None, None => True
            | _, _ => False
            end.

(** the finalised content after a history equals the content after the history with the
    reverted segments erased, unless a reverted segment touches RIPEMD *)
Definition C08_content_surviving_statement : Prop :=
  forall fuel h s de, reachable s -> reverted_touch fuel h = false ->
    content_eq (st_trie (intermediate_root de (run_hist fuel h s)))
               (st_trie (intermediate_root de (run_hist fuel (erase fuel h) s))).

(** cache coherence of reachable states, from which the full copy and read-back theorems follow *)
Definition C08_clean_unkept_reachable_statement : Prop := forall s, reachable s -> clean_unkept s.

Definition C08_readback_statement : Prop :=
  forall s de, reachable s ->
    let (s', c) := commit de s in
    forall a k, ask (new_state c) (QExist a) = ask s' (QExist a) /\
                ask (new_state c) (QBalance a) = ask s' (QBalance a) /\
                ask (new_state c) (QNonce a) = ask s' (QNonce a) /\
                ask (new_state c) (QCodeHash a) = ask s' (QCodeHash a) /\
                ask (new_state c) (QState a k) = ask s' (QState a k) /\
                ask (new_state c) (QCommitted a k) = ask s' (QCommitted a k).

(** proved since: C08_no_internal_crash, C08_cache_coherent (Properties.v).  Still missing for
    the three statements above: the invariants "an address in stateObjectsDestruct has its object
    loaded and carried by Copy" and "objects outside journal.dirties / pending agree with the
    account trie", and a congruence of every operation for the equivalence of ProofsEqv.v extended
    with journal.dirties and the pending/dirty sets. *)

(** ---------------------------------------------------------------- snapshot layers <-> StateDB (round 3)
    Proved since (Properties.v): reads through any chain of layers built by Update/Cap = overlay of the
    blocks' data (C08_snapshot_layers_read_content), bloom independence, Cap/flatten/diffToDisk
    preserve content, the StateDB's snapshot data is restored exactly by RevertToSnapshot
    (C08_snapdata_revert_exact), and the hand-over theorem C08_snapshot_handover_partial: if the
    invariant [Sync] (ProofsSnapBridge.v) holds when Commit is called, the data handed to Tree.Update,
    laid over the content of the parent layer, is the committed content (accounts and flat storage).
    Still open: [Sync] holds in every state reachable from a freshly opened, attached StateDB (it does
    for the fresh one: C08_sync_new).  The extracted boolean form ModelSnap.sync_ok is evaluated by
    the model driver after every operation of every generated case (a violation would surface as a
    model/implementation mismatch "UNSYNC"); the harness compares every layer with the tries at the
    same root after every Commit (oracle snap-layer-read, Tree.Verify). *)
Definition C08_sync_reachable_statement : Prop :=
  forall base layer ss, ss = snew_state base (Some layer) ->
    forall ops, (forall o, In o ops -> match o with OCommit _ => False | _ => True end) ->
      Sync base (srun ops ss).

(** with it, the full hand-over statement (for every history, not only under [Sync]) *)
Definition C08_snapshot_handover_statement : Prop :=
  forall base layer ops de,
    (forall o, In o ops -> match o with OCommit _ => False | _ => True end) ->
    let ss := srun ops (snew_state base (Some layer)) in
    exists ss' h, scommit de ss = (ss', snd (commit de (ss_st ss)), Some h) /\
      forall a, over_acc1 (handover_layer h) base a = snd (commit de (ss_st ss)) a /\
                forall k, over_sto1 (handover_layer h) (flat base) a k = flat (snd (commit de (ss_st ss))) a k.
