(** C20 — executable model of lib/p2p/conn/secret_connection.go (frame layer: Write, Read,
    incrNonce, the authentication step of MakeSecretConnection) and of
    lib/p2p/conn/connection.go (packetiser: trySendBytes, isSendPending, nextPacketMsg,
    sendPacketMsg with least-ratio selection in float32; reassembler: recvRoutine's packet
    dispatch and recvPacketMsg with the capacity check; protoio delimited framing and the
    size limit [_maxPacketMsgSize]).

    The AEAD (ChaCha20-Poly1305 in the code) is a Section variable [seal]/[open_]; keys are
    an abstract type.  Bytes are [N] (0..255 on every value the driver produces); nonces are
    12-byte strings exactly as in the code (4 zero bytes, then a 64-bit little-endian
    counter).  The content of a frame after the chunk is *unspecified* in the code (the
    frame buffer comes from a pool and is not cleared) — it is the Section variable [pad].

    No proofs in this file. *)
From Coq Require Import List ZArith NArith Bool Arith.
From Kardia Require Import Generated.C20Facts.
Import ListNotations.

Definition bytes := list N.

(* ------------------------------------------------------------------ *)
(** * Little-endian integers, nonces *)

Fixpoint le_encode (n : nat) (v : N) : bytes :=
  match n with
  | O => []
  | S k => (v mod 256)%N :: le_encode k (v / 256)%N
  end.

Fixpoint le_decode (l : bytes) : N :=
  match l with
  | [] => 0%N
  | b :: t => (b + 256 * le_decode t)%N
  end.

Definition nonce := bytes.
Definition max_u64 : N := 18446744073709551615%N.

Definition zero_nonce : nonce := repeat 0%N aead_nonce_size.

(** the nonce whose counter is [c] (what [incrNonce] produces from the zero nonce) *)
Definition nonce_of (c : N) : nonce := repeat 0%N 4 ++ le_encode 8 c.

(** incrNonce: [None] is the panic "can't increase nonce without overflow" *)
Definition incr_nonce (n : nonce) : option nonce :=
  let c := le_decode (skipn 4 n) in
  if (c =? max_u64)%N then None else Some (firstn 4 n ++ le_encode 8 (c + 1)%N).

(** size of one sealed frame on the wire *)
Definition sealed_size : nat := total_frame_size + aead_size_overhead.

(* ------------------------------------------------------------------ *)
(** * Frame layer *)

Inductive wres :=
| WOk (n : nat)        (* (n, nil) *)
| WPanic (n : nat).    (* nonce overflow panic after n bytes were handed to the conn *)

(** result of a Write whose underlying conn may fail *)
Inductive wfres :=
| WFOk (n : nat)       (* (n, nil) *)
| WFErr (n : nat)      (* (n, err): the conn.Write of a frame failed after n bytes had gone out *)
| WFPanic (n : nat).   (* nonce overflow *)

Inductive rerr :=
| REof            (* io.EOF from the underlying conn: no byte of a further frame *)
| RUnexpectedEof  (* io.ErrUnexpectedEOF: the stream ends inside a frame *)
| RDecrypt        (* "failed to decrypt SecretConnection" *)
| RChunkLen       (* "chunkLength is greater than dataMaxSize" *)
| RPanic.         (* nonce overflow panic in incrNonce(recvNonce) *)

Inductive rres :=
| ROk (data : bytes)   (* (len data, nil) — data are the bytes copied into the caller's buffer *)
| RErr (e : rerr).

Section Frame.
  Variable key : Type.
  Variable seal : key -> nonce -> bytes -> bytes.
  Variable open_ : key -> nonce -> bytes -> option bytes.
  (** [pad n]: the n stale bytes that follow the chunk in the pooled frame buffer *)
  Variable pad : nat -> bytes.

  Record conn := {
    send_key : key; recv_key : key;
    send_nonce : nonce; recv_nonce : nonce;
    recv_buffer : bytes }.

  Definition new_conn (sk rk : key) : conn :=
    {| send_key := sk; recv_key := rk; send_nonce := zero_nonce; recv_nonce := zero_nonce;
       recv_buffer := [] |}.

  (** frame = 4-byte little-endian chunk length, chunk, rest of the buffer *)
  Definition mk_frame (chunk : bytes) : bytes :=
    le_encode data_len_size (N.of_nat (length chunk)) ++ chunk ++ pad (data_max_size - length chunk).

  (** the loop [for 0 < len(data)] cuts data into dataMaxSize chunks (last one shorter) *)
  Fixpoint chunk_loop (fuel : nat) (data : bytes) : list bytes :=
    match fuel with
    | O => []
    | S f =>
        match data with
        | [] => []
        | _ => if data_max_size <? length data
               then firstn data_max_size data :: chunk_loop f (skipn data_max_size data)
               else [data]
        end
    end.
  Definition chunks (data : bytes) : list bytes := chunk_loop (length data) data.

  (** per chunk: Seal with the current nonce, incrNonce (may panic), conn.Write *)
  Fixpoint write_chunks (k : key) (nc : nonce) (cs : list bytes) (n : nat)
    : nonce * list bytes * wres :=
    match cs with
    | [] => (nc, [], WOk n)
    | c :: rest =>
        let sealed := seal k nc (mk_frame c) in
        match incr_nonce nc with
        | None => (nc, [], WPanic n)
        | Some nc' =>
            let '(nc2, out, r) := write_chunks k nc' rest (n + length c) in
            (nc2, sealed :: out, r)
        end
    end.

  (** SecretConnection.Write: new state, sealed frames handed to the conn (in order), result *)
  Definition write (st : conn) (data : bytes) : conn * list bytes * wres :=
    let '(nc, out, r) := write_chunks (send_key st) (send_nonce st) (chunks data) 0 in
    ({| send_key := send_key st; recv_key := recv_key st; send_nonce := nc;
        recv_nonce := recv_nonce st; recv_buffer := recv_buffer st |}, out, r).

  Definition set_recv (st : conn) (nc : nonce) (buf : bytes) : conn :=
    {| send_key := send_key st; recv_key := recv_key st; send_nonce := send_nonce st;
       recv_nonce := nc; recv_buffer := buf |}.

  (** SecretConnection.Read with a caller buffer of [cap] bytes over the byte stream [wire]
      (what the underlying conn will still deliver; a stream that ends is a closed conn).
      Returns the new state, the rest of the stream, and the result. *)
  Definition read (st : conn) (wire : bytes) (cap : nat) : conn * bytes * rres :=
    match recv_buffer st with
    | _ :: _ =>
        let n := Nat.min cap (length (recv_buffer st)) in
        (set_recv st (recv_nonce st) (skipn n (recv_buffer st)), wire, ROk (firstn n (recv_buffer st)))
    | [] =>
        if length wire <? sealed_size then
          (* io.ReadFull fails; whatever was there has been consumed *)
          (st, [], RErr (match wire with [] => REof | _ => RUnexpectedEof end))
        else
          let blk := firstn sealed_size wire in
          let rest := skipn sealed_size wire in
          match open_ (recv_key st) (recv_nonce st) blk with
          | None => (st, rest, RErr RDecrypt)
          | Some frame =>
              match incr_nonce (recv_nonce st) with
              | None => (st, rest, RErr RPanic)
              | Some nc' =>
                  let clen := le_decode (firstn data_len_size frame) in
                  if (N.of_nat data_max_size <? clen)%N then
                    (set_recv st nc' [], rest, RErr RChunkLen)
                  else
                    let chunk := firstn (N.to_nat clen) (skipn data_len_size frame) in
                    let n := Nat.min cap (length chunk) in
                    (set_recv st nc' (skipn n chunk), rest, ROk (firstn n chunk))
              end
          end
    end.

  (** a caller that keeps calling Read with the given buffer sizes, whatever the results *)
  Fixpoint read_many (st : conn) (wire : bytes) (caps : list nat) : conn * bytes * list rres :=
    match caps with
    | [] => (st, wire, [])
    | cap :: more =>
        let '(st1, w1, r) := read st wire cap in
        let '(st2, w2, rs) := read_many st1 w1 more in
        (st2, w2, r :: rs)
    end.

  (** a caller that stops at the first error (what every user of the connection does) *)
  Fixpoint read_until_err (st : conn) (wire : bytes) (caps : list nat) : conn * bytes * list rres :=
    match caps with
    | [] => (st, wire, [])
    | cap :: more =>
        let '(st1, w1, r) := read st wire cap in
        match r with
        | RErr _ => (st1, w1, [r])
        | ROk _ =>
            let '(st2, w2, rs) := read_until_err st1 w1 more in
            (st2, w2, r :: rs)
        end
    end.

  Fixpoint write_many (st : conn) (ws : list bytes) : conn * list bytes :=
    match ws with
    | [] => (st, [])
    | d :: more =>
        let '(st1, out, _) := write st d in
        let '(st2, out2) := write_many st1 more in
        (st2, out ++ out2)
    end.

  Definition delivered_of (r : rres) : bytes := match r with ROk d => d | RErr _ => [] end.
  Definition delivered (rs : list rres) : bytes := concat (map delivered_of rs).

  (** ** Write when the underlying conn.Write may fail

      [fail = Some j]: the conn.Write of the (j+1)-th frame of this call returns an error.
      The code seals the frame and advances the nonce BEFORE handing the frame to the conn, so
      the failing frame has consumed its nonce whatever became of its bytes; Write returns the
      number of bytes of the chunks before it, and nothing after it is sealed.  [out] lists the
      frames handed to the conn, the failing one included (what reaches the far end is the
      network's business). *)
  Fixpoint write_chunks_f (k : key) (nc : nonce) (cs : list bytes) (n : nat) (fail : option nat)
    : nonce * list bytes * wfres :=
    match cs with
    | [] => (nc, [], WFOk n)
    | c :: rest =>
        let sealed := seal k nc (mk_frame c) in
        match incr_nonce nc with
        | None => (nc, [], WFPanic n)
        | Some nc' =>
            match fail with
            | Some O => (nc', [sealed], WFErr n)
            | _ =>
                let '(nc2, out, r) :=
                  write_chunks_f k nc' rest (n + length c) (option_map Nat.pred fail) in
                (nc2, sealed :: out, r)
            end
        end
    end.

  Definition write_f (st : conn) (data : bytes) (fail : option nat) : conn * list bytes * wfres :=
    let '(nc, out, r) := write_chunks_f (send_key st) (send_nonce st) (chunks data) 0 fail in
    ({| send_key := send_key st; recv_key := recv_key st; send_nonce := nc;
        recv_nonce := recv_nonce st; recv_buffer := recv_buffer st |}, out, r).

  (** a caller that keeps writing after errors *)
  Fixpoint write_many_f (st : conn) (ws : list (bytes * option nat)) : conn * list bytes :=
    match ws with
    | [] => (st, [])
    | (d, fl) :: more =>
        let '(st1, out, _) := write_f st d fl in
        let '(st2, out2) := write_many_f st1 more in
        (st2, out ++ out2)
    end.
End Frame.

Arguments send_key {key}. Arguments recv_key {key}. Arguments send_nonce {key}.
Arguments recv_nonce {key}. Arguments recv_buffer {key}.

(* ------------------------------------------------------------------ *)
(** * Authentication step of MakeSecretConnection, ideal signatures

    After the ephemeral exchange both ends hold a 32-byte challenge (a hash of the sorted
    ephemeral keys and the DH secret).  Each end sends, inside the first sealed frame,
    (its public key, signature over the challenge) and checks the pair it receives with
    VerifySignature(PubkeyToAddress(key), challenge, sig).  A signature is ideal: the
    pair (signer, signed bytes), or garbage. *)

Inductive isig := SigOf (signer : N) (msg : N) | SigGarbage.

(** result: the authenticated remote identity, or the failure *)
Inductive hres := HOk (remote : N) | HFail.

Definition verify_auth (challenge claimed : N) (s : isig) : hres :=
  match s with
  | SigOf signer msg => if (signer =? claimed)%N && (msg =? challenge)%N then HOk claimed else HFail
  | SigGarbage => HFail
  end.

(* ------------------------------------------------------------------ *)
(** * MultiplexTransport.upgrade (lib/p2p/transport.go): from the authenticated key to the peer ID

    [idof] is PubKeyToID (hex of the Keccak address of the key).  [dialed] is the ID of the
    address that was dialed ([None] on an inbound connection).  The NodeInfo the far end sends
    over the established secret connection is unauthenticated data: [ni_id] is whatever it
    claims; Validate and CompatibleWith (lib/p2p/node_info.go, not part of this property) are
    abstracted to their verdicts.  [None]: the NodeInfo exchange failed. *)

Record node_info := { ni_id : N; ni_valid : bool; ni_compat : bool }.

Inductive rej :=
| RejAuth       (* isAuthFailure: secret conn failed / dialed ID mismatch / handshake failed / NodeInfo ID mismatch *)
| RejInvalid    (* isNodeInfoInvalid *)
| RejSelf       (* isSelf *)
| RejIncompat.  (* isIncompatible *)

Inductive upres := UpOk (peer_id : N) | UpRej (r : rej).

Definition upgrade (idof : N -> N) (self_id : N) (dialed : option N)
           (challenge claimed : N) (s : isig) (ni : option node_info) : upres :=
  match verify_auth challenge claimed s with
  | HFail => UpRej RejAuth
  | HOk k =>
      let conn_id := idof k in
      if match dialed with Some d => negb (conn_id =? d)%N | None => false end
      then UpRej RejAuth
      else match ni with
           | None => UpRej RejAuth
           | Some i =>
               if negb (ni_valid i) then UpRej RejInvalid
               else if negb (conn_id =? ni_id i)%N then UpRej RejAuth
               else if (self_id =? ni_id i)%N then UpRej RejSelf
               else if negb (ni_compat i) then UpRej RejIncompat
               else UpOk (ni_id i)
           end
  end.

(* ------------------------------------------------------------------ *)
(** * protoio framing of kp2p.Packet *)

Fixpoint varint_fuel (fuel : nat) (v : N) : bytes :=
  match fuel with
  | O => []
  | S f => if (v <? 128)%N then [v] else ((v mod 128) + 128)%N :: varint_fuel f (v / 128)%N
  end.
(** binary.PutUvarint of a uint64 (at most 10 bytes) *)
Definition varint (v : N) : bytes := varint_fuel 10 v.

Inductive packet :=
| PktPing
| PktPong
| PktMsg (ch : Z) (eof : bool) (data : bytes).   (* ChannelID is an int32 on the wire *)

(** uint64(int32) sign extension used by the generated marshaller *)
Definition u64_of_int32 (z : Z) : N :=
  if (z <? 0)%Z then Z.to_N (z + 18446744073709551616)%Z else Z.to_N z.

(** PacketMsg.Marshal: proto3, zero-valued fields are omitted *)
Definition enc_msg (ch : Z) (eof : bool) (data : bytes) : bytes :=
  (if (ch =? 0)%Z then [] else 8%N :: varint (u64_of_int32 ch)) ++
  (if eof then [16%N; 1%N] else []) ++
  (match data with [] => [] | _ => 26%N :: varint (N.of_nat (length data)) ++ data end).

Definition enc_packet (p : packet) : bytes :=
  match p with
  | PktPing => [10%N; 0%N]
  | PktPong => [18%N; 0%N]
  | PktMsg ch eof d => let m := enc_msg ch eof d in 26%N :: varint (N.of_nat (length m)) ++ m
  end.

(** protoio.NewDelimitedWriter(..).WriteMsg: varint length, then the message *)
Definition delimited (b : bytes) : bytes := varint (N.of_nat (length b)) ++ b.

(** MConnection.maxPacketMsgSize(): computed once, with ChannelID 0xff (the largest channel
    id: ids >= 0x80 need a two-byte varint; fix 061bd4b) and EOF set *)
Definition max_packet_msg_size (max_payload : nat) : nat :=
  length (enc_packet (PktMsg 255 true (repeat 0%N max_payload))).

(* ------------------------------------------------------------------ *)
(** * float32 ratio used by sendPacketMsg

    [f32] (m, e) stands for m * 2^e with 2^23 <= m <= 2^24 (or m = 0); round-to-nearest-even.
    Only non-negative values far from overflow/underflow occur (0 <= recentlySent < 2^63,
    1 <= priority < 2^63). *)
Definition f32 := (Z * Z)%type.

(** nearest-even float32 of num/den, num >= 0, den > 0 *)
Definition f32_round (num den : Z) : f32 :=
  if (num <=? 0)%Z then (0, 0)%Z else
  let e0 := (Z.log2 num - Z.log2 den - 23)%Z in
  let quo (e : Z) := if (0 <=? e)%Z then (num / (den * 2 ^ e))%Z else ((num * 2 ^ (- e)) / den)%Z in
  let e := if (quo e0 <? 8388608)%Z then (e0 - 1)%Z else e0 in
  let n' := if (0 <=? e)%Z then num else (num * 2 ^ (- e))%Z in
  let d' := if (0 <=? e)%Z then (den * 2 ^ e)%Z else den in
  let m := (n' / d')%Z in
  let r := (n' mod d')%Z in
  let up := ((d' <? 2 * r) || ((2 * r =? d') && Z.odd m))%Z in
  ((if up then m + 1 else m)%Z, e).

Definition f32_of_int (a : Z) : f32 := f32_round a 1.

(** float32 division of two non-negative floats, divisor positive *)
Definition f32_div (a b : f32) : f32 :=
  let '(m1, e1) := a in let '(m2, e2) := b in
  if (e2 <=? e1)%Z then f32_round (m1 * 2 ^ (e1 - e2)) m2 else f32_round m1 (m2 * 2 ^ (e2 - e1)).

Definition f32_lt (a b : f32) : bool :=
  let '(m1, e1) := a in let '(m2, e2) := b in
  if (e2 <=? e1)%Z then (m1 * 2 ^ (e1 - e2) <? m2)%Z else (m1 <? m2 * 2 ^ (e2 - e1))%Z.

(* ------------------------------------------------------------------ *)
(** * Channels: packetiser and reassembler *)

Record chdesc := {
  ch_id : N;            (* byte *)
  ch_prio : Z;          (* > 0 *)
  ch_sendcap : nat;     (* SendQueueCapacity after FillDefaults *)
  ch_recvcap : N }.     (* RecvMessageCapacity after FillDefaults *)

Record chan := {
  desc : chdesc;
  queue : list bytes;   (* sendQueue (buffered Go channel) *)
  qsize : Z;            (* sendQueueSize (what CanSend looks at) *)
  sending : bytes;      (* ch.sending; the code only ever asks len(ch.sending) == 0 *)
  recving : bytes;
  recently_sent : Z }.

Definition new_chan (d : chdesc) : chan :=
  {| desc := d; queue := []; qsize := 0; sending := []; recving := []; recently_sent := 0 |}.

Definition upd_send (c : chan) (q : list bytes) (qs : Z) (s : bytes) (rs : Z) : chan :=
  {| desc := desc c; queue := q; qsize := qs; sending := s; recving := recving c; recently_sent := rs |}.
Definition upd_recving (c : chan) (r : bytes) : chan :=
  {| desc := desc c; queue := queue c; qsize := qsize c; sending := sending c; recving := r;
     recently_sent := recently_sent c |}.

(** Channel.trySendBytes *)
Definition try_send (c : chan) (m : bytes) : chan * bool :=
  if length (queue c) <? ch_sendcap (desc c)
  then (upd_send c (queue c ++ [m]) (qsize c + 1)%Z (sending c) (recently_sent c), true)
  else (c, false).

(** Channel.canSend (defaultSendQueueCapacity, not the channel's own capacity) *)
Definition can_send (c : chan) : bool := (qsize c <? Z.of_N default_send_queue_capacity)%Z.

(** Channel.isSendPending: note that a dequeued message of length 0 is indistinguishable
    from "nothing being sent" the next time round *)
Definition is_send_pending (c : chan) : bool * chan :=
  match sending c with
  | [] => match queue c with
          | [] => (false, c)
          | m :: q => (true, upd_send c q (qsize c) m (recently_sent c))
          end
  | _ => (true, c)
  end.

(** Channel.nextPacketMsg *)
Definition next_packet (maxp : nat) (c : chan) : packet * chan :=
  let s := sending c in
  let k := Nat.min maxp (length s) in
  if length s <=? maxp
  then (PktMsg (Z.of_N (ch_id (desc c))) true (firstn k s),
        upd_send c (queue c) (qsize c - 1)%Z [] (recently_sent c))
  else (PktMsg (Z.of_N (ch_id (desc c))) false (firstn k s),
        upd_send c (queue c) (qsize c) (skipn k s) (recently_sent c)).

(** the selection loop of sendPacketMsg: calls isSendPending on every channel (with its side
    effect), keeps the first channel with the strictly least recentlySent/priority.
    Returns the updated channels and the index of the chosen one. *)
Fixpoint select_loop (cs : list chan) (idx : nat) (best : option (nat * f32)) : list chan * option nat :=
  match cs with
  | [] => ([], match best with Some (i, _) => Some i | None => None end)
  | c :: rest =>
      let '(pending, c') := is_send_pending c in
      let best' :=
        if pending then
          let ratio := f32_div (f32_of_int (recently_sent c')) (f32_of_int (ch_prio (desc c'))) in
          match best with
          | None => Some (idx, ratio)       (* ratio < MaxFloat32 always *)
          | Some (_, br) => if f32_lt ratio br then Some (idx, ratio) else best
          end
        else best in
      let '(rest', r) := select_loop rest (S idx) best' in
      (c' :: rest', r)
  end.

Fixpoint upd_nth {A} (n : nat) (f : A -> A) (l : list A) : list A :=
  match l, n with
  | [], _ => []
  | x :: t, O => f x :: t
  | x :: t, S k => x :: upd_nth k f t
  end.

(** MConnection.sendPacketMsg: (channels', packet written if any, "exhausted") *)
Definition send_packet_msg (maxp : nat) (cs : list chan) : list chan * option packet * bool :=
  let '(cs1, sel) := select_loop cs 0 None in
  match sel with
  | None => (cs1, None, true)
  | Some i =>
      match nth_error cs1 i with
      | None => (cs1, None, true)
      | Some c =>
          let '(p, c') := next_packet maxp c in
          let n := Z.of_nat (length (delimited (enc_packet p))) in
          let c'' := upd_send c' (queue c') (qsize c') (sending c') (recently_sent c' + n)%Z in
          (upd_nth i (fun _ => c'') cs1, Some p, false)
      end
  end.

(** the packets of one message when its channel is selected every time *)
Fixpoint packetise_fuel (fuel : nat) (id : N) (maxp : nat) (m : bytes) : list packet :=
  match fuel with
  | O => []
  | S f => if length m <=? maxp then [PktMsg (Z.of_N id) true m]
           else PktMsg (Z.of_N id) false (firstn maxp m) :: packetise_fuel f id maxp (skipn maxp m)
  end.
Definition packetise (id : N) (maxp : nat) (m : bytes) : list packet :=
  packetise_fuel (S (length m)) id maxp m.

(** ** receiving *)

Inductive merr :=
| MTooBig      (* protoio: "message exceeds max size" *)
| MUnknownCh   (* "unknown channel %X" *)
| MCapacity.   (* "received message exceeds available capacity" *)

Inductive mevent := Deliver (ch : N) (msg : bytes).   (* onReceive(chID, msgBytes) *)

(** Channel.recvPacketMsg *)
Definition recv_packet_msg (c : chan) (data : bytes) (eof : bool) : (chan * option bytes) + merr :=
  if (ch_recvcap (desc c) <? N.of_nat (length (recving c) + length data))%N then inr MCapacity
  else
    let r := recving c ++ data in
    if eof then inl (upd_recving c [], Some r) else inl (upd_recving c r, None).

Fixpoint find_chan (id : N) (cs : list chan) : option (nat * chan) :=
  match cs with
  | [] => None
  | c :: t => if (ch_id (desc c) =? id)%N then Some (O, c)
              else match find_chan id t with Some (i, c') => Some (S i, c') | None => None end
  end.

(** byte(pkt.PacketMsg.ChannelID) *)
Definition byte_of_int32 (z : Z) : N := Z.to_N (z mod 256)%Z.

(** one iteration of recvRoutine on a packet whose protobuf encoding has the given size
    limit [maxsize] = _maxPacketMsgSize *)
Definition recv_packet (maxsize : nat) (cs : list chan) (p : packet)
  : (list chan * option mevent) + merr :=
  if maxsize <? length (enc_packet p) then inr MTooBig else
  match p with
  | PktPing | PktPong => inl (cs, None)
  | PktMsg ch eof data =>
      let id := byte_of_int32 ch in
      match find_chan id cs with
      | None => inr MUnknownCh
      | Some (i, c) =>
          match recv_packet_msg c data eof with
          | inr e => inr e
          | inl (c', None) => inl (upd_nth i (fun _ => c') cs, None)
          | inl (c', Some m) => inl (upd_nth i (fun _ => c') cs, Some (Deliver id m))
          end
      end
  end.

(** recvRoutine over a packet stream: deliveries in order, and the error that stopped it *)
Fixpoint recv_stream (maxsize : nat) (cs : list chan) (ps : list packet) : list mevent * option merr :=
  match ps with
  | [] => ([], None)
  | p :: rest =>
      match recv_packet maxsize cs p with
      | inr e => ([], Some e)
      | inl (cs', ev) =>
          let '(evs, r) := recv_stream maxsize cs' rest in
          (match ev with Some e => e :: evs | None => evs end, r)
      end
  end.

(** protoio ReadMsg looks at the declared length (a uint64 varint converted to a Go int, so
    values from 2^63 on are negative) before allocating or reading anything: refused when
    negative or above the limit. *)
Definition len_refused (maxsize : nat) (len : N) : bool :=
  (9223372036854775807 <? len)%N || (N.of_nat maxsize <? len)%N.

(** a packet stream followed by one more length prefix [len] (and arbitrary bytes) *)
Definition recv_stream_then_len (maxsize : nat) (cs : list chan) (ps : list packet) (len : N)
  : list mevent * option merr :=
  let '(evs, r) := recv_stream maxsize cs ps in
  match r with
  | Some _ => (evs, r)
  | None => (evs, if len_refused maxsize len then Some MTooBig else None)
  end.

Definition events_of (id : N) (evs : list mevent) : list bytes :=
  flat_map (fun e => match e with Deliver c m => if (c =? id)%N then [m] else [] end) evs.
