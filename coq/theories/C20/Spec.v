(** C20 — specification vocabulary used by the theorem statements (definitions only). *)
From Coq Require Import List ZArith NArith Bool Arith.
From Kardia Require Import Generated.C20Facts C20.Model.
Import ListNotations.

Section FrameSpec.
  Variable key : Type.
  Variable seal : key -> nonce -> bytes -> bytes.
  Variable open_ : key -> nonce -> bytes -> option bytes.
  Variable pad : nat -> bytes.

  (** What is assumed of the AEAD.  [aead_open_seal] and [aead_open_auth] say that [open_] is
      exactly the partial inverse of [seal] (true of any deterministic AEAD, ChaCha20-Poly1305
      included); [aead_seal_len] is the constant expansion.  Nothing here says that forging is
      hard: unforgeability appears in the theorems as an explicit alternative ([forgery]). *)
  Record aead_ok : Prop := {
    aead_open_seal : forall k n p, open_ k n (seal k n p) = Some p;
    aead_open_auth : forall k n c p, open_ k n c = Some p -> c = seal k n p;
    aead_seal_len : forall k n p, length (seal k n p) = length p + aead_size_overhead }.

  Definition pad_ok : Prop := forall n, length (pad n) = n.

  (** plaintext frames produced by a sequence of Write calls *)
  Definition chunks_of (ws : list bytes) : list bytes := concat (map chunks ws).
  Definition frames_of (ws : list bytes) : list bytes := map (mk_frame pad) (chunks_of ws).

  (** ... and by a sequence of Write calls some of whose underlying conn.Write fail: a Write
      whose conn.Write fails at its frame [j] ([Some j]) has sealed its first j+1 chunks *)
  Definition sealed_chunks (w : bytes * option nat) : list bytes :=
    match snd w with None => chunks (fst w) | Some j => firstn (S j) (chunks (fst w)) end.
  Definition chunks_of_f (ws : list (bytes * option nat)) : list bytes :=
    concat (map sealed_chunks ws).
  Definition frames_of_f (ws : list (bytes * option nat)) : list bytes :=
    map (mk_frame pad) (chunks_of_f ws).

  (** sealing a list of frames with consecutive counters starting at [c] *)
  Fixpoint seal_seq (k : key) (c : N) (frames : list bytes) : list bytes :=
    match frames with
    | [] => []
    | f :: rest => seal k (nonce_of c) f :: seal_seq k (c + 1)%N rest
    end.

  (** writer [a] and reader [b] are the two ends of one direction, both at counter [c] *)
  Definition paired (a b : conn key) (c : N) : Prop :=
    send_key a = recv_key b /\ send_nonce a = nonce_of c /\ recv_nonce b = nonce_of c /\
    recv_buffer b = [].

  (** The wire [w] contains a forgery against the session (key k, first counter c0, plaintext
      frames [frames]): a block that is a valid sealing, for position i of the session, of a
      plaintext that the writer did not seal at position i.  Producing such a block without
      the key is an INT-CTXT break of the AEAD (or, when the block is one of the genuine
      frames, a collision seal k n p = seal k n' p' with (n,p) <> (n',p')). *)
  Definition forgery (k : key) (c0 : N) (frames : list bytes) (w : bytes) : Prop :=
    exists (i : nat) (p pre post : bytes),
      w = pre ++ seal k (nonce_of (c0 + N.of_nat i)) p ++ post /\ nth_error frames i <> Some p.
End FrameSpec.

(** * packet layer *)

Definition pkt_ch (p : packet) : option N :=
  match p with PktMsg ch _ _ => Some (byte_of_int32 ch) | _ => None end.

(** the sub-stream of packets addressed to channel [id] *)
Definition proj (id : N) (ps : list packet) : list packet :=
  filter (fun p => match pkt_ch p with Some c => (c =? id)%N | None => false end) ps.

(** every message packet of the stream is addressed to a configured channel *)
Definition known_channels (descs : list chdesc) (ps : list packet) : Prop :=
  forall p c, In p ps -> pkt_ch p = Some c -> exists d, In d descs /\ ch_id d = c.

Definition packets_of (id : N) (maxp : nat) (msgs : list bytes) : list packet :=
  concat (map (packetise id maxp) msgs).
