(** C20 — MultiplexTransport.upgrade: the ID a peer is accepted under is tied to the key that
    signed this session's challenge (ideal signatures), to the dialed ID on outbound
    connections, and to nothing the far end merely says about itself.  Also the protoio
    length check. *)
From Coq Require Import List ZArith NArith Bool Arith Lia.
From Kardia Require Import Generated.C20Facts C20.Model C20.Spec.
Import ListNotations.

Lemma verify_auth_ok : forall ch claimed s r,
  verify_auth ch claimed s = HOk r -> r = claimed /\ s = SigOf claimed ch.
Proof.
  intros ch claimed s r H. unfold verify_auth in H.
  destruct s as [signer msg|]; [|discriminate].
  destruct (N.eqb_spec signer claimed) as [E1|E1]; [|discriminate].
  destruct (N.eqb_spec msg ch) as [E2|E2]; [|discriminate].
  cbn [andb] in H. inversion H. subst. auto.
Qed.

(** accepted under ID x  ==>  the far end's auth message carried the ideal signature of [claimed]
    over THIS session's challenge, x is the ID of that key, x is what the NodeInfo says, x is the
    dialed ID (outbound), x is not our own ID, and the NodeInfo passed validation/compatibility *)
Lemma upgrade_identity : forall idof self dialed ch claimed s ni x,
  upgrade idof self dialed ch claimed s ni = UpOk x ->
  s = SigOf claimed ch /\ x = idof claimed /\
  (forall d, dialed = Some d -> d = x) /\ x <> self /\
  exists i, ni = Some i /\ ni_id i = x /\ ni_valid i = true /\ ni_compat i = true.
Proof.
  intros idof self dialed ch claimed s ni x H. unfold upgrade in H.
  destruct (verify_auth ch claimed s) as [k|] eqn:Hv; [|discriminate].
  apply verify_auth_ok in Hv. destruct Hv as (-> & ->).
  cbv zeta in H.
  assert (Hd : forall d, dialed = Some d -> idof claimed = d).
  { intros d ->. destruct (N.eqb_spec (idof claimed) d) as [E|E]; [exact E|].
    cbn [negb] in H. discriminate. }
  assert (H' : match ni with
               | None => UpRej RejAuth
               | Some i =>
                   if negb (ni_valid i) then UpRej RejInvalid
                   else if negb (idof claimed =? ni_id i)%N then UpRej RejAuth
                   else if (self =? ni_id i)%N then UpRej RejSelf
                   else if negb (ni_compat i) then UpRej RejIncompat
                   else UpOk (ni_id i)
               end = UpOk x).
  { destruct dialed as [d|]; [|exact H].
    destruct (negb (idof claimed =? d)%N); [discriminate | exact H]. }
  clear H. destruct ni as [i|]; [|discriminate].
  destruct (ni_valid i) eqn:Ev; cbn [negb] in H'; [|discriminate].
  destruct (N.eqb_spec (idof claimed) (ni_id i)) as [Ei|Ei]; cbn [negb] in H'; [|discriminate].
  destruct (N.eqb_spec self (ni_id i)) as [Es|Es]; [discriminate|].
  destruct (ni_compat i) eqn:Ec; cbn [negb] in H'; [|discriminate].
  inversion H'; subst x. clear H'.
  split; [reflexivity|]. split; [now symmetry|]. split.
  - intros d Hdd. rewrite <- Ei. symmetry. now apply Hd.
  - split; [congruence|]. exists i. auto.
Qed.

(** the seeded scenario, spelled out: the far end holds key m and signs honestly, its NodeInfo
    claims an ID that is not the ID of m: never accepted, whatever was dialed *)
Lemma upgrade_impostor_refused : forall idof self dialed ch m i,
  ni_id i <> idof m ->
  exists r, upgrade idof self dialed ch m (SigOf m ch) (Some i) = UpRej r.
Proof.
  intros idof self dialed ch m i Hne.
  destruct (upgrade idof self dialed ch m (SigOf m ch) (Some i)) as [x|r] eqn:E; [|now exists r].
  apply upgrade_identity in E. destruct E as (_ & -> & _ & _ & j & Hj & Hid & _).
  inversion Hj; subst j. now elim Hne.
Qed.

(** an honest far end is accepted: the hypotheses of [upgrade_identity] are satisfiable *)
Lemma upgrade_honest : forall idof self dialed ch k i,
  ni_id i = idof k -> ni_valid i = true -> ni_compat i = true -> idof k <> self ->
  (dialed = None \/ dialed = Some (idof k)) ->
  upgrade idof self dialed ch k (SigOf k ch) (Some i) = UpOk (idof k).
Proof.
  intros idof self dialed ch k i Hid Hv Hc Hs Hd. unfold upgrade, verify_auth.
  rewrite !N.eqb_refl. cbn [andb]. cbv zeta.
  assert (E : match dialed with Some d => negb (idof k =? d)%N | None => false end = false).
  { destruct Hd as [->| ->]; [reflexivity|]. now rewrite N.eqb_refl. }
  rewrite E, Hv, Hc, Hid, N.eqb_refl. cbn [negb].
  destruct (N.eqb_spec self (idof k)) as [Es|Es]; [now elim Hs|reflexivity].
Qed.

(** a failed secret-connection authentication is an authentication failure of the upgrade *)
Lemma upgrade_bad_signature : forall idof self dialed ch claimed s ni,
  s <> SigOf claimed ch -> upgrade idof self dialed ch claimed s ni = UpRej RejAuth.
Proof.
  intros idof self dialed ch claimed s ni Hs. unfold upgrade.
  destruct (verify_auth ch claimed s) as [k|] eqn:Hv; [|reflexivity].
  apply verify_auth_ok in Hv. now elim Hs.
Qed.

(* ------------------------------------------------------------------ *)
(** * protoio: the declared length *)

Lemma len_refused_above : forall maxsize len,
  (N.of_nat maxsize < len)%N -> len_refused maxsize len = true.
Proof.
  intros maxsize len H. unfold len_refused. apply orb_true_iff. right. now apply N.ltb_lt.
Qed.

(** a packet stream followed by a length prefix above the limit (in particular every value that
    is negative as a Go int): what was complete before is delivered, then the receiver stops
    with the size error *)
Lemma declared_length_refused : forall maxsize cs ps len evs,
  recv_stream maxsize cs ps = (evs, None) ->
  (N.of_nat maxsize < len \/ 9223372036854775807 < len)%N ->
  recv_stream_then_len maxsize cs ps len = (evs, Some MTooBig).
Proof.
  intros maxsize cs ps len evs H Hl. unfold recv_stream_then_len. rewrite H.
  assert (E : len_refused maxsize len = true).
  { unfold len_refused. apply orb_true_iff. destruct Hl as [Hl|Hl]; [right|left]; now apply N.ltb_lt. }
  now rewrite E.
Qed.
