(** C20 — frame layer, part 1: constants, nonces, chunking, the writer, the sealed
    sequence, the syntactic decomposition of a wire, and a concrete AEAD instance. *)
From Coq Require Import List ZArith NArith Bool Arith Lia.
From Kardia Require Import Generated.C20Facts C20.Model C20.Spec.
Import ListNotations.

(* ------------------------------------------------------------------ *)
(** * The only facts used about the generated constants *)

Lemma facts_fit :
  data_len_size = 4 /\ total_frame_size = data_max_size + data_len_size /\
  aead_nonce_size = 12 /\ 0 < data_max_size /\ (N.of_nat data_max_size < 2^32)%N.
Proof.
  split; [reflexivity|]. split; [reflexivity|]. split; [reflexivity|].
  split; [apply Nat.ltb_lt; reflexivity | reflexivity].
Qed.

Lemma sealed_size_eq : sealed_size = total_frame_size + aead_size_overhead.
Proof. reflexivity. Qed.

Lemma sealed_size_pos : 0 < sealed_size.
Proof. rewrite sealed_size_eq. destruct facts_fit as (_ & -> & _ & H & _). lia. Qed.

Local Opaque data_len_size data_max_size total_frame_size aead_size_overhead aead_nonce_size
  sealed_size.

(* ------------------------------------------------------------------ *)
(** * Generic list helpers *)

Lemma firstn_app_exact {A} n (l1 l2 : list A) : length l1 = n -> firstn n (l1 ++ l2) = l1.
Proof.
  intros <-. rewrite firstn_app, Nat.sub_diag, firstn_O, firstn_all. apply app_nil_r.
Qed.

Lemma skipn_app_exact {A} n (l1 l2 : list A) : length l1 = n -> skipn n (l1 ++ l2) = l2.
Proof.
  intros <-. rewrite skipn_app, Nat.sub_diag, skipn_all. reflexivity.
Qed.

(* ------------------------------------------------------------------ *)
(** * Little-endian integers and nonces *)

Lemma le_encode_length n v : length (le_encode n v) = n.
Proof. revert v; induction n as [|n IH]; intros v; cbn [le_encode length]; auto. Qed.

Lemma le_decode_encode n v : (v < 256 ^ N.of_nat n)%N -> le_decode (le_encode n v) = v.
Proof.
  revert v; induction n as [|n IH]; intros v Hv.
  - change (256 ^ N.of_nat 0)%N with 1%N in Hv. cbn [le_encode le_decode]. lia.
  - cbn [le_encode le_decode]. rewrite IH.
    + pose proof (N.div_mod v 256). lia.
    + rewrite Nat2N.inj_succ, N.pow_succ_r' in Hv. apply N.div_lt_upper_bound; lia.
Qed.

Lemma max_u64_lt : (max_u64 < 256 ^ N.of_nat 8)%N.
Proof. reflexivity. Qed.

Lemma skipn4_nonce_of c : skipn 4 (nonce_of c) = le_encode 8 c.
Proof. reflexivity. Qed.

Lemma firstn4_nonce_of c : firstn 4 (nonce_of c) = repeat 0%N 4.
Proof. reflexivity. Qed.

Lemma nonce_of_inj : forall a b,
  (a <= max_u64)%N -> (b <= max_u64)%N -> nonce_of a = nonce_of b -> a = b.
Proof.
  intros a b Ha Hb H. pose proof max_u64_lt as Hm.
  unfold nonce_of in H. apply app_inv_head in H.
  apply (f_equal le_decode) in H.
  rewrite !le_decode_encode in H by lia. exact H.
Qed.

Lemma incr_nonce_of : forall c,
  (c < max_u64)%N -> incr_nonce (nonce_of c) = Some (nonce_of (c + 1)).
Proof.
  intros c Hc. pose proof max_u64_lt as Hm.
  unfold incr_nonce. cbv zeta.
  rewrite skipn4_nonce_of, firstn4_nonce_of, le_decode_encode by lia.
  destruct (N.eqb_spec c max_u64) as [E|E]; [lia | reflexivity].
Qed.

Lemma incr_nonce_max : incr_nonce (nonce_of max_u64) = None.
Proof.
  unfold incr_nonce. cbv zeta.
  rewrite skipn4_nonce_of, le_decode_encode by exact max_u64_lt.
  rewrite N.eqb_refl. reflexivity.
Qed.

Lemma zero_nonce_of : zero_nonce = nonce_of 0.
Proof.
  unfold zero_nonce. destruct facts_fit as (_ & _ & -> & _). reflexivity.
Qed.

(* ------------------------------------------------------------------ *)
(** * Chunking *)

Lemma chunk_loop_concat : forall fuel d, length d <= fuel -> concat (chunk_loop fuel d) = d.
Proof.
  destruct facts_fit as (_ & _ & _ & Hpos & _).
  induction fuel as [|f IH]; intros d Hd.
  - destruct d as [|x l]; [reflexivity | cbn [length] in Hd; lia].
  - destruct d as [|x l]; [reflexivity|].
    cbn [chunk_loop].
    destruct (data_max_size <? length (x :: l)) eqn:E.
    + apply Nat.ltb_lt in E. cbn [concat]. rewrite IH.
      * apply firstn_skipn.
      * rewrite skipn_length. lia.
    + cbn [concat]. apply app_nil_r.
Qed.

Lemma chunks_concat : forall d, concat (chunks d) = d.
Proof. intros d. apply chunk_loop_concat. lia. Qed.

Lemma chunk_loop_bounds : forall fuel d c,
  In c (chunk_loop fuel d) -> 0 < length c <= data_max_size.
Proof.
  destruct facts_fit as (_ & _ & _ & Hpos & _).
  induction fuel as [|f IH]; intros d c Hin.
  - destruct Hin.
  - destruct d as [|x l]; [destruct Hin|].
    cbn [chunk_loop] in Hin.
    destruct (data_max_size <? length (x :: l)) eqn:E.
    + apply Nat.ltb_lt in E. destruct Hin as [<-|Hin].
      * rewrite firstn_length. lia.
      * eapply IH; eassumption.
    + apply Nat.ltb_ge in E. destruct Hin as [<-|[]]. cbn [length] in *. lia.
Qed.

Lemma chunks_bounds : forall d c, In c (chunks d) -> 0 < length c <= data_max_size.
Proof. intros d c. apply chunk_loop_bounds. Qed.

Lemma chunks_nonempty : forall d, d <> [] -> chunks d <> [].
Proof.
  intros [|x l] H; [congruence|]. unfold chunks. cbn [length chunk_loop].
  destruct (data_max_size <? S (length l)); discriminate.
Qed.

Lemma chunks_of_cons d ws : chunks_of (d :: ws) = chunks d ++ chunks_of ws.
Proof. reflexivity. Qed.

Lemma chunks_of_concat : forall ws, concat (chunks_of ws) = concat ws.
Proof.
  induction ws as [|d ws IH]; [reflexivity|].
  rewrite chunks_of_cons, concat_app, chunks_concat, IH. reflexivity.
Qed.

Lemma chunks_of_bounds : forall ws c, In c (chunks_of ws) -> 0 < length c <= data_max_size.
Proof.
  intros ws c Hin. unfold chunks_of in Hin. apply in_concat in Hin.
  destruct Hin as (l & Hl & Hc). apply in_map_iff in Hl. destruct Hl as (d & <- & _).
  eapply chunks_bounds; eassumption.
Qed.

(* ------------------------------------------------------------------ *)
(** * Writer *)

Section Writer.
  Variable key : Type.
  Variable seal : key -> nonce -> bytes -> bytes.
  Variable open_ : key -> nonce -> bytes -> option bytes.
  Variable pad : nat -> bytes.
  Hypothesis AE : aead_ok key seal open_.
  Hypothesis PD : pad_ok pad.

  Lemma mk_frame_length ch :
    length ch <= data_max_size -> length (mk_frame pad ch) = total_frame_size.
  Proof.
    intros H. unfold mk_frame. rewrite !app_length, le_encode_length, PD.
    destruct facts_fit as (_ & -> & _). lia.
  Qed.

  (** decoding the header of a genuine frame gives the chunk length ... *)
  Lemma mk_frame_declen ch :
    length ch <= data_max_size ->
    le_decode (firstn data_len_size (mk_frame pad ch)) = N.of_nat (length ch).
  Proof.
    intros H. unfold mk_frame. rewrite firstn_app_exact by apply le_encode_length.
    apply le_decode_encode.
    destruct facts_fit as (-> & _ & _ & _ & Hm).
    change (256 ^ N.of_nat 4)%N with (2 ^ 32)%N. lia.
  Qed.

  (** ... and cutting that many bytes after the header gives the chunk back *)
  Lemma mk_frame_chunk ch :
    firstn (N.to_nat (N.of_nat (length ch))) (skipn data_len_size (mk_frame pad ch)) = ch.
  Proof.
    unfold mk_frame. rewrite skipn_app_exact by apply le_encode_length.
    rewrite Nat2N.id. apply firstn_app_exact. reflexivity.
  Qed.

  Lemma seal_seq_length k : forall fs c, length (seal_seq key seal k c fs) = length fs.
  Proof. induction fs as [|f fs IH]; intros c; cbn [seal_seq length]; auto. Qed.

  Lemma seal_seq_app k : forall l1 l2 c,
    seal_seq key seal k c (l1 ++ l2) =
    seal_seq key seal k c l1 ++ seal_seq key seal k (c + N.of_nat (length l1)) l2.
  Proof.
    induction l1 as [|f l1 IH]; intros l2 c.
    - cbn [app seal_seq length]. change (N.of_nat 0) with 0%N. now rewrite N.add_0_r.
    - cbn [app seal_seq length]. rewrite IH. cbn [app]. do 3 f_equal. lia.
  Qed.

  Lemma seal_seq_nth k : forall fs c i,
    nth_error (seal_seq key seal k c fs) i =
    option_map (seal k (nonce_of (c + N.of_nat i))) (nth_error fs i).
  Proof.
    induction fs as [|f fs IH]; intros c i.
    - destruct i; reflexivity.
    - destruct i as [|i]; cbn [seal_seq nth_error option_map].
      + change (N.of_nat 0) with 0%N. now rewrite N.add_0_r.
      + rewrite IH. do 3 f_equal. lia.
  Qed.

  Lemma firstn_seal_seq k : forall j fs c,
    firstn j (seal_seq key seal k c fs) = seal_seq key seal k c (firstn j fs).
  Proof.
    induction j as [|j IH]; intros fs c; [reflexivity|].
    destruct fs as [|f fs]; [reflexivity|].
    cbn [seal_seq firstn]. now rewrite IH.
  Qed.

  Lemma seal_seq_len : forall k c cs f,
    (forall ch, In ch cs -> length ch <= data_max_size) ->
    In f (seal_seq key seal k c (map (mk_frame pad) cs)) -> length f = sealed_size.
  Proof.
    intros k c cs; revert c. induction cs as [|ch cs IH]; intros c f Hcs Hin.
    - destruct Hin.
    - cbn [map seal_seq] in Hin. destruct Hin as [<-|Hin].
      + rewrite (aead_seal_len _ _ _ AE), mk_frame_length, sealed_size_eq; auto.
        apply Hcs. now left.
      + eapply IH; [|exact Hin]. intros ch' H'. apply Hcs. now right.
  Qed.

  Lemma write_chunks_spec k : forall cs c n,
    (c + N.of_nat (length cs) <= max_u64)%N ->
    write_chunks key seal pad k (nonce_of c) cs n =
    (nonce_of (c + N.of_nat (length cs)),
     seal_seq key seal k c (map (mk_frame pad) cs),
     WOk (n + length (concat cs))).
  Proof.
    induction cs as [|ch cs IH]; intros c n Hb.
    - cbn [write_chunks length map seal_seq concat].
      change (N.of_nat 0) with 0%N. now rewrite N.add_0_r, Nat.add_0_r.
    - cbn [length] in Hb. rewrite Nat2N.inj_succ in Hb.
      cbn [write_chunks map seal_seq concat].
      rewrite incr_nonce_of by lia. rewrite IH by lia.
      cbn [length]. rewrite Nat2N.inj_succ, app_length, Nat.add_assoc.
      replace (c + 1 + N.of_nat (length cs))%N with (c + N.succ (N.of_nat (length cs)))%N by lia.
      reflexivity.
  Qed.

  Lemma write_spec a d c0 :
    send_nonce a = nonce_of c0 ->
    (c0 + N.of_nat (length (chunks d)) <= max_u64)%N ->
    write key seal pad a d =
    ({| send_key := send_key a; recv_key := recv_key a;
        send_nonce := nonce_of (c0 + N.of_nat (length (chunks d)));
        recv_nonce := recv_nonce a; recv_buffer := recv_buffer a |},
     seal_seq key seal (send_key a) c0 (map (mk_frame pad) (chunks d)),
     WOk (length d)).
  Proof.
    intros Hn Hb. unfold write. rewrite Hn, write_chunks_spec by exact Hb.
    rewrite chunks_concat. reflexivity.
  Qed.

  Lemma write_ok : forall a d a' out r c0,
    send_nonce a = nonce_of c0 ->
    (c0 + N.of_nat (length (chunks d)) <= max_u64)%N ->
    write key seal pad a d = (a', out, r) -> r = WOk (length d).
  Proof.
    intros a d a' out r c0 Hn Hb Hw. rewrite (write_spec a d c0 Hn Hb) in Hw.
    now inversion Hw.
  Qed.

  Lemma write_panics_at_max : forall a d,
    send_nonce a = nonce_of max_u64 -> d <> [] -> write key seal pad a d = (a, [], WPanic 0).
  Proof.
    intros a d Hn Hd. unfold write. rewrite Hn.
    destruct (chunks d) as [|ch cs] eqn:E; [now apply chunks_nonempty in E|].
    cbn [write_chunks]. rewrite incr_nonce_max. rewrite <- Hn. destruct a; reflexivity.
  Qed.

  Lemma write_many_spec : forall a ws a' out c0,
    send_nonce a = nonce_of c0 ->
    (c0 + N.of_nat (length (chunks_of ws)) <= max_u64)%N ->
    write_many key seal pad a ws = (a', out) ->
    out = seal_seq key seal (send_key a) c0 (frames_of pad ws) /\
    send_nonce a' = nonce_of (c0 + N.of_nat (length (chunks_of ws))) /\
    send_key a' = send_key a /\ recv_key a' = recv_key a /\
    recv_nonce a' = recv_nonce a /\ recv_buffer a' = recv_buffer a.
  Proof.
    intros a ws; revert a. induction ws as [|d ws IH]; intros a a' out c0 Hn Hb Hw.
    - cbn [write_many] in Hw. inversion Hw; subst a' out.
      unfold frames_of, chunks_of. cbn [map concat seal_seq length].
      change (N.of_nat 0) with 0%N. rewrite N.add_0_r. repeat split; auto.
    - rewrite chunks_of_cons, app_length, Nat2N.inj_add in Hb.
      cbn [write_many] in Hw.
      rewrite (write_spec a d c0 Hn) in Hw by lia.
      destruct (write_many key seal pad _ ws) as [st2 out2] eqn:E.
      inversion Hw; subst a' out. clear Hw.
      apply IH with (c0 := (c0 + N.of_nat (length (chunks d)))%N) in E;
        [| reflexivity | cbn [send_nonce]; lia].
      cbn [send_key recv_key send_nonce recv_nonce recv_buffer] in E.
      destruct E as (-> & E2 & E3 & E4 & E5 & E6).
      unfold frames_of. rewrite chunks_of_cons, map_app, seal_seq_app, map_length.
      rewrite app_length, Nat2N.inj_add, N.add_assoc. repeat split; auto.
  Qed.

  Lemma write_many_out_nth : forall a ws a' out c0 i,
    send_nonce a = nonce_of c0 ->
    (c0 + N.of_nat (length (chunks_of ws)) <= max_u64)%N ->
    write_many key seal pad a ws = (a', out) ->
    nth_error out i =
    option_map (seal (send_key a) (nonce_of (c0 + N.of_nat i))) (nth_error (frames_of pad ws) i).
  Proof.
    intros a ws a' out c0 i Hn Hb Hw.
    destruct (write_many_spec a ws a' out c0 Hn Hb Hw) as (-> & _). apply seal_seq_nth.
  Qed.

  Lemma write_many_out_length : forall a ws a' out c0,
    send_nonce a = nonce_of c0 ->
    (c0 + N.of_nat (length (chunks_of ws)) <= max_u64)%N ->
    write_many key seal pad a ws = (a', out) ->
    length out = length (chunks_of ws).
  Proof.
    intros a ws a' out c0 Hn Hb Hw.
    destruct (write_many_spec a ws a' out c0 Hn Hb Hw) as (-> & _).
    unfold frames_of. now rewrite seal_seq_length, map_length.
  Qed.

  Lemma write_many_out_len : forall a ws a' out c0 f,
    send_nonce a = nonce_of c0 ->
    (c0 + N.of_nat (length (chunks_of ws)) <= max_u64)%N ->
    write_many key seal pad a ws = (a', out) ->
    In f out -> length f = sealed_size.
  Proof.
    intros a ws a' out c0 f Hn Hb Hw Hin.
    destruct (write_many_spec a ws a' out c0 Hn Hb Hw) as (-> & _).
    unfold frames_of in Hin. eapply seal_seq_len; [|exact Hin].
    intros ch Hch. apply chunks_of_bounds in Hch. lia.
  Qed.

  Lemma nonce_unique : forall a ws a' out c0,
    send_nonce a = nonce_of c0 ->
    (c0 + N.of_nat (length (chunks_of ws)) <= max_u64)%N ->
    write_many key seal pad a ws = (a', out) ->
    forall i j, i < j -> j < length out ->
    nonce_of (c0 + N.of_nat i) <> nonce_of (c0 + N.of_nat j).
  Proof.
    intros a ws a' out c0 Hn Hb Hw i j Hij Hj E.
    rewrite (write_many_out_length a ws a' out c0 Hn Hb Hw) in Hj.
    apply nonce_of_inj in E; lia.
  Qed.
End Writer.

(* ------------------------------------------------------------------ *)
(** * Cutting an arbitrary wire at the first block that differs from the genuine sequence *)

Lemma tamper_decompose : forall (out : list bytes) (w : bytes),
  (forall f, In f out -> length f = sealed_size) ->
  exists j tail, j <= length out /\ w = concat (firstn j out) ++ tail /\
                 (forall f, nth_error out j = Some f -> firstn sealed_size tail <> f).
Proof.
  induction out as [|f out IH]; intros w Hlen.
  - exists 0, w. split; [reflexivity|]. split; [reflexivity|]. intros f H; discriminate H.
  - destruct (list_eq_dec N.eq_dec (firstn sealed_size w) f) as [E|E].
    + destruct (IH (skipn sealed_size w)) as (j & tail & Hj & Hw & Hd).
      { intros g Hg. apply Hlen. now right. }
      exists (S j), tail. split; [cbn [length]; lia|]. split.
      * cbn [firstn concat]. rewrite <- app_assoc, <- Hw, <- E. symmetry. apply firstn_skipn.
      * exact Hd.
    + exists 0, w. split; [lia|]. split; [reflexivity|].
      intros g H. cbn [nth_error] in H. inversion H; subst g. exact E.
Qed.

(* ------------------------------------------------------------------ *)
(** * The hypotheses are satisfiable: a (non-secure, but lawful) AEAD whose tag is the
      nonce cut/padded to [aead_size_overhead] bytes *)

Definition ex_tag (n : nonce) : bytes :=
  firstn aead_size_overhead (n ++ repeat 0%N aead_size_overhead).
Definition ex_seal (_ : unit) (n : nonce) (p : bytes) : bytes := p ++ ex_tag n.
Definition ex_open (_ : unit) (n : nonce) (c : bytes) : option bytes :=
  let m := length c - aead_size_overhead in
  if length c <? aead_size_overhead then None
  else if list_eq_dec N.eq_dec (skipn m c) (ex_tag n) then Some (firstn m c) else None.
Definition ex_pad (n : nat) : bytes := repeat 0%N n.

Lemma ex_tag_length n : length (ex_tag n) = aead_size_overhead.
Proof. unfold ex_tag. rewrite firstn_length, app_length, repeat_length. lia. Qed.

Lemma aead_ok_satisfiable : aead_ok unit ex_seal ex_open /\ pad_ok ex_pad.
Proof.
  split; [constructor|].
  - intros k n p. unfold ex_open, ex_seal. cbv zeta.
    rewrite app_length, ex_tag_length.
    destruct (length p + aead_size_overhead <? aead_size_overhead) eqn:E;
      [apply Nat.ltb_lt in E; lia|].
    replace (length p + aead_size_overhead - aead_size_overhead) with (length p) by lia.
    rewrite skipn_app_exact, firstn_app_exact by reflexivity.
    destruct (list_eq_dec N.eq_dec (ex_tag n) (ex_tag n)) as [Et|Et]; [reflexivity | now elim Et].
  - intros k n c p. unfold ex_open, ex_seal. cbv zeta.
    destruct (length c <? aead_size_overhead); [discriminate|].
    destruct (list_eq_dec N.eq_dec _ _) as [E|E]; [|discriminate].
    intros H; inversion H; subst p. rewrite <- E. symmetry. apply firstn_skipn.
  - intros k n p. unfold ex_seal. now rewrite app_length, ex_tag_length.
  - intros n. apply repeat_length.
Qed.
