(** C20 — property theorems only (PARTIAL property: the AEAD is a Section variable with the
    hypotheses [aead_ok]; unforgeability is not assumed, it appears as the explicit alternative
    [forgery] in the conclusions; signatures are ideal; goroutine scheduling is not modelled).
    Each theorem is closed by [exact] of a lemma proved in ProofsFrame*.v / ProofsPacket*.v and
    followed by [Print Assumptions]. *)
From Coq Require Import List ZArith NArith Bool Arith.
From Kardia Require Import Generated.C20Facts C20.Model C20.Spec C20.ProofsFrame C20.ProofsPacket
  C20.ProofsFault C20.ProofsUpgrade.
Import ListNotations.

(* ------------------------------------------------------------------ frame layer *)

(** The hypotheses on the AEAD are satisfiable (a concrete instance is exhibited). *)
Theorem C20_aead_hypotheses_satisfiable : aead_ok unit ex_seal ex_open /\ pad_ok ex_pad.
Proof. exact aead_ok_satisfiable. Qed.
Print Assumptions C20_aead_hypotheses_satisfiable.

(** For any chunking of the written bytes into Write calls and any read buffer sizes: the bytes
    read are a prefix of the bytes written (once, in order); the only error ever returned is EOF,
    and only after every byte has been delivered; with positive buffers reading gets there. *)
Theorem C20_stream_exact :
  forall (key : Type) (seal : key -> nonce -> bytes -> bytes)
         (open_ : key -> nonce -> bytes -> option bytes) (pad : nat -> bytes),
    aead_ok key seal open_ -> pad_ok pad ->
    forall (a b : conn key) (c0 : N) (ws : list bytes) (a' : conn key) (out : list bytes)
           (caps : list nat) (b' : conn key) (w' : bytes) (rs : list rres),
      paired key a b c0 ->
      (c0 + N.of_nat (length (chunks_of ws)) <= max_u64)%N ->
      write_many key seal pad a ws = (a', out) ->
      read_until_err key open_ b (concat out) caps = (b', w', rs) ->
      (exists rest, concat ws = delivered rs ++ rest) /\
      (forall e, In (RErr e) rs -> e = REof /\ delivered rs = concat ws) /\
      (Forall (fun c => 0 < c) caps -> length (concat ws) < length caps -> In (RErr REof) rs).
Proof. exact stream_exact. Qed.
Print Assumptions C20_stream_exact.

(** Send nonces never repeat: the i-th frame of a session is sealed under counter c0+i and these
    12-byte nonces are pairwise different as long as the counter stays within 64 bits ... *)
Theorem C20_nonce_unique :
  forall (key : Type) (seal : key -> nonce -> bytes -> bytes) (pad : nat -> bytes)
         (a : conn key) (ws : list bytes) (a' : conn key) (out : list bytes) (c0 : N),
    send_nonce a = nonce_of c0 ->
    (c0 + N.of_nat (length (chunks_of ws)) <= max_u64)%N ->
    write_many key seal pad a ws = (a', out) ->
    forall i j, i < j -> j < length out ->
      nonce_of (c0 + N.of_nat i) <> nonce_of (c0 + N.of_nat j).
Proof. exact nonce_unique. Qed.
Print Assumptions C20_nonce_unique.

Theorem C20_frame_nonce :
  forall (key : Type) (seal : key -> nonce -> bytes -> bytes) (pad : nat -> bytes)
         (a : conn key) (ws : list bytes) (a' : conn key) (out : list bytes) (c0 : N) (i : nat),
    send_nonce a = nonce_of c0 ->
    (c0 + N.of_nat (length (chunks_of ws)) <= max_u64)%N ->
    write_many key seal pad a ws = (a', out) ->
    nth_error out i =
    option_map (seal (send_key a) (nonce_of (c0 + N.of_nat i))) (nth_error (frames_of pad ws) i).
Proof. exact write_many_out_nth. Qed.
Print Assumptions C20_frame_nonce.

(** ... and at the last counter value the writer panics instead of wrapping around: nothing is
    sent, the state is unchanged. *)
Theorem C20_nonce_overflow_panics :
  forall (key : Type) (seal : key -> nonce -> bytes -> bytes) (pad : nat -> bytes)
         (a : conn key) (d : bytes),
    send_nonce a = nonce_of max_u64 -> d <> [] -> write key seal pad a d = (a, [], WPanic 0).
Proof. exact write_panics_at_max. Qed.
Print Assumptions C20_nonce_overflow_panics.

(** Whatever byte string reaches the reader (any edit of the frame sequence, any injected
    bytes) and however long the caller goes on reading, even across errors: everything
    delivered is a prefix of what was written — or the wire contains a forgery. *)
Theorem C20_tamper_never_delivers_altered_bytes :
  forall (key : Type) (seal : key -> nonce -> bytes -> bytes)
         (open_ : key -> nonce -> bytes -> option bytes) (pad : nat -> bytes),
    aead_ok key seal open_ ->
    forall (a b : conn key) (c0 : N) (ws : list bytes) (a' : conn key) (out : list bytes)
           (w : bytes) (caps : list nat) (b' : conn key) (w' : bytes) (rs : list rres),
      paired key a b c0 ->
      (c0 + N.of_nat (length (chunks_of ws)) <= max_u64)%N ->
      write_many key seal pad a ws = (a', out) ->
      read_many key open_ b w caps = (b', w', rs) ->
      (exists rest, concat ws = delivered rs ++ rest) \/
      forgery key seal (send_key a) c0 (frames_of pad ws) w.
Proof. exact tamper_safety. Qed.
Print Assumptions C20_tamper_never_delivers_altered_bytes.

(** Every byte string decomposes as (the first j genuine frames) ++ (a tail that does not start
    with genuine frame j); flip, replace, drop, duplicate, swap, replay, insert and cut are all
    instances, with j the position of the first affected frame. *)
Theorem C20_tamper_decompose :
  forall (out : list bytes) (w : bytes),
    (forall f, In f out -> length f = sealed_size) ->
    exists j tail, j <= length out /\ w = concat (firstn j out) ++ tail /\
                   (forall f, nth_error out j = Some f -> firstn sealed_size tail <> f).
Proof. exact tamper_decompose. Qed.
Print Assumptions C20_tamper_decompose.

(** ... and then the reader delivers exactly bytes of those j frames, in order, and the read
    that reaches the first affected position fails (decrypt error; EOF / unexpected EOF if the
    stream was cut there) — unless the AEAD was forged. *)
Theorem C20_tamper_detected :
  forall (key : Type) (seal : key -> nonce -> bytes -> bytes)
         (open_ : key -> nonce -> bytes -> option bytes) (pad : nat -> bytes),
    aead_ok key seal open_ -> pad_ok pad ->
    forall (a b : conn key) (c0 : N) (ws : list bytes) (a' : conn key) (out : list bytes)
           (j : nat) (tail : bytes) (caps : list nat) (b' : conn key) (w' : bytes) (rs : list rres),
      paired key a b c0 ->
      (c0 + N.of_nat (length (chunks_of ws)) <= max_u64)%N ->
      write_many key seal pad a ws = (a', out) ->
      j <= length out ->
      (forall f, nth_error out j = Some f -> firstn sealed_size tail <> f) ->
      read_until_err key open_ b (concat (firstn j out) ++ tail) caps = (b', w', rs) ->
      forgery key seal (send_key a) c0 (frames_of pad ws) (concat (firstn j out) ++ tail) \/
      ((exists rest, concat (firstn j (chunks_of ws)) = delivered rs ++ rest) /\
       (forall e, In (RErr e) rs ->
          delivered rs = concat (firstn j (chunks_of ws)) /\
          ((tail = [] /\ e = REof) \/
           (tail <> [] /\ length tail < sealed_size /\ e = RUnexpectedEof) \/
           (sealed_size <= length tail /\ e = RDecrypt)))).
Proof. exact tamper_detected. Qed.
Print Assumptions C20_tamper_detected.

(** Every genuine sealed frame has the constant wire size (so frame boundaries are fixed). *)
Theorem C20_frame_size :
  forall (key : Type) (seal : key -> nonce -> bytes -> bytes)
         (open_ : key -> nonce -> bytes -> option bytes) (pad : nat -> bytes),
    aead_ok key seal open_ -> pad_ok pad ->
    forall (a : conn key) (ws : list bytes) (a' : conn key) (out : list bytes) (c0 : N) (f : bytes),
      send_nonce a = nonce_of c0 ->
      (c0 + N.of_nat (length (chunks_of ws)) <= max_u64)%N ->
      write_many key seal pad a ws = (a', out) -> In f out -> length f = sealed_size.
Proof. exact write_many_out_len. Qed.
Print Assumptions C20_frame_size.

(* ------------------------------------------------------------------ frame layer, write errors *)

(** ONE Write whose conn.Write fails at its frame j: the caller gets the error and the byte count
    of the chunks before that frame; j+1 frames were handed to the conn, the i-th of them sealed
    under counter c0+i; the send nonce stands at c0+j+1 — the failing frame has consumed its
    nonce whatever became of its bytes, so the next Write cannot reuse it. *)
Theorem C20_write_error_nonce_discipline :
  forall (key : Type) (seal : key -> nonce -> bytes -> bytes) (pad : nat -> bytes)
         (a : conn key) (d : bytes) (j : nat) (c0 : N),
    send_nonce a = nonce_of c0 ->
    j < length (chunks d) ->
    (c0 + N.of_nat (S j) <= max_u64)%N ->
    exists a' out,
      write_f key seal pad a d (Some j) = (a', out, WFErr (length (concat (firstn j (chunks d))))) /\
      send_nonce a' = nonce_of (c0 + N.of_nat (S j)) /\
      length out = S j /\
      (forall i, i <= j ->
         nth_error out i =
         option_map (fun ch => seal (send_key a) (nonce_of (c0 + N.of_nat i)) (mk_frame pad ch))
                    (nth_error (chunks d) i)).
Proof. exact write_fault_discipline. Qed.
Print Assumptions C20_write_error_nonce_discipline.

(** Any number of Write calls, any of them failing at any frame, the caller writing on: the i-th
    frame ever handed to the conn is sealed under counter c0+i and the send nonce ends at
    c0 + (number of frames sealed) ... *)
Theorem C20_write_error_frame_nonce :
  forall (key : Type) (seal : key -> nonce -> bytes -> bytes) (pad : nat -> bytes)
         (a : conn key) (ws : list (bytes * option nat)) (a' : conn key) (out : list bytes) (c0 : N),
    send_nonce a = nonce_of c0 ->
    (c0 + N.of_nat (length (chunks_of_f ws)) <= max_u64)%N ->
    write_many_f key seal pad a ws = (a', out) ->
    send_nonce a' = nonce_of (c0 + N.of_nat (length out)) /\
    forall i, nth_error out i =
              option_map (seal (send_key a) (nonce_of (c0 + N.of_nat i)))
                         (nth_error (frames_of_f pad ws) i).
Proof. exact fault_frame_nonce. Qed.
Print Assumptions C20_write_error_frame_nonce.

(** ... and no two of these frames share a nonce. *)
Theorem C20_write_error_nonce_unique :
  forall (key : Type) (seal : key -> nonce -> bytes -> bytes) (pad : nat -> bytes)
         (a : conn key) (ws : list (bytes * option nat)) (a' : conn key) (out : list bytes) (c0 : N),
    send_nonce a = nonce_of c0 ->
    (c0 + N.of_nat (length (chunks_of_f ws)) <= max_u64)%N ->
    write_many_f key seal pad a ws = (a', out) ->
    forall i j, i < j -> j < length out ->
      nonce_of (c0 + N.of_nat i) <> nonce_of (c0 + N.of_nat j).
Proof. exact fault_nonce_unique. Qed.
Print Assumptions C20_write_error_nonce_unique.

(** The tamper theorems hold for such a writer with "the frames sealed" (failed ones included) in
    place of "the frames written": whatever reaches the reader, only bytes of sealed chunks are
    delivered, once and in order — or the wire contains a forgery; *)
Theorem C20_write_error_tamper_never_delivers_altered_bytes :
  forall (key : Type) (seal : key -> nonce -> bytes -> bytes)
         (open_ : key -> nonce -> bytes -> option bytes) (pad : nat -> bytes),
    aead_ok key seal open_ ->
    forall (a b : conn key) (c0 : N) (ws : list (bytes * option nat)) (a' : conn key)
           (out : list bytes) (w : bytes) (caps : list nat) (b' : conn key) (w' : bytes)
           (rs : list rres),
      paired key a b c0 ->
      (c0 + N.of_nat (length (chunks_of_f ws)) <= max_u64)%N ->
      write_many_f key seal pad a ws = (a', out) ->
      read_many key open_ b w caps = (b', w', rs) ->
      (exists rest, concat (chunks_of_f ws) = delivered rs ++ rest) \/
      forgery key seal (send_key a) c0 (frames_of_f pad ws) w.
Proof. exact fault_tamper_safety. Qed.
Print Assumptions C20_write_error_tamper_never_delivers_altered_bytes.

(** a wire that agrees with the sealed frames on the first j and then differs (the frame whose
    write failed was lost or cut, or it arrived and a later one was dropped, swapped, replayed)
    delivers exactly the chunks of those j frames and the read that reaches position j fails; *)
Theorem C20_write_error_tamper_detected :
  forall (key : Type) (seal : key -> nonce -> bytes -> bytes)
         (open_ : key -> nonce -> bytes -> option bytes) (pad : nat -> bytes),
    aead_ok key seal open_ -> pad_ok pad ->
    forall (a b : conn key) (c0 : N) (ws : list (bytes * option nat)) (a' : conn key)
           (out : list bytes) (j : nat) (tail : bytes) (caps : list nat) (b' : conn key)
           (w' : bytes) (rs : list rres),
      paired key a b c0 ->
      (c0 + N.of_nat (length (chunks_of_f ws)) <= max_u64)%N ->
      write_many_f key seal pad a ws = (a', out) ->
      j <= length out ->
      (forall f, nth_error out j = Some f -> firstn sealed_size tail <> f) ->
      read_until_err key open_ b (concat (firstn j out) ++ tail) caps = (b', w', rs) ->
      forgery key seal (send_key a) c0 (frames_of_f pad ws) (concat (firstn j out) ++ tail) \/
      ((exists rest, concat (firstn j (chunks_of_f ws)) = delivered rs ++ rest) /\
       (forall e, In (RErr e) rs ->
          delivered rs = concat (firstn j (chunks_of_f ws)) /\
          ((tail = [] /\ e = REof) \/
           (tail <> [] /\ length tail < sealed_size /\ e = RUnexpectedEof) \/
           (sealed_size <= length tail /\ e = RDecrypt)))).
Proof. exact fault_tamper_detected. Qed.
Print Assumptions C20_write_error_tamper_detected.

(** and when every sealed frame arrives unchanged, every sealed byte is delivered once, in order,
    the only error being EOF after the last one: a reported write error alone desynchronises
    nothing. *)
Theorem C20_write_error_stream_exact :
  forall (key : Type) (seal : key -> nonce -> bytes -> bytes)
         (open_ : key -> nonce -> bytes -> option bytes) (pad : nat -> bytes),
    aead_ok key seal open_ -> pad_ok pad ->
    forall (a b : conn key) (c0 : N) (ws : list (bytes * option nat)) (a' : conn key)
           (out : list bytes) (caps : list nat) (b' : conn key) (w' : bytes) (rs : list rres),
      paired key a b c0 ->
      (c0 + N.of_nat (length (chunks_of_f ws)) <= max_u64)%N ->
      write_many_f key seal pad a ws = (a', out) ->
      read_until_err key open_ b (concat out) caps = (b', w', rs) ->
      (exists rest, concat (chunks_of_f ws) = delivered rs ++ rest) /\
      (forall e, In (RErr e) rs -> e = REof /\ delivered rs = concat (chunks_of_f ws)).
Proof. exact fault_stream_exact. Qed.
Print Assumptions C20_write_error_stream_exact.

(* ------------------------------------------------------------------ handshake (ideal signatures) *)

(** The authentication step accepts the remote identity K only if the received signature is the
    ideal signature of K over this session's challenge. *)
Theorem C20_identity :
  forall ch claimed s r, verify_auth ch claimed s = HOk r -> r = claimed /\ s = SigOf claimed ch.
Proof. exact identity. Qed.
Print Assumptions C20_identity.

(* ------------------------------------------------------------------ transport upgrade *)

(** MultiplexTransport.upgrade accepts a peer under ID x only if the far end's auth message
    carried the (ideal) signature of key [claimed] over THIS session's challenge and x is the ID
    of that key; x is then also the dialed ID on an outbound connection, the ID the NodeInfo
    reports, and not our own ID.  (idof = PubKeyToID, any function.) *)
Theorem C20_upgrade_identity :
  forall (idof : N -> N) self dialed ch claimed s ni x,
    upgrade idof self dialed ch claimed s ni = UpOk x ->
    s = SigOf claimed ch /\ x = idof claimed /\
    (forall d, dialed = Some d -> d = x) /\ x <> self /\
    exists i, ni = Some i /\ ni_id i = x /\ ni_valid i = true /\ ni_compat i = true.
Proof. exact upgrade_identity. Qed.
Print Assumptions C20_upgrade_identity.

(** In particular a far end that holds key m (and signs honestly) but whose NodeInfo announces an
    ID other than the ID of m is refused, whatever ID was dialed ... *)
Theorem C20_upgrade_impostor_refused :
  forall (idof : N -> N) self dialed ch m i,
    ni_id i <> idof m ->
    exists r, upgrade idof self dialed ch m (SigOf m ch) (Some i) = UpRej r.
Proof. exact upgrade_impostor_refused. Qed.
Print Assumptions C20_upgrade_impostor_refused.

(** ... while an honest far end is accepted under the ID of its key (the hypotheses of
    C20_upgrade_identity are satisfiable). *)
Theorem C20_upgrade_honest_accepted :
  forall (idof : N -> N) self dialed ch k i,
    ni_id i = idof k -> ni_valid i = true -> ni_compat i = true -> idof k <> self ->
    (dialed = None \/ dialed = Some (idof k)) ->
    upgrade idof self dialed ch k (SigOf k ch) (Some i) = UpOk (idof k).
Proof. exact upgrade_honest. Qed.
Print Assumptions C20_upgrade_honest_accepted.

(* ------------------------------------------------------------------ packet layer *)

(** An honest packet (payload within the negotiated maximum, any byte-sized channel id) never
    exceeds the receiver's protoio size limit ... *)
Theorem C20_packet_fits :
  forall maxp id eof data,
    0 < maxp -> (id < 256)%N -> length data <= maxp ->
    length (enc_packet (PktMsg (Z.of_N id) eof data)) <= max_packet_msg_size maxp.
Proof. exact packet_fits. Qed.
Print Assumptions C20_packet_fits.

(** ... and the model's encoding reproduces the code's own _maxPacketMsgSize (regenerated fact). *)
Theorem C20_max_size_matches_code :
  N.of_nat (max_packet_msg_size default_max_packet_msg_payload_size) = max_packet_msg_size_default.
Proof. exact max_size_default_fits. Qed.
Print Assumptions C20_max_size_matches_code.

(** Any interleaving of the channels' packet streams that preserves per-channel order (pings and
    pongs anywhere) delivers every message exactly once, intact, in per-channel order, and
    raises no error. *)
Theorem C20_msg_exactly_once :
  forall maxp descs (msgs : N -> list bytes) stream,
    0 < maxp -> NoDup (map ch_id descs) ->
    (forall d, In d descs -> (ch_id d < 256)%N) ->
    (forall d m, In d descs -> In m (msgs (ch_id d)) -> (N.of_nat (length m) <= ch_recvcap d)%N) ->
    known_channels descs stream ->
    (forall d, In d descs -> proj (ch_id d) stream = packets_of (ch_id d) maxp (msgs (ch_id d))) ->
    exists evs,
      recv_stream (max_packet_msg_size maxp) (map new_chan descs) stream = (evs, None) /\
      forall d, In d descs -> events_of (ch_id d) evs = msgs (ch_id d).
Proof. exact msg_exactly_once. Qed.
Print Assumptions C20_msg_exactly_once.

(** A message longer than the channel's receive capacity stops the receiver with an error;
    neither it nor anything after it on that channel is delivered, and what was delivered before
    is a prefix of the earlier messages. *)
Theorem C20_oversize :
  forall maxp descs d stream pre m post evs r,
    0 < maxp -> NoDup (map ch_id descs) -> In d descs -> (ch_id d < 256)%N ->
    (ch_recvcap d < N.of_nat (length m))%N ->
    proj (ch_id d) stream = packets_of (ch_id d) maxp pre ++ packetise (ch_id d) maxp m ++ post ->
    recv_stream (max_packet_msg_size maxp) (map new_chan descs) stream = (evs, r) ->
    r <> None /\ exists k, events_of (ch_id d) evs = firstn k pre.
Proof. exact oversize. Qed.
Print Assumptions C20_oversize.

(** A length prefix above the receiver's limit — in particular every value that is negative as a
    Go int — after a packet stream: everything complete before it is delivered, then the
    receiver stops with the size error (nothing is allocated or read for it). *)
Theorem C20_declared_length_refused :
  forall maxsize cs ps len evs,
    recv_stream maxsize cs ps = (evs, None) ->
    (N.of_nat maxsize < len \/ 9223372036854775807 < len)%N ->
    recv_stream_then_len maxsize cs ps len = (evs, Some MTooBig).
Proof. exact declared_length_refused. Qed.
Print Assumptions C20_declared_length_refused.

(** Sender side: with non-empty messages, running sendPacketMsg until it reports "exhausted"
    emits, for every channel, exactly the packetisation of its queued messages in order —
    whatever the least-ratio selection picks — and sendQueueSize returns to its base value. *)
Theorem C20_sender_emits_all :
  forall maxp cs fuel,
    0 < maxp ->
    NoDup (map (fun c => ch_id (desc c)) cs) ->
    (forall c, In c cs -> (ch_id (desc c) < 256)%N) ->
    (forall c m, In c cs -> In m (queue c) -> m <> []) ->
    (forall c, In c cs -> sending c = []) ->
    length (concat (map (fun c => packets_of (ch_id (desc c)) maxp (queue c)) cs)) < fuel ->
    exists cs' ps,
      drain fuel maxp cs = (cs', ps, true) /\
      map desc cs' = map desc cs /\
      (forall c', In c' cs' -> queue c' = [] /\ sending c' = []) /\
      (forall c, In c cs -> proj (ch_id (desc c)) ps = packets_of (ch_id (desc c)) maxp (queue c)) /\
      (forall j c c', nth_error cs j = Some c -> nth_error cs' j = Some c' ->
         qsize c' = (qsize c - Z.of_nat (length (queue c)))%Z).
Proof. exact sender_emits_all. Qed.
Print Assumptions C20_sender_emits_all.

(** REFUTED for zero-length messages (known finding empty-msg-lost): channels 1 and 2, ten bytes
    queued on channel 1 and the empty message on channel 2; both are accepted, the sender drains
    to "exhausted", only channel 1's packet was emitted, channel 2's sendQueueSize stays 1
    (CanSend false) and further draining emits nothing. *)
Theorem C20_empty_msg_lost_refuted :
  let '(c1, ok1) := try_send (new_chan ex_d1) ex_msg10 in
  let '(c2, ok2) := try_send (new_chan ex_d2) [] in
  let '(cs', ps, exhausted) := drain 100 1024 [c1; c2] in
  ok1 = true /\ ok2 = true /\ exhausted = true /\
  ps = [PktMsg 1 true ex_msg10] /\ proj 2 ps = [] /\
  map queue cs' = [[]; []] /\ map sending cs' = [[]; []] /\
  map qsize cs' = [0%Z; 1%Z] /\ map can_send cs' = [true; false] /\
  drain 100 1024 cs' = (cs', [], true).
Proof. exact empty_msg_lost_refuted. Qed.
Print Assumptions C20_empty_msg_lost_refuted.

(** ... whereas a zero-length message alone is sent. *)
Theorem C20_empty_msg_alone_sent :
  let c1 := new_chan ex_d1 in
  let '(c2, ok2) := try_send (new_chan ex_d2) [] in
  let '(cs', ps, exhausted) := drain 100 1024 [c1; c2] in
  ok2 = true /\ exhausted = true /\ ps = [PktMsg 2 true []] /\
  map qsize cs' = [0%Z; 0%Z] /\ map can_send cs' = [true; true].
Proof. exact empty_msg_alone_sent. Qed.
Print Assumptions C20_empty_msg_alone_sent.

(* ------------------------------------------------------------------ source tie *)

(** The model's frame sizes, the chunking loop of Write, the chunk-length and buffer tests of Read,
    incrNonce, canSend / isSendPending / nextPacketMsg (EOF test and flags) / recvPacketMsg
    (capacity test), one step of sendPacketMsg's least-ratio loop, recvRoutine's unknown-channel
    test, protoio's declared-length test and the identity comparisons of
    MultiplexTransport.upgrade ARE the expressions go2coq translates from the current Go sources
    (Generated/C20Source.v), on the operands pinned in SourceTie.v (statement spelled out there). *)
From Kardia Require Import C20.SourceTie.
Theorem C20_source_tie : C20_source_tie_statement.
Proof. exact C20_source_tie_proof. Qed.
Print Assumptions C20_source_tie.

(** The decision-critical functions of the anchored code have exactly the decisions the source tie knows about
    (go2coq manifests, regenerated from /repo on every check; statement in SourceManifest.v). *)
From Kardia Require Import C20.SourceManifest.
Theorem C20_source_manifest : C20_source_manifest_statement.
Proof. exact C20_source_manifest_proof. Qed.
Print Assumptions C20_source_manifest.
