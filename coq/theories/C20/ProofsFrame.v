(** C20 — frame layer, part 2: the reader against the genuine stream, against an arbitrary
    wire, and against a wire that agrees with the genuine one on the first j frames.
    (Part 1 — nonces, chunking, writer, [tamper_decompose], [aead_ok_satisfiable] — is in
    ProofsFrameBase.v and re-exported here.) *)
From Coq Require Import List ZArith NArith Bool Arith Lia.
From Kardia Require Import Generated.C20Facts C20.Model C20.Spec.
From Kardia Require Export C20.ProofsFrameBase.
Import ListNotations.

Local Opaque data_len_size data_max_size total_frame_size aead_size_overhead aead_nonce_size
  sealed_size.

Lemma in_firstn_in {A} (x : A) : forall n l, In x (firstn n l) -> In x l.
Proof.
  induction n as [|n IH]; intros l H; [destruct H|].
  destruct l as [|y l]; [destruct H|]. cbn [firstn] in H.
  destruct H as [H|H]; [now left | right; auto].
Qed.

Lemma delivered_ok d rs : delivered (ROk d :: rs) = d ++ delivered rs.
Proof. reflexivity. Qed.

Lemma delivered_err e rs : delivered (RErr e :: rs) = delivered rs.
Proof. reflexivity. Qed.

Lemma delivered_nil : delivered [] = [].
Proof. reflexivity. Qed.

(** what a read that ends at the tail of the agreed prefix may report *)
Definition tail_case (tail : bytes) (e : rerr) : Prop :=
  (tail = [] /\ e = REof) \/
  (tail <> [] /\ length tail < sealed_size /\ e = RUnexpectedEof) \/
  (sealed_size <= length tail /\ e = RDecrypt).

Section Reader.
  Variable key : Type.
  Variable seal : key -> nonce -> bytes -> bytes.
  Variable open_ : key -> nonce -> bytes -> option bytes.
  Variable pad : nat -> bytes.
  Hypothesis AE : aead_ok key seal open_.
  Hypothesis PD : pad_ok pad.

  (* ---------------------------------------------------------------- *)
  (** ** The branches of [read] *)

  Lemma read_buf st wire cap x l :
    recv_buffer st = x :: l ->
    read key open_ st wire cap =
    (set_recv key st (recv_nonce st) (skipn (Nat.min cap (length (x :: l))) (x :: l)), wire,
     ROk (firstn (Nat.min cap (length (x :: l))) (x :: l))).
  Proof. intros H. unfold read. rewrite H. reflexivity. Qed.

  Lemma read_short st wire cap :
    recv_buffer st = [] -> length wire < sealed_size ->
    read key open_ st wire cap =
    (st, [], RErr (match wire with [] => REof | _ => RUnexpectedEof end)).
  Proof.
    intros H Hs. unfold read. rewrite H. apply Nat.ltb_lt in Hs. rewrite Hs. reflexivity.
  Qed.

  Lemma read_nodec st wire cap :
    recv_buffer st = [] -> sealed_size <= length wire ->
    open_ (recv_key st) (recv_nonce st) (firstn sealed_size wire) = None ->
    read key open_ st wire cap = (st, skipn sealed_size wire, RErr RDecrypt).
  Proof.
    intros H Hs Ho. unfold read. rewrite H. apply Nat.ltb_ge in Hs. rewrite Hs.
    cbv zeta. rewrite Ho. reflexivity.
  Qed.

  Lemma read_genuine st wire cap c ch :
    recv_buffer st = [] -> recv_nonce st = nonce_of c -> (c < max_u64)%N ->
    length ch <= data_max_size -> sealed_size <= length wire ->
    open_ (recv_key st) (nonce_of c) (firstn sealed_size wire) = Some (mk_frame pad ch) ->
    read key open_ st wire cap =
    (set_recv key st (nonce_of (c + 1)) (skipn (Nat.min cap (length ch)) ch),
     skipn sealed_size wire, ROk (firstn (Nat.min cap (length ch)) ch)).
  Proof.
    intros Hb Hn Hc Hl Hs Ho. unfold read. rewrite Hb, Hn.
    apply Nat.ltb_ge in Hs. rewrite Hs. cbv zeta.
    rewrite Ho, incr_nonce_of by exact Hc.
    rewrite (mk_frame_declen pad) by exact Hl. rewrite mk_frame_chunk.
    destruct (N.ltb_spec (N.of_nat data_max_size) (N.of_nat (length ch))); [lia|].
    reflexivity.
  Qed.

  (** a genuine sealed frame at the head of the wire *)
  Lemma read_genuine_head st rest cap c ch :
    recv_buffer st = [] -> recv_nonce st = nonce_of c -> (c < max_u64)%N ->
    length ch <= data_max_size ->
    read key open_ st (seal (recv_key st) (nonce_of c) (mk_frame pad ch) ++ rest) cap =
    (set_recv key st (nonce_of (c + 1)) (skipn (Nat.min cap (length ch)) ch),
     rest, ROk (firstn (Nat.min cap (length ch)) ch)).
  Proof.
    intros Hb Hn Hc Hl.
    assert (Hlen : length (seal (recv_key st) (nonce_of c) (mk_frame pad ch)) = sealed_size).
    { rewrite (aead_seal_len _ _ _ AE), (mk_frame_length pad PD), sealed_size_eq; auto. }
    rewrite (read_genuine st _ cap c ch Hb Hn Hc Hl).
    - now rewrite skipn_app_exact.
    - rewrite app_length. lia.
    - rewrite firstn_app_exact by exact Hlen. apply (aead_open_seal _ _ _ AE).
  Qed.

  (* ---------------------------------------------------------------- *)
  (** ** Reader that stops at the first error, over a genuine prefix followed by [tail] *)

  Lemma run_genuine k tail : forall caps b c cs1 b' w' rs,
    recv_key b = k -> recv_nonce b = nonce_of c ->
    (c + N.of_nat (length cs1) <= max_u64)%N ->
    (forall ch, In ch cs1 -> 0 < length ch <= data_max_size) ->
    (length tail < sealed_size \/
     open_ k (nonce_of (c + N.of_nat (length cs1))) (firstn sealed_size tail) = None) ->
    read_until_err key open_ b
      (concat (seal_seq key seal k c (map (mk_frame pad) cs1)) ++ tail) caps = (b', w', rs) ->
    (exists rest, recv_buffer b ++ concat cs1 = delivered rs ++ rest) /\
    (forall e, In (RErr e) rs ->
               delivered rs = recv_buffer b ++ concat cs1 /\ tail_case tail e) /\
    (Forall (fun c => 0 < c) caps ->
     (exists e, In (RErr e) rs) \/ length caps <= length (delivered rs)).
  Proof.
    induction caps as [|cap caps IH]; intros b c cs1 b' w' rs Hk Hn Hb Hcs Ht Hr.
    - cbn [read_until_err] in Hr. inversion Hr; subst. split; [|split].
      + exists (recv_buffer b' ++ concat cs1). reflexivity.
      + intros e [].
      + intros _. right. cbn [length]. lia.
    - cbn [read_until_err] in Hr.
      destruct (recv_buffer b) as [|x l] eqn:Hbuf.
      + destruct cs1 as [|ch cs2].
        * (* no genuine frame left: the read looks at the tail *)
          cbn [map seal_seq concat app length] in Hr, Ht |- *.
          change (N.of_nat 0) with 0%N in Ht. rewrite N.add_0_r in Ht.
          destruct (Nat.lt_ge_cases (length tail) sealed_size) as [Hs|Hs].
          -- rewrite (read_short b tail cap Hbuf Hs) in Hr. cbv beta iota in Hr.
             inversion Hr; subst. rewrite delivered_err, delivered_nil.
             split; [exists []; reflexivity|]. split.
             ++ intros e [He|[]]. inversion He; subst e. split; [reflexivity|].
                destruct tail as [|t0 tl]; [left; auto|right; left]. split; [discriminate|auto].
             ++ intros _. left. eexists. left. reflexivity.
          -- destruct Ht as [Ht|Ht]; [lia|].
             rewrite (read_nodec b tail cap Hbuf Hs) in Hr by (rewrite Hk, Hn; exact Ht).
             cbv beta iota in Hr. inversion Hr; subst. rewrite delivered_err, delivered_nil.
             split; [exists []; reflexivity|]. split.
             ++ intros e [He|[]]. inversion He; subst e. split; [reflexivity|].
                right; right. auto.
             ++ intros _. left. eexists. left. reflexivity.
        * (* a genuine frame *)
          assert (Hch : 0 < length ch <= data_max_size) by (apply Hcs; now left).
          cbn [length] in Hb, Ht. rewrite Nat2N.inj_succ in Hb, Ht.
          cbn [map seal_seq concat] in Hr. rewrite <- app_assoc, <- Hk in Hr.
          rewrite (read_genuine_head b _ cap c ch Hbuf Hn) in Hr by lia.
          cbv beta iota in Hr. rewrite Hk in Hr.
          destruct (read_until_err key open_ _ _ caps) as [[b2 w2] rs2] eqn:E.
          inversion Hr; subst b2 w2 rs. clear Hr.
          apply IH with (c := (c + 1)%N) (cs1 := cs2) in E;
            [ | exact Hk | reflexivity | lia | intros ch' H'; apply Hcs; now right | ].
          2:{ destruct Ht as [Ht|Ht]; [now left|right].
              replace (c + 1 + N.of_nat (length cs2))%N
                with (c + N.succ (N.of_nat (length cs2)))%N by lia. exact Ht. }
          cbn [recv_buffer set_recv] in E. destruct E as ((rest & E1) & E2 & E3).
          cbn [app concat]. rewrite delivered_ok.
          split; [|split].
          -- exists rest. rewrite <- app_assoc, <- E1, app_assoc, firstn_skipn. reflexivity.
          -- intros e [He|He]; [discriminate He|]. destruct (E2 e He) as (E21 & E22).
             split; [|exact E22]. rewrite E21, app_assoc, firstn_skipn. reflexivity.
          -- intros HF. inversion HF as [|? ? Hcap HF']; subst.
             destruct (E3 HF') as [(e & He)|Hlen]; [left; exists e; now right|right].
             rewrite app_length, firstn_length. cbn [length]. lia.
      + (* bytes left over from the previous frame *)
        rewrite (read_buf b _ cap x l Hbuf) in Hr. cbv beta iota in Hr.
        destruct (read_until_err key open_ _ _ caps) as [[b2 w2] rs2] eqn:E.
        inversion Hr; subst b2 w2 rs. clear Hr.
        apply IH with (c := c) (cs1 := cs1) in E;
          [ | exact Hk | exact Hn | exact Hb | exact Hcs | exact Ht ].
        cbn [recv_buffer set_recv] in E. destruct E as ((rest & E1) & E2 & E3).
        rewrite delivered_ok. set (n := Nat.min cap (length (x :: l))) in *.
        split; [|split].
        -- exists rest. rewrite <- app_assoc, <- E1, app_assoc, firstn_skipn. reflexivity.
        -- intros e [He|He]; [discriminate He|]. destruct (E2 e He) as (E21 & E22).
           split; [|exact E22]. rewrite E21, app_assoc, firstn_skipn. reflexivity.
        -- intros HF. inversion HF as [|? ? Hcap HF']; subst.
           destruct (E3 HF') as [(e & He)|Hlen]; [left; exists e; now right|right].
           rewrite app_length, firstn_length. subst n. cbn [length] in *. lia.
  Qed.

  (* ---------------------------------------------------------------- *)
  (** ** Reader that ignores errors, over an arbitrary wire *)

  Lemma forgery_prepend k c fs x w :
    forgery key seal k c fs w -> forgery key seal k c fs (x ++ w).
  Proof.
    intros (i & p & pre & post & -> & Hn). exists i, p, (x ++ pre), post.
    split; [now rewrite app_assoc | exact Hn].
  Qed.

  Lemma forgery_shift k c f fs x w :
    forgery key seal k (c + 1) fs w -> forgery key seal k c (f :: fs) (x ++ w).
  Proof.
    intros (i & p & pre & post & -> & Hn). exists (S i), p, (x ++ pre), post.
    split; [|exact Hn].
    rewrite <- app_assoc.
    replace (c + N.of_nat (S i))%N with (c + 1 + N.of_nat i)%N by lia. reflexivity.
  Qed.

  Lemma forgery_head k c fs w p :
    firstn sealed_size w = seal k (nonce_of c) p -> nth_error fs 0 <> Some p ->
    forgery key seal k c fs w.
  Proof.
    intros Hw Hn. exists 0, p, [], (skipn sealed_size w). split; [|exact Hn].
    change (N.of_nat 0) with 0%N. rewrite N.add_0_r, <- Hw. cbn [app].
    symmetry. apply firstn_skipn.
  Qed.

  Lemma run_tamper k : forall caps b c cs1 wire b' w' rs,
    recv_key b = k -> recv_nonce b = nonce_of c ->
    (c + N.of_nat (length cs1) <= max_u64)%N ->
    (forall ch, In ch cs1 -> length ch <= data_max_size) ->
    read_many key open_ b wire caps = (b', w', rs) ->
    (exists rest, recv_buffer b ++ concat cs1 = delivered rs ++ rest) \/
    forgery key seal k c (map (mk_frame pad) cs1) wire.
  Proof.
    induction caps as [|cap caps IH]; intros b c cs1 wire b' w' rs Hk Hn Hb Hcs Hr.
    - cbn [read_many] in Hr. inversion Hr; subst. left.
      exists (recv_buffer b' ++ concat cs1). reflexivity.
    - cbn [read_many] in Hr.
      destruct (recv_buffer b) as [|x l] eqn:Hbuf.
      + destruct (Nat.lt_ge_cases (length wire) sealed_size) as [Hs|Hs].
        * (* short read: state unchanged, stream exhausted *)
          rewrite (read_short b wire cap Hbuf Hs) in Hr. cbv beta iota in Hr.
          destruct (read_many key open_ b [] caps) as [[b2 w2] rs2] eqn:E.
          inversion Hr; subst b2 w2 rs. clear Hr. rewrite delivered_err.
          apply IH with (c := c) (cs1 := cs1) in E; auto.
          rewrite Hbuf in E. destruct E as [E|E]; [now left|right].
          rewrite <- (app_nil_r wire). now apply forgery_prepend.
        * destruct (open_ k (nonce_of c) (firstn sealed_size wire)) as [p|] eqn:Ho.
          -- (* the block opens: either it is the genuine next frame, or a forgery *)
             pose proof (aead_open_auth _ _ _ AE _ _ _ _ Ho) as Hblk.
             destruct cs1 as [|ch cs2].
             ++ right. apply (forgery_head k c _ wire p Hblk). discriminate.
             ++ destruct (list_eq_dec N.eq_dec (mk_frame pad ch) p) as [Ep|Ep].
                ** subst p. cbn [length] in Hb. rewrite Nat2N.inj_succ in Hb.
                   assert (Hch : length ch <= data_max_size) by (apply Hcs; now left).
                   rewrite <- Hk in Ho.
                   rewrite (read_genuine b wire cap c ch Hbuf Hn) in Hr by (auto; lia).
                   cbv beta iota in Hr.
                   destruct (read_many key open_ _ _ caps) as [[b2 w2] rs2] eqn:E.
                   inversion Hr; subst b2 w2 rs. clear Hr.
                   apply IH with (c := (c + 1)%N) (cs1 := cs2) in E;
                     [ | exact Hk | reflexivity | lia | intros ch' H'; apply Hcs; now right ].
                   cbn [recv_buffer set_recv] in E. rewrite delivered_ok.
                   destruct E as [(rest & E)|E].
                   --- left. exists rest. cbn [app concat].
                       rewrite <- app_assoc, <- E, app_assoc, firstn_skipn. reflexivity.
                   --- right. rewrite <- (firstn_skipn sealed_size wire).
                       cbn [map]. now apply forgery_shift.
                ** right. apply (forgery_head k c _ wire p Hblk). cbn [map nth_error].
                   intros H; inversion H; contradiction.
          -- (* decryption failure: state unchanged, block consumed *)
             rewrite (read_nodec b wire cap Hbuf Hs) in Hr by (rewrite Hk, Hn; exact Ho).
             cbv beta iota in Hr.
             destruct (read_many key open_ b _ caps) as [[b2 w2] rs2] eqn:E.
             inversion Hr; subst b2 w2 rs. clear Hr. rewrite delivered_err.
             apply IH with (c := c) (cs1 := cs1) in E; auto.
             rewrite Hbuf in E. destruct E as [E|E]; [now left|right].
             rewrite <- (firstn_skipn sealed_size wire). now apply forgery_prepend.
      + rewrite (read_buf b _ cap x l Hbuf) in Hr. cbv beta iota in Hr.
        destruct (read_many key open_ _ _ caps) as [[b2 w2] rs2] eqn:E.
        inversion Hr; subst b2 w2 rs. clear Hr.
        apply IH with (c := c) (cs1 := cs1) in E; auto.
        cbn [recv_buffer set_recv] in E. rewrite delivered_ok.
        destruct E as [(rest & E)|E]; [left|now right].
        exists rest. rewrite <- app_assoc, <- E, app_assoc, firstn_skipn. reflexivity.
  Qed.

  (* ---------------------------------------------------------------- *)
  (** ** The theorems *)

  Theorem tamper_safety : forall a b c0 ws a' out w caps b' w' rs,
    paired key a b c0 ->
    (c0 + N.of_nat (length (chunks_of ws)) <= max_u64)%N ->
    write_many key seal pad a ws = (a', out) ->
    read_many key open_ b w caps = (b', w', rs) ->
    (exists rest, concat ws = delivered rs ++ rest) \/
    forgery key seal (send_key a) c0 (frames_of pad ws) w.
  Proof.
    intros a b c0 ws a' out w caps b' w' rs (Hk & Hsn & Hrn & Hbuf) Hb Hw Hr.
    apply run_tamper with (k := send_key a) (c := c0) (cs1 := chunks_of ws) in Hr; auto.
    - rewrite Hbuf, chunks_of_concat in Hr. exact Hr.
    - intros ch Hch. apply chunks_of_bounds in Hch. lia.
  Qed.

  (** the core of [tamper_detected], with the forgery alternative made explicit as
      "the block at position j opens" *)
  Lemma prefix_run : forall a b c0 ws a' out j tail caps b' w' rs,
    paired key a b c0 ->
    (c0 + N.of_nat (length (chunks_of ws)) <= max_u64)%N ->
    write_many key seal pad a ws = (a', out) ->
    j <= length out ->
    (length tail < sealed_size \/
     open_ (send_key a) (nonce_of (c0 + N.of_nat j)) (firstn sealed_size tail) = None) ->
    read_until_err key open_ b (concat (firstn j out) ++ tail) caps = (b', w', rs) ->
    (exists rest, concat (firstn j (chunks_of ws)) = delivered rs ++ rest) /\
    (forall e, In (RErr e) rs ->
               delivered rs = concat (firstn j (chunks_of ws)) /\ tail_case tail e) /\
    (Forall (fun c => 0 < c) caps ->
     (exists e, In (RErr e) rs) \/ length caps <= length (delivered rs)).
  Proof.
    intros a b c0 ws a' out j tail caps b' w' rs (Hk & Hsn & Hrn & Hbuf) Hb Hw Hj Ht Hr.
    pose proof (write_many_out_length _ seal pad a ws a' out c0 Hsn Hb Hw) as Hlen.
    destruct (write_many_spec _ seal pad a ws a' out c0 Hsn Hb Hw) as (Hout & _).
    rewrite Hout in Hr. unfold frames_of in Hr. rewrite firstn_seal_seq, firstn_map in Hr.
    apply run_genuine with (k := send_key a) (c := c0) (cs1 := firstn j (chunks_of ws)) in Hr.
    - rewrite Hbuf in Hr. exact Hr.
    - now symmetry.
    - exact Hrn.
    - rewrite firstn_length_le by lia. lia.
    - intros ch Hch. apply (chunks_of_bounds ws). eapply in_firstn_in; exact Hch.
    - rewrite firstn_length_le by lia. exact Ht.
  Qed.

  Theorem stream_exact : forall a b c0 ws a' out caps b' w' rs,
    paired key a b c0 ->
    (c0 + N.of_nat (length (chunks_of ws)) <= max_u64)%N ->
    write_many key seal pad a ws = (a', out) ->
    read_until_err key open_ b (concat out) caps = (b', w', rs) ->
    (exists rest, concat ws = delivered rs ++ rest) /\
    (forall e, In (RErr e) rs -> e = REof /\ delivered rs = concat ws) /\
    (Forall (fun c => 0 < c) caps -> length (concat ws) < length caps -> In (RErr REof) rs).
  Proof.
    intros a b c0 ws a' out caps b' w' rs Hp Hb Hw Hr.
    pose proof sealed_size_pos as Hss.
    assert (Hsn : send_nonce a = nonce_of c0) by apply Hp.
    pose proof (write_many_out_length _ seal pad a ws a' out c0 Hsn Hb Hw) as Hlen.
    rewrite <- (app_nil_r (concat out)), <- (firstn_all out) in Hr.
    apply (prefix_run a b c0 ws a' out (length out) [] caps b' w' rs Hp Hb Hw) in Hr;
      [ | lia | left; cbn [length]; lia ].
    rewrite Hlen, firstn_all, chunks_of_concat in Hr.
    destruct Hr as (H1 & H2 & H3).
    assert (H2' : forall e, In (RErr e) rs -> e = REof /\ delivered rs = concat ws).
    { intros e He. destruct (H2 e He) as (Hd & [(_ & ->)|[(Hne & _)|(Hl & _)]]).
      - auto.
      - now elim Hne.
      - cbn [length] in Hl. lia. }
    split; [exact H1|]. split; [exact H2'|].
    intros HF Hlt. destruct (H3 HF) as [(e & He)|Hge].
    - destruct (H2' e He) as (-> & _). exact He.
    - destruct H1 as (rest & H1). rewrite H1, app_length in Hlt. lia.
  Qed.

  Theorem tamper_detected : forall a b c0 ws a' out j tail caps b' w' rs,
    paired key a b c0 ->
    (c0 + N.of_nat (length (chunks_of ws)) <= max_u64)%N ->
    write_many key seal pad a ws = (a', out) ->
    j <= length out ->
    (forall f, nth_error out j = Some f -> firstn sealed_size tail <> f) ->
    read_until_err key open_ b (concat (firstn j out) ++ tail) caps = (b', w', rs) ->
    forgery key seal (send_key a) c0 (frames_of pad ws) (concat (firstn j out) ++ tail) \/
    ((exists rest, concat (firstn j (chunks_of ws)) = delivered rs ++ rest) /\
     (forall e, In (RErr e) rs ->
        delivered rs = concat (firstn j (chunks_of ws)) /\
        ((tail = [] /\ e = REof) \/
         (tail <> [] /\ length tail < sealed_size /\ e = RUnexpectedEof) \/
         (sealed_size <= length tail /\ e = RDecrypt)))).
  Proof.
    intros a b c0 ws a' out j tail caps b' w' rs Hp Hb Hw Hj Hdiff Hr.
    assert (Hsn : send_nonce a = nonce_of c0) by apply Hp.
    destruct (Nat.lt_ge_cases (length tail) sealed_size) as [Hs|Hs].
    { right. destruct (prefix_run a b c0 ws a' out j tail caps b' w' rs Hp Hb Hw Hj
                         (or_introl Hs) Hr) as (H1 & H2 & _). split; assumption. }
    destruct (open_ (send_key a) (nonce_of (c0 + N.of_nat j)) (firstn sealed_size tail))
      as [p|] eqn:Ho.
    - left. pose proof (aead_open_auth _ _ _ AE _ _ _ _ Ho) as Hblk.
      exists j, p, (concat (firstn j out)), (skipn sealed_size tail). split.
      + rewrite <- Hblk, firstn_skipn. reflexivity.
      + intros Hnth. apply (Hdiff (seal (send_key a) (nonce_of (c0 + N.of_nat j)) p)); [|exact Hblk].
        rewrite (write_many_out_nth _ seal pad a ws a' out c0 j Hsn Hb Hw), Hnth.
        reflexivity.
    - right. destruct (prefix_run a b c0 ws a' out j tail caps b' w' rs Hp Hb Hw Hj
                         (or_intror Ho) Hr) as (H1 & H2 & _). split; assumption.
  Qed.
End Reader.
