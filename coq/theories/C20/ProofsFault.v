(** C20 — frame layer, part 3: the nonce discipline when the underlying conn.Write fails.

    SecretConnection.Write seals a frame and advances the send nonce BEFORE it hands the frame
    to the conn; when the conn reports an error, Write returns and the caller may write again.
    Every frame ever handed to the conn — whether or not its write was reported as successful,
    whatever part of it reached the far end — is therefore sealed under its own counter, and
    everything the reader theorems say about "the frames written" holds for "the frames sealed".

    Also: the generic forms of the reader theorems over an arbitrary list of sealed chunks. *)
From Coq Require Import List ZArith NArith Bool Arith Lia.
From Kardia Require Import Generated.C20Facts C20.Model C20.Spec C20.ProofsFrame.
Import ListNotations.

Local Opaque data_len_size data_max_size total_frame_size aead_size_overhead aead_nonce_size
  sealed_size.

(** the chunks sealed by one call *)
Definition cut (fail : option nat) (cs : list bytes) : list bytes :=
  match fail with None => cs | Some j => firstn (S j) cs end.

Lemma sealed_chunks_cut d fl : sealed_chunks (d, fl) = cut fl (chunks d).
Proof. destruct fl; reflexivity. Qed.

Lemma chunks_of_f_cons d fl ws :
  chunks_of_f ((d, fl) :: ws) = cut fl (chunks d) ++ chunks_of_f ws.
Proof. unfold chunks_of_f. cbn [map concat]. now rewrite sealed_chunks_cut. Qed.

Lemma cut_in fl cs c : In c (cut fl cs) -> In c cs.
Proof. destruct fl as [j|]; cbn [cut]; [apply in_firstn_in | auto]. Qed.

Lemma chunks_of_f_bounds : forall ws c, In c (chunks_of_f ws) -> 0 < length c <= data_max_size.
Proof.
  induction ws as [|[d fl] ws IH]; intros c Hin; [destruct Hin|].
  rewrite chunks_of_f_cons in Hin. apply in_app_or in Hin. destruct Hin as [Hin|Hin].
  - apply cut_in in Hin. eapply chunks_bounds; exact Hin.
  - auto.
Qed.

(** the result a failing / non-failing call reports *)
Definition wf_result (fail : option nat) (cs : list bytes) (n : nat) : wfres :=
  match fail with
  | Some j => if j <? length cs then WFErr (n + length (concat (firstn j cs)))
              else WFOk (n + length (concat cs))
  | None => WFOk (n + length (concat cs))
  end.

Lemma cut_nil fl : cut fl [] = [].
Proof. destruct fl; reflexivity. Qed.
Lemma cut_none cs : cut None cs = cs.
Proof. reflexivity. Qed.
Lemma cut_cons_0 ch cs : cut (Some 0) (ch :: cs) = [ch].
Proof. reflexivity. Qed.
Lemma cut_cons_S j ch cs : cut (Some (S j)) (ch :: cs) = ch :: cut (Some j) cs.
Proof. reflexivity. Qed.

Lemma wf_result_nil fl n : wf_result fl [] n = WFOk n.
Proof. destruct fl as [j|]; cbn [wf_result length concat]; rewrite Nat.add_0_r; reflexivity. Qed.

Lemma wf_result_cons_S j ch cs n :
  wf_result (Some (S j)) (ch :: cs) n = wf_result (Some j) cs (n + length ch).
Proof.
  cbn [wf_result length]. change (S j <? S (length cs)) with (j <? length cs).
  destruct (j <? length cs); cbn [firstn concat]; rewrite app_length, Nat.add_assoc; reflexivity.
Qed.

Section Fault.
  Variable key : Type.
  Variable seal : key -> nonce -> bytes -> bytes.
  Variable open_ : key -> nonce -> bytes -> option bytes.
  Variable pad : nat -> bytes.
  Hypothesis AE : aead_ok key seal open_.
  Hypothesis PD : pad_ok pad.

  Lemma write_chunks_f_spec k : forall cs c n fail,
    (c + N.of_nat (length (cut fail cs)) <= max_u64)%N ->
    write_chunks_f key seal pad k (nonce_of c) cs n fail =
    (nonce_of (c + N.of_nat (length (cut fail cs))),
     seal_seq key seal k c (map (mk_frame pad) (cut fail cs)),
     wf_result fail cs n).
  Proof.
    induction cs as [|ch cs IH]; intros c n fail Hb.
    - cbn [write_chunks_f]. rewrite cut_nil. cbn [length map seal_seq].
      rewrite wf_result_nil. change (N.of_nat 0) with 0%N. rewrite N.add_0_r. reflexivity.
    - destruct fail as [[|j]|].
      + (* the conn.Write of this very frame fails *)
        rewrite cut_cons_0 in *. cbn [length] in Hb.
        cbn [write_chunks_f]. rewrite incr_nonce_of by lia.
        cbn [length map seal_seq wf_result concat firstn].
        change (0 <? S (length cs)) with true. cbv iota.
        rewrite Nat.add_0_r. reflexivity.
      + rewrite cut_cons_S in *. cbn [length] in Hb. rewrite Nat2N.inj_succ in Hb.
        cbn [write_chunks_f]. rewrite incr_nonce_of by lia.
        cbn [option_map Nat.pred].
        rewrite (IH (c + 1)%N (n + length ch) (Some j)) by lia.
        cbn [length map seal_seq]. rewrite Nat2N.inj_succ.
        replace (c + 1 + N.of_nat (length (cut (Some j) cs)))%N
          with (c + N.succ (N.of_nat (length (cut (Some j) cs))))%N by lia.
        rewrite wf_result_cons_S. reflexivity.
      + rewrite cut_none in *. cbn [length] in Hb. rewrite Nat2N.inj_succ in Hb.
        cbn [write_chunks_f]. rewrite incr_nonce_of by lia.
        cbn [option_map].
        rewrite (IH (c + 1)%N (n + length ch) None) by (rewrite cut_none; lia).
        rewrite cut_none.
        cbn [length map seal_seq wf_result concat].
        rewrite Nat2N.inj_succ, app_length, Nat.add_assoc.
        replace (c + 1 + N.of_nat (length cs))%N with (c + N.succ (N.of_nat (length cs)))%N by lia.
        reflexivity.
  Qed.

  Lemma write_f_spec a d fl c0 :
    send_nonce a = nonce_of c0 ->
    (c0 + N.of_nat (length (cut fl (chunks d))) <= max_u64)%N ->
    write_f key seal pad a d fl =
    ({| send_key := send_key a; recv_key := recv_key a;
        send_nonce := nonce_of (c0 + N.of_nat (length (cut fl (chunks d))));
        recv_nonce := recv_nonce a; recv_buffer := recv_buffer a |},
     seal_seq key seal (send_key a) c0 (map (mk_frame pad) (cut fl (chunks d))),
     wf_result fl (chunks d) 0).
  Proof.
    intros Hn Hb. unfold write_f. rewrite Hn, write_chunks_f_spec by exact Hb. reflexivity.
  Qed.

  (** without a failure, [write_f] is [write] *)
  Lemma write_f_none a d c0 :
    send_nonce a = nonce_of c0 ->
    (c0 + N.of_nat (length (chunks d)) <= max_u64)%N ->
    let '(a1, out1, r1) := write_f key seal pad a d None in
    let '(a2, out2, r2) := write key seal pad a d in
    a1 = a2 /\ out1 = out2 /\ r1 = WFOk (length d) /\ r2 = WOk (length d).
  Proof.
    intros Hn Hb. rewrite (write_f_spec a d None c0 Hn) by exact Hb.
    rewrite (write_spec key seal pad a d c0 Hn Hb).
    cbn [cut wf_result]. rewrite chunks_concat. auto.
  Qed.

  (** ONE failing call: the nonce has advanced by the number of frames sealed, the failing one
      included; the caller is told the bytes of the chunks before it; nothing after it is sealed *)
  Lemma write_fault_discipline : forall a d j c0,
    send_nonce a = nonce_of c0 ->
    j < length (chunks d) ->
    (c0 + N.of_nat (S j) <= max_u64)%N ->
    exists a' out,
      write_f key seal pad a d (Some j) = (a', out, WFErr (length (concat (firstn j (chunks d))))) /\
      send_nonce a' = nonce_of (c0 + N.of_nat (S j)) /\
      length out = S j /\
      (forall i, i <= j ->
         nth_error out i =
         option_map (fun ch => seal (send_key a) (nonce_of (c0 + N.of_nat i)) (mk_frame pad ch))
                    (nth_error (chunks d) i)).
  Proof.
    intros a d j c0 Hn Hj Hb.
    assert (Hlen : length (cut (Some j) (chunks d)) = S j).
    { cbn [cut]. rewrite firstn_length_le by lia. reflexivity. }
    rewrite (write_f_spec a d (Some j) c0 Hn) by (rewrite Hlen; exact Hb).
    eexists. eexists. split.
    - cbn [wf_result]. apply Nat.ltb_lt in Hj. rewrite Hj. reflexivity.
    - cbn [send_nonce]. rewrite Hlen. split; [reflexivity|]. split.
      + rewrite (seal_seq_length key seal), map_length. exact Hlen.
      + intros i Hi. rewrite (seal_seq_nth key seal). cbn [cut].
        rewrite nth_error_map.
        assert (E : nth_error (firstn (S j) (chunks d)) i = nth_error (chunks d) i).
        { rewrite <- (firstn_skipn (S j) (chunks d)) at 2.
          rewrite nth_error_app1; [reflexivity|]. rewrite firstn_length_le by lia. lia. }
        rewrite E. destruct (nth_error (chunks d) i); reflexivity.
  Qed.

  Lemma write_many_f_spec : forall a ws a' out c0,
    send_nonce a = nonce_of c0 ->
    (c0 + N.of_nat (length (chunks_of_f ws)) <= max_u64)%N ->
    write_many_f key seal pad a ws = (a', out) ->
    out = seal_seq key seal (send_key a) c0 (frames_of_f pad ws) /\
    send_nonce a' = nonce_of (c0 + N.of_nat (length (chunks_of_f ws))) /\
    send_key a' = send_key a /\ recv_key a' = recv_key a /\
    recv_nonce a' = recv_nonce a /\ recv_buffer a' = recv_buffer a.
  Proof.
    intros a ws; revert a. induction ws as [|[d fl] ws IH]; intros a a' out c0 Hn Hb Hw.
    - cbn [write_many_f] in Hw. inversion Hw; subst a' out.
      unfold frames_of_f, chunks_of_f. cbn [map concat seal_seq length].
      change (N.of_nat 0) with 0%N. rewrite N.add_0_r. repeat split; auto.
    - rewrite chunks_of_f_cons, app_length, Nat2N.inj_add in Hb.
      cbn [write_many_f] in Hw.
      rewrite (write_f_spec a d fl c0 Hn) in Hw by lia.
      destruct (write_many_f key seal pad _ ws) as [st2 out2] eqn:E.
      inversion Hw; subst a' out. clear Hw.
      apply IH with (c0 := (c0 + N.of_nat (length (cut fl (chunks d))))%N) in E;
        [| reflexivity | cbn [send_nonce]; lia].
      cbn [send_key recv_key send_nonce recv_nonce recv_buffer] in E.
      destruct E as (-> & E2 & E3 & E4 & E5 & E6).
      unfold frames_of_f. rewrite chunks_of_f_cons, map_app, (seal_seq_app key seal), map_length.
      rewrite app_length, Nat2N.inj_add, N.add_assoc. repeat split; auto.
  Qed.

  Lemma write_many_f_out_length : forall a ws a' out c0,
    send_nonce a = nonce_of c0 ->
    (c0 + N.of_nat (length (chunks_of_f ws)) <= max_u64)%N ->
    write_many_f key seal pad a ws = (a', out) ->
    length out = length (chunks_of_f ws).
  Proof.
    intros a ws a' out c0 Hn Hb Hw.
    destruct (write_many_f_spec a ws a' out c0 Hn Hb Hw) as (-> & _).
    unfold frames_of_f. now rewrite (seal_seq_length key seal), map_length.
  Qed.

  (** any number of calls, any of them failing anywhere: the i-th frame ever handed to the conn is
      sealed under counter c0+i, the send nonce ends at c0 + (number of frames sealed) ... *)
  Theorem fault_frame_nonce : forall a ws a' out c0,
    send_nonce a = nonce_of c0 ->
    (c0 + N.of_nat (length (chunks_of_f ws)) <= max_u64)%N ->
    write_many_f key seal pad a ws = (a', out) ->
    send_nonce a' = nonce_of (c0 + N.of_nat (length out)) /\
    forall i, nth_error out i =
              option_map (seal (send_key a) (nonce_of (c0 + N.of_nat i)))
                         (nth_error (frames_of_f pad ws) i).
  Proof.
    intros a ws a' out c0 Hn Hb Hw.
    rewrite (write_many_f_out_length a ws a' out c0 Hn Hb Hw).
    destruct (write_many_f_spec a ws a' out c0 Hn Hb Hw) as (-> & H2 & _).
    split; [exact H2|]. intros i. apply (seal_seq_nth key seal).
  Qed.

  (** ... and these nonces are pairwise different *)
  Theorem fault_nonce_unique : forall a ws a' out c0,
    send_nonce a = nonce_of c0 ->
    (c0 + N.of_nat (length (chunks_of_f ws)) <= max_u64)%N ->
    write_many_f key seal pad a ws = (a', out) ->
    forall i j, i < j -> j < length out ->
    nonce_of (c0 + N.of_nat i) <> nonce_of (c0 + N.of_nat j).
  Proof.
    intros a ws a' out c0 Hn Hb Hw i j Hij Hj E.
    rewrite (write_many_f_out_length a ws a' out c0 Hn Hb Hw) in Hj.
    apply nonce_of_inj in E; lia.
  Qed.

  (* ---------------------------------------------------------------- *)
  (** ** The reader against an arbitrary sealed chunk sequence *)

  Lemma prefix_run_gen : forall (b : conn key) k c0 cs j tail caps b' w' rs,
    recv_key b = k -> recv_nonce b = nonce_of c0 -> recv_buffer b = [] ->
    (c0 + N.of_nat (length cs) <= max_u64)%N ->
    (forall ch, In ch cs -> 0 < length ch <= data_max_size) ->
    j <= length cs ->
    (length tail < sealed_size \/
     open_ k (nonce_of (c0 + N.of_nat j)) (firstn sealed_size tail) = None) ->
    read_until_err key open_ b
      (concat (firstn j (seal_seq key seal k c0 (map (mk_frame pad) cs))) ++ tail) caps = (b', w', rs) ->
    (exists rest, concat (firstn j cs) = delivered rs ++ rest) /\
    (forall e, In (RErr e) rs -> delivered rs = concat (firstn j cs) /\ tail_case tail e) /\
    (Forall (fun c => 0 < c) caps ->
     (exists e, In (RErr e) rs) \/ length caps <= length (delivered rs)).
  Proof.
    intros b k c0 cs j tail caps b' w' rs Hk Hrn Hbuf Hb Hcs Hj Ht Hr.
    rewrite (firstn_seal_seq key seal), firstn_map in Hr.
    apply (run_genuine key seal open_ pad AE PD) with (k := k) (c := c0) (cs1 := firstn j cs) in Hr.
    - rewrite Hbuf in Hr. exact Hr.
    - exact Hk.
    - exact Hrn.
    - rewrite firstn_length_le by lia. lia.
    - intros ch Hch. apply Hcs. eapply in_firstn_in; exact Hch.
    - rewrite firstn_length_le by lia. exact Ht.
  Qed.

  Lemma tamper_detected_gen : forall (b : conn key) k c0 cs j tail caps b' w' rs,
    recv_key b = k -> recv_nonce b = nonce_of c0 -> recv_buffer b = [] ->
    (c0 + N.of_nat (length cs) <= max_u64)%N ->
    (forall ch, In ch cs -> 0 < length ch <= data_max_size) ->
    j <= length cs ->
    (forall f, nth_error (seal_seq key seal k c0 (map (mk_frame pad) cs)) j = Some f ->
               firstn sealed_size tail <> f) ->
    read_until_err key open_ b
      (concat (firstn j (seal_seq key seal k c0 (map (mk_frame pad) cs))) ++ tail) caps = (b', w', rs) ->
    forgery key seal k c0 (map (mk_frame pad) cs)
            (concat (firstn j (seal_seq key seal k c0 (map (mk_frame pad) cs))) ++ tail) \/
    ((exists rest, concat (firstn j cs) = delivered rs ++ rest) /\
     (forall e, In (RErr e) rs -> delivered rs = concat (firstn j cs) /\ tail_case tail e)).
  Proof.
    intros b k c0 cs j tail caps b' w' rs Hk Hrn Hbuf Hb Hcs Hj Hdiff Hr.
    destruct (Nat.lt_ge_cases (length tail) sealed_size) as [Hs|Hs].
    { right. destruct (prefix_run_gen b k c0 cs j tail caps b' w' rs Hk Hrn Hbuf Hb Hcs Hj
                         (or_introl Hs) Hr) as (H1 & H2 & _). split; assumption. }
    destruct (open_ k (nonce_of (c0 + N.of_nat j)) (firstn sealed_size tail)) as [p|] eqn:Ho.
    - left. pose proof (aead_open_auth _ _ _ AE _ _ _ _ Ho) as Hblk.
      exists j, p, (concat (firstn j (seal_seq key seal k c0 (map (mk_frame pad) cs)))),
             (skipn sealed_size tail). split.
      + rewrite <- Hblk, firstn_skipn. reflexivity.
      + intros Hnth. apply (Hdiff (seal k (nonce_of (c0 + N.of_nat j)) p)); [|exact Hblk].
        rewrite (seal_seq_nth key seal), Hnth. reflexivity.
    - right. destruct (prefix_run_gen b k c0 cs j tail caps b' w' rs Hk Hrn Hbuf Hb Hcs Hj
                         (or_intror Ho) Hr) as (H1 & H2 & _). split; assumption.
  Qed.

  (* ---------------------------------------------------------------- *)
  (** ** The reader theorems for writers that meet write errors *)

  (** whatever reaches the reader, however long it reads: only bytes of sealed chunks, once, in
      order — or a forgery *)
  Theorem fault_tamper_safety : forall a b c0 ws a' out w caps b' w' rs,
    paired key a b c0 ->
    (c0 + N.of_nat (length (chunks_of_f ws)) <= max_u64)%N ->
    write_many_f key seal pad a ws = (a', out) ->
    read_many key open_ b w caps = (b', w', rs) ->
    (exists rest, concat (chunks_of_f ws) = delivered rs ++ rest) \/
    forgery key seal (send_key a) c0 (frames_of_f pad ws) w.
  Proof.
    intros a b c0 ws a' out w caps b' w' rs (Hk & Hsn & Hrn & Hbuf) Hb Hw Hr.
    apply (run_tamper key seal open_ pad AE) with (k := send_key a) (c := c0) (cs1 := chunks_of_f ws) in Hr;
      [ | now symmetry | exact Hrn | exact Hb | intros ch Hch; apply chunks_of_f_bounds in Hch; lia ].
    rewrite Hbuf in Hr. exact Hr.
  Qed.

  (** the wire agrees with the sealed frames on the first j and then differs (a frame whose write
      "failed" was lost, cut, kept while a later one was dropped, ...): exactly the chunks of
      those j frames are delivered and the read that reaches position j fails *)
  Theorem fault_tamper_detected : forall a b c0 ws a' out j tail caps b' w' rs,
    paired key a b c0 ->
    (c0 + N.of_nat (length (chunks_of_f ws)) <= max_u64)%N ->
    write_many_f key seal pad a ws = (a', out) ->
    j <= length out ->
    (forall f, nth_error out j = Some f -> firstn sealed_size tail <> f) ->
    read_until_err key open_ b (concat (firstn j out) ++ tail) caps = (b', w', rs) ->
    forgery key seal (send_key a) c0 (frames_of_f pad ws) (concat (firstn j out) ++ tail) \/
    ((exists rest, concat (firstn j (chunks_of_f ws)) = delivered rs ++ rest) /\
     (forall e, In (RErr e) rs ->
        delivered rs = concat (firstn j (chunks_of_f ws)) /\
        ((tail = [] /\ e = REof) \/
         (tail <> [] /\ length tail < sealed_size /\ e = RUnexpectedEof) \/
         (sealed_size <= length tail /\ e = RDecrypt)))).
  Proof.
    intros a b c0 ws a' out j tail caps b' w' rs (Hk & Hsn & Hrn & Hbuf) Hb Hw Hj Hdiff Hr.
    pose proof (write_many_f_out_length a ws a' out c0 Hsn Hb Hw) as Hlen.
    destruct (write_many_f_spec a ws a' out c0 Hsn Hb Hw) as (Hout & _).
    subst out. unfold frames_of_f in *.
    apply (tamper_detected_gen b (send_key a) c0 (chunks_of_f ws) j tail caps b' w' rs);
      [ now symmetry | exact Hrn | exact Hbuf | exact Hb | apply chunks_of_f_bounds
      | rewrite Hlen in Hj; exact Hj | exact Hdiff | exact Hr ].
  Qed.

  (** every sealed frame forwarded unchanged: every sealed byte is delivered once, in order, and
      the only error is EOF after the last one — a reported write error by itself loses nothing
      and desynchronises nothing *)
  Theorem fault_stream_exact : forall a b c0 ws a' out caps b' w' rs,
    paired key a b c0 ->
    (c0 + N.of_nat (length (chunks_of_f ws)) <= max_u64)%N ->
    write_many_f key seal pad a ws = (a', out) ->
    read_until_err key open_ b (concat out) caps = (b', w', rs) ->
    (exists rest, concat (chunks_of_f ws) = delivered rs ++ rest) /\
    (forall e, In (RErr e) rs -> e = REof /\ delivered rs = concat (chunks_of_f ws)).
  Proof.
    intros a b c0 ws a' out caps b' w' rs (Hk & Hsn & Hrn & Hbuf) Hb Hw Hr.
    pose proof sealed_size_pos as Hss.
    pose proof (write_many_f_out_length a ws a' out c0 Hsn Hb Hw) as Hlen.
    destruct (write_many_f_spec a ws a' out c0 Hsn Hb Hw) as (Hout & _).
    subst out. unfold frames_of_f in *.
    rewrite <- (app_nil_r (concat _)), <- (firstn_all (seal_seq _ _ _ _ _)) in Hr.
    rewrite Hlen in Hr.
    apply (prefix_run_gen b (send_key a) c0 (chunks_of_f ws) (length (chunks_of_f ws)) [] caps b' w' rs) in Hr;
      [ | now symmetry | exact Hrn | exact Hbuf | exact Hb | apply chunks_of_f_bounds | apply Nat.le_refl
        | left; cbn [length]; lia ].
    rewrite firstn_all in Hr. destruct Hr as (H1 & H2 & _).
    split; [exact H1|].
    intros e He. destruct (H2 e He) as (Hd & [(_ & ->)|[(Hne & _)|(Hl & _)]]).
    - auto.
    - now elim Hne.
    - cbn [length] in Hl. lia.
  Qed.
End Fault.
