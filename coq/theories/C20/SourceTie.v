(** C20 — tie of the model's sizes, chunking tests, nonce arithmetic, packetiser / reassembler
    guards, protoio length check and upgrade identity comparisons to the Go SOURCE.
    [Generated/C20Source.v] is produced on every check by /verif/go2coq from /repo's working tree:
    the frame constants of lib/p2p/conn, every guard / integer expression of
    SecretConnection.Write / Read, incrNonce, Channel.canSend / isSendPending / nextPacketMsg /
    recvPacketMsg, MConnection.sendSomePacketMsgs / sendPacketMsg / recvRoutine,
    ChannelDescriptor.FillDefaults (lib/p2p/conn), varintReader.ReadMsg (lib/protoio) and
    MultiplexTransport.upgrade (lib/p2p/transport.go).  The lemmas say that the functions of
    C20/Model.v compute exactly these expressions on exactly these operands (the [_atoms] lists
    are pinned: what is compared, not only how).  Placement of the guards inside the Go methods
    is validated by the correspondence run. *)
From Coq Require Import String List ZArith NArith Bool Arith Lia.
From Kardia Require Import Base.Int64 Base.GoSem.
From Kardia Require Import Generated.C20Source.
From Kardia Require Import Generated.C20Facts C20.Model.
Import ListNotations.

(* ------------------------------------------------------------------ constants *)

Lemma src_consts :
  Z.of_nat data_len_size = lib_p2p_conn__dataLenSize /\
  Z.of_nat data_max_size = lib_p2p_conn__dataMaxSize /\
  Z.of_nat total_frame_size = lib_p2p_conn__totalFrameSize /\
  Z.of_nat aead_size_overhead = lib_p2p_conn__aeadSizeOverhead /\
  Z.of_nat aead_nonce_size = lib_p2p_conn__aeadNonceSize /\
  Z.of_nat aead_key_size = lib_p2p_conn__aeadKeySize /\
  Z.of_nat sealed_size = (lib_p2p_conn__totalFrameSize + lib_p2p_conn__aeadSizeOverhead)%Z /\
  (lib_p2p_conn__totalFrameSize = lib_p2p_conn__dataMaxSize + lib_p2p_conn__dataLenSize)%Z /\
  Z.of_nat default_max_packet_msg_payload_size = lib_p2p_conn__defaultMaxPacketMsgPayloadSize /\
  Z.of_nat num_batch_packet_msgs = lib_p2p_conn__numBatchPacketMsgs /\
  Z.of_N default_send_queue_capacity = lib_p2p_conn__defaultSendQueueCapacity /\
  Z.of_N default_recv_buffer_capacity = lib_p2p_conn__defaultRecvBufferCapacity /\
  Z.of_N default_recv_message_capacity = lib_p2p_conn__defaultRecvMessageCapacity.
Proof. repeat split; reflexivity. Qed.

(** FillDefaults stores exactly these defaults when the field is 0 *)
Lemma src_fill_defaults :
  lib_p2p_conn__ChannelDescriptor_FillDefaults__put_chDesc_SendQueueCapacity = Z.of_N default_send_queue_capacity /\
  lib_p2p_conn__ChannelDescriptor_FillDefaults__put_chDesc_RecvBufferCapacity = Z.of_N default_recv_buffer_capacity /\
  lib_p2p_conn__ChannelDescriptor_FillDefaults__put_chDesc_RecvMessageCapacity = Z.of_N default_recv_message_capacity /\
  (forall x, lib_p2p_conn__ChannelDescriptor_FillDefaults__if_chDesc_SendQueueCapacity_eq_0 x = Z.eqb x 0) /\
  (forall x, lib_p2p_conn__ChannelDescriptor_FillDefaults__if_chDesc_RecvBufferCapacity_eq_0 x = Z.eqb x 0) /\
  (forall x, lib_p2p_conn__ChannelDescriptor_FillDefaults__if_chDesc_RecvMessageCapacity_eq_0 x = Z.eqb x 0).
Proof. repeat split; reflexivity. Qed.

Lemma dms : data_max_size = 1024.
Proof. reflexivity. Qed.

(* ------------------------------------------------------------------ SecretConnection.Write *)

Lemma src_write_loop (data : bytes) :
  lib_p2p_conn__SecretConnection_Write__for_0_lt_len_data (Z.of_nat (length data)) =
  match data with [] => false | _ => true end.
Proof. destruct data; reflexivity. Qed.

Lemma src_write_split (data : bytes) :
  lib_p2p_conn__SecretConnection_Write__if_dataMaxSize_lt_len_data (Z.of_nat (length data)) =
  (data_max_size <? length data).
Proof.
  unfold lib_p2p_conn__SecretConnection_Write__if_dataMaxSize_lt_len_data.
  destruct (Nat.ltb_spec data_max_size (length data)) as [H|H]; rewrite dms in H;
    [apply Z.ltb_lt | apply Z.ltb_ge]; lia.
Qed.

(** the model's chunking loop IS the source's loop condition and split test *)
Lemma src_chunk_loop f (data : bytes) :
  chunk_loop (S f) data =
  if lib_p2p_conn__SecretConnection_Write__for_0_lt_len_data (Z.of_nat (length data)) then
    if lib_p2p_conn__SecretConnection_Write__if_dataMaxSize_lt_len_data (Z.of_nat (length data))
    then firstn data_max_size data :: chunk_loop f (skipn data_max_size data)
    else [data]
  else [].
Proof. rewrite src_write_loop, src_write_split. destruct data; reflexivity. Qed.

Lemma src_write_count n l :
  in_range I64 (Z.of_nat (n + l)) ->
  lib_p2p_conn__SecretConnection_Write__set_n_op (Z.of_nat n) (Z.of_nat l) = Z.of_nat (n + l).
Proof.
  intros H. unfold lib_p2p_conn__SecretConnection_Write__set_n_op, go_add.
  rewrite <- Nat2Z.inj_add. now apply wrap_id.
Qed.

(* ------------------------------------------------------------------ SecretConnection.Read *)

Lemma src_read_buffered (buf : bytes) :
  lib_p2p_conn__SecretConnection_Read__if_0_lt_len_sc_recvBuffer (Z.of_nat (length buf)) =
  match buf with [] => false | _ => true end.
Proof. destruct buf; reflexivity. Qed.

(** the model's "chunkLength is greater than dataMaxSize" test *)
Lemma src_read_chunklen (clen : N) :
  lib_p2p_conn__SecretConnection_Read__if_chunkLength_gt_dataMaxSize (Z.of_N clen) =
  (N.of_nat data_max_size <? clen)%N.
Proof.
  unfold lib_p2p_conn__SecretConnection_Read__if_chunkLength_gt_dataMaxSize.
  rewrite Z.gtb_ltb, dms.
  destruct (N.ltb_spec (N.of_nat 1024) clen) as [H|H]; [apply Z.ltb_lt | apply Z.ltb_ge]; lia.
Qed.

(** what stays in recvBuffer after copying n = min(cap, len chunk) bytes *)
Lemma src_read_rest cap (chunk : bytes) :
  in_range I64 (Z.of_nat (length chunk)) ->
  let n := Nat.min cap (length chunk) in
  lib_p2p_conn__SecretConnection_Read__if_n_lt_len_chunk (Z.of_nat n) (Z.of_nat (length chunk)) =
    match skipn n chunk with [] => false | _ => true end /\
  Z.of_nat (length (skipn n chunk)) =
    lib_p2p_conn__SecretConnection_Read__arg_len_chunk_minus_n (Z.of_nat (length chunk)) (Z.of_nat n).
Proof.
  intros Hr n. pose proof (skipn_length n chunk) as Hl.
  assert (Hn : n <= length chunk) by apply Nat.le_min_r.
  split.
  - unfold lib_p2p_conn__SecretConnection_Read__if_n_lt_len_chunk.
    destruct (skipn n chunk) as [|x r]; cbn [length] in Hl; [apply Z.ltb_ge | apply Z.ltb_lt]; lia.
  - unfold lib_p2p_conn__SecretConnection_Read__arg_len_chunk_minus_n, go_sub.
    rewrite wrap_id; [lia|]. unfold in_range in *. lia.
Qed.

(* ------------------------------------------------------------------ incrNonce *)

Lemma src_incr_nonce (n : nonce) :
  (le_decode (skipn 4 n) <= max_u64)%N ->
  incr_nonce n =
  let c := lib_p2p_conn__incrNonce__let_counter (Z.of_N (le_decode (skipn 4 n))) in
  if lib_p2p_conn__incrNonce__if_counter_eq_math_MaxUint64 c then None
  else Some (firstn 4 n ++ le_encode 8 (Z.to_N (lib_p2p_conn__incrNonce__set_counter_op c))).
Proof.
  intros Hc. unfold incr_nonce, lib_p2p_conn__incrNonce__let_counter,
    lib_p2p_conn__incrNonce__if_counter_eq_math_MaxUint64, lib_p2p_conn__incrNonce__set_counter_op, go_add.
  cbv zeta. set (c := le_decode (skipn 4 n)) in *. unfold max_u64 in *.
  destruct (N.eqb_spec c 18446744073709551615) as [E|E];
    destruct (Z.eqb_spec (Z.of_N c) 18446744073709551615) as [E'|E']; try lia; [reflexivity|].
  rewrite wrap_id by (unfold in_range; lia).
  replace (Z.of_N c + 1)%Z with (Z.of_N (c + 1)) by lia. now rewrite N2Z.id.
Qed.

(* ------------------------------------------------------------------ Channel *)

Lemma src_can_send c :
  can_send c = lib_p2p_conn__Channel_canSend__ret_ch_loadSendQueueSize_lt_defaultSendQueueCapacity (qsize c).
Proof. reflexivity. Qed.

Lemma src_is_send_pending c :
  is_send_pending c =
  if lib_p2p_conn__Channel_isSendPending__if_len_ch_sending_eq_0 (Z.of_nat (length (sending c))) then
    if lib_p2p_conn__Channel_isSendPending__if_len_ch_sendQueue_eq_0 (Z.of_nat (length (queue c)))
    then (false, c)
    else match queue c with
         | m :: q => (true, upd_send c q (qsize c) m (recently_sent c))
         | [] => (false, c)
         end
  else (true, c).
Proof. unfold is_send_pending. destruct (sending c); destruct (queue c); reflexivity. Qed.

(** the EOF decision of nextPacketMsg and the EOF flags it stores *)
Lemma src_next_packet maxp c :
  next_packet maxp c =
  let s := sending c in
  let k := Nat.min maxp (length s) in
  if lib_p2p_conn__Channel_nextPacketMsg__if_len_ch_sending_le_maxSize (Z.of_nat (length s)) (Z.of_nat maxp)
  then (PktMsg (Z.of_N (ch_id (desc c))) lib_p2p_conn__Channel_nextPacketMsg__put_packet_EOF (firstn k s),
        upd_send c (queue c) (qsize c - 1)%Z [] (recently_sent c))
  else (PktMsg (Z.of_N (ch_id (desc c))) lib_p2p_conn__Channel_nextPacketMsg__put_packet_EOF_2 (firstn k s),
        upd_send c (queue c) (qsize c) (skipn k s) (recently_sent c)).
Proof.
  unfold next_packet, lib_p2p_conn__Channel_nextPacketMsg__if_len_ch_sending_le_maxSize,
    lib_p2p_conn__Channel_nextPacketMsg__put_packet_EOF, lib_p2p_conn__Channel_nextPacketMsg__put_packet_EOF_2.
  cbv zeta.
  destruct (Nat.leb_spec (length (sending c)) maxp) as [H|H].
  - rewrite (proj2 (Z.leb_le _ _)) by lia. reflexivity.
  - rewrite (proj2 (Z.leb_gt _ _)) by lia. reflexivity.
Qed.

(** the capacity test and the EOF branch of recvPacketMsg *)
Lemma src_recv_packet_msg c data eof :
  recv_packet_msg c data eof =
  if lib_p2p_conn__Channel_recvPacketMsg__if_recvCap_lt_recvReceived
       (Z.of_N (ch_recvcap (desc c))) (Z.of_nat (length (recving c) + length data))
  then inr MCapacity
  else let r := recving c ++ data in
       if lib_p2p_conn__Channel_recvPacketMsg__if_packet_EOF eof
       then inl (upd_recving c [], Some r) else inl (upd_recving c r, None).
Proof.
  unfold recv_packet_msg, lib_p2p_conn__Channel_recvPacketMsg__if_recvCap_lt_recvReceived,
    lib_p2p_conn__Channel_recvPacketMsg__if_packet_EOF.
  destruct (N.ltb_spec (ch_recvcap (desc c)) (N.of_nat (length (recving c) + length data))) as [H|H].
  - rewrite (proj2 (Z.ltb_lt _ _)) by lia. reflexivity.
  - rewrite (proj2 (Z.ltb_ge _ _)) by lia. reflexivity.
Qed.

(* ------------------------------------------------------------------ MConnection *)

(** one step of the least-ratio selection loop of sendPacketMsg *)
Lemma src_select_step c rest idx best :
  select_loop (c :: rest) idx best =
  let '(pending, c') := is_send_pending c in
  let best' :=
    if lib_p2p_conn__MConnection_sendPacketMsg__if_not_channel_isSendPending pending then best
    else
      let ratio := f32_div (f32_of_int (recently_sent c')) (f32_of_int (ch_prio (desc c'))) in
      match best with
      | None => Some (idx, ratio)
      | Some (_, br) =>
          if lib_p2p_conn__MConnection_sendPacketMsg__if_ratio_lt_leastRatio (f32_lt ratio br)
          then Some (idx, ratio) else best
      end in
  let '(rest', r) := select_loop rest (S idx) best' in
  (c' :: rest', r).
Proof.
  cbn [select_loop].
  unfold lib_p2p_conn__MConnection_sendPacketMsg__if_not_channel_isSendPending,
    lib_p2p_conn__MConnection_sendPacketMsg__if_ratio_lt_leastRatio.
  destruct (is_send_pending c) as [[|] c']; reflexivity.
Qed.

Lemma src_batch i :
  lib_p2p_conn__MConnection_sendSomePacketMsgs__for_i_lt_numBatchPacketMsgs (Z.of_nat i) =
  (i <? num_batch_packet_msgs).
Proof.
  unfold lib_p2p_conn__MConnection_sendSomePacketMsgs__for_i_lt_numBatchPacketMsgs.
  change num_batch_packet_msgs with 10.
  destruct (Nat.ltb_spec i 10) as [H|H]; [apply Z.ltb_lt | apply Z.ltb_ge]; lia.
Qed.

(** recvRoutine's "unknown channel" test against the model's channel lookup *)
Lemma src_unknown_channel id cs :
  lib_p2p_conn__MConnection_recvRoutine__if_not_ok_or_channel_eq_nil
    (match find_chan id cs with Some _ => true | None => false end) false =
  match find_chan id cs with None => true | Some _ => false end.
Proof. destruct (find_chan id cs); reflexivity. Qed.

(* ------------------------------------------------------------------ protoio *)

(** ReadMsg's conversion of the declared length to a Go int and its refusal test are the
    model's [len_refused] (for every uint64 length and every limit that is a Go int) *)
Lemma src_len_refused maxsize (len : N) :
  (len < 2 ^ 64)%N -> (Z.of_nat maxsize <= 9223372036854775807)%Z ->
  lib_protoio__varintReader_ReadMsg__if_length_lt_0_or_length_gt_r_maxSize
    (lib_protoio__varintReader_ReadMsg__let_length (Z.of_N len)) (Z.of_nat maxsize) =
  len_refused maxsize len.
Proof.
  intros Hl Hm. change (2 ^ 64)%N with 18446744073709551616%N in Hl.
  unfold lib_protoio__varintReader_ReadMsg__if_length_lt_0_or_length_gt_r_maxSize,
    lib_protoio__varintReader_ReadMsg__let_length, go_conv, len_refused.
  destruct (N.ltb_spec 9223372036854775807 len) as [Hb|Hb].
  - (* negative as a Go int *)
    assert (E : wrap I64 (Z.of_N len) = (Z.of_N len - 18446744073709551616)%Z).
    { unfold wrap.
      replace (Z.of_N len + 9223372036854775808)%Z
        with ((Z.of_N len - 9223372036854775808) + 1 * 18446744073709551616)%Z by lia.
      rewrite Z_mod_plus_full, Z.mod_small by lia. lia. }
    rewrite E. rewrite (proj2 (Z.ltb_lt _ _)) by lia. reflexivity.
  - rewrite wrap_id by (unfold in_range; lia).
    rewrite (proj2 (Z.ltb_ge _ _)) by lia. cbn [orb]. rewrite Z.gtb_ltb.
    destruct (N.ltb_spec (N.of_nat maxsize) len) as [H|H]; [apply Z.ltb_lt | apply Z.ltb_ge]; lia.
Qed.

(* ------------------------------------------------------------------ MultiplexTransport.upgrade *)

(** the model's upgrade decides with exactly the source's identity comparisons, in the source's
    order: (dialedAddr != nil && connID != dialedID), then connID != nodeInfo.ID(), then
    mt.nodeInfo.ID() == nodeInfo.ID() *)
Lemma src_upgrade idof self dialed ch claimed s ni :
  upgrade idof self dialed ch claimed s ni =
  match verify_auth ch claimed s with
  | HFail => UpRej RejAuth
  | HOk k =>
      let conn_id := idof k in
      if (lib_p2p__MultiplexTransport_upgrade__if_dialedAddr_ne_nil
            (match dialed with Some _ => true | None => false end) &&
          lib_p2p__MultiplexTransport_upgrade__if_connID_ne_dialedID
            (match dialed with Some d => negb (conn_id =? d)%N | None => false end))%bool
      then UpRej RejAuth
      else match ni with
           | None => UpRej RejAuth
           | Some i =>
               if negb (ni_valid i) then UpRej RejInvalid
               else if lib_p2p__MultiplexTransport_upgrade__if_connID_ne_nodeInfo_ID
                         (negb (conn_id =? ni_id i)%N) then UpRej RejAuth
               else if lib_p2p__MultiplexTransport_upgrade__if_mt_nodeInfo_ID_eq_nodeInfo_ID
                         (self =? ni_id i)%N then UpRej RejSelf
               else if negb (ni_compat i) then UpRej RejIncompat
               else UpOk (ni_id i)
           end
  end.
Proof.
  unfold upgrade, lib_p2p__MultiplexTransport_upgrade__if_dialedAddr_ne_nil,
    lib_p2p__MultiplexTransport_upgrade__if_connID_ne_dialedID,
    lib_p2p__MultiplexTransport_upgrade__if_connID_ne_nodeInfo_ID,
    lib_p2p__MultiplexTransport_upgrade__if_mt_nodeInfo_ID_eq_nodeInfo_ID.
  destruct (verify_auth ch claimed s); [|reflexivity]. destruct dialed; reflexivity.
Qed.

(* ------------------------------------------------------------------ operands *)

Lemma src_atoms :
  lib_p2p_conn__SecretConnection_Write__for_0_lt_len_data_atoms = ["len(data) : int"]%string /\
  lib_p2p_conn__SecretConnection_Write__if_dataMaxSize_lt_len_data_atoms = ["len(data) : int"]%string /\
  lib_p2p_conn__SecretConnection_Write__set_n_op_atoms = ["n : int"; "len(chunk) : int"]%string /\
  lib_p2p_conn__SecretConnection_Read__if_0_lt_len_sc_recvBuffer_atoms = ["len(sc.recvBuffer) : int"]%string /\
  lib_p2p_conn__SecretConnection_Read__if_chunkLength_gt_dataMaxSize_atoms = ["chunkLength : uint32"]%string /\
  lib_p2p_conn__SecretConnection_Read__if_n_lt_len_chunk_atoms = ["n : int"; "len(chunk) : int"]%string /\
  lib_p2p_conn__SecretConnection_Read__arg_len_chunk_minus_n_atoms = ["len(chunk) : int"; "n : int"]%string /\
  lib_p2p_conn__incrNonce__let_counter_atoms = ["binary.LittleEndian.Uint64(nonce[4:]) : uint64"]%string /\
  lib_p2p_conn__incrNonce__if_counter_eq_math_MaxUint64_atoms = ["counter : uint64"]%string /\
  lib_p2p_conn__incrNonce__set_counter_op_atoms = ["counter : uint64"]%string /\
  lib_p2p_conn__Channel_canSend__ret_ch_loadSendQueueSize_lt_defaultSendQueueCapacity_atoms = ["ch.loadSendQueueSize() : int"]%string /\
  lib_p2p_conn__Channel_isSendPending__if_len_ch_sending_eq_0_atoms = ["len(ch.sending) : int"]%string /\
  lib_p2p_conn__Channel_isSendPending__if_len_ch_sendQueue_eq_0_atoms = ["len(ch.sendQueue) : int"]%string /\
  lib_p2p_conn__Channel_nextPacketMsg__if_len_ch_sending_le_maxSize_atoms = ["len(ch.sending) : int"; "maxSize : int"]%string /\
  lib_p2p_conn__Channel_recvPacketMsg__if_recvCap_lt_recvReceived_atoms = ["recvCap : int"; "recvReceived : int"]%string /\
  lib_p2p_conn__Channel_recvPacketMsg__if_packet_EOF_atoms = ["packet.EOF : bool"]%string /\
  lib_p2p_conn__MConnection_sendPacketMsg__if_not_channel_isSendPending_atoms = ["channel.isSendPending() : bool"]%string /\
  lib_p2p_conn__MConnection_sendPacketMsg__if_ratio_lt_leastRatio_atoms = ["ratio < leastRatio : untyped bool"]%string /\
  lib_p2p_conn__MConnection_sendSomePacketMsgs__for_i_lt_numBatchPacketMsgs_atoms = ["i : int"]%string /\
  lib_p2p_conn__MConnection_recvRoutine__if_not_ok_or_channel_eq_nil_atoms = ["ok : bool"; "channel == nil : bool"]%string /\
  lib_protoio__varintReader_ReadMsg__let_length_atoms = ["length64 : uint64"]%string /\
  lib_protoio__varintReader_ReadMsg__if_length_lt_0_or_length_gt_r_maxSize_atoms = ["length : int"; "r.maxSize : int"]%string /\
  lib_p2p__MultiplexTransport_upgrade__if_dialedAddr_ne_nil_atoms = ["dialedAddr != nil : untyped bool"]%string /\
  lib_p2p__MultiplexTransport_upgrade__if_connID_ne_dialedID_atoms = ["connID != dialedID : untyped bool"]%string /\
  lib_p2p__MultiplexTransport_upgrade__if_connID_ne_nodeInfo_ID_atoms = ["connID != nodeInfo.ID() : untyped bool"]%string /\
  lib_p2p__MultiplexTransport_upgrade__if_mt_nodeInfo_ID_eq_nodeInfo_ID_atoms = ["mt.nodeInfo.ID() == nodeInfo.ID() : untyped bool"]%string.
Proof. repeat split; reflexivity. Qed.

(* ------------------------------------------------------------------ the statement *)

Definition C20_source_tie_statement : Prop :=
  (* constants *)
  (Z.of_nat data_len_size = lib_p2p_conn__dataLenSize /\
   Z.of_nat data_max_size = lib_p2p_conn__dataMaxSize /\
   Z.of_nat total_frame_size = lib_p2p_conn__totalFrameSize /\
   Z.of_nat aead_size_overhead = lib_p2p_conn__aeadSizeOverhead /\
   Z.of_nat aead_nonce_size = lib_p2p_conn__aeadNonceSize /\
   Z.of_nat aead_key_size = lib_p2p_conn__aeadKeySize /\
   Z.of_nat sealed_size = (lib_p2p_conn__totalFrameSize + lib_p2p_conn__aeadSizeOverhead)%Z /\
   (lib_p2p_conn__totalFrameSize = lib_p2p_conn__dataMaxSize + lib_p2p_conn__dataLenSize)%Z /\
   Z.of_nat default_max_packet_msg_payload_size = lib_p2p_conn__defaultMaxPacketMsgPayloadSize /\
   Z.of_nat num_batch_packet_msgs = lib_p2p_conn__numBatchPacketMsgs /\
   Z.of_N default_send_queue_capacity = lib_p2p_conn__defaultSendQueueCapacity /\
   Z.of_N default_recv_buffer_capacity = lib_p2p_conn__defaultRecvBufferCapacity /\
   Z.of_N default_recv_message_capacity = lib_p2p_conn__defaultRecvMessageCapacity)
  /\ (lib_p2p_conn__ChannelDescriptor_FillDefaults__put_chDesc_SendQueueCapacity = Z.of_N default_send_queue_capacity /\
      lib_p2p_conn__ChannelDescriptor_FillDefaults__put_chDesc_RecvBufferCapacity = Z.of_N default_recv_buffer_capacity /\
      lib_p2p_conn__ChannelDescriptor_FillDefaults__put_chDesc_RecvMessageCapacity = Z.of_N default_recv_message_capacity)
  (* Write: loop condition, split test, byte count *)
  /\ (forall f (data : bytes),
        chunk_loop (S f) data =
        if lib_p2p_conn__SecretConnection_Write__for_0_lt_len_data (Z.of_nat (length data)) then
          if lib_p2p_conn__SecretConnection_Write__if_dataMaxSize_lt_len_data (Z.of_nat (length data))
          then firstn data_max_size data :: chunk_loop f (skipn data_max_size data)
          else [data]
        else [])
  /\ (forall n l, in_range I64 (Z.of_nat (n + l)) ->
        lib_p2p_conn__SecretConnection_Write__set_n_op (Z.of_nat n) (Z.of_nat l) = Z.of_nat (n + l))
  (* Read: buffered branch, chunk length test, what stays buffered *)
  /\ (forall buf : bytes,
        lib_p2p_conn__SecretConnection_Read__if_0_lt_len_sc_recvBuffer (Z.of_nat (length buf)) =
        match buf with [] => false | _ => true end)
  /\ (forall clen : N,
        lib_p2p_conn__SecretConnection_Read__if_chunkLength_gt_dataMaxSize (Z.of_N clen) =
        (N.of_nat data_max_size <? clen)%N)
  /\ (forall cap (chunk : bytes), in_range I64 (Z.of_nat (length chunk)) ->
        let n := Nat.min cap (length chunk) in
        lib_p2p_conn__SecretConnection_Read__if_n_lt_len_chunk (Z.of_nat n) (Z.of_nat (length chunk)) =
          match skipn n chunk with [] => false | _ => true end /\
        Z.of_nat (length (skipn n chunk)) =
          lib_p2p_conn__SecretConnection_Read__arg_len_chunk_minus_n (Z.of_nat (length chunk)) (Z.of_nat n))
  (* incrNonce *)
  /\ (forall n : nonce, (le_decode (skipn 4 n) <= max_u64)%N ->
        incr_nonce n =
        let c := lib_p2p_conn__incrNonce__let_counter (Z.of_N (le_decode (skipn 4 n))) in
        if lib_p2p_conn__incrNonce__if_counter_eq_math_MaxUint64 c then None
        else Some (firstn 4 n ++ le_encode 8 (Z.to_N (lib_p2p_conn__incrNonce__set_counter_op c))))
  (* Channel *)
  /\ (forall c, can_send c =
        lib_p2p_conn__Channel_canSend__ret_ch_loadSendQueueSize_lt_defaultSendQueueCapacity (qsize c))
  /\ (forall c, is_send_pending c =
        if lib_p2p_conn__Channel_isSendPending__if_len_ch_sending_eq_0 (Z.of_nat (length (sending c))) then
          if lib_p2p_conn__Channel_isSendPending__if_len_ch_sendQueue_eq_0 (Z.of_nat (length (queue c)))
          then (false, c)
          else match queue c with
               | m :: q => (true, upd_send c q (qsize c) m (recently_sent c))
               | [] => (false, c)
               end
        else (true, c))
  /\ (forall maxp c, next_packet maxp c =
        let s := sending c in
        let k := Nat.min maxp (length s) in
        if lib_p2p_conn__Channel_nextPacketMsg__if_len_ch_sending_le_maxSize (Z.of_nat (length s)) (Z.of_nat maxp)
        then (PktMsg (Z.of_N (ch_id (desc c))) lib_p2p_conn__Channel_nextPacketMsg__put_packet_EOF (firstn k s),
              upd_send c (queue c) (qsize c - 1)%Z [] (recently_sent c))
        else (PktMsg (Z.of_N (ch_id (desc c))) lib_p2p_conn__Channel_nextPacketMsg__put_packet_EOF_2 (firstn k s),
              upd_send c (queue c) (qsize c) (skipn k s) (recently_sent c)))
  /\ (forall c data eof, recv_packet_msg c data eof =
        if lib_p2p_conn__Channel_recvPacketMsg__if_recvCap_lt_recvReceived
             (Z.of_N (ch_recvcap (desc c))) (Z.of_nat (length (recving c) + length data))
        then inr MCapacity
        else let r := recving c ++ data in
             if lib_p2p_conn__Channel_recvPacketMsg__if_packet_EOF eof
             then inl (upd_recving c [], Some r) else inl (upd_recving c r, None))
  (* MConnection *)
  /\ (forall c rest idx best, select_loop (c :: rest) idx best =
        let '(pending, c') := is_send_pending c in
        let best' :=
          if lib_p2p_conn__MConnection_sendPacketMsg__if_not_channel_isSendPending pending then best
          else
            let ratio := f32_div (f32_of_int (recently_sent c')) (f32_of_int (ch_prio (desc c'))) in
            match best with
            | None => Some (idx, ratio)
            | Some (_, br) =>
                if lib_p2p_conn__MConnection_sendPacketMsg__if_ratio_lt_leastRatio (f32_lt ratio br)
                then Some (idx, ratio) else best
            end in
        let '(rest', r) := select_loop rest (S idx) best' in
        (c' :: rest', r))
  /\ (forall i, lib_p2p_conn__MConnection_sendSomePacketMsgs__for_i_lt_numBatchPacketMsgs (Z.of_nat i) =
                (i <? num_batch_packet_msgs))
  /\ (forall id cs,
        lib_p2p_conn__MConnection_recvRoutine__if_not_ok_or_channel_eq_nil
          (match find_chan id cs with Some _ => true | None => false end) false =
        match find_chan id cs with None => true | Some _ => false end)
  (* protoio *)
  /\ (forall maxsize (len : N), (len < 2 ^ 64)%N -> (Z.of_nat maxsize <= 9223372036854775807)%Z ->
        lib_protoio__varintReader_ReadMsg__if_length_lt_0_or_length_gt_r_maxSize
          (lib_protoio__varintReader_ReadMsg__let_length (Z.of_N len)) (Z.of_nat maxsize) =
        len_refused maxsize len)
  (* upgrade *)
  /\ (forall idof self dialed ch claimed s ni,
        upgrade idof self dialed ch claimed s ni =
        match verify_auth ch claimed s with
        | HFail => UpRej RejAuth
        | HOk k =>
            let conn_id := idof k in
            if (lib_p2p__MultiplexTransport_upgrade__if_dialedAddr_ne_nil
                  (match dialed with Some _ => true | None => false end) &&
                lib_p2p__MultiplexTransport_upgrade__if_connID_ne_dialedID
                  (match dialed with Some d => negb (conn_id =? d)%N | None => false end))%bool
            then UpRej RejAuth
            else match ni with
                 | None => UpRej RejAuth
                 | Some i =>
                     if negb (ni_valid i) then UpRej RejInvalid
                     else if lib_p2p__MultiplexTransport_upgrade__if_connID_ne_nodeInfo_ID
                               (negb (conn_id =? ni_id i)%N) then UpRej RejAuth
                     else if lib_p2p__MultiplexTransport_upgrade__if_mt_nodeInfo_ID_eq_nodeInfo_ID
                               (self =? ni_id i)%N then UpRej RejSelf
                     else if negb (ni_compat i) then UpRej RejIncompat
                     else UpOk (ni_id i)
                 end
        end)
  (* operands *)
  /\ (lib_p2p_conn__SecretConnection_Write__if_dataMaxSize_lt_len_data_atoms = ["len(data) : int"]%string /\
      lib_p2p_conn__SecretConnection_Read__if_chunkLength_gt_dataMaxSize_atoms = ["chunkLength : uint32"]%string /\
      lib_p2p_conn__SecretConnection_Read__if_n_lt_len_chunk_atoms = ["n : int"; "len(chunk) : int"]%string /\
      lib_p2p_conn__incrNonce__let_counter_atoms = ["binary.LittleEndian.Uint64(nonce[4:]) : uint64"]%string /\
      lib_p2p_conn__incrNonce__if_counter_eq_math_MaxUint64_atoms = ["counter : uint64"]%string /\
      lib_p2p_conn__Channel_nextPacketMsg__if_len_ch_sending_le_maxSize_atoms = ["len(ch.sending) : int"; "maxSize : int"]%string /\
      lib_p2p_conn__Channel_recvPacketMsg__if_recvCap_lt_recvReceived_atoms = ["recvCap : int"; "recvReceived : int"]%string /\
      lib_p2p_conn__Channel_isSendPending__if_len_ch_sending_eq_0_atoms = ["len(ch.sending) : int"]%string /\
      lib_p2p_conn__MConnection_sendPacketMsg__if_ratio_lt_leastRatio_atoms = ["ratio < leastRatio : untyped bool"]%string /\
      lib_protoio__varintReader_ReadMsg__if_length_lt_0_or_length_gt_r_maxSize_atoms = ["length : int"; "r.maxSize : int"]%string /\
      lib_p2p__MultiplexTransport_upgrade__if_dialedAddr_ne_nil_atoms = ["dialedAddr != nil : untyped bool"]%string /\
      lib_p2p__MultiplexTransport_upgrade__if_connID_ne_dialedID_atoms = ["connID != dialedID : untyped bool"]%string /\
      lib_p2p__MultiplexTransport_upgrade__if_connID_ne_nodeInfo_ID_atoms = ["connID != nodeInfo.ID() : untyped bool"]%string /\
      lib_p2p__MultiplexTransport_upgrade__if_mt_nodeInfo_ID_eq_nodeInfo_ID_atoms = ["mt.nodeInfo.ID() == nodeInfo.ID() : untyped bool"]%string).

Lemma C20_source_tie_proof : C20_source_tie_statement.
Proof.
  unfold C20_source_tie_statement.
  split; [exact src_consts|].
  split; [repeat split; apply src_fill_defaults|].
  split; [exact src_chunk_loop|]. split; [exact src_write_count|].
  split; [exact src_read_buffered|]. split; [exact src_read_chunklen|]. split; [exact src_read_rest|].
  split; [exact src_incr_nonce|].
  split; [exact src_can_send|]. split; [exact src_is_send_pending|]. split; [exact src_next_packet|].
  split; [exact src_recv_packet_msg|].
  split; [exact src_select_step|]. split; [exact src_batch|]. split; [exact src_unknown_channel|].
  split; [exact src_len_refused|]. split; [exact src_upgrade|].
  repeat split; apply src_atoms.
Qed.
