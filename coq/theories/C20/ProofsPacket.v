(** C20 — packet layer: identity of the authenticated peer, packet size bound, exactly-once
    reassembly under any interleaving, capacity errors, and the empty-message defect of the
    sender (by computation). *)
From Coq Require Import List ZArith NArith Bool Arith Lia.
From Kardia Require Import Generated.C20Facts C20.Model C20.Spec.
Import ListNotations.

(* ------------------------------------------------------------------ *)
(** * 1. identity *)

Lemma identity : forall ch claimed s r,
  verify_auth ch claimed s = HOk r -> r = claimed /\ s = SigOf claimed ch.
Proof.
  intros ch claimed s r H. unfold verify_auth in H.
  destruct s as [signer msg|]; [|discriminate].
  destruct (signer =? claimed)%N eqn:E1; destruct (msg =? ch)%N eqn:E2;
    cbn [andb] in H; try discriminate.
  apply N.eqb_eq in E1. apply N.eqb_eq in E2. subst. inversion H. split; reflexivity.
Qed.

(* ------------------------------------------------------------------ *)
(** * 2. packet size *)

Lemma varint_fuel_mono : forall f v w, (v <= w)%N ->
  length (varint_fuel f v) <= length (varint_fuel f w).
Proof.
  induction f as [|f IH]; intros v w Hvw; cbn [varint_fuel]; [lia|].
  destruct (v <? 128)%N eqn:Ev; destruct (w <? 128)%N eqn:Ew; cbn [length]; try lia.
  - apply N.ltb_lt in Ew. apply N.ltb_ge in Ev. lia.
  - apply le_n_S. apply IH. apply N.div_le_mono; lia.
Qed.

Lemma varint_mono : forall v w, (v <= w)%N -> length (varint v) <= length (varint w).
Proof. intros. unfold varint. apply varint_fuel_mono. assumption. Qed.

Lemma varint_small : forall v, (v < 128)%N -> varint v = [v].
Proof.
  intros v H. unfold varint. cbn [varint_fuel].
  apply N.ltb_lt in H. rewrite H. reflexivity.
Qed.

Lemma u64_of_int32_of_N : forall id, u64_of_int32 (Z.of_N id) = id.
Proof.
  intros id. unfold u64_of_int32.
  destruct (Z.of_N id <? 0)%Z eqn:E.
  - apply Z.ltb_lt in E. lia.
  - apply N2Z.id.
Qed.

Lemma enc_msg_length : forall ch eof data,
  length (enc_msg ch eof data) =
  length (if (ch =? 0)%Z then [] else 8%N :: varint (u64_of_int32 ch)) +
  (length (if eof then [16%N; 1%N] else []) +
   length (match data with [] => [] | _ => 26%N :: varint (N.of_nat (length data)) ++ data end)).
Proof. intros. unfold enc_msg. rewrite !app_length. reflexivity. Qed.

Lemma varint_byte_len : forall v, (v < 256)%N -> length (varint v) <= 2.
Proof.
  intros v H. change 2 with (length (varint 255)). apply varint_mono. lia.
Qed.

Lemma enc_msg_ref_length : forall maxp, 0 < maxp ->
  length (enc_msg 255 true (repeat 0%N maxp)) = 6 + length (varint (N.of_nat maxp)) + maxp.
Proof.
  intros maxp H. rewrite enc_msg_length.
  change (255 =? 0)%Z with false. cbv iota.
  change (u64_of_int32 255) with 255%N.
  change (varint 255) with [255%N; 1%N].
  destruct maxp as [|k]; [lia|].
  cbn [repeat]. change (0%N :: repeat 0%N k) with (repeat 0%N (S k)).
  cbn [length]. rewrite app_length. rewrite repeat_length. cbn [length]. lia.
Qed.

Lemma enc_msg_len_le : forall maxp id eof data,
  0 < maxp -> (id < 256)%N -> length data <= maxp ->
  length (enc_msg (Z.of_N id) eof data) <= length (enc_msg 255 true (repeat 0%N maxp)).
Proof.
  intros maxp id eof data Hp Hid Hd.
  rewrite enc_msg_ref_length by assumption. rewrite enc_msg_length.
  assert (H1 : length (if (Z.of_N id =? 0)%Z then [] else 8%N :: varint (u64_of_int32 (Z.of_N id))) <= 3).
  { destruct (Z.of_N id =? 0)%Z; cbn [length]; [lia|].
    rewrite u64_of_int32_of_N. pose proof (varint_byte_len id Hid). lia. }
  assert (H2 : length (if eof then [16%N; 1%N] else []) <= 2).
  { destruct eof; cbn [length]; lia. }
  assert (H3 : length (match data with [] => [] | _ => 26%N :: varint (N.of_nat (length data)) ++ data end)
               <= 1 + length (varint (N.of_nat maxp)) + maxp).
  { destruct data as [|b t]; [cbn [length]; lia|].
    set (d := b :: t) in *. cbn [length]. rewrite app_length.
    assert (length (varint (N.of_nat (length d))) <= length (varint (N.of_nat maxp))).
    { apply varint_mono. lia. }
    lia. }
  lia.
Qed.

(** every byte-sized channel id fits (the limit is computed with ChannelID 0xff) *)
Lemma packet_fits : forall maxp id eof data,
  0 < maxp -> (id < 256)%N -> length data <= maxp ->
  length (enc_packet (PktMsg (Z.of_N id) eof data)) <= max_packet_msg_size maxp.
Proof.
  intros maxp id eof data Hp Hid Hd.
  unfold max_packet_msg_size, enc_packet.
  pose proof (enc_msg_len_le maxp id eof data Hp Hid Hd) as Hle.
  set (m := enc_msg (Z.of_N id) eof data) in *.
  set (m0 := enc_msg 255 true (repeat 0%N maxp)) in *.
  cbn [length]. rewrite !app_length.
  assert (length (varint (N.of_nat (length m))) <= length (varint (N.of_nat (length m0)))).
  { apply varint_mono. lia. }
  lia.
Qed.

Lemma max_packet_msg_size_ge : forall maxp, 0 < maxp -> 7 <= max_packet_msg_size maxp.
Proof.
  intros maxp Hp. unfold max_packet_msg_size, enc_packet.
  cbn [length]. rewrite app_length. rewrite enc_msg_ref_length by assumption. lia.
Qed.

(** the generated constant is the limit computed from the default payload size *)
Lemma max_size_default_fits :
  N.of_nat (max_packet_msg_size default_max_packet_msg_payload_size) = max_packet_msg_size_default.
Proof. vm_compute. reflexivity. Qed.

(* ------------------------------------------------------------------ *)
(** * 3/4. reassembly: one channel seen alone *)

(** Feeding one channel's packets to recvPacketMsg starting from [recving = r]:
    the messages delivered, and the final [recving] ([None]: stopped by a capacity error). *)
Fixpoint chan_run (cap : N) (r : bytes) (ps : list packet) : list bytes * option bytes :=
  match ps with
  | [] => ([], Some r)
  | PktMsg _ eof data :: rest =>
      if (cap <? N.of_nat (length r + length data))%N then ([], None)
      else if eof then let '(ms, o) := chan_run cap [] rest in ((r ++ data) :: ms, o)
           else chan_run cap (r ++ data) rest
  | _ :: rest => chan_run cap r rest
  end.

Definition evl (ev : option mevent) : list mevent :=
  match ev with Some e => [e] | None => [] end.

Lemma proj_cons_msg : forall id ch eof data rest,
  proj id (PktMsg ch eof data :: rest) =
  if (byte_of_int32 ch =? id)%N then PktMsg ch eof data :: proj id rest else proj id rest.
Proof. reflexivity. Qed.

Lemma proj_cons_ping : forall id rest, proj id (PktPing :: rest) = proj id rest.
Proof. reflexivity. Qed.

Lemma proj_cons_pong : forall id rest, proj id (PktPong :: rest) = proj id rest.
Proof. reflexivity. Qed.

Lemma events_of_app : forall id a b, events_of id (a ++ b) = events_of id a ++ events_of id b.
Proof. intros. unfold events_of. apply flat_map_app. Qed.

Lemma events_of_one : forall id c m,
  events_of id [Deliver c m] = if (c =? id)%N then [m] else [].
Proof. intros. unfold events_of. cbn [flat_map]. apply app_nil_r. Qed.

Lemma find_chan_id : forall id cs i c, find_chan id cs = Some (i, c) -> ch_id (desc c) = id.
Proof.
  induction cs as [|c0 t IH]; intros i c H; cbn [find_chan] in H; [discriminate|].
  destruct (ch_id (desc c0) =? id)%N eqn:E.
  - inversion H; subst. apply N.eqb_eq. assumption.
  - destruct (find_chan id t) as [[i' c']|] eqn:F; [|discriminate].
    inversion H; subst. eapply IH. reflexivity.
Qed.

Lemma find_chan_In : forall id cs i c, find_chan id cs = Some (i, c) -> In c cs.
Proof.
  induction cs as [|c0 t IH]; intros i c H; cbn [find_chan] in H; [discriminate|].
  destruct (ch_id (desc c0) =? id)%N eqn:E.
  - inversion H; subst. left. reflexivity.
  - destruct (find_chan id t) as [[i' c']|] eqn:F; [|discriminate].
    inversion H; subst. right. eapply IH. reflexivity.
Qed.

(** replacing the channel found for [id] by one with the same descriptor *)
Lemma find_chan_upd : forall id cs i c c', find_chan id cs = Some (i, c) -> desc c' = desc c ->
  forall id', find_chan id' (upd_nth i (fun _ => c') cs) =
              if (id' =? id)%N then Some (i, c') else find_chan id' cs.
Proof.
  induction cs as [|c0 t IH]; intros i c c' H Hd id'; cbn [find_chan] in H; [discriminate|].
  destruct (ch_id (desc c0) =? id)%N eqn:E.
  - inversion H; subst i c. cbn [upd_nth find_chan]. rewrite Hd.
    apply N.eqb_eq in E. rewrite E.
    destruct (id' =? id)%N eqn:E'.
    + apply N.eqb_eq in E'. subst id'. rewrite N.eqb_refl. reflexivity.
    + rewrite N.eqb_sym. rewrite E'. reflexivity.
  - destruct (find_chan id t) as [[i0 c1]|] eqn:F; [|discriminate].
    inversion H; subst i c. cbn [upd_nth find_chan].
    rewrite (IH i0 c1 c' eq_refl Hd id').
    destruct (id' =? id)%N eqn:E'.
    + apply N.eqb_eq in E'. subst id'. rewrite E. reflexivity.
    + reflexivity.
Qed.

(** what a successful iteration of recvRoutine does to the receiver state *)
Lemma recv_packet_inv : forall maxsize cs p cs' ev,
  recv_packet maxsize cs p = inl (cs', ev) ->
  length (enc_packet p) <= maxsize /\
  match p with
  | PktMsg ch eof data =>
      exists i c, find_chan (byte_of_int32 ch) cs = Some (i, c) /\
        (N.of_nat (length (recving c) + length data) <= ch_recvcap (desc c))%N /\
        cs' = upd_nth i (fun _ => upd_recving c (if eof then [] else recving c ++ data)) cs /\
        ev = if eof then Some (Deliver (byte_of_int32 ch) (recving c ++ data)) else None
  | _ => cs' = cs /\ ev = None
  end.
Proof.
  intros maxsize cs p cs' ev H. unfold recv_packet in H.
  destruct (maxsize <? length (enc_packet p)) eqn:Es; [discriminate|].
  apply Nat.ltb_ge in Es. split; [assumption|].
  destruct p as [| |ch eof data].
  - inversion H. split; reflexivity.
  - inversion H. split; reflexivity.
  - destruct (find_chan (byte_of_int32 ch) cs) as [[i c]|] eqn:F; [|discriminate].
    unfold recv_packet_msg in H.
    destruct (ch_recvcap (desc c) <? N.of_nat (length (recving c) + length data))%N eqn:Ec;
      [discriminate|].
    apply N.ltb_ge in Ec. exists i, c. split; [reflexivity|]. split; [assumption|].
    destruct eof; inversion H; split; reflexivity.
Qed.

Lemma recv_packet_step : forall maxsize cs p cs' ev,
  recv_packet maxsize cs p = inl (cs', ev) ->
  forall id,
  match find_chan id cs with
  | None => find_chan id cs' = None
  | Some (i, c) =>
      exists c', find_chan id cs' = Some (i, c') /\ desc c' = desc c /\
        forall rest,
          chan_run (ch_recvcap (desc c)) (recving c) (proj id (p :: rest)) =
          let '(ms, o) := chan_run (ch_recvcap (desc c)) (recving c') (proj id rest) in
          (events_of id (evl ev) ++ ms, o)
  end.
Proof.
  intros maxsize cs p cs' ev H id.
  apply recv_packet_inv in H. destruct H as [_ H].
  destruct p as [| |ch eof data].
  - destruct H as [-> ->]. destruct (find_chan id cs) as [[i c]|]; [|reflexivity].
    exists c. split; [reflexivity|]. split; [reflexivity|]. intros rest.
    rewrite proj_cons_ping. cbn [evl events_of flat_map app].
    destruct (chan_run (ch_recvcap (desc c)) (recving c) (proj id rest)); reflexivity.
  - destruct H as [-> ->]. destruct (find_chan id cs) as [[i c]|]; [|reflexivity].
    exists c. split; [reflexivity|]. split; [reflexivity|]. intros rest.
    rewrite proj_cons_pong. cbn [evl events_of flat_map app].
    destruct (chan_run (ch_recvcap (desc c)) (recving c) (proj id rest)); reflexivity.
  - destruct H as (i0 & c0 & F0 & Hcap & -> & ->).
    set (id0 := byte_of_int32 ch) in *.
    set (c0' := upd_recving c0 (if eof then [] else recving c0 ++ data)).
    assert (Hd : desc c0' = desc c0) by reflexivity.
    pose proof (find_chan_upd id0 cs i0 c0 c0' F0 Hd id) as U.
    destruct (id =? id0)%N eqn:E.
    + apply N.eqb_eq in E. subst id. rewrite F0.
      exists c0'. split; [assumption|]. split; [assumption|]. intros rest.
      rewrite proj_cons_msg. fold id0. rewrite N.eqb_refl.
      cbn [chan_run].
      apply N.ltb_ge in Hcap. rewrite Hcap.
      destruct eof.
      * cbn [evl]. rewrite events_of_one. rewrite N.eqb_refl.
        unfold c0'. cbn [upd_recving recving].
        destruct (chan_run (ch_recvcap (desc c0)) [] (proj id0 rest)). reflexivity.
      * cbn [evl events_of flat_map app].
        unfold c0'. cbn [upd_recving recving].
        destruct (chan_run (ch_recvcap (desc c0)) (recving c0 ++ data) (proj id0 rest)).
        reflexivity.
    + rewrite U. destruct (find_chan id cs) as [[i c]|]; [|reflexivity].
      exists c. split; [reflexivity|]. split; [reflexivity|]. intros rest.
      rewrite proj_cons_msg. fold id0. rewrite N.eqb_sym. rewrite E.
      assert (Hev : events_of id (evl (if eof then Some (Deliver id0 (recving c0 ++ data)) else None)) = []).
      { destruct eof; [|reflexivity]. cbn [evl]. rewrite events_of_one.
        rewrite N.eqb_sym. rewrite E. reflexivity. }
      rewrite Hev. cbn [app].
      destruct (chan_run (ch_recvcap (desc c)) (recving c) (proj id rest)); reflexivity.
Qed.

Lemma recv_stream_cons_ok : forall maxsize cs p rest cs' ev,
  recv_packet maxsize cs p = inl (cs', ev) ->
  recv_stream maxsize cs (p :: rest) =
  (evl ev ++ fst (recv_stream maxsize cs' rest), snd (recv_stream maxsize cs' rest)).
Proof.
  intros maxsize cs p rest cs' ev H. cbn [recv_stream]. rewrite H.
  destruct (recv_stream maxsize cs' rest) as [evs r]. destruct ev; reflexivity.
Qed.

(** (a1) every channel's deliveries are an initial part of what the channel alone would
    deliver; without error they are exactly that *)
Lemma recv_stream_chan : forall maxsize stream cs evs r,
  recv_stream maxsize cs stream = (evs, r) ->
  forall id i c, find_chan id cs = Some (i, c) ->
    (exists k, events_of id evs =
               firstn k (fst (chan_run (ch_recvcap (desc c)) (recving c) (proj id stream)))) /\
    (r = None -> exists r',
       chan_run (ch_recvcap (desc c)) (recving c) (proj id stream) = (events_of id evs, Some r')).
Proof.
  intros maxsize stream. induction stream as [|p rest IH]; intros cs evs r H id i c F.
  - cbn [recv_stream] in H. inversion H; subst. split.
    + exists 0. reflexivity.
    + intros _. exists (recving c). reflexivity.
  - destruct (recv_packet maxsize cs p) as [[cs' ev]|e] eqn:Hp.
    + rewrite (recv_stream_cons_ok _ _ _ _ _ _ Hp) in H.
      destruct (recv_stream maxsize cs' rest) as [evs' r'] eqn:Hr.
      cbn [fst snd] in H. inversion H; subst evs r. clear H.
      pose proof (recv_packet_step _ _ _ _ _ Hp id) as S. rewrite F in S.
      destruct S as (c' & F' & Hd & Hrun).
      rewrite Hrun. rewrite <- Hd.
      destruct (IH cs' evs' r' Hr id i c' F') as [[k Hk] Hnone].
      destruct (chan_run (ch_recvcap (desc c')) (recving c') (proj id rest)) as [ms o] eqn:Hc.
      cbn [fst] in *. rewrite events_of_app. split.
      * exists (length (events_of id (evl ev)) + k).
        rewrite firstn_app_2. rewrite Hk. reflexivity.
      * intros Hn. destruct (Hnone Hn) as [r2 Hr2]. inversion Hr2; subst.
        exists r2. reflexivity.
    + cbn [recv_stream] in H. rewrite Hp in H. inversion H; subst. split.
      * exists 0. reflexivity.
      * discriminate.
Qed.

(** (a2) progress: packets within the size limit, of known channels, each channel's own run
    free of capacity errors — then the receiver reports no error *)
Lemma recv_stream_progress : forall maxsize stream cs,
  (forall p, In p stream -> length (enc_packet p) <= maxsize) ->
  (forall p id, In p stream -> pkt_ch p = Some id -> find_chan id cs <> None) ->
  (forall id i c, find_chan id cs = Some (i, c) ->
     snd (chan_run (ch_recvcap (desc c)) (recving c) (proj id stream)) <> None) ->
  snd (recv_stream maxsize cs stream) = None.
Proof.
  intros maxsize stream. induction stream as [|p rest IH]; intros cs Hsz Hkn Hrun.
  - reflexivity.
  - assert (Hp : exists cs' ev, recv_packet maxsize cs p = inl (cs', ev)).
    { unfold recv_packet.
      assert (Hs : length (enc_packet p) <= maxsize) by (apply Hsz; left; reflexivity).
      apply Nat.ltb_ge in Hs. rewrite Hs.
      destruct p as [| |ch eof data]; [eexists; eexists; reflexivity ..|].
      destruct (find_chan (byte_of_int32 ch) cs) as [[i c]|] eqn:F.
      - pose proof (Hrun _ _ _ F) as R. rewrite proj_cons_msg in R. rewrite N.eqb_refl in R.
        cbn [chan_run] in R. unfold recv_packet_msg.
        destruct (ch_recvcap (desc c) <? N.of_nat (length (recving c) + length data))%N.
        + exfalso. apply R. reflexivity.
        + destruct eof; eexists; eexists; reflexivity.
      - exfalso. apply (Hkn (PktMsg ch eof data) (byte_of_int32 ch)); [left; reflexivity|reflexivity|assumption]. }
    destruct Hp as (cs' & ev & Hp).
    rewrite (recv_stream_cons_ok _ _ _ _ _ _ Hp). cbn [snd].
    pose proof (recv_packet_step _ _ _ _ _ Hp) as S.
    apply IH.
    + intros q Hq. apply Hsz. right. assumption.
    + intros q id Hq Hc. specialize (S id).
      pose proof (Hkn q id (or_intror Hq) Hc) as K.
      destruct (find_chan id cs) as [[i c]|]; [|congruence].
      destruct S as (c' & F' & _). rewrite F'. discriminate.
    + intros id i2 c2 F2. specialize (S id).
      destruct (find_chan id cs) as [[i c]|] eqn:F; [|congruence].
      destruct S as (c' & F' & Hd & Hr). rewrite F' in F2. inversion F2; subst i2 c2.
      pose proof (Hrun _ _ _ F) as R. rewrite Hr in R. rewrite Hd.
      destruct (chan_run (ch_recvcap (desc c)) (recving c') (proj id rest)) as [ms o].
      exact R.
Qed.

(* ------------------------------------------------------------------ *)
(** * (b) the packets of whole messages, one channel alone *)

Lemma chan_run_packetise : forall maxp id cap, 0 < maxp ->
  forall f m r rest, length m < f -> (N.of_nat (length r + length m) <= cap)%N ->
  chan_run cap r (packetise_fuel f id maxp m ++ rest) =
  let '(ms, o) := chan_run cap [] rest in ((r ++ m) :: ms, o).
Proof.
  intros maxp id cap Hp. induction f as [|f IH]; intros m r rest Hf Hcap; [lia|].
  cbn [packetise_fuel]. destruct (length m <=? maxp) eqn:E.
  - cbn [app chan_run]. apply N.ltb_ge in Hcap. rewrite Hcap. reflexivity.
  - apply Nat.leb_gt in E. cbn [app chan_run].
    assert (Hl : length (firstn maxp m) = maxp) by (apply firstn_length_le; lia).
    assert (Hc1 : (cap <? N.of_nat (length r + length (firstn maxp m)))%N = false).
    { apply N.ltb_ge. lia. }
    rewrite Hc1. rewrite IH.
    + rewrite <- app_assoc. rewrite firstn_skipn. reflexivity.
    + rewrite skipn_length. lia.
    + rewrite app_length. rewrite skipn_length. lia.
Qed.

Lemma chan_run_packetise_over : forall maxp id cap, 0 < maxp ->
  forall f m r rest, length m < f -> (cap < N.of_nat (length r + length m))%N ->
  chan_run cap r (packetise_fuel f id maxp m ++ rest) = ([], None).
Proof.
  intros maxp id cap Hp. induction f as [|f IH]; intros m r rest Hf Hcap; [lia|].
  cbn [packetise_fuel]. destruct (length m <=? maxp) eqn:E.
  - cbn [app chan_run]. apply N.ltb_lt in Hcap. rewrite Hcap. reflexivity.
  - apply Nat.leb_gt in E. cbn [app chan_run].
    destruct (cap <? N.of_nat (length r + length (firstn maxp m)))%N eqn:Ec; [reflexivity|].
    apply IH.
    + rewrite skipn_length. lia.
    + rewrite app_length. rewrite skipn_length.
      assert (Hl : length (firstn maxp m) = maxp) by (apply firstn_length_le; lia).
      lia.
Qed.

Lemma packets_of_cons : forall id maxp m t,
  packets_of id maxp (m :: t) = packetise id maxp m ++ packets_of id maxp t.
Proof. reflexivity. Qed.

Lemma chan_run_packets_of : forall maxp id cap, 0 < maxp ->
  forall msgs, (forall m, In m msgs -> (N.of_nat (length m) <= cap)%N) ->
  forall rest, chan_run cap [] (packets_of id maxp msgs ++ rest) =
               let '(ms, o) := chan_run cap [] rest in (msgs ++ ms, o).
Proof.
  intros maxp id cap Hp. induction msgs as [|m t IH]; intros Hall rest.
  - cbn [packets_of map concat app]. destruct (chan_run cap [] rest); reflexivity.
  - rewrite packets_of_cons. rewrite <- app_assoc. unfold packetise.
    rewrite chan_run_packetise.
    + rewrite IH by (intros m' Hm'; apply Hall; right; assumption).
      destruct (chan_run cap [] rest). reflexivity.
    + assumption.
    + lia.
    + cbn [length Nat.add]. apply Hall. left. reflexivity.
Qed.

Lemma chan_run_prefix_over : forall maxp id cap, 0 < maxp ->
  forall pre rest, chan_run cap [] rest = ([], None) ->
  exists k, chan_run cap [] (packets_of id maxp pre ++ rest) = (firstn k pre, None).
Proof.
  intros maxp id cap Hp. induction pre as [|m t IH]; intros rest Hrest.
  - exists 0. exact Hrest.
  - rewrite packets_of_cons. rewrite <- app_assoc. unfold packetise.
    destruct (cap <? N.of_nat (length m))%N eqn:E.
    + exists 0. apply chan_run_packetise_over; [assumption|lia|].
      apply N.ltb_lt in E. cbn [length Nat.add]. assumption.
    + destruct (IH rest Hrest) as [k Hk]. exists (S k).
      rewrite chan_run_packetise; [|assumption|lia|].
      * rewrite Hk. reflexivity.
      * apply N.ltb_ge in E. cbn [length Nat.add]. assumption.
Qed.

Lemma in_packetise_fuel : forall id maxp f m p, In p (packetise_fuel f id maxp m) ->
  exists eof data, p = PktMsg (Z.of_N id) eof data /\ length data <= maxp.
Proof.
  intros id maxp. induction f as [|f IH]; intros m p H; cbn [packetise_fuel] in H; [destruct H|].
  destruct (length m <=? maxp) eqn:E.
  - destruct H as [<-|[]]. apply Nat.leb_le in E. exists true, m. split; [reflexivity|assumption].
  - destruct H as [<-|H].
    + exists false, (firstn maxp m). split; [reflexivity|]. rewrite firstn_length. lia.
    + eapply IH. eassumption.
Qed.

Lemma in_packets_of : forall id maxp msgs p, In p (packets_of id maxp msgs) ->
  exists eof data, p = PktMsg (Z.of_N id) eof data /\ length data <= maxp.
Proof.
  intros id maxp msgs p H. unfold packets_of in H. apply in_concat in H.
  destruct H as (l & Hl & Hp). apply in_map_iff in Hl. destruct Hl as (m & <- & _).
  unfold packetise in Hp. eapply in_packetise_fuel. eassumption.
Qed.

Lemma find_chan_new : forall descs d, NoDup (map ch_id descs) -> In d descs ->
  exists i, find_chan (ch_id d) (map new_chan descs) = Some (i, new_chan d).
Proof.
  induction descs as [|d0 t IH]; intros d Hnd Hin; [destruct Hin|].
  cbn [map] in Hnd. inversion Hnd as [|x l Hnotin Hnd']; subst.
  cbn [map find_chan]. cbn [new_chan desc].
  destruct (ch_id d0 =? ch_id d)%N eqn:E.
  - apply N.eqb_eq in E. destruct Hin as [->|Hin]; [exists 0; reflexivity|].
    exfalso. apply Hnotin. rewrite E. apply in_map. assumption.
  - destruct Hin as [->|Hin]; [rewrite N.eqb_refl in E; discriminate|].
    destruct (IH d Hnd' Hin) as [i Hi]. rewrite Hi. exists (S i). reflexivity.
Qed.

Lemma find_chan_new_inv : forall descs id i c, find_chan id (map new_chan descs) = Some (i, c) ->
  exists d, In d descs /\ c = new_chan d /\ ch_id d = id.
Proof.
  intros descs id i c F. pose proof (find_chan_In _ _ _ _ F) as Hin.
  pose proof (find_chan_id _ _ _ _ F) as Hid.
  apply in_map_iff in Hin. destruct Hin as (d & <- & Hd). exists d.
  split; [assumption|]. split; [reflexivity|]. exact Hid.
Qed.

(* ------------------------------------------------------------------ *)
(** * 3. exactly once, any interleaving *)

Lemma msg_exactly_once : forall maxp descs (msgs : N -> list bytes) stream,
  0 < maxp ->
  NoDup (map ch_id descs) ->
  (forall d, In d descs -> (ch_id d < 256)%N) ->
  (forall d m, In d descs -> In m (msgs (ch_id d)) -> (N.of_nat (length m) <= ch_recvcap d)%N) ->
  known_channels descs stream ->
  (forall d, In d descs -> proj (ch_id d) stream = packets_of (ch_id d) maxp (msgs (ch_id d))) ->
  exists evs,
    recv_stream (max_packet_msg_size maxp) (map new_chan descs) stream = (evs, None) /\
    forall d, In d descs -> events_of (ch_id d) evs = msgs (ch_id d).
Proof.
  intros maxp descs msgs stream Hp Hnd Hid Hcap Hkn Hproj.
  assert (Hrun : forall d, In d descs ->
            chan_run (ch_recvcap d) [] (proj (ch_id d) stream) = (msgs (ch_id d), Some [])).
  { intros d Hd. rewrite (Hproj d Hd).
    rewrite <- (app_nil_r (packets_of (ch_id d) maxp (msgs (ch_id d)))).
    rewrite chan_run_packets_of; [|assumption|intros m Hm; apply Hcap; assumption].
    cbn [chan_run]. rewrite app_nil_r. reflexivity. }
  assert (Hok : snd (recv_stream (max_packet_msg_size maxp) (map new_chan descs) stream) = None).
  { apply recv_stream_progress.
    - intros p Hin. pose proof (max_packet_msg_size_ge maxp Hp) as Hge.
      destruct p as [| |ch eof data]; [cbn [enc_packet length]; lia ..|].
      destruct (Hkn _ _ Hin eq_refl) as (d & Hd & Hc).
      assert (Hin' : In (PktMsg ch eof data) (proj (ch_id d) stream)).
      { unfold proj. apply filter_In. split; [assumption|].
        cbn [pkt_ch]. apply N.eqb_eq. symmetry. assumption. }
      rewrite (Hproj d Hd) in Hin'. apply in_packets_of in Hin'.
      destruct Hin' as (eof' & data' & Heq & Hlen). rewrite Heq.
      apply packet_fits; [assumption|apply Hid; assumption|assumption].
    - intros p id Hin Hc. destruct (Hkn _ _ Hin Hc) as (d & Hd & <-).
      destruct (find_chan_new descs d Hnd Hd) as [i Hi]. rewrite Hi. discriminate.
    - intros id i c F. apply find_chan_new_inv in F. destruct F as (d & Hd & -> & <-).
      cbn [new_chan desc recving]. rewrite (Hrun d Hd). cbn [snd]. discriminate. }
  destruct (recv_stream (max_packet_msg_size maxp) (map new_chan descs) stream) as [evs r] eqn:Hr.
  cbn [snd] in Hok. subst r. exists evs. split; [reflexivity|].
  intros d Hd. destruct (find_chan_new descs d Hnd Hd) as [i Hi].
  destruct (recv_stream_chan _ _ _ _ _ Hr _ _ _ Hi) as [_ Hnone].
  destruct (Hnone eq_refl) as [r' Hr']. cbn [new_chan desc recving] in Hr'.
  rewrite (Hrun d Hd) in Hr'. inversion Hr'. reflexivity.
Qed.

(* ------------------------------------------------------------------ *)
(** * 4. a message over the receive capacity *)

Lemma oversize : forall maxp descs d stream pre m post evs r,
  0 < maxp ->
  NoDup (map ch_id descs) ->
  In d descs ->
  (ch_id d < 256)%N ->
  (ch_recvcap d < N.of_nat (length m))%N ->
  proj (ch_id d) stream = packets_of (ch_id d) maxp pre ++ packetise (ch_id d) maxp m ++ post ->
  recv_stream (max_packet_msg_size maxp) (map new_chan descs) stream = (evs, r) ->
  r <> None /\ exists k, events_of (ch_id d) evs = firstn k pre.
Proof.
  intros maxp descs d stream pre m post evs r Hp Hnd Hd _ Hover Hproj Hr.
  destruct (find_chan_new descs d Hnd Hd) as [i Hi].
  destruct (recv_stream_chan _ _ _ _ _ Hr _ _ _ Hi) as [[k Hk] Hnone].
  cbn [new_chan desc recving] in Hk, Hnone. rewrite Hproj in Hk, Hnone.
  assert (Hm : chan_run (ch_recvcap d) [] (packetise (ch_id d) maxp m ++ post) = ([], None)).
  { unfold packetise. apply chan_run_packetise_over; [assumption|lia|].
    cbn [length Nat.add]. assumption. }
  destruct (chan_run_prefix_over maxp (ch_id d) (ch_recvcap d) Hp pre _ Hm) as [k' Hk'].
  rewrite Hk' in Hk, Hnone. cbn [fst] in Hk. split.
  - intros Hn. destruct (Hnone Hn) as [r' Hr']. discriminate.
  - exists (Nat.min k k'). rewrite Hk. apply firstn_firstn.
Qed.

(* ------------------------------------------------------------------ *)
(** * 5. the sender loses an empty message queued next to other traffic *)

(** sendSomePacketMsgs/sendRoutine: call sendPacketMsg until it reports "exhausted";
    result: final channels, packets written (in order), whether exhaustion was reached
    within the fuel *)
Fixpoint drain (fuel : nat) (maxp : nat) (cs : list chan) : list chan * list packet * bool :=
  match fuel with
  | O => (cs, [], false)
  | S f =>
      let '(cs1, op, exhausted) := send_packet_msg maxp cs in
      if exhausted then (cs1, [], true)
      else let '(cs2, ps, done) := drain f maxp cs1 in
           (cs2, match op with Some p => p :: ps | None => ps end, done)
  end.

Definition ex_d1 : chdesc := {| ch_id := 1; ch_prio := 1; ch_sendcap := 10; ch_recvcap := 1000 |}.
Definition ex_d2 : chdesc := {| ch_id := 2; ch_prio := 1; ch_sendcap := 10; ch_recvcap := 1000 |}.
Definition ex_msg10 : bytes := [1; 2; 3; 4; 5; 6; 7; 8; 9; 10]%N.

(** A 10-byte message is queued on channel 1 and the empty message on channel 2 (both
    accepted).  Draining the sender to exhaustion emits the packet of channel 1 only: the
    empty message has been dequeued by isSendPending and then forgotten, it is never sent;
    sendQueueSize of channel 2 stays 1 for ever, so CanSend is false for ever. *)
Lemma empty_msg_lost_refuted :
  let '(c1, ok1) := try_send (new_chan ex_d1) ex_msg10 in
  let '(c2, ok2) := try_send (new_chan ex_d2) [] in
  let '(cs', ps, exhausted) := drain 100 1024 [c1; c2] in
  ok1 = true /\ ok2 = true /\ exhausted = true /\
  ps = [PktMsg 1 true ex_msg10] /\
  proj 2 ps = [] /\
  map queue cs' = [[]; []] /\ map sending cs' = [[]; []] /\
  map qsize cs' = [0%Z; 1%Z] /\
  map can_send cs' = [true; false] /\
  (* and it stays so: a further drain emits nothing *)
  drain 100 1024 cs' = (cs', [], true).
Proof. vm_compute. repeat split; reflexivity. Qed.

(** the empty message alone is sent (as one packet with EOF and no data) *)
Lemma empty_msg_alone_sent :
  let c1 := new_chan ex_d1 in
  let '(c2, ok2) := try_send (new_chan ex_d2) [] in
  let '(cs', ps, exhausted) := drain 100 1024 [c1; c2] in
  ok2 = true /\ exhausted = true /\ ps = [PktMsg 2 true []] /\
  map qsize cs' = [0%Z; 0%Z] /\ map can_send cs' = [true; true].
Proof. vm_compute. repeat split; reflexivity. Qed.

(* ------------------------------------------------------------------ *)
(** * 6. sender completeness: helpers *)

(* ------------------------------------------------------------------ *)
(** * list helpers *)

Lemma upd_nth_length : forall A (f : A -> A) l i, length (upd_nth i f l) = length l.
Proof.
  intros A f. induction l as [|x t IH]; intros i; destruct i; cbn [upd_nth length];
    try reflexivity. rewrite IH. reflexivity.
Qed.

Lemma nth_error_upd_nth_eq : forall A (f : A -> A) l i x,
  nth_error l i = Some x -> nth_error (upd_nth i f l) i = Some (f x).
Proof.
  intros A f. induction l as [|y t IH]; intros i x H; destruct i; cbn [nth_error] in H; try discriminate.
  - inversion H. reflexivity.
  - cbn [upd_nth nth_error]. apply IH. assumption.
Qed.

Lemma nth_error_upd_nth_neq : forall A (f : A -> A) l i j,
  j <> i -> nth_error (upd_nth i f l) j = nth_error l j.
Proof.
  intros A f. induction l as [|y t IH]; intros i j H;
    destruct i; destruct j; cbn [upd_nth nth_error]; try reflexivity; try lia.
  apply IH. lia.
Qed.

Lemma in_upd_nth : forall A (y : A) l i x, In x (upd_nth i (fun _ => y) l) -> x = y \/ In x l.
Proof.
  intros A y. induction l as [|z t IH]; intros i x H;
    [destruct i; destruct H|].
  destruct i; cbn [upd_nth] in H; destruct H as [<-|H].
  - left. reflexivity.
  - right. right. assumption.
  - right. left. reflexivity.
  - destruct (IH _ _ H) as [->|H']; [left; reflexivity|right; right; assumption].
Qed.

Lemma map_upd_nth_same : forall A B (g : A -> B) (y : A) l i x,
  nth_error l i = Some x -> g x = g y -> map g (upd_nth i (fun _ => y) l) = map g l.
Proof.
  intros A B g y. induction l as [|z t IH]; intros i x H Hg; [destruct i; discriminate|].
  destruct i; cbn [nth_error] in H; cbn [upd_nth map].
  - inversion H; subst. rewrite Hg. reflexivity.
  - rewrite (IH _ _ H Hg). reflexivity.
Qed.

Lemma byte_of_int32_of_N : forall id, (id < 256)%N -> byte_of_int32 (Z.of_N id) = id.
Proof.
  intros id H. unfold byte_of_int32. rewrite Z.mod_small by lia. apply N2Z.id.
Qed.

(* ------------------------------------------------------------------ *)
(** * one channel *)

Definition cid (c : chan) : N := ch_id (desc c).
Definition good (c : chan) : Prop := forall m, In m (queue c) -> m <> [].
Definition idle (c : chan) : Prop := queue c = [] /\ sending c = [].
(** messages counted in sendQueueSize: the one in progress and the queued ones *)
Definition owed (c : chan) : Z :=
  ((match sending c with [] => 0 | _ => 1 end) + Z.of_nat (length (queue c)))%Z.
Definition bal (c : chan) : Z := (qsize c - owed c)%Z.
Definition cur (maxp : nat) (id : N) (s : bytes) : list packet :=
  match s with [] => [] | _ => packetise id maxp s end.
(** the packets the channel still has to emit *)
Definition pend (maxp : nat) (c : chan) : list packet :=
  cur maxp (cid c) (sending c) ++ packets_of (cid c) maxp (queue c).
Definition isp (c : chan) : chan := snd (is_send_pending c).
Definition bump (n : Z) (c : chan) : chan :=
  upd_send c (queue c) (qsize c) (sending c) (recently_sent c + n)%Z.

Definition rel (maxp : nat) (c c1 : chan) (ps : list packet) : Prop :=
  desc c1 = desc c /\ good c1 /\ bal c1 = bal c /\ pend maxp c = ps ++ pend maxp c1.

Lemma packetise_fuel_indep : forall id maxp, 0 < maxp -> forall f f' m,
  length m < f -> length m < f' -> packetise_fuel f id maxp m = packetise_fuel f' id maxp m.
Proof.
  intros id maxp Hp. induction f as [|f IH]; intros f' m H H'; [lia|].
  destruct f' as [|f']; [lia|]. cbn [packetise_fuel].
  destruct (length m <=? maxp) eqn:E; [reflexivity|].
  apply Nat.leb_gt in E. f_equal. apply IH; rewrite skipn_length; lia.
Qed.

Lemma isp_rel : forall maxp c, good c ->
  rel maxp c (isp c) [] /\
  (fst (is_send_pending c) = true -> sending (isp c) <> []) /\
  (fst (is_send_pending c) = false -> idle c /\ isp c = c).
Proof.
  intros maxp c Hg. unfold isp, is_send_pending.
  destruct (sending c) as [|b s] eqn:Es.
  - destruct (queue c) as [|m q] eqn:Eq; cbn [fst snd].
    + split; [|split].
      * split; [reflexivity|]. split; [assumption|]. split; reflexivity.
      * discriminate.
      * intros _. split; [split; assumption|reflexivity].
    + assert (Hm : m <> []) by (apply Hg; rewrite Eq; left; reflexivity).
      split; [|split].
      * split; [reflexivity|]. split; [|split].
        -- intros m' Hm'. cbn [upd_send queue] in Hm'. apply Hg. rewrite Eq. right. assumption.
        -- unfold bal, owed. cbn [upd_send queue sending qsize]. rewrite Es, Eq.
           destruct m as [|b t]; [congruence|]. cbn [length]. lia.
        -- unfold pend, cid. cbn [upd_send queue sending desc app]. rewrite Es, Eq.
           destruct m as [|b t]; [congruence|]. reflexivity.
      * intros _. cbn [upd_send sending]. assumption.
      * discriminate.
  - cbn [fst snd]. split; [|split].
    + split; [reflexivity|]. split; [assumption|]. split; reflexivity.
    + intros _. rewrite Es. discriminate.
    + discriminate.
Qed.

Lemma cur_ne : forall maxp id s, s <> [] -> cur maxp id s = packetise id maxp s.
Proof. intros maxp id [|b t] H; [congruence|reflexivity]. Qed.

Lemma owed_ne : forall c, sending c <> [] -> owed c = (1 + Z.of_nat (length (queue c)))%Z.
Proof. intros c H. unfold owed. destruct (sending c); [congruence|reflexivity]. Qed.

Lemma owed_nil : forall c, sending c = [] -> owed c = Z.of_nat (length (queue c)).
Proof. intros c H. unfold owed. rewrite H. lia. Qed.

Lemma next_rel : forall maxp c n p c', 0 < maxp -> good c -> sending c <> [] ->
  next_packet maxp c = (p, c') ->
  rel maxp c (bump n c') [p] /\ exists eof data, p = PktMsg (Z.of_N (cid c)) eof data.
Proof.
  intros maxp c n p c' Hp Hg Hs H. unfold next_packet in H. cbv zeta in H.
  destruct (length (sending c) <=? maxp) eqn:E; inversion H; subst p c'; clear H.
  - apply Nat.leb_le in E. rewrite Nat.min_r by assumption. rewrite firstn_all.
    split; [|eexists; eexists; reflexivity].
    split; [reflexivity|]. split; [exact Hg|]. split.
    + unfold bal. rewrite (owed_ne c Hs). rewrite owed_nil by reflexivity.
      unfold bump. cbn [upd_send queue qsize]. lia.
    + unfold pend. rewrite (cur_ne _ _ _ Hs). unfold cid, bump.
      cbn [upd_send queue sending desc cur app]. unfold packetise. cbn [packetise_fuel].
      apply Nat.leb_le in E. rewrite E. reflexivity.
  - apply Nat.leb_gt in E. rewrite Nat.min_l by lia.
    split; [|eexists; eexists; reflexivity].
    assert (Hsk : length (skipn maxp (sending c)) = length (sending c) - maxp) by apply skipn_length.
    assert (Hne2 : skipn maxp (sending c) <> []).
    { intros Heq. rewrite Heq in Hsk. cbn [length] in Hsk. lia. }
    split; [reflexivity|]. split; [exact Hg|]. split.
    + unfold bal. rewrite (owed_ne c Hs).
      rewrite (owed_ne (bump n (upd_send c (queue c) (qsize c) (skipn maxp (sending c)) (recently_sent c))) Hne2).
      unfold bump. cbn [upd_send queue qsize]. lia.
    + unfold pend. rewrite (cur_ne _ _ _ Hs). unfold cid, bump.
      cbn [upd_send queue sending desc]. rewrite (cur_ne _ _ _ Hne2).
      unfold packetise at 1. cbn [packetise_fuel].
      apply Nat.leb_gt in E. rewrite E. cbn [app]. f_equal. f_equal.
      unfold packetise. apply Nat.leb_gt in E.
      apply packetise_fuel_indep; [assumption|lia|lia].
Qed.

Lemma rel_trans : forall maxp a b c ps qs,
  rel maxp a b ps -> rel maxp b c qs -> rel maxp a c (ps ++ qs).
Proof.
  intros maxp a b c ps qs (D1 & G1 & B1 & P1) (D2 & G2 & B2 & P2).
  split; [congruence|]. split; [assumption|]. split; [congruence|].
  rewrite P1, P2. apply app_assoc.
Qed.

(* ------------------------------------------------------------------ *)
(** * selection and one sendPacketMsg *)

Lemma select_loop_spec : forall cs idx best cs1 r, select_loop cs idx best = (cs1, r) ->
  cs1 = map isp cs /\
  match r with
  | Some i => (exists br, best = Some (i, br)) \/
              (idx <= i /\ exists c, nth_error cs (i - idx) = Some c /\ fst (is_send_pending c) = true)
  | None => best = None /\ forall c, In c cs -> fst (is_send_pending c) = false
  end.
Proof.
  induction cs as [|c rest IH]; intros idx best cs1 r H; cbn [select_loop] in H.
  - inversion H; subst. split; [reflexivity|]. destruct best as [[i br]|].
    + left. eexists. reflexivity.
    + split; [reflexivity|]. intros c [].
  - destruct (is_send_pending c) as [pending c'] eqn:Hc. cbv zeta in H.
    match type of H with context [select_loop rest (S idx) ?b] => remember b as best' eqn:Hb end.
    destruct (select_loop rest (S idx) best') as [rest' r'] eqn:Hr.
    inversion H; subst cs1 r. clear H.
    apply IH in Hr. destruct Hr as [-> Hr]. split.
    { cbn [map]. change (isp c) with (snd (is_send_pending c)). rewrite Hc. reflexivity. }
    destruct r' as [i|].
    + destruct Hr as [[br Hbr]|[Hle (c2 & Hn & Hp2)]].
      * subst best'. destruct pending.
        -- destruct best as [[bi bbr]|].
           ++ match type of Hbr with context [f32_lt ?a ?b] => destruct (f32_lt a b) end.
              ** inversion Hbr; subst. right. split; [lia|]. exists c.
                 rewrite Nat.sub_diag. split; [reflexivity|]. rewrite Hc. reflexivity.
              ** left. eexists. eassumption.
           ++ inversion Hbr; subst. right. split; [lia|]. exists c.
              rewrite Nat.sub_diag. split; [reflexivity|]. rewrite Hc. reflexivity.
        -- left. eexists. eassumption.
      * right. split; [lia|]. exists c2.
        replace (i - idx) with (S (i - S idx)) by lia. cbn [nth_error]. split; assumption.
    + destruct Hr as [Hnone Hall]. subst best'. destruct pending.
      * destruct best as [[bi bbr]|]; [|discriminate].
        match type of Hnone with context [f32_lt ?a ?b] => destruct (f32_lt a b) end; discriminate.
      * split; [assumption|]. intros c2 [<-|Hin]; [rewrite Hc; reflexivity|].
        apply Hall. assumption.
Qed.

Lemma send_cases : forall maxp cs cs' op ex, send_packet_msg maxp cs = (cs', op, ex) ->
  (ex = true /\ op = None /\ cs' = map isp cs /\
   forall c, In c cs -> fst (is_send_pending c) = false) \/
  (ex = false /\ exists i ci n p c',
     nth_error cs i = Some ci /\ fst (is_send_pending ci) = true /\
     next_packet maxp (isp ci) = (p, c') /\ op = Some p /\
     cs' = upd_nth i (fun _ => bump n c') (map isp cs)).
Proof.
  intros maxp cs cs' op ex H. unfold send_packet_msg in H.
  destruct (select_loop cs 0 None) as [cs1 sel] eqn:Hs.
  apply select_loop_spec in Hs. destruct Hs as [-> Hs].
  destruct sel as [i|].
  - destruct Hs as [[br Hbr]|[_ (ci & Hi & Hpend)]]; [discriminate|].
    rewrite Nat.sub_0_r in Hi.
    rewrite (map_nth_error isp _ _ Hi) in H.
    destruct (next_packet maxp (isp ci)) as [p c'] eqn:Hn.
    inversion H; subst. right. split; [reflexivity|].
    eexists i, ci, _, p, c'. repeat split; eassumption.
  - destruct Hs as [_ Hall]. inversion H; subst. left. repeat split. assumption.
Qed.

(* ------------------------------------------------------------------ *)
(** * draining *)

Fixpoint total (maxp : nat) (cs : list chan) : nat :=
  match cs with [] => 0 | c :: t => length (pend maxp c) + total maxp t end.

Lemma total_map_isp : forall maxp cs, (forall c, In c cs -> good c) ->
  total maxp (map isp cs) = total maxp cs.
Proof.
  intros maxp. induction cs as [|c t IH]; intros Hg; [reflexivity|].
  cbn [map total]. rewrite IH by (intros; apply Hg; right; assumption).
  destruct (isp_rel maxp c (Hg c (or_introl eq_refl))) as [(_ & _ & _ & P) _].
  rewrite P. reflexivity.
Qed.

Lemma total_upd : forall maxp y l i x, nth_error l i = Some x ->
  length (pend maxp x) = S (length (pend maxp y)) ->
  S (total maxp (upd_nth i (fun _ => y) l)) = total maxp l.
Proof.
  intros maxp y. induction l as [|z t IH]; intros i x H Hl; destruct i; cbn [nth_error] in H;
    try discriminate.
  - inversion H; subst. cbn [upd_nth total]. lia.
  - cbn [upd_nth total]. rewrite <- (IH _ _ H Hl). lia.
Qed.

Lemma idle_pend : forall maxp c, idle c -> pend maxp c = [].
Proof. intros maxp c [Hq Hs]. unfold pend. rewrite Hq, Hs. reflexivity. Qed.

Lemma drain_spec : forall maxp ds, 0 < maxp ->
  NoDup (map ch_id ds) -> (forall d, In d ds -> (ch_id d < 256)%N) ->
  forall fuel cs, map desc cs = ds -> (forall c, In c cs -> good c) -> total maxp cs < fuel ->
  exists cs' ps, drain fuel maxp cs = (cs', ps, true) /\ length cs' = length cs /\
    forall j c, nth_error cs j = Some c ->
      exists c', nth_error cs' j = Some c' /\ desc c' = desc c /\ bal c' = bal c /\ idle c' /\
                 proj (cid c) ps = pend maxp c.
Proof.
  intros maxp ds Hp Hnd H256. induction fuel as [|fuel IH]; intros cs Hds Hgood Htot; [lia|].
  cbn [drain]. destruct (send_packet_msg maxp cs) as [[cs1 op] ex] eqn:Hs.
  apply send_cases in Hs.
  destruct Hs as [(-> & -> & -> & Hnp)|(-> & i & ci & n & p & c' & Hi & Hpend & Hnext & -> & ->)].
  - exists (map isp cs), []. split; [reflexivity|]. split; [apply map_length|].
    intros j c Hj. exists (isp c). split; [apply map_nth_error; assumption|].
    assert (Hin : In c cs) by (eapply nth_error_In; eassumption).
    destruct (isp_rel maxp c (Hgood c Hin)) as (_ & _ & Hidle).
    destruct (Hidle (Hnp c Hin)) as [Hid ->].
    split; [reflexivity|]. split; [reflexivity|]. split; [assumption|].
    rewrite idle_pend by assumption. reflexivity.
  - assert (Hini : In ci cs) by (eapply nth_error_In; eassumption).
    destruct (isp_rel maxp ci (Hgood ci Hini)) as (R1 & Hne & _).
    specialize (Hne Hpend).
    assert (Hg1 : good (isp ci)) by (destruct R1 as (_ & G & _); exact G).
    destruct (next_rel maxp (isp ci) n p c' Hp Hg1 Hne Hnext) as (R2 & eof & data & Hpk).
    pose proof (rel_trans _ _ _ _ _ _ R1 R2) as R. cbn [app] in R.
    set (c'' := bump n c') in *.
    set (cs1 := upd_nth i (fun _ => c'') (map isp cs)).
    assert (Hi1 : nth_error (map isp cs) i = Some (isp ci)) by (apply map_nth_error; assumption).
    assert (Hds1 : map desc cs1 = ds).
    { unfold cs1. rewrite (map_upd_nth_same _ _ desc c'' _ _ _ Hi1).
      - rewrite map_map. rewrite <- Hds. apply map_ext_in. intros a Ha.
        destruct (isp_rel maxp a (Hgood a Ha)) as ((D & _) & _). exact D.
      - destruct R2 as (D & _). symmetry. exact D. }
    assert (Hgood1 : forall c, In c cs1 -> good c).
    { intros c Hc. apply in_upd_nth in Hc. destruct Hc as [->|Hc].
      - destruct R as (_ & G & _). exact G.
      - apply in_map_iff in Hc. destruct Hc as (a & <- & Ha).
        destruct (isp_rel maxp a (Hgood a Ha)) as ((_ & G & _) & _). exact G. }
    assert (Htot1 : total maxp cs1 < fuel).
    { assert (S (total maxp cs1) = total maxp (map isp cs)).
      { unfold cs1. apply (total_upd maxp c'' _ _ _ Hi1).
        destruct R2 as (_ & _ & _ & P). rewrite P. reflexivity. }
      rewrite total_map_isp in H by assumption. lia. }
    destruct (IH cs1 Hds1 Hgood1 Htot1) as (cs' & ps' & Hd & Hlen & Hall).
    rewrite Hd. exists cs', (p :: ps'). split; [reflexivity|]. split.
    { rewrite Hlen. unfold cs1. rewrite upd_nth_length. apply map_length. }
    intros j c Hj.
    assert (Hinc : In c cs) by (eapply nth_error_In; eassumption).
    destruct (Nat.eq_dec j i) as [->|Hji].
    + rewrite Hi in Hj. inversion Hj; subst c. clear Hj.
      assert (H1 : nth_error cs1 i = Some c'').
      { unfold cs1. apply (nth_error_upd_nth_eq _ (fun _ => c'') _ _ _ Hi1). }
      destruct (Hall _ _ H1) as (cf & Hcf & Dcf & Bcf & Icf & Pcf).
      destruct R as (D & G & B & P).
      exists cf. split; [assumption|]. split; [congruence|]. split; [congruence|].
      split; [assumption|].
      assert (Hcid : cid c'' = cid ci) by (unfold cid; rewrite D; reflexivity).
      assert (Hcid1 : cid (isp ci) = cid ci).
      { unfold cid. destruct R1 as (D1 & _). rewrite D1. reflexivity. }
      rewrite Hcid1 in Hpk. rewrite P. rewrite Hpk. rewrite proj_cons_msg.
      rewrite byte_of_int32_of_N.
      * rewrite N.eqb_refl. rewrite <- Hpk. cbn [app]. f_equal. rewrite <- Hcid. exact Pcf.
      * apply H256. rewrite <- Hds. apply in_map. assumption.
    + assert (H1 : nth_error cs1 j = Some (isp c)).
      { unfold cs1. rewrite nth_error_upd_nth_neq by assumption. apply map_nth_error. assumption. }
      destruct (Hall _ _ H1) as (cf & Hcf & Dcf & Bcf & Icf & Pcf).
      destruct (isp_rel maxp c (Hgood c Hinc)) as ((D & G & B & P) & _).
      exists cf. split; [assumption|]. split; [congruence|]. split; [congruence|].
      split; [assumption|].
      assert (Hcid : cid (isp c) = cid c) by (unfold cid; rewrite D; reflexivity).
      assert (Hcid1 : cid (isp ci) = cid ci).
      { unfold cid. destruct R1 as (D1 & _). rewrite D1. reflexivity. }
      rewrite Hcid1 in Hpk. rewrite P. cbn [app]. rewrite Hpk. rewrite proj_cons_msg.
      rewrite byte_of_int32_of_N by (apply H256; rewrite <- Hds; apply in_map; assumption).
      assert (Hneq : (cid ci =? cid c)%N = false).
      { apply N.eqb_neq. intros Heq. apply Hji.
        assert (Hl : j < length (map ch_id ds)).
        { rewrite map_length. rewrite <- Hds. rewrite map_length.
          apply nth_error_Some. congruence. }
        apply (proj1 (NoDup_nth_error (map ch_id ds)) Hnd j i Hl).
        rewrite <- Hds. rewrite map_map.
        rewrite (map_nth_error (fun x => ch_id (desc x)) _ _ Hj).
        rewrite (map_nth_error (fun x => ch_id (desc x)) _ _ Hi).
        unfold cid in Heq. rewrite Heq. reflexivity. }
      rewrite Hneq. rewrite <- Hcid. exact Pcf.
Qed.

Lemma total_not_sending : forall maxp cs, (forall c, In c cs -> sending c = []) ->
  total maxp cs =
  length (concat (map (fun c => packets_of (ch_id (desc c)) maxp (queue c)) cs)).
Proof.
  intros maxp. induction cs as [|c t IH]; intros Hs; [reflexivity|].
  cbn [total map concat]. rewrite app_length.
  rewrite IH by (intros; apply Hs; right; assumption).
  unfold pend. rewrite (Hs c (or_introl eq_refl)). reflexivity.
Qed.

Lemma map_eq_pointwise : forall A B (g : A -> B) l l', length l' = length l ->
  (forall j x, nth_error l j = Some x -> exists x', nth_error l' j = Some x' /\ g x' = g x) ->
  map g l' = map g l.
Proof.
  intros A B g. induction l as [|x t IH]; intros l' Hlen Hall.
  - destruct l'; [reflexivity|discriminate].
  - destruct l' as [|x' t']; [discriminate|]. cbn [map].
    destruct (Hall 0 x eq_refl) as (y & Hy & Hg). cbn [nth_error] in Hy. inversion Hy; subst y.
    rewrite Hg. f_equal. apply IH.
    + cbn [length] in Hlen. lia.
    + intros j z Hz. apply (Hall (S j) z). exact Hz.
Qed.

(** * 6. sender completeness for non-empty messages

    Channels with distinct byte ids, nothing in progress, every queued message non-empty:
    calling sendPacketMsg until exhaustion (any fuel above the number of packets to emit)
    does reach exhaustion; whatever the interleaving chosen by the least-ratio selection,
    the packets written, projected on each channel, are exactly the packets of that channel's
    queued messages in order; every queue ends empty with nothing in progress, and
    sendQueueSize has gone down by the number of messages that were queued. *)
Lemma sender_emits_all : forall maxp cs fuel,
  0 < maxp ->
  NoDup (map (fun c => ch_id (desc c)) cs) ->
  (forall c, In c cs -> (ch_id (desc c) < 256)%N) ->
  (forall c m, In c cs -> In m (queue c) -> m <> []) ->
  (forall c, In c cs -> sending c = []) ->
  length (concat (map (fun c => packets_of (ch_id (desc c)) maxp (queue c)) cs)) < fuel ->
  exists cs' ps,
    drain fuel maxp cs = (cs', ps, true) /\
    map desc cs' = map desc cs /\
    (forall c', In c' cs' -> queue c' = [] /\ sending c' = []) /\
    (forall c, In c cs ->
       proj (ch_id (desc c)) ps = packets_of (ch_id (desc c)) maxp (queue c)) /\
    (forall j c c', nth_error cs j = Some c -> nth_error cs' j = Some c' ->
       qsize c' = (qsize c - Z.of_nat (length (queue c)))%Z).
Proof.
  intros maxp cs fuel Hp Hnd H256 Hne Hns Hfuel.
  assert (Hnd' : NoDup (map ch_id (map desc cs))) by (rewrite map_map; exact Hnd).
  assert (H256' : forall d, In d (map desc cs) -> (ch_id d < 256)%N).
  { intros d Hd. apply in_map_iff in Hd. destruct Hd as (c & <- & Hc). apply H256. assumption. }
  assert (Hgood : forall c, In c cs -> good c).
  { intros c Hc m Hm. eapply Hne; eassumption. }
  assert (Htot : total maxp cs < fuel) by (rewrite total_not_sending; assumption).
  destruct (drain_spec maxp (map desc cs) Hp Hnd' H256' fuel cs eq_refl Hgood Htot)
    as (cs' & ps & Hd & Hlen & Hall).
  exists cs', ps. split; [assumption|]. split; [|split; [|split]].
  - apply map_eq_pointwise; [assumption|]. intros j c Hj.
    destruct (Hall j c Hj) as (c' & Hc' & D & _). exists c'. split; assumption.
  - intros c' Hin. apply In_nth_error in Hin. destruct Hin as [j Hj].
    assert (Hlt : j < length cs) by (rewrite <- Hlen; apply nth_error_Some; congruence).
    destruct (nth_error cs j) as [c|] eqn:Hc; [|apply nth_error_None in Hc; lia].
    destruct (Hall j c Hc) as (c2 & Hc2 & _ & _ & I & _).
    rewrite Hj in Hc2. inversion Hc2; subst c2. exact I.
  - intros c Hin. apply In_nth_error in Hin. destruct Hin as [j Hj].
    destruct (Hall j c Hj) as (c2 & _ & _ & _ & _ & P).
    unfold cid in P. rewrite P. unfold pend.
    rewrite (Hns c (nth_error_In _ _ Hj)). reflexivity.
  - intros j c c' Hj Hj'. destruct (Hall j c Hj) as (c2 & Hc2 & _ & B & [Iq Is] & _).
    rewrite Hj' in Hc2. inversion Hc2; subst c2.
    unfold bal in B. rewrite (owed_nil c' Is) in B. rewrite Iq in B.
    rewrite (owed_nil c (Hns c (nth_error_In _ _ Hj))) in B. cbn [length] in B. lia.
Qed.

(* ------------------------------------------------------------------ *)
(** * the hypotheses of the theorems are satisfiable *)

Definition ex_msgs (id : N) : list bytes :=
  if (id =? 1)%N then [ex_msg10; [7%N]]
  else if (id =? 2)%N then [[]; [5; 5; 5; 5; 5]%N] else [].

(** two channels, payload 4, interleaved with each other and with ping/pong *)
Definition ex_stream : list packet :=
  [PktPing;
   PktMsg 1 false [1; 2; 3; 4]%N;
   PktMsg 2 true [];
   PktMsg 2 false [5; 5; 5; 5]%N;
   PktMsg 1 false [5; 6; 7; 8]%N;
   PktPong;
   PktMsg 1 true [9; 10]%N;
   PktMsg 2 true [5%N];
   PktMsg 1 true [7%N]].

Example msg_exactly_once_example :
  exists evs,
    recv_stream (max_packet_msg_size 4) (map new_chan [ex_d1; ex_d2]) ex_stream = (evs, None) /\
    forall d, In d [ex_d1; ex_d2] -> events_of (ch_id d) evs = ex_msgs (ch_id d).
Proof.
  apply msg_exactly_once.
  - lia.
  - constructor; [intros [H|[]]; discriminate|]. constructor; [intros []|]. constructor.
  - intros d [<-|[<-|[]]]; reflexivity.
  - intros d m [<-|[<-|[]]] Hm; vm_compute in Hm; destruct Hm as [<-|[<-|[]]];
      vm_compute; discriminate.
  - intros p c Hin Hc. unfold ex_stream in Hin. cbn [In] in Hin.
    repeat (destruct Hin as [<-|Hin]; [cbn [pkt_ch] in Hc; try discriminate; inversion Hc;
      first [ exists ex_d1; split; [left; reflexivity|reflexivity]
            | exists ex_d2; split; [right; left; reflexivity|reflexivity] ] |]).
    destruct Hin.
  - intros d [<-|[<-|[]]]; vm_compute; reflexivity.
Qed.

Example oversize_example :
  let d := {| ch_id := 1; ch_prio := 1; ch_sendcap := 10; ch_recvcap := 3 |} in
  let stream := packets_of 1 2 [[9%N]] ++ [PktPing] ++ packetise 1 2 [1; 2; 3; 4; 5]%N in
  forall evs r,
    recv_stream (max_packet_msg_size 2) (map new_chan [d; ex_d2]) stream = (evs, r) ->
    r <> None /\ exists k, events_of 1 evs = firstn k [[9%N]].
Proof.
  intros d stream evs r H.
  apply (oversize 2 [d; ex_d2] d stream [[9%N]] [1; 2; 3; 4; 5]%N [] evs r).
  - lia.
  - constructor; [intros [H0|[]]; discriminate|]. constructor; [intros []|]. constructor.
  - left. reflexivity.
  - reflexivity.
  - reflexivity.
  - vm_compute. reflexivity.
  - exact H.
Qed.

Example sender_emits_all_example :
  let '(c1, _) := try_send (new_chan ex_d1) ex_msg10 in
  let '(c2, _) := try_send (new_chan ex_d2) [5; 5; 5; 5; 5]%N in
  exists cs' ps,
    drain 10 4 [c1; c2] = (cs', ps, true) /\
    proj 1 ps = packets_of 1 4 [ex_msg10] /\ proj 2 ps = packets_of 2 4 [[5; 5; 5; 5; 5]%N] /\
    map qsize cs' = [0%Z; 0%Z].
Proof. vm_compute. eexists. eexists. repeat split; reflexivity. Qed.
