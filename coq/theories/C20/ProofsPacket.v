(** C20 — packet layer: identity of the authenticated peer, packet size bound, exactly-once
    reassembly under any interleaving, capacity errors, and the empty-message defect of the
    sender (by computation). *)
From Coq Require Import List ZArith NArith Bool Arith Lia.
From Kardia Require Import Generated.C20Facts C20.Model C20.Spec.
Import ListNotations.

(* ------------------------------------------------------------------ *)
(** * 1. identity *)

Lemma identity : forall ch claimed s r,
  verify_auth ch claimed s = HOk r -> r = claimed /\ s = SigOf claimed ch.
Proof.
  intros ch claimed s r H. unfold verify_auth in H.
  destruct s as [signer msg|]; [|discriminate].
  destruct (signer =? claimed)%N eqn:E1; destruct (msg =? ch)%N eqn:E2;
    cbn [andb] in H; try discriminate.
  apply N.eqb_eq in E1. apply N.eqb_eq in E2. subst. inversion H. split; reflexivity.
Qed.

(* ------------------------------------------------------------------ *)
(** * 2. packet size *)

Lemma varint_fuel_mono : forall f v w, (v <= w)%N ->
  length (varint_fuel f v) <= length (varint_fuel f w).
Proof.
  induction f as [|f IH]; intros v w Hvw; cbn [varint_fuel]; [lia|].
  destruct (v <? 128)%N eqn:Ev; destruct (w <? 128)%N eqn:Ew; cbn [length]; try lia.
  - apply N.ltb_lt in Ew. apply N.ltb_ge in Ev. lia.
  - apply le_n_S. apply IH. apply N.div_le_mono; lia.
Qed.

Lemma varint_mono : forall v w, (v <= w)%N -> length (varint v) <= length (varint w).
Proof. intros. unfold varint. apply varint_fuel_mono. assumption. Qed.

Lemma varint_small : forall v, (v < 128)%N -> varint v = [v].
Proof.
  intros v H. unfold varint. cbn [varint_fuel].
  apply N.ltb_lt in H. rewrite H. reflexivity.
Qed.

Lemma u64_of_int32_of_N : forall id, u64_of_int32 (Z.of_N id) = id.
Proof.
  intros id. unfold u64_of_int32.
  destruct (Z.of_N id <? 0)%Z eqn:E.
  - apply Z.ltb_lt in E. lia.
  - apply N2Z.id.
Qed.

Lemma enc_msg_length : forall ch eof data,
  length (enc_msg ch eof data) =
  length (if (ch =? 0)%Z then [] else 8%N :: varint (u64_of_int32 ch)) +
  (length (if eof then [16%N; 1%N] else []) +
   length (match data with [] => [] | _ => 26%N :: varint (N.of_nat (length data)) ++ data end)).
Proof. intros. unfold enc_msg. rewrite !app_length. reflexivity. Qed.

Lemma enc_msg_ref_length : forall maxp, 0 < maxp ->
  length (enc_msg 1 true (repeat 0%N maxp)) = 5 + length (varint (N.of_nat maxp)) + maxp.
Proof.
  intros maxp H. rewrite enc_msg_length.
  change (1 =? 0)%Z with false. cbv iota.
  change (u64_of_int32 1) with 1%N.
  rewrite (varint_small 1) by lia.
  destruct maxp as [|k]; [lia|].
  cbn [repeat]. change (0%N :: repeat 0%N k) with (repeat 0%N (S k)).
  cbn [length]. rewrite app_length. rewrite repeat_length. cbn [length]. lia.
Qed.

Lemma enc_msg_len_le : forall maxp id eof data,
  0 < maxp -> (id < 128)%N -> length data <= maxp ->
  length (enc_msg (Z.of_N id) eof data) <= length (enc_msg 1 true (repeat 0%N maxp)).
Proof.
  intros maxp id eof data Hp Hid Hd.
  rewrite enc_msg_ref_length by assumption. rewrite enc_msg_length.
  assert (H1 : length (if (Z.of_N id =? 0)%Z then [] else 8%N :: varint (u64_of_int32 (Z.of_N id))) <= 2).
  { destruct (Z.of_N id =? 0)%Z; cbn [length]; [lia|].
    rewrite u64_of_int32_of_N. rewrite varint_small by assumption. cbn [length]. lia. }
  assert (H2 : length (if eof then [16%N; 1%N] else []) <= 2).
  { destruct eof; cbn [length]; lia. }
  assert (H3 : length (match data with [] => [] | _ => 26%N :: varint (N.of_nat (length data)) ++ data end)
               <= 1 + length (varint (N.of_nat maxp)) + maxp).
  { destruct data as [|b t]; [cbn [length]; lia|].
    set (d := b :: t) in *. cbn [length]. rewrite app_length.
    assert (length (varint (N.of_nat (length d))) <= length (varint (N.of_nat maxp))).
    { apply varint_mono. lia. }
    lia. }
  lia.
Qed.

Lemma packet_fits : forall maxp id eof data,
  0 < maxp -> (id < 128)%N -> length data <= maxp ->
  length (enc_packet (PktMsg (Z.of_N id) eof data)) <= max_packet_msg_size maxp.
Proof.
  intros maxp id eof data Hp Hid Hd.
  unfold max_packet_msg_size, enc_packet.
  pose proof (enc_msg_len_le maxp id eof data Hp Hid Hd) as Hle.
  set (m := enc_msg (Z.of_N id) eof data) in *.
  set (m0 := enc_msg 1 true (repeat 0%N maxp)) in *.
  cbn [length]. rewrite !app_length.
  assert (length (varint (N.of_nat (length m))) <= length (varint (N.of_nat (length m0)))).
  { apply varint_mono. lia. }
  lia.
Qed.

Lemma max_packet_msg_size_ge : forall maxp, 0 < maxp -> 7 <= max_packet_msg_size maxp.
Proof.
  intros maxp Hp. unfold max_packet_msg_size, enc_packet.
  cbn [length]. rewrite app_length. rewrite enc_msg_ref_length by assumption. lia.
Qed.

Lemma packet_fits_refuted_high_id :
  exists data, length data <= 1024 /\
    max_packet_msg_size 1024 < length (enc_packet (PktMsg 128 true data)).
Proof.
  exists (repeat 0%N 1024). split.
  - rewrite repeat_length. lia.
  - vm_compute. lia.
Qed.

Lemma high_id_rejected : forall cs,
  recv_packet (max_packet_msg_size 1024) cs (PktMsg 128 true (repeat 0%N 1024)) = inr MTooBig.
Proof.
  intros cs. unfold recv_packet.
  replace (max_packet_msg_size 1024 <? length (enc_packet (PktMsg 128 true (repeat 0%N 1024))))
    with true by (vm_compute; reflexivity).
  reflexivity.
Qed.

(* ------------------------------------------------------------------ *)
(** * 3/4. reassembly: one channel seen alone *)

(** Feeding one channel's packets to recvPacketMsg starting from [recving = r]:
    the messages delivered, and the final [recving] ([None]: stopped by a capacity error). *)
Fixpoint chan_run (cap : N) (r : bytes) (ps : list packet) : list bytes * option bytes :=
  match ps with
  | [] => ([], Some r)
  | PktMsg _ eof data :: rest =>
      if (cap <? N.of_nat (length r + length data))%N then ([], None)
      else if eof then let '(ms, o) := chan_run cap [] rest in ((r ++ data) :: ms, o)
           else chan_run cap (r ++ data) rest
  | _ :: rest => chan_run cap r rest
  end.

Definition evl (ev : option mevent) : list mevent :=
  match ev with Some e => [e] | None => [] end.

Lemma proj_cons_msg : forall id ch eof data rest,
  proj id (PktMsg ch eof data :: rest) =
  if (byte_of_int32 ch =? id)%N then PktMsg ch eof data :: proj id rest else proj id rest.
Proof. reflexivity. Qed.

Lemma proj_cons_ping : forall id rest, proj id (PktPing :: rest) = proj id rest.
Proof. reflexivity. Qed.

Lemma proj_cons_pong : forall id rest, proj id (PktPong :: rest) = proj id rest.
Proof. reflexivity. Qed.

Lemma events_of_app : forall id a b, events_of id (a ++ b) = events_of id a ++ events_of id b.
Proof. intros. unfold events_of. apply flat_map_app. Qed.

Lemma events_of_one : forall id c m,
  events_of id [Deliver c m] = if (c =? id)%N then [m] else [].
Proof. intros. unfold events_of. cbn [flat_map]. apply app_nil_r. Qed.

Lemma find_chan_id : forall id cs i c, find_chan id cs = Some (i, c) -> ch_id (desc c) = id.
Proof.
  induction cs as [|c0 t IH]; intros i c H; cbn [find_chan] in H; [discriminate|].
  destruct (ch_id (desc c0) =? id)%N eqn:E.
  - inversion H; subst. apply N.eqb_eq. assumption.
  - destruct (find_chan id t) as [[i' c']|] eqn:F; [|discriminate].
    inversion H; subst. eapply IH. reflexivity.
Qed.

Lemma find_chan_In : forall id cs i c, find_chan id cs = Some (i, c) -> In c cs.
Proof.
  induction cs as [|c0 t IH]; intros i c H; cbn [find_chan] in H; [discriminate|].
  destruct (ch_id (desc c0) =? id)%N eqn:E.
  - inversion H; subst. left. reflexivity.
  - destruct (find_chan id t) as [[i' c']|] eqn:F; [|discriminate].
    inversion H; subst. right. eapply IH. reflexivity.
Qed.

(** replacing the channel found for [id] by one with the same descriptor *)
Lemma find_chan_upd : forall id cs i c c', find_chan id cs = Some (i, c) -> desc c' = desc c ->
  forall id', find_chan id' (upd_nth i (fun _ => c') cs) =
              if (id' =? id)%N then Some (i, c') else find_chan id' cs.
Proof.
  induction cs as [|c0 t IH]; intros i c c' H Hd id'; cbn [find_chan] in H; [discriminate|].
  destruct (ch_id (desc c0) =? id)%N eqn:E.
  - inversion H; subst i c. cbn [upd_nth find_chan]. rewrite Hd.
    apply N.eqb_eq in E. rewrite E.
    destruct (id' =? id)%N eqn:E'.
    + apply N.eqb_eq in E'. subst id'. rewrite N.eqb_refl. reflexivity.
    + rewrite N.eqb_sym. rewrite E'. reflexivity.
  - destruct (find_chan id t) as [[i0 c1]|] eqn:F; [|discriminate].
    inversion H; subst i c. cbn [upd_nth find_chan].
    rewrite (IH i0 c1 c' eq_refl Hd id').
    destruct (id' =? id)%N eqn:E'.
    + apply N.eqb_eq in E'. subst id'. rewrite E. reflexivity.
    + reflexivity.
Qed.

(** what a successful iteration of recvRoutine does to the receiver state *)
Lemma recv_packet_inv : forall maxsize cs p cs' ev,
  recv_packet maxsize cs p = inl (cs', ev) ->
  length (enc_packet p) <= maxsize /\
  match p with
  | PktMsg ch eof data =>
      exists i c, find_chan (byte_of_int32 ch) cs = Some (i, c) /\
        (N.of_nat (length (recving c) + length data) <= ch_recvcap (desc c))%N /\
        cs' = upd_nth i (fun _ => upd_recving c (if eof then [] else recving c ++ data)) cs /\
        ev = if eof then Some (Deliver (byte_of_int32 ch) (recving c ++ data)) else None
  | _ => cs' = cs /\ ev = None
  end.
Proof.
  intros maxsize cs p cs' ev H. unfold recv_packet in H.
  destruct (maxsize <? length (enc_packet p)) eqn:Es; [discriminate|].
  apply Nat.ltb_ge in Es. split; [assumption|].
  destruct p as [| |ch eof data].
  - inversion H. split; reflexivity.
  - inversion H. split; reflexivity.
  - destruct (find_chan (byte_of_int32 ch) cs) as [[i c]|] eqn:F; [|discriminate].
    unfold recv_packet_msg in H.
    destruct (ch_recvcap (desc c) <? N.of_nat (length (recving c) + length data))%N eqn:Ec;
      [discriminate|].
    apply N.ltb_ge in Ec. exists i, c. split; [reflexivity|]. split; [assumption|].
    destruct eof; inversion H; split; reflexivity.
Qed.

Lemma recv_packet_step : forall maxsize cs p cs' ev,
  recv_packet maxsize cs p = inl (cs', ev) ->
  forall id,
  match find_chan id cs with
  | None => find_chan id cs' = None
  | Some (i, c) =>
      exists c', find_chan id cs' = Some (i, c') /\ desc c' = desc c /\
        forall rest,
          chan_run (ch_recvcap (desc c)) (recving c) (proj id (p :: rest)) =
          let '(ms, o) := chan_run (ch_recvcap (desc c)) (recving c') (proj id rest) in
          (events_of id (evl ev) ++ ms, o)
  end.
Proof.
  intros maxsize cs p cs' ev H id.
  apply recv_packet_inv in H. destruct H as [_ H].
  destruct p as [| |ch eof data].
  - destruct H as [-> ->]. destruct (find_chan id cs) as [[i c]|]; [|reflexivity].
    exists c. split; [reflexivity|]. split; [reflexivity|]. intros rest.
    rewrite proj_cons_ping. cbn [evl events_of flat_map app].
    destruct (chan_run (ch_recvcap (desc c)) (recving c) (proj id rest)); reflexivity.
  - destruct H as [-> ->]. destruct (find_chan id cs) as [[i c]|]; [|reflexivity].
    exists c. split; [reflexivity|]. split; [reflexivity|]. intros rest.
    rewrite proj_cons_pong. cbn [evl events_of flat_map app].
    destruct (chan_run (ch_recvcap (desc c)) (recving c) (proj id rest)); reflexivity.
  - destruct H as (i0 & c0 & F0 & Hcap & -> & ->).
    set (id0 := byte_of_int32 ch) in *.
    set (c0' := upd_recving c0 (if eof then [] else recving c0 ++ data)).
    assert (Hd : desc c0' = desc c0) by reflexivity.
    pose proof (find_chan_upd id0 cs i0 c0 c0' F0 Hd id) as U.
    destruct (id =? id0)%N eqn:E.
    + apply N.eqb_eq in E. subst id. rewrite F0.
      exists c0'. split; [assumption|]. split; [assumption|]. intros rest.
      rewrite proj_cons_msg. fold id0. rewrite N.eqb_refl.
      cbn [chan_run].
      apply N.ltb_ge in Hcap. rewrite Hcap.
      destruct eof.
      * cbn [evl]. rewrite events_of_one. rewrite N.eqb_refl.
        unfold c0'. cbn [upd_recving recving].
        destruct (chan_run (ch_recvcap (desc c0)) [] (proj id0 rest)). reflexivity.
      * cbn [evl events_of flat_map app].
        unfold c0'. cbn [upd_recving recving].
        destruct (chan_run (ch_recvcap (desc c0)) (recving c0 ++ data) (proj id0 rest)).
        reflexivity.
    + rewrite U. destruct (find_chan id cs) as [[i c]|]; [|reflexivity].
      exists c. split; [reflexivity|]. split; [reflexivity|]. intros rest.
      rewrite proj_cons_msg. fold id0. rewrite N.eqb_sym. rewrite E.
      assert (Hev : events_of id (evl (if eof then Some (Deliver id0 (recving c0 ++ data)) else None)) = []).
      { destruct eof; [|reflexivity]. cbn [evl]. rewrite events_of_one.
        rewrite N.eqb_sym. rewrite E. reflexivity. }
      rewrite Hev. cbn [app].
      destruct (chan_run (ch_recvcap (desc c)) (recving c) (proj id rest)); reflexivity.
Qed.

Lemma recv_stream_cons_ok : forall maxsize cs p rest cs' ev,
  recv_packet maxsize cs p = inl (cs', ev) ->
  recv_stream maxsize cs (p :: rest) =
  (evl ev ++ fst (recv_stream maxsize cs' rest), snd (recv_stream maxsize cs' rest)).
Proof.
  intros maxsize cs p rest cs' ev H. cbn [recv_stream]. rewrite H.
  destruct (recv_stream maxsize cs' rest) as [evs r]. destruct ev; reflexivity.
Qed.

(** (a1) every channel's deliveries are an initial part of what the channel alone would
    deliver; without error they are exactly that *)
Lemma recv_stream_chan : forall maxsize stream cs evs r,
  recv_stream maxsize cs stream = (evs, r) ->
  forall id i c, find_chan id cs = Some (i, c) ->
    (exists k, events_of id evs =
               firstn k (fst (chan_run (ch_recvcap (desc c)) (recving c) (proj id stream)))) /\
    (r = None -> exists r',
       chan_run (ch_recvcap (desc c)) (recving c) (proj id stream) = (events_of id evs, Some r')).
Proof.
  intros maxsize stream. induction stream as [|p rest IH]; intros cs evs r H id i c F.
  - cbn [recv_stream] in H. inversion H; subst. split.
    + exists 0. reflexivity.
    + intros _. exists (recving c). reflexivity.
  - destruct (recv_packet maxsize cs p) as [[cs' ev]|e] eqn:Hp.
    + rewrite (recv_stream_cons_ok _ _ _ _ _ _ Hp) in H.
      destruct (recv_stream maxsize cs' rest) as [evs' r'] eqn:Hr.
      cbn [fst snd] in H. inversion H; subst evs r. clear H.
      pose proof (recv_packet_step _ _ _ _ _ Hp id) as S. rewrite F in S.
      destruct S as (c' & F' & Hd & Hrun).
      rewrite Hrun. rewrite <- Hd.
      destruct (IH cs' evs' r' Hr id i c' F') as [[k Hk] Hnone].
      destruct (chan_run (ch_recvcap (desc c')) (recving c') (proj id rest)) as [ms o] eqn:Hc.
      cbn [fst] in *. rewrite events_of_app. split.
      * exists (length (events_of id (evl ev)) + k).
        rewrite firstn_app_2. rewrite Hk. reflexivity.
      * intros Hn. destruct (Hnone Hn) as [r2 Hr2]. inversion Hr2; subst.
        exists r2. reflexivity.
    + cbn [recv_stream] in H. rewrite Hp in H. inversion H; subst. split.
      * exists 0. reflexivity.
      * discriminate.
Qed.

(** (a2) progress: packets within the size limit, of known channels, each channel's own run
    free of capacity errors — then the receiver reports no error *)
Lemma recv_stream_progress : forall maxsize stream cs,
  (forall p, In p stream -> length (enc_packet p) <= maxsize) ->
  (forall p id, In p stream -> pkt_ch p = Some id -> find_chan id cs <> None) ->
  (forall id i c, find_chan id cs = Some (i, c) ->
     snd (chan_run (ch_recvcap (desc c)) (recving c) (proj id stream)) <> None) ->
  snd (recv_stream maxsize cs stream) = None.
Proof.
  intros maxsize stream. induction stream as [|p rest IH]; intros cs Hsz Hkn Hrun.
  - reflexivity.
  - assert (Hp : exists cs' ev, recv_packet maxsize cs p = inl (cs', ev)).
    { unfold recv_packet.
      assert (Hs : length (enc_packet p) <= maxsize) by (apply Hsz; left; reflexivity).
      apply Nat.ltb_ge in Hs. rewrite Hs.
      destruct p as [| |ch eof data]; [eexists; eexists; reflexivity ..|].
      destruct (find_chan (byte_of_int32 ch) cs) as [[i c]|] eqn:F.
      - pose proof (Hrun _ _ _ F) as R. rewrite proj_cons_msg in R. rewrite N.eqb_refl in R.
        cbn [chan_run] in R. unfold recv_packet_msg.
        destruct (ch_recvcap (desc c) <? N.of_nat (length (recving c) + length data))%N.
        + exfalso. apply R. reflexivity.
        + destruct eof; eexists; eexists; reflexivity.
      - exfalso. apply (Hkn (PktMsg ch eof data) (byte_of_int32 ch)); [left; reflexivity|reflexivity|assumption]. }
    destruct Hp as (cs' & ev & Hp).
    rewrite (recv_stream_cons_ok _ _ _ _ _ _ Hp). cbn [snd].
    pose proof (recv_packet_step _ _ _ _ _ Hp) as S.
    apply IH.
    + intros q Hq. apply Hsz. right. assumption.
    + intros q id Hq Hc. specialize (S id).
      pose proof (Hkn q id (or_intror Hq) Hc) as K.
      destruct (find_chan id cs) as [[i c]|]; [|congruence].
      destruct S as (c' & F' & _). rewrite F'. discriminate.
    + intros id i2 c2 F2. specialize (S id).
      destruct (find_chan id cs) as [[i c]|] eqn:F; [|congruence].
      destruct S as (c' & F' & Hd & Hr). rewrite F' in F2. inversion F2; subst i2 c2.
      pose proof (Hrun _ _ _ F) as R. rewrite Hr in R. rewrite Hd.
      destruct (chan_run (ch_recvcap (desc c)) (recving c') (proj id rest)) as [ms o].
      exact R.
Qed.

(* ------------------------------------------------------------------ *)
(** * (b) the packets of whole messages, one channel alone *)

Lemma chan_run_packetise : forall maxp id cap, 0 < maxp ->
  forall f m r rest, length m < f -> (N.of_nat (length r + length m) <= cap)%N ->
  chan_run cap r (packetise_fuel f id maxp m ++ rest) =
  let '(ms, o) := chan_run cap [] rest in ((r ++ m) :: ms, o).
Proof.
  intros maxp id cap Hp. induction f as [|f IH]; intros m r rest Hf Hcap; [lia|].
  cbn [packetise_fuel]. destruct (length m <=? maxp) eqn:E.
  - cbn [app chan_run]. apply N.ltb_ge in Hcap. rewrite Hcap. reflexivity.
  - apply Nat.leb_gt in E. cbn [app chan_run].
    assert (Hl : length (firstn maxp m) = maxp) by (apply firstn_length_le; lia).
    assert (Hc1 : (cap <? N.of_nat (length r + length (firstn maxp m)))%N = false).
    { apply N.ltb_ge. lia. }
    rewrite Hc1. rewrite IH.
    + rewrite <- app_assoc. rewrite firstn_skipn. reflexivity.
    + rewrite skipn_length. lia.
    + rewrite app_length. rewrite skipn_length. lia.
Qed.

Lemma chan_run_packetise_over : forall maxp id cap, 0 < maxp ->
  forall f m r rest, length m < f -> (cap < N.of_nat (length r + length m))%N ->
  chan_run cap r (packetise_fuel f id maxp m ++ rest) = ([], None).
Proof.
  intros maxp id cap Hp. induction f as [|f IH]; intros m r rest Hf Hcap; [lia|].
  cbn [packetise_fuel]. destruct (length m <=? maxp) eqn:E.
  - cbn [app chan_run]. apply N.ltb_lt in Hcap. rewrite Hcap. reflexivity.
  - apply Nat.leb_gt in E. cbn [app chan_run].
    destruct (cap <? N.of_nat (length r + length (firstn maxp m)))%N eqn:Ec; [reflexivity|].
    apply IH.
    + rewrite skipn_length. lia.
    + rewrite app_length. rewrite skipn_length.
      assert (Hl : length (firstn maxp m) = maxp) by (apply firstn_length_le; lia).
      lia.
Qed.

Lemma packets_of_cons : forall id maxp m t,
  packets_of id maxp (m :: t) = packetise id maxp m ++ packets_of id maxp t.
Proof. reflexivity. Qed.

Lemma chan_run_packets_of : forall maxp id cap, 0 < maxp ->
  forall msgs, (forall m, In m msgs -> (N.of_nat (length m) <= cap)%N) ->
  forall rest, chan_run cap [] (packets_of id maxp msgs ++ rest) =
               let '(ms, o) := chan_run cap [] rest in (msgs ++ ms, o).
Proof.
  intros maxp id cap Hp. induction msgs as [|m t IH]; intros Hall rest.
  - cbn [packets_of map concat app]. destruct (chan_run cap [] rest); reflexivity.
  - rewrite packets_of_cons. rewrite <- app_assoc. unfold packetise.
    rewrite chan_run_packetise.
    + rewrite IH by (intros m' Hm'; apply Hall; right; assumption).
      destruct (chan_run cap [] rest). reflexivity.
    + assumption.
    + lia.
    + cbn [length Nat.add]. apply Hall. left. reflexivity.
Qed.

Lemma chan_run_prefix_over : forall maxp id cap, 0 < maxp ->
  forall pre rest, chan_run cap [] rest = ([], None) ->
  exists k, chan_run cap [] (packets_of id maxp pre ++ rest) = (firstn k pre, None).
Proof.
  intros maxp id cap Hp. induction pre as [|m t IH]; intros rest Hrest.
  - exists 0. exact Hrest.
  - rewrite packets_of_cons. rewrite <- app_assoc. unfold packetise.
    destruct (cap <? N.of_nat (length m))%N eqn:E.
    + exists 0. apply chan_run_packetise_over; [assumption|lia|].
      apply N.ltb_lt in E. cbn [length Nat.add]. assumption.
    + destruct (IH rest Hrest) as [k Hk]. exists (S k).
      rewrite chan_run_packetise; [|assumption|lia|].
      * rewrite Hk. reflexivity.
      * apply N.ltb_ge in E. cbn [length Nat.add]. assumption.
Qed.

Lemma in_packetise_fuel : forall id maxp f m p, In p (packetise_fuel f id maxp m) ->
  exists eof data, p = PktMsg (Z.of_N id) eof data /\ length data <= maxp.
Proof.
  intros id maxp. induction f as [|f IH]; intros m p H; cbn [packetise_fuel] in H; [destruct H|].
  destruct (length m <=? maxp) eqn:E.
  - destruct H as [<-|[]]. apply Nat.leb_le in E. exists true, m. split; [reflexivity|assumption].
  - destruct H as [<-|H].
    + exists false, (firstn maxp m). split; [reflexivity|]. rewrite firstn_length. lia.
    + eapply IH. eassumption.
Qed.

Lemma in_packets_of : forall id maxp msgs p, In p (packets_of id maxp msgs) ->
  exists eof data, p = PktMsg (Z.of_N id) eof data /\ length data <= maxp.
Proof.
  intros id maxp msgs p H. unfold packets_of in H. apply in_concat in H.
  destruct H as (l & Hl & Hp). apply in_map_iff in Hl. destruct Hl as (m & <- & _).
  unfold packetise in Hp. eapply in_packetise_fuel. eassumption.
Qed.

Lemma find_chan_new : forall descs d, NoDup (map ch_id descs) -> In d descs ->
  exists i, find_chan (ch_id d) (map new_chan descs) = Some (i, new_chan d).
Proof.
  induction descs as [|d0 t IH]; intros d Hnd Hin; [destruct Hin|].
  cbn [map] in Hnd. inversion Hnd as [|x l Hnotin Hnd']; subst.
  cbn [map find_chan]. cbn [new_chan desc].
  destruct (ch_id d0 =? ch_id d)%N eqn:E.
  - apply N.eqb_eq in E. destruct Hin as [->|Hin]; [exists 0; reflexivity|].
    exfalso. apply Hnotin. rewrite E. apply in_map. assumption.
  - destruct Hin as [->|Hin]; [rewrite N.eqb_refl in E; discriminate|].
    destruct (IH d Hnd' Hin) as [i Hi]. rewrite Hi. exists (S i). reflexivity.
Qed.

Lemma find_chan_new_inv : forall descs id i c, find_chan id (map new_chan descs) = Some (i, c) ->
  exists d, In d descs /\ c = new_chan d /\ ch_id d = id.
Proof.
  intros descs id i c F. pose proof (find_chan_In _ _ _ _ F) as Hin.
  pose proof (find_chan_id _ _ _ _ F) as Hid.
  apply in_map_iff in Hin. destruct Hin as (d & <- & Hd). exists d.
  split; [assumption|]. split; [reflexivity|]. exact Hid.
Qed.

(* ------------------------------------------------------------------ *)
(** * 3. exactly once, any interleaving *)

Lemma msg_exactly_once : forall maxp descs (msgs : N -> list bytes) stream,
  0 < maxp ->
  NoDup (map ch_id descs) ->
  (forall d, In d descs -> (ch_id d < 128)%N) ->
  (forall d m, In d descs -> In m (msgs (ch_id d)) -> (N.of_nat (length m) <= ch_recvcap d)%N) ->
  known_channels descs stream ->
  (forall d, In d descs -> proj (ch_id d) stream = packets_of (ch_id d) maxp (msgs (ch_id d))) ->
  exists evs,
    recv_stream (max_packet_msg_size maxp) (map new_chan descs) stream = (evs, None) /\
    forall d, In d descs -> events_of (ch_id d) evs = msgs (ch_id d).
Proof.
  intros maxp descs msgs stream Hp Hnd Hid Hcap Hkn Hproj.
  assert (Hrun : forall d, In d descs ->
            chan_run (ch_recvcap d) [] (proj (ch_id d) stream) = (msgs (ch_id d), Some [])).
  { intros d Hd. rewrite (Hproj d Hd).
    rewrite <- (app_nil_r (packets_of (ch_id d) maxp (msgs (ch_id d)))).
    rewrite chan_run_packets_of; [|assumption|intros m Hm; apply Hcap; assumption].
    cbn [chan_run]. rewrite app_nil_r. reflexivity. }
  assert (Hok : snd (recv_stream (max_packet_msg_size maxp) (map new_chan descs) stream) = None).
  { apply recv_stream_progress.
    - intros p Hin. pose proof (max_packet_msg_size_ge maxp Hp) as Hge.
      destruct p as [| |ch eof data]; [cbn [enc_packet length]; lia ..|].
      destruct (Hkn _ _ Hin eq_refl) as (d & Hd & Hc).
      assert (Hin' : In (PktMsg ch eof data) (proj (ch_id d) stream)).
      { unfold proj. apply filter_In. split; [assumption|].
        cbn [pkt_ch]. apply N.eqb_eq. symmetry. assumption. }
      rewrite (Hproj d Hd) in Hin'. apply in_packets_of in Hin'.
      destruct Hin' as (eof' & data' & Heq & Hlen). rewrite Heq.
      apply packet_fits; [assumption|apply Hid; assumption|assumption].
    - intros p id Hin Hc. destruct (Hkn _ _ Hin Hc) as (d & Hd & <-).
      destruct (find_chan_new descs d Hnd Hd) as [i Hi]. rewrite Hi. discriminate.
    - intros id i c F. apply find_chan_new_inv in F. destruct F as (d & Hd & -> & <-).
      cbn [new_chan desc recving]. rewrite (Hrun d Hd). cbn [snd]. discriminate. }
  destruct (recv_stream (max_packet_msg_size maxp) (map new_chan descs) stream) as [evs r] eqn:Hr.
  cbn [snd] in Hok. subst r. exists evs. split; [reflexivity|].
  intros d Hd. destruct (find_chan_new descs d Hnd Hd) as [i Hi].
  destruct (recv_stream_chan _ _ _ _ _ Hr _ _ _ Hi) as [_ Hnone].
  destruct (Hnone eq_refl) as [r' Hr']. cbn [new_chan desc recving] in Hr'.
  rewrite (Hrun d Hd) in Hr'. inversion Hr'. reflexivity.
Qed.

(* ------------------------------------------------------------------ *)
(** * 4. a message over the receive capacity *)

Lemma oversize : forall maxp descs d stream pre m post evs r,
  0 < maxp ->
  NoDup (map ch_id descs) ->
  In d descs ->
  (ch_id d < 256)%N ->
  (ch_recvcap d < N.of_nat (length m))%N ->
  proj (ch_id d) stream = packets_of (ch_id d) maxp pre ++ packetise (ch_id d) maxp m ++ post ->
  recv_stream (max_packet_msg_size maxp) (map new_chan descs) stream = (evs, r) ->
  r <> None /\ exists k, events_of (ch_id d) evs = firstn k pre.
Proof.
  intros maxp descs d stream pre m post evs r Hp Hnd Hd _ Hover Hproj Hr.
  destruct (find_chan_new descs d Hnd Hd) as [i Hi].
  destruct (recv_stream_chan _ _ _ _ _ Hr _ _ _ Hi) as [[k Hk] Hnone].
  cbn [new_chan desc recving] in Hk, Hnone. rewrite Hproj in Hk, Hnone.
  assert (Hm : chan_run (ch_recvcap d) [] (packetise (ch_id d) maxp m ++ post) = ([], None)).
  { unfold packetise. apply chan_run_packetise_over; [assumption|lia|].
    cbn [length Nat.add]. assumption. }
  destruct (chan_run_prefix_over maxp (ch_id d) (ch_recvcap d) Hp pre _ Hm) as [k' Hk'].
  rewrite Hk' in Hk, Hnone. cbn [fst] in Hk. split.
  - intros Hn. destruct (Hnone Hn) as [r' Hr']. discriminate.
  - exists (Nat.min k k'). rewrite Hk. apply firstn_firstn.
Qed.

(* ------------------------------------------------------------------ *)
(** * 5. the sender loses an empty message queued next to other traffic *)

(** sendSomePacketMsgs/sendRoutine: call sendPacketMsg until it reports "exhausted";
    result: final channels, packets written (in order), whether exhaustion was reached
    within the fuel *)
Fixpoint drain (fuel : nat) (maxp : nat) (cs : list chan) : list chan * list packet * bool :=
  match fuel with
  | O => (cs, [], false)
  | S f =>
      let '(cs1, op, exhausted) := send_packet_msg maxp cs in
      if exhausted then (cs1, [], true)
      else let '(cs2, ps, done) := drain f maxp cs1 in
           (cs2, match op with Some p => p :: ps | None => ps end, done)
  end.

Definition ex_d1 : chdesc := {| ch_id := 1; ch_prio := 1; ch_sendcap := 10; ch_recvcap := 1000 |}.
Definition ex_d2 : chdesc := {| ch_id := 2; ch_prio := 1; ch_sendcap := 10; ch_recvcap := 1000 |}.
Definition ex_msg10 : bytes := [1; 2; 3; 4; 5; 6; 7; 8; 9; 10]%N.

(** A 10-byte message is queued on channel 1 and the empty message on channel 2 (both
    accepted).  Draining the sender to exhaustion emits the packet of channel 1 only: the
    empty message has been dequeued by isSendPending and then forgotten, it is never sent;
    sendQueueSize of channel 2 stays 1 for ever, so CanSend is false for ever. *)
Lemma empty_msg_lost_refuted :
  let '(c1, ok1) := try_send (new_chan ex_d1) ex_msg10 in
  let '(c2, ok2) := try_send (new_chan ex_d2) [] in
  let '(cs', ps, exhausted) := drain 100 1024 [c1; c2] in
  ok1 = true /\ ok2 = true /\ exhausted = true /\
  ps = [PktMsg 1 true ex_msg10] /\
  proj 2 ps = [] /\
  map queue cs' = [[]; []] /\ map sending cs' = [[]; []] /\
  map qsize cs' = [0%Z; 1%Z] /\
  map can_send cs' = [true; false] /\
  (* and it stays so: a further drain emits nothing *)
  drain 100 1024 cs' = (cs', [], true).
Proof. vm_compute. repeat split; reflexivity. Qed.

(** the empty message alone is sent (as one packet with EOF and no data) *)
Lemma empty_msg_alone_sent :
  let c1 := new_chan ex_d1 in
  let '(c2, ok2) := try_send (new_chan ex_d2) [] in
  let '(cs', ps, exhausted) := drain 100 1024 [c1; c2] in
  ok2 = true /\ exhausted = true /\ ps = [PktMsg 2 true []] /\
  map qsize cs' = [0%Z; 0%Z] /\ map can_send cs' = [true; true].
Proof. vm_compute. repeat split; reflexivity. Qed.
